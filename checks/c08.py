"""C08 - declared time-reversal and inversion parities match computed values (META).

Every calculator class of calculators.static / dynamic / tabulate / sdct is instantiated (with its formula variants:
internal/external terms, SDCT term switches ...) and evaluated *at a single k-point* and at -k with evaluate_k on
 (1) spinless time-reversal symmetric models, (2) spinful time-reversal symmetric models, (3) inversion symmetric models,
all made symmetric by the harness (vlib/gen_sym.py), not by the repository's symmetriser.  The value at -k must equal
the result's own declared transformation (transformTR resp. transformInv, i.e. the declared parity of the formula the
calculator uses) applied to the value at k.  Scanning the Fermi level makes the sums run over different band groups;
tabulators give the band-resolved values.  The comparison scale is the magnitude of the same calculator on a generic
(unsymmetrised) twin system, never the judged value itself.
"""
import inspect
import os
import sys

sys.path.insert(0, os.path.dirname(os.path.dirname(os.path.abspath(__file__))))
from vlib import env, harness, gen_systems, gen_sym  # noqa: E402
import numpy as np  # noqa: E402

PROP = "C08"
ALLKEYS = ("Ham", "AA", "BB", "CC", "SS", "OO", "GG", "FF", "SA", "SHA", "SR", "SH", "SHR")


def setup(ctx):
    env.import_wb()
    return {}


from vlib.calc_catalogue import calculator_catalogue, result_arrays  # noqa: E402


def case(ctx, rng, idx, state):
    import wannierberri as wb

    model = ["TR_spinless", "TR_spinful", "inversion", "inversion_spinful"][idx % 4]
    nband = int(rng.integers(2, 4))
    if model == "TR_spinless":
        system, info = gen_sym.tr_spinless(rng, nband, ALLKEYS)
    elif model == "TR_spinful":
        system, info = gen_sym.tr_spinful(rng, nband - 1 if nband > 2 else 1, ALLKEYS) if False else gen_sym.tr_spinful(rng, 2 if nband > 2 else 1, ALLKEYS)
    elif model == "inversion":
        system, info = gen_sym.inversion(rng, nband, ALLKEYS)
    else:
        system, info = gen_sym.inversion(rng, 2 * (nband - 1), ALLKEYS, spinful=True)
    nw = system.num_wann
    twin = gen_sym.generic(rng, nw, info["keys"], spinor=bool(system.spinor))
    which = "transformTR" if model.startswith("TR") else "transformInv"
    # sanity of the harness-made symmetry: E(-k) = E(k)
    k = rng.uniform(-0.5, 0.5, 3)
    E1 = gen_systems.bands(system, k)[0]
    E2 = gen_systems.bands(system, -k)[0]
    assert np.abs(E1 - E2).max() < 1e-10, "harness: the model is not symmetric"
    gaps = np.diff(np.unique(np.round(E1, 6)))
    if gaps.size and gaps.min() < 5e-3:
        raise harness.Skip("tie: nearly degenerate bands at the probe point")
    emin, emax = E1.min(), E1.max()
    Ef = np.linspace(emin - 0.3, emax + 0.3, 7) + rng.uniform(0, 0.05)
    if np.abs(E1[:, None] - (Ef[None, :])).min() < 1e-3 or np.abs(((E1[:, None] - Ef[0] + 3 * (Ef[1] - Ef[0])) / (Ef[1] - Ef[0])) % 1.0).min() < 1e-4:
        raise harness.Skip("tie: band energy close to a Fermi-bin edge")
    omega = np.array([0.3, 0.9, 1.7])
    cat = calculator_catalogue(Ef, omega)
    # each case judges a random half of the catalogue (all of it in the thorough tier)
    if not ctx.thorough:
        sel = sorted(rng.choice(len(cat), size=len(cat) // 2, replace=False))
        cat = [cat[i] for i in sel]
    wit0 = dict(info, model=model, k=k, Efermi=Ef)
    for name, make in cat:
        try:
            calc = make()
        except Exception as e:  # a variant that the class does not accept
            ctx.count("variant_not_constructible")
            continue
        try:
            r1 = wb.evaluate_k(system, k=tuple(k), calculators={"c": calc}, return_single_as_dict=True)["c"]
            r2 = wb.evaluate_k(system, k=tuple(-k), calculators={"c": calc}, return_single_as_dict=True)["c"]
            rt = wb.evaluate_k(twin, k=tuple(k), calculators={"c": calc}, return_single_as_dict=True)["c"]
        except (ValueError, NotImplementedError, TypeError) as e:
            # formula needs matrices / options that this kind of system or variant does not have (spin matrices for a
            # spinless model, `external_terms` for a formula without that switch); anything else is a real failure
            msg = str(e)
            if ("are not set in the system" in msg) or isinstance(e, NotImplementedError) or ("unexpected keyword" in msg):
                ctx.count("calculator_not_applicable_to_model")
                continue
            raise
        arrs1, arrs2, arrst = result_arrays(r1), result_arrays(r2), result_arrays(rt)
        if not arrs1:
            ctx.count("result_without_declared_transform")
            continue
        for (lab, d1, tTR, tInv), (_, d2, _, _), (_, dt, _, _) in zip(arrs1, arrs2, arrst):
            T = tTR if which == "transformTR" else tInv
            if T is None:
                ctx.count("transform_not_declared")
                continue
            if d1.ndim == 0:
                d1, d2, dt = d1[None], d2[None], dt[None]
            expected = T(np.array(d1, copy=True))
            scale = max(float(np.abs(dt).max()), float(np.abs(d1).max()))
            if scale == 0.0:
                ctx.count("identically_zero_everywhere")
                continue
            ctx.close(f"declared_{which}_violated:{name.split('[')[0]}", d2, expected, rtol=1e-7, scale=scale,
                      what=f"{name}{lab} on {model}", witness=dict(wit0, calculator=name, transform=str(T)))
            ctx.count(f"judged[{model}]")
            ctx.nontrivial((model, name, lab))
    ctx.sample(dict(model=model, num_wann=nw, k=k, calculators_judged=[n for n, _ in cat][:8]))


if __name__ == "__main__":
    harness.main(
        PROP, "exploration", case, setup_fn=setup,
        tiers=dict(quick=dict(cases=32, shards=8, time=900), thorough=dict(cases=640, shards=16, time=3000)),
        rule="all concrete calculator classes (static incl. internal-terms variants, dynamic incl. the three SHC types, tabulators, SDCT terms and "
             "multi-term calculators) evaluated at random k and -k on spinless-TR, spinful-TR, inversion and spinful-inversion symmetric random models with "
             "all 13 real-space matrices; distinct = (model kind, calculator variant, result component)",
        assumptions=["models are made symmetric by the harness with the parity table of vlib/gen_sym.py (sanity: E(-k)=E(k) asserted)",
                     "the result's own transformTR/transformInv is the declaration under test; scale from a generic twin system"],
        required_counters=("judged[TR_spinless]", "judged[TR_spinful]", "judged[inversion]", "judged[inversion_spinful]"),
    )
