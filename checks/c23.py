"""C23 - Monkhorst-Pack mesh detection and point selection (REF).

Real code: wannierberri/w90files/utility.py  get_mp_grid(kpoints), grid_from_kpoints(kpoints, grid=None).
Documented domain (read off the code): Gamma-centred meshes, denominators <= 100
(Fraction.limit_denominator(100)), coordinates as printed by Wannier90 (8 digits);  get_mp_grid reduces the
coordinates mod 1 itself, grid_from_kpoints does not (its duplicate test works on round(k*grid)), so the
latter always gets coordinates reduced to [0,1).

The harness builds every k list from INTEGER mesh coordinates i/N, so the expected answers are known exactly:
  A complete mesh, shuffled (exact floats | 8-digit rounded | shifted by lattice vectors and reduced to [0,1) |
    for get_mp_grid also un-reduced shifted): get_mp_grid -> N, grid_from_kpoints(k) -> N,
    grid_from_kpoints(k, grid=N) -> every mesh point exactly once.  An exception here is a violation.
  B with duplicated points (bitwise copies and copies in another representation: exact <-> 8-digit rounded):
    same answers; the selection must keep exactly one index per mesh point.
  C with points removed (all copies of >= 1 mesh point): grid_from_kpoints(k, grid=N) must raise the documented
    ValueError; grid_from_kpoints(k) must raise ValueError unless the remaining points are the complete mesh
    of the per-direction lcm of their (exact) denominators, which it must then return; get_mp_grid (documented:
    "check that all the kpoints are on the grid") may raise AssertionError, but if it returns, the answer must be
    that lcm mesh.  A silent other answer is the violation.
  D selection from a superset: points of a finer mesh N*f plus off-grid points, grid=N: exactly the coarse
    points, once each, and only indices of points that really are on the coarse mesh.
"""
import os
import sys
import warnings
from fractions import Fraction
from math import lcm

sys.path.insert(0, os.path.dirname(os.path.dirname(os.path.abspath(__file__))))
from vlib import env, harness  # noqa: E402
import numpy as np  # noqa: E402

PROP = "C23"
MAXDEN = 100   # Fraction(k).limit_denominator(100) in both functions


def setup(ctx):
    env.import_wb()
    return {}


def gen_mesh(rng, maxpts):
    """mesh with 1-3 non-trivial directions, one of them possibly up to MAXDEN, at most maxpts points"""
    ndir = int(rng.choice([1, 2, 3], p=[0.25, 0.35, 0.4]))
    dirs = rng.permutation(3)[:ndir]
    N = [1, 1, 1]
    budget = maxpts
    for j, d in enumerate(dirs):
        hi = int(min(MAXDEN, budget // (2 ** (ndir - j - 1))))
        hi = max(hi, 2)
        r = rng.random()
        if j == 0 and r < 0.15:
            n = int(rng.choice([MAXDEN, MAXDEN - 1, 97, 96, 64, 11, 12]))   # the limit and awkward sizes
            n = min(n, hi)
        elif r < 0.6:
            n = int(rng.integers(2, min(hi, 12) + 1))
        else:
            n = int(rng.integers(2, hi + 1))
        N[d] = n
        budget = max(2, budget // n)
    return tuple(N)


def represent(rng, kint, N, how):
    """floats for integer mesh coordinates kint (n,3) on mesh N"""
    Na = np.array(N)
    k = kint / Na[None, :]
    if how == "exact":
        return k
    if how == "round8":
        return np.round(k, 8)
    if how == "shift_reduced":       # shifted by lattice vectors, then brought back to [0,1) as a user would
        sh = rng.integers(-3, 4, size=kint.shape)
        k = np.round((k + sh) % 1, 8)
        k[k >= 1.0] = 0.0
        return k
    if how == "shift_raw":           # only for get_mp_grid, which reduces mod 1 itself
        sh = rng.integers(-3, 4, size=kint.shape)
        return np.round(k + sh, 8)
    raise ValueError(how)


def call(fn, *a, **kw):
    """run a library function; returns ('ok', value) or ('raised', exception)"""
    with warnings.catch_warnings():
        warnings.simplefilter("ignore")
        try:
            return "ok", fn(*a, **kw)
        except (AssertionError, ValueError, RuntimeError, ZeroDivisionError, IndexError, TypeError) as e:
            return "raised", e


def as_tuple(x):
    try:
        t = tuple(int(v) for v in x)
        if len(t) == 3 and all(float(v) == int(v) for v in x):
            return t
    except Exception:
        pass
    return None


def check_detect(ctx, name, res, expected, wit):
    """res = call(...) of a detection function on a COMPLETE mesh: must return `expected`"""
    ctx.ev()
    st, val = res
    if st == "raised":
        ctx.violation(f"{name}:raised_on_complete_mesh", f"{type(val).__name__}: {str(val)[:300]}", wit)
        return False
    if as_tuple(val) != tuple(expected):
        ctx.violation(f"{name}:wrong_mesh", f"returned {val}, mesh is {tuple(expected)}", wit)
        return False
    return True


def check_selection(ctx, name, res, kint_of_index, on_grid_coarse, Ncoarse, wit):
    """res = call(grid_from_kpoints, k, grid=Ncoarse) on a list that contains every coarse point.
    kint_of_index[i] = exact coarse integer coordinate of list entry i (tuple) or None when entry i is off the coarse grid"""
    ctx.ev()
    st, val = res
    if st == "raised":
        ctx.violation(f"{name}:raised_on_complete_mesh", f"{type(val).__name__}: {str(val)[:300]}", wit)
        return False
    try:
        sel = [int(i) for i in val]
    except Exception:
        ctx.violation(f"{name}:malformed_selection", f"returned {repr(val)[:200]}", wit)
        return False
    nlist = len(kint_of_index)
    if any(i < 0 or i >= nlist for i in sel):
        ctx.violation(f"{name}:malformed_selection", f"index out of range in {sel[:20]}", wit)
        return False
    off = [i for i in sel if kint_of_index[i] is None]
    if off:
        ctx.violation(f"{name}:selected_point_not_on_mesh", f"indices {off[:10]} are not on mesh {Ncoarse}", wit)
        return False
    got = [kint_of_index[i] for i in sel]
    if len(set(got)) != len(got):
        ctx.violation(f"{name}:mesh_point_selected_twice", f"{len(got)} selected, {len(set(got))} distinct", wit)
        return False
    if set(got) != on_grid_coarse:
        ctx.violation(f"{name}:mesh_point_not_selected", f"{len(on_grid_coarse - set(got))} mesh points missing "
                                                         f"from the selection", wit)
        return False
    return True


def case(ctx, rng, idx, state):
    from wannierberri.w90files.utility import get_mp_grid, grid_from_kpoints

    maxpts = 6000 if ctx.thorough else 4000
    N = gen_mesh(rng, maxpts)
    Na = np.array(N)
    ndir = int(np.count_nonzero(Na > 1))
    allint = np.array([(i, j, k) for i in range(N[0]) for j in range(N[1]) for k in range(N[2])], dtype=int)
    nmesh = len(allint)
    meshset = {tuple(x) for x in allint.tolist()}
    variant = ["complete", "duplicates", "removed", "superset"][int(rng.choice(4, p=[0.3, 0.25, 0.25, 0.2]))]
    how = ["exact", "round8", "shift_reduced"][int(rng.integers(3))]
    wit = dict(mesh=N, variant=variant, representation=how, npoints=nmesh)

    if variant in ("complete", "duplicates"):
        kint = allint.copy()
        if variant == "duplicates":
            ndup = int(rng.integers(1, max(2, min(nmesh, 12)) + 1))
            kint = np.vstack([kint, allint[rng.integers(nmesh, size=ndup)]])
        kint = kint[rng.permutation(len(kint))]
        k = represent(rng, kint, N, how)
        if variant == "duplicates":
            # the copies of a point appear in different representations (exact vs 8-digit vs full precision)
            alt = represent(rng, kint, N, "exact" if how != "exact" else "round8")
            use_alt = rng.random(len(kint)) < 0.5
            k = np.where(use_alt[:, None], alt, k)
        wit["nlist"] = len(k)
        ok = check_detect(ctx, "get_mp_grid", call(get_mp_grid, k.copy()), N, wit)
        ok &= check_detect(ctx, "get_mp_grid", call(get_mp_grid, represent(rng, kint, N, "shift_raw")), N,
                           dict(wit, representation="shift_raw"))
        ok &= check_detect(ctx, "grid_from_kpoints(detect)", call(grid_from_kpoints, k.copy()), N, wit)
        koi = [tuple(x) for x in kint.tolist()]
        ok &= check_selection(ctx, "grid_from_kpoints(select)", call(grid_from_kpoints, k.copy(), grid=N), koi,
                              meshset, N, wit)
        ctx.count("complete_mesh_cases" if variant == "complete" else "duplicate_cases")

    elif variant == "removed":
        if nmesh < 2:
            raise harness.Skip("single-point mesh cannot lose a point")
        nrem = int(rng.integers(1, min(nmesh - 1, 6) + 1)) if rng.random() < 0.7 else 1
        rem = set(int(i) for i in rng.choice(nmesh, nrem, replace=False))
        keep = np.array([i for i in range(nmesh) if i not in rem], dtype=int)
        kint = allint[keep]
        if rng.random() < 0.5:   # duplicates among the remaining points must not hide the hole
            kint = np.vstack([kint, kint[rng.integers(len(kint), size=int(rng.integers(1, nrem + 2)))]])
        kint = kint[rng.permutation(len(kint))]
        k = represent(rng, kint, N, how)
        wit.update(removed=allint[sorted(rem)], nlist=len(k))
        # exact smallest mesh that contains the remaining points
        D = tuple(lcm(*[Fraction(int(v), N[d]).denominator for v in kint[:, d]]) for d in range(3))
        remaining = {tuple(x) for x in kint.tolist()}
        complete_on_D = len(remaining) == int(np.prod(D))
        wit.update(lcm_mesh=D, remaining_is_complete_lcm_mesh=complete_on_D)
        # (1) selection on the stated mesh must reject
        ctx.ev()
        st, val = call(grid_from_kpoints, k.copy(), grid=N)
        if st == "ok":
            ctx.violation("grid_from_kpoints(select):incomplete_mesh_accepted",
                          f"{nrem} of {nmesh} mesh points missing, returned a selection of {len(val)}", wit)
        elif not isinstance(val, ValueError):
            ctx.violation("grid_from_kpoints(select):undocumented_exception_on_incomplete_mesh",
                          f"{type(val).__name__}: {str(val)[:200]}", wit)
        else:
            ctx.count("incomplete_rejected_ValueError")
        # (2) detection
        ctx.ev()
        st, val = call(grid_from_kpoints, k.copy())
        if complete_on_D:
            if st == "raised" or as_tuple(val) != D:
                ctx.violation("grid_from_kpoints(detect):wrong_mesh", f"remaining points are the complete mesh {D}, "
                                                                     f"got {st} {str(val)[:200]}", wit)
        elif st == "ok":
            ctx.violation("grid_from_kpoints(detect):incomplete_mesh_accepted",
                          f"returned {val} for {len(remaining)} distinct points (lcm mesh {D})", wit)
        elif not isinstance(val, ValueError):
            ctx.violation("grid_from_kpoints(detect):undocumented_exception_on_incomplete_mesh",
                          f"{type(val).__name__}: {str(val)[:200]}", wit)
        # (3) get_mp_grid: AssertionError or the lcm mesh
        ctx.ev()
        st, val = call(get_mp_grid, k.copy())
        if st == "ok":
            if as_tuple(val) != D:
                ctx.violation("get_mp_grid:wrong_mesh", f"returned {val}; smallest mesh containing the points is {D}", wit)
            ctx.count("get_mp_grid_returned_on_incomplete")
        elif not isinstance(val, AssertionError):
            ctx.violation("get_mp_grid:undocumented_exception", f"{type(val).__name__}: {str(val)[:200]}", wit)
        elif complete_on_D:
            ctx.violation("get_mp_grid:raised_on_complete_mesh", f"remaining points are the complete mesh {D}: "
                                                                 f"{str(val)[:200]}", wit)
        else:
            ctx.count("get_mp_grid_asserted_on_incomplete")
        ctx.count("removed_cases")

    else:  # superset: finer mesh + off-grid points, select the coarse mesh
        f = [int(rng.integers(1, 4)) if N[d] > 1 or rng.random() < 0.3 else 1 for d in range(3)]
        while (np.prod(Na * f) > 4 * maxpts or max(Na * f) > MAXDEN) and f != [1, 1, 1]:
            cand = [d for d in range(3) if f[d] > 1]
            f[max(cand, key=lambda d: N[d] * f[d])] = 1
        fa = np.array(f)
        M = tuple(int(x) for x in Na * fa)
        fine = np.array([(i, j, k) for i in range(M[0]) for j in range(M[1]) for k in range(M[2])], dtype=int)
        ndup = int(rng.integers(0, 6))
        if ndup:
            fine = np.vstack([fine, fine[rng.integers(len(fine), size=ndup)]])
        kfine = represent(rng, fine, M, how)
        noff = int(rng.integers(0, 8))
        koff = []
        while len(koff) < noff:
            p = rng.uniform(0, 1, 3)
            x = p * Na
            if np.linalg.norm(x - np.round(x)) > 1e-2:     # clearly off the coarse mesh (library threshold 1e-5)
                koff.append(np.round(p, 8))
        k = np.vstack([kfine] + ([np.array(koff)] if koff else []))
        koi = [tuple((v // fa).tolist()) if np.all(v % fa == 0) else None for v in fine] + [None] * len(koff)
        perm = rng.permutation(len(k))
        k = k[perm]
        koi = [koi[i] for i in perm]
        wit.update(fine_mesh=M, nlist=len(k), off_grid_points=noff, duplicates=ndup)
        check_selection(ctx, "grid_from_kpoints(select)", call(grid_from_kpoints, k.copy(), grid=N), koi, meshset, N, wit)
        ctx.count("superset_cases")

    if max(N) > 10:
        ctx.count("denominator_gt_10")
    if max(N) >= 97:
        ctx.count("denominator_ge_97")
    ctx.count(f"nontrivial_directions_{ndir}")
    if ndir >= 1:
        ctx.nontrivial((N, variant, how))
    ctx.sample(dict(mesh=N, variant=variant, representation=how, nlist=wit.get("nlist")))


if __name__ == "__main__":
    harness.main(
        PROP, "exploration", case, setup_fn=setup,
        tiers=dict(quick=dict(cases=3200, shards=8, time=900), thorough=dict(cases=12000, shards=16, time=3000)),
        rule="Gamma-centred meshes with 1-3 non-trivial directions, sizes 2..100 (incl. 96, 97, 99, 100; <= 4000 points "
             "quick / 6000 thorough), shuffled, as exact floats / 8-digit rounded / shifted by lattice vectors and reduced "
             "to [0,1) (un-reduced shifted lists only for get_mp_grid); variants: complete, with duplicates in mixed "
             "representations, with 1-6 mesh points removed (all copies), superset = finer mesh + off-grid points; "
             "a case is non-trivial when the mesh has >= 1 direction of size > 1; distinct by (mesh, variant, representation)",
        assumptions=["expected answers come from the integer mesh coordinates the harness generated (exact Fractions)",
                     "for get_mp_grid on an incomplete mesh an AssertionError is the documented rejection; a returned "
                     "mesh must be the per-direction lcm of the exact denominators of the given points",
                     "inputs stay in the documented domain: Gamma-centred, denominators <= 100, [0,1) for grid_from_kpoints"],
        required_counters=("complete_mesh_cases", "duplicate_cases", "removed_cases", "superset_cases",
                           "incomplete_rejected_ValueError", "denominator_gt_10", "denominator_ge_97",
                           "nontrivial_directions_1", "nontrivial_directions_2", "nontrivial_directions_3"),
        min_nontrivial=50,
    )
