"""C23 - Monkhorst-Pack mesh detection and point selection (REF).

Real code: wannierberri/w90files/utility.py  get_mp_grid(kpoints), grid_from_kpoints(kpoints, grid=None).
Documented domain (read off the code): Gamma-centred meshes, denominators <= 100
(Fraction.limit_denominator(100)), coordinates as printed by Wannier90 (8 digits);  get_mp_grid reduces the
coordinates mod 1 itself, grid_from_kpoints does not (its duplicate test works on round(k*grid)), so the
latter always gets coordinates reduced to [0,1).

The harness builds every k list from INTEGER mesh coordinates i/N, so the expected answers are known exactly:
  A complete mesh, shuffled (exact floats | 8-digit rounded | shifted by lattice vectors and reduced to [0,1) |
    for get_mp_grid also un-reduced shifted): get_mp_grid -> N, grid_from_kpoints(k) -> N,
    grid_from_kpoints(k, grid=N) -> every mesh point exactly once.  An exception here is a violation.
  B with duplicated points (bitwise copies and copies in another representation: exact <-> 8-digit rounded):
    same answers; the selection must keep exactly one index per mesh point.
  C with points removed (all copies of >= 1 mesh point): grid_from_kpoints(k, grid=N) must raise the documented
    ValueError; grid_from_kpoints(k) must raise ValueError unless the remaining points are the complete mesh
    of the per-direction lcm of their (exact) denominators, which it must then return; get_mp_grid (documented:
    "check that all the kpoints are on the grid") may raise AssertionError, but if it returns, the answer must be
    that lcm mesh.  A silent other answer is the violation.
  D selection from a superset: points of a finer mesh N*f plus off-grid points, grid=N: exactly the coarse
    points, once each, and only indices of points that really are on the coarse mesh.

Widening review (second round) - classes drawn inside `case`:
  * the single-point mesh (1,1,1) (one-line k list), the whole list repeated 2-3 times;
  * grid_from_kpoints with (nk, ndim) arrays, ndim = 1, 2 (documented shape), trivial directions dropped;
  * forms of the arguments: C / Fortran ordered arrays, non-contiguous column views of a wider array, for
    get_mp_grid (which converts with np.array) also lists of lists / tuples; `grid` as tuple, list, int64 / int32
    array, tuple of numpy integers, and the very object returned by the detection; the arguments must come back
    bitwise unchanged (`input_modified`);
  * more representations: 12-digit rounded, i*(1/N), (k+shift)%1 without rounding;
  * removed: whole planes of the mesh (incl. all planes that are not multiples of a step, which leaves a complete
    coarser mesh that detection must return); superset with coarse points removed (must raise ValueError although
    finer-mesh and off-grid points are around and the list is longer than the mesh);
  * histories: one k array re-used for a second request with another (divisor) mesh and then again with the first
    mesh; selection applied to the result of a selection (k[sel] is the complete mesh, selection = everything).
"""
import os
import sys
import warnings
from fractions import Fraction
from math import lcm

sys.path.insert(0, os.path.dirname(os.path.dirname(os.path.abspath(__file__))))
from vlib import env, harness  # noqa: E402
import numpy as np  # noqa: E402

PROP = "C23"
MAXDEN = 100   # Fraction(k).limit_denominator(100) in both functions


def setup(ctx):
    env.import_wb()
    return {}


def gen_mesh(rng, maxpts):
    """mesh with 1-3 non-trivial directions, one of them possibly up to MAXDEN, at most maxpts points"""
    if rng.random() < 0.02:
        return (1, 1, 1)             # the one-point mesh
    ndir = int(rng.choice([1, 2, 3], p=[0.25, 0.35, 0.4]))
    dirs = rng.permutation(3)[:ndir]
    N = [1, 1, 1]
    budget = maxpts
    for j, d in enumerate(dirs):
        hi = int(min(MAXDEN, budget // (2 ** (ndir - j - 1))))
        hi = max(hi, 2)
        r = rng.random()
        if j == 0 and r < 0.15:
            n = int(rng.choice([MAXDEN, MAXDEN - 1, 97, 96, 64, 11, 12]))   # the limit and awkward sizes
            n = min(n, hi)
        elif r < 0.6:
            n = int(rng.integers(2, min(hi, 12) + 1))
        else:
            n = int(rng.integers(2, hi + 1))
        N[d] = n
        budget = max(2, budget // n)
    return tuple(N)


def represent(rng, kint, N, how):
    """floats for integer mesh coordinates kint (n,3) on mesh N"""
    Na = np.array(N)
    k = kint / Na[None, :]
    if how == "exact":
        return k
    if how == "round8":
        return np.round(k, 8)
    if how == "shift_reduced":       # shifted by lattice vectors, then brought back to [0,1) as a user would
        sh = rng.integers(-3, 4, size=kint.shape)
        k = np.round((k + sh) % 1, 8)
        k[k >= 1.0] = 0.0
        return k
    if how == "round12":
        return np.round(k, 12)
    if how == "recip":               # i * (1/N) instead of i / N (differs in the last bit)
        return kint * (1.0 / Na)[None, :]
    if how == "shift_unrounded":     # (k + lattice vector) % 1 at full precision
        sh = rng.integers(-3, 4, size=kint.shape)
        k = (k + sh) % 1
        k[k >= 1.0] = 0.0
        return k
    if how == "shift_raw":           # only for get_mp_grid, which reduces mod 1 itself
        sh = rng.integers(-3, 4, size=kint.shape)
        return np.round(k + sh, 8)
    raise ValueError(how)


def call(fn, *a, **kw):
    """run a library function; returns ('ok', value) or ('raised', exception)"""
    with warnings.catch_warnings():
        warnings.simplefilter("ignore")
        try:
            return "ok", fn(*a, **kw)
        except (AssertionError, ValueError, RuntimeError, ZeroDivisionError, IndexError, TypeError, AttributeError,
                KeyError, OverflowError) as e:
            return "raised", e


K_FORMS_ARRAY = ("c", "fortran", "view")
K_FORMS_ANY = ("c", "fortran", "view", "list", "tuples")
PAD = 0.37


def k_form(rng, k, forms):
    """the k list `k` (nk, ndim) in one of the forms a caller may hold it in; returns (form, object, base)"""
    form = forms[int(rng.integers(len(forms)))]
    base = None
    if form == "c":
        obj = np.ascontiguousarray(k.copy())
    elif form == "fortran":
        obj = np.asfortranarray(k.copy())
    elif form == "view":             # columns of a wider table (e.g. k-points followed by weights)
        base = np.full((k.shape[0], k.shape[1] + 2), PAD)
        base[:, 1:1 + k.shape[1]] = k
        obj = base[:, 1:1 + k.shape[1]]
    elif form == "list":
        obj = k.tolist()
    elif form == "tuples":
        obj = [tuple(r) for r in k.tolist()]
    else:
        raise ValueError(form)
    return form, obj, base


def k_unchanged(obj, base, k):
    try:
        a = np.array(obj, dtype=float)
    except Exception:
        return False
    if a.shape != k.shape or np.ascontiguousarray(a).tobytes() != np.ascontiguousarray(k).tobytes():
        return False
    if base is not None and not (np.all(base[:, 0] == PAD) and np.all(base[:, -1] == PAD)):
        return False
    return True


G_FORMS = ("tuple", "list", "array", "array32", "npints")


def g_form(rng, G):
    form = G_FORMS[int(rng.integers(len(G_FORMS)))]
    G = tuple(int(x) for x in G)
    if form == "tuple":
        return form, G
    if form == "list":
        return form, list(G)
    if form == "array":
        return form, np.array(G, dtype=np.int64)
    if form == "array32":
        return form, np.array(G, dtype=np.int32)
    return form, tuple(np.int64(x) for x in G)


def g_unchanged(obj, G):
    try:
        return len(obj) == len(G) and all(int(a) == int(b) and float(a) == float(b) for a, b in zip(obj, G))
    except Exception:
        return False


def run(ctx, rng, name, fn, k, wit, forms, grid=None, gobj=None, kobj=None):
    """call fn on the k list k (in a drawn form, or on the given object kobj = (form, obj, base)) [and the mesh `grid`,
    in a drawn form or as the given object gobj]; the arguments must come back unchanged.  Returns (res, kobj)"""
    if kobj is None:
        kobj = k_form(rng, k, forms)
    form, obj, base = kobj
    ctx.count("kpoints_form_" + form)
    if grid is None:
        res = call(fn, obj)
    else:
        if gobj is None:
            gf, gobj = g_form(rng, grid)
            ctx.count("grid_form_" + gf)
        res = call(fn, obj, grid=gobj)
    ctx.ev()
    if not k_unchanged(obj, base, k):
        ctx.violation(f"{name}:input_modified", f"the k-point list (form {form}) was changed by the call", wit)
    if grid is not None and not g_unchanged(gobj, grid):
        ctx.violation(f"{name}:input_modified", f"the grid argument {grid} came back as {gobj}", wit)
    return res, kobj


def divisors(n):
    return [d for d in range(1, n + 1) if n % d == 0]


def as_tuple(x, n=3):
    try:
        t = tuple(int(v) for v in x)
        if len(t) == n and all(float(v) == int(v) for v in x):
            return t
    except Exception:
        pass
    return None


def check_detect(ctx, name, res, expected, wit):
    """res = call(...) of a detection function on a COMPLETE mesh: must return `expected`"""
    ctx.ev()
    st, val = res
    if st == "raised":
        ctx.violation(f"{name}:raised_on_complete_mesh", f"{type(val).__name__}: {str(val)[:300]}", wit)
        return False
    if as_tuple(val, len(expected)) != tuple(expected):
        ctx.violation(f"{name}:wrong_mesh", f"returned {val}, mesh is {tuple(expected)}", wit)
        return False
    return True


def check_selection(ctx, name, res, kint_of_index, on_grid_coarse, Ncoarse, wit):
    """res = call(grid_from_kpoints, k, grid=Ncoarse) on a list that contains every coarse point.
    kint_of_index[i] = exact coarse integer coordinate of list entry i (tuple) or None when entry i is off the coarse grid"""
    ctx.ev()
    st, val = res
    if st == "raised":
        ctx.violation(f"{name}:raised_on_complete_mesh", f"{type(val).__name__}: {str(val)[:300]}", wit)
        return False
    try:
        sel = [int(i) for i in val]
    except Exception:
        ctx.violation(f"{name}:malformed_selection", f"returned {repr(val)[:200]}", wit)
        return False
    nlist = len(kint_of_index)
    if any(i < 0 or i >= nlist for i in sel):
        ctx.violation(f"{name}:malformed_selection", f"index out of range in {sel[:20]}", wit)
        return False
    off = [i for i in sel if kint_of_index[i] is None]
    if off:
        ctx.violation(f"{name}:selected_point_not_on_mesh", f"indices {off[:10]} are not on mesh {Ncoarse}", wit)
        return False
    got = [kint_of_index[i] for i in sel]
    if len(set(got)) != len(got):
        ctx.violation(f"{name}:mesh_point_selected_twice", f"{len(got)} selected, {len(set(got))} distinct", wit)
        return False
    if set(got) != on_grid_coarse:
        ctx.violation(f"{name}:mesh_point_not_selected", f"{len(on_grid_coarse - set(got))} mesh points missing "
                                                         f"from the selection", wit)
        return False
    return True


HOWS = ("exact", "round8", "shift_reduced", "round12", "recip", "shift_unrounded")


def ordering(ctx, rng, kint):
    """mostly a random order; sometimes the orders files are written in (sorted with the last / first index fastest,
    reversed)"""
    r = rng.random()
    if r < 0.8 or len(kint) < 2:
        return rng.permutation(len(kint))
    ctx.count("sorted_order_cases")
    if r < 0.87:
        o = np.lexsort((kint[:, 2], kint[:, 1], kint[:, 0]))      # Wannier90 order, copies adjacent
    elif r < 0.94:
        o = np.lexsort((kint[:, 0], kint[:, 1], kint[:, 2]))      # first index fastest
    else:
        o = np.lexsort((kint[:, 2], kint[:, 1], kint[:, 0]))[::-1]
    return o


def second_request(ctx, rng, fn, kk, kobj, kint, N, Ng, cols, koi, meshset, res1, wit):
    """the SAME k array object asked for another (divisor) mesh and then for the first mesh again"""
    Na = np.array(N)
    N2 = [int(rng.choice(divisors(n))) for n in N]
    if tuple(N2) == tuple(N):
        d = int(rng.choice([d for d in range(3) if N[d] > 1]))
        N2[d] = int(rng.choice([x for x in divisors(N[d]) if x < N[d]]))
    N2 = tuple(N2)
    step = Na // np.array(N2)
    koi2 = [tuple((v // step).tolist()) if np.all(v % step == 0) else None for v in kint]
    mesh2 = {(a, b, c) for a in range(N2[0]) for b in range(N2[1]) for c in range(N2[2])}
    first = [int(x) for x in res1[1]]
    w = dict(wit, history="same array: first mesh, second mesh, first mesh again", second_mesh=N2)
    res2, _ = run(ctx, rng, "grid_from_kpoints(select,second_mesh)", fn, kk, w, K_FORMS_ARRAY,
                  grid=tuple(N2[c] for c in cols), kobj=kobj)
    check_selection(ctx, "grid_from_kpoints(select,second_mesh)", res2, koi2, mesh2, N2, w)
    res3, _ = run(ctx, rng, "grid_from_kpoints(select,first_mesh_again)", fn, kk, w, K_FORMS_ARRAY, grid=Ng, kobj=kobj)
    check_selection(ctx, "grid_from_kpoints(select,first_mesh_again)", res3, koi, meshset, N, w)
    # a mesh the list is not complete for (one direction N+1 or 2N): must be rejected
    N3 = list(N)
    d = int(rng.integers(3))
    N3[d] = 2 * N[d] if (rng.random() < 0.5 and 2 * N[d] <= MAXDEN) else N[d] + 1
    N3 = tuple(N3)
    if d in cols and N3[d] <= MAXDEN:
        w3 = dict(w, other_mesh=N3)
        res4, _ = run(ctx, rng, "grid_from_kpoints(select,other_mesh)", fn, kk, w3, K_FORMS_ARRAY,
                      grid=tuple(N3[c] for c in cols), kobj=kobj)
        st, val = res4
        if st == "ok":
            ctx.violation("grid_from_kpoints(select,other_mesh):incomplete_mesh_accepted",
                          f"the points of mesh {N} were accepted as mesh {N3}, selection of {len(val)}", w3)
        elif not isinstance(val, ValueError):
            ctx.violation("grid_from_kpoints(select,other_mesh):undocumented_exception_on_incomplete_mesh",
                          f"{type(val).__name__}: {str(val)[:200]}", w3)
        else:
            ctx.count("other_mesh_rejected_ValueError")
    ctx.ev()
    try:
        still = [int(x) for x in res1[1]] == first
    except Exception:
        still = False
    if not still:
        ctx.violation("grid_from_kpoints(select):earlier_result_changed", "the selection returned by the first call "
                                                                         "was changed by later calls", w)
    ctx.count("second_request_cases")


def chain(ctx, rng, fns, k, kk, sel, koi, meshset, N, Ng, wit):
    """k[selection] is the complete mesh without copies: detection gives the mesh, selection takes everything once"""
    get_mp_grid, grid_from_kpoints = fns
    sel = [int(x) for x in sel]
    k2, kk2, koi2 = k[sel], kk[sel], [koi[x] for x in sel]
    w = dict(wit, history="functions applied to k[selection]", nlist=len(sel))
    res, _ = run(ctx, rng, "get_mp_grid(of selection)", get_mp_grid, k2, w, K_FORMS_ANY)
    check_detect(ctx, "get_mp_grid(of selection)", res, N, w)
    res, _ = run(ctx, rng, "grid_from_kpoints(detect of selection)", grid_from_kpoints, kk2, w, K_FORMS_ARRAY)
    check_detect(ctx, "grid_from_kpoints(detect of selection)", res, Ng, w)
    res, _ = run(ctx, rng, "grid_from_kpoints(select of selection)", grid_from_kpoints, kk2, w, K_FORMS_ARRAY, grid=Ng)
    check_selection(ctx, "grid_from_kpoints(select of selection)", res, koi2, meshset, N, w)
    ctx.count("chained_cases")


def case(ctx, rng, idx, state):
    from wannierberri.w90files.utility import get_mp_grid, grid_from_kpoints

    maxpts = 6000 if ctx.thorough else 4000
    N = gen_mesh(rng, maxpts)
    Na = np.array(N)
    ndir = int(np.count_nonzero(Na > 1))
    allint = np.array([(i, j, k) for i in range(N[0]) for j in range(N[1]) for k in range(N[2])], dtype=int)
    nmesh = len(allint)
    meshset = {tuple(x) for x in allint.tolist()}
    variant = ["complete", "duplicates", "removed", "superset"][int(rng.choice(4, p=[0.3, 0.25, 0.25, 0.2]))]
    if nmesh == 1 and variant == "removed":
        variant = "complete"         # the one-point mesh cannot lose a point
    how = HOWS[int(rng.integers(len(HOWS)))]
    # grid_from_kpoints is documented for (nk, ndim) arrays: trivial directions may be absent from its input
    cols = [0, 1, 2]
    trivial = [d for d in range(3) if N[d] == 1]
    if trivial and rng.random() < 0.35:
        drop = [d for d in trivial if rng.random() < 0.7]
        if len(drop) == 3:
            drop = [int(d) for d in rng.permutation(3)[:2]]
        cols = [d for d in range(3) if d not in drop]
    nd = len(cols)
    Ng = tuple(N[c] for c in cols)
    wit = dict(mesh=N, variant=variant, representation=how, npoints=nmesh, columns_for_grid_from_kpoints=cols)
    fns = (get_mp_grid, grid_from_kpoints)

    if variant in ("complete", "duplicates"):
        kint = allint.copy()
        if variant == "duplicates":
            if rng.random() < 0.25 and 3 * nmesh <= maxpts:      # the whole list 2 or 3 times
                kint = np.vstack([allint] * int(rng.integers(2, 4)))
                ctx.count("list_repeated_cases")
            else:
                ndup = int(rng.integers(1, max(2, min(nmesh, 12)) + 1))
                kint = np.vstack([kint, allint[rng.integers(nmesh, size=ndup)]])
        kint = kint[ordering(ctx, rng, kint)]
        k = represent(rng, kint, N, how)
        if variant == "duplicates":
            # the copies of a point appear in different representations (exact vs 8-digit vs full precision)
            alt = represent(rng, kint, N, "exact" if how != "exact" else "round8")
            use_alt = rng.random(len(kint)) < 0.5
            k = np.where(use_alt[:, None], alt, k)
        kk = k[:, cols]
        wit["nlist"] = len(k)
        res, _ = run(ctx, rng, "get_mp_grid", get_mp_grid, k, wit, K_FORMS_ANY)
        check_detect(ctx, "get_mp_grid", res, N, wit)
        wraw = dict(wit, representation="shift_raw")
        res, _ = run(ctx, rng, "get_mp_grid", get_mp_grid, represent(rng, kint, N, "shift_raw"), wraw, K_FORMS_ANY)
        check_detect(ctx, "get_mp_grid", res, N, wraw)
        res, _ = run(ctx, rng, "grid_from_kpoints(detect)", grid_from_kpoints, kk, wit, K_FORMS_ARRAY)
        okd = check_detect(ctx, "grid_from_kpoints(detect)", res, Ng, wit)
        gobj = None
        if okd and rng.random() < 0.3:       # the object returned by the detection is the grid argument of the selection
            gobj = res[1]
            ctx.count("grid_argument_from_detection")
        koi = [tuple(x) for x in kint.tolist()]
        res1, kobj = run(ctx, rng, "grid_from_kpoints(select)", grid_from_kpoints, kk, wit, K_FORMS_ARRAY, grid=Ng, gobj=gobj)
        oks = check_selection(ctx, "grid_from_kpoints(select)", res1, koi, meshset, N, wit)
        if oks and nmesh > 1 and rng.random() < 0.5:
            second_request(ctx, rng, grid_from_kpoints, kk, kobj, kint, N, Ng, cols, koi, meshset, res1, wit)
        if oks and rng.random() < 0.4:
            chain(ctx, rng, fns, k, kk, res1[1], koi, meshset, N, Ng, wit)
        ctx.count("complete_mesh_cases" if variant == "complete" else "duplicate_cases")

    elif variant == "removed":
        if rng.random() < 0.35:      # whole planes of the mesh
            d = int(rng.choice([d for d in range(3) if N[d] > 1]))
            n = N[d]
            if rng.random() < 0.5:   # all planes that are not multiples of a step: a complete coarser mesh remains
                step = int(rng.choice([x for x in divisors(n) if x > 1]))
                remove_js = [j for j in range(n) if j % step]
            else:
                remove_js = rng.choice(n, int(rng.integers(1, min(3, n - 1) + 1)), replace=False).tolist()
            rem = set(np.nonzero(np.isin(allint[:, d], remove_js))[0].tolist())
            wit.update(removed_planes=dict(direction=d, indices=[int(j) for j in remove_js]))
            ctx.count("removed_plane_cases")
        else:
            nrem = int(rng.integers(1, min(nmesh - 1, 6) + 1)) if rng.random() < 0.7 else 1
            rem = set(int(i) for i in rng.choice(nmesh, nrem, replace=False))
        nrem = len(rem)
        keep = np.array([i for i in range(nmesh) if i not in rem], dtype=int)
        kint = allint[keep]
        if rng.random() < 0.5:   # duplicates among the remaining points must not hide the hole
            kint = np.vstack([kint, kint[rng.integers(len(kint), size=int(rng.integers(1, min(nrem, 6) + 2)))]])
        kint = kint[ordering(ctx, rng, kint)]
        k = represent(rng, kint, N, how)
        kk = k[:, cols]
        wit.update(removed=allint[sorted(rem)[:12]], nremoved=nrem, nlist=len(k))
        # exact smallest mesh that contains the remaining points
        D = tuple(lcm(*[Fraction(int(v), N[d]).denominator for v in kint[:, d]]) for d in range(3))
        Dg = tuple(D[c] for c in cols)
        remaining = {tuple(x) for x in kint.tolist()}
        complete_on_D = len(remaining) == int(np.prod(D))
        wit.update(lcm_mesh=D, remaining_is_complete_lcm_mesh=complete_on_D)
        # (1) selection on the stated mesh must reject
        res, _ = run(ctx, rng, "grid_from_kpoints(select)", grid_from_kpoints, kk, wit, K_FORMS_ARRAY, grid=Ng)
        st, val = res
        if st == "ok":
            ctx.violation("grid_from_kpoints(select):incomplete_mesh_accepted",
                          f"{nrem} of {nmesh} mesh points missing, returned a selection of {len(val)}", wit)
        elif not isinstance(val, ValueError):
            ctx.violation("grid_from_kpoints(select):undocumented_exception_on_incomplete_mesh",
                          f"{type(val).__name__}: {str(val)[:200]}", wit)
        else:
            ctx.count("incomplete_rejected_ValueError")
        # (2) detection
        res, _ = run(ctx, rng, "grid_from_kpoints(detect)", grid_from_kpoints, kk, wit, K_FORMS_ARRAY)
        st, val = res
        if complete_on_D:
            if st == "raised" or as_tuple(val, nd) != Dg:
                ctx.violation("grid_from_kpoints(detect):wrong_mesh", f"remaining points are the complete mesh {D}, "
                                                                     f"got {st} {str(val)[:200]}", wit)
            else:
                ctx.count("removed_leaves_complete_coarser_mesh_detected")
        elif st == "ok":
            ctx.violation("grid_from_kpoints(detect):incomplete_mesh_accepted",
                          f"returned {val} for {len(remaining)} distinct points (lcm mesh {D})", wit)
        elif not isinstance(val, ValueError):
            ctx.violation("grid_from_kpoints(detect):undocumented_exception_on_incomplete_mesh",
                          f"{type(val).__name__}: {str(val)[:200]}", wit)
        # (3) get_mp_grid: AssertionError or the lcm mesh
        res, _ = run(ctx, rng, "get_mp_grid", get_mp_grid, k, wit, K_FORMS_ANY)
        st, val = res
        if st == "ok":
            if as_tuple(val) != D:
                ctx.violation("get_mp_grid:wrong_mesh", f"returned {val}; smallest mesh containing the points is {D}", wit)
            ctx.count("get_mp_grid_returned_on_incomplete")
        elif not isinstance(val, AssertionError):
            ctx.violation("get_mp_grid:undocumented_exception", f"{type(val).__name__}: {str(val)[:200]}", wit)
        elif complete_on_D:
            ctx.violation("get_mp_grid:raised_on_complete_mesh", f"remaining points are the complete mesh {D}: "
                                                                 f"{str(val)[:200]}", wit)
        else:
            ctx.count("get_mp_grid_asserted_on_incomplete")
        ctx.count("removed_cases")

    else:  # superset: finer mesh + off-grid points, select the coarse mesh
        f = [int(rng.integers(1, 4)) if (N[d] > 1 or rng.random() < 0.3) and d in cols else 1 for d in range(3)]
        while (np.prod(Na * f) > 4 * maxpts or max(Na * f) > MAXDEN) and f != [1, 1, 1]:
            cand = [d for d in range(3) if f[d] > 1]
            f[max(cand, key=lambda d: N[d] * f[d])] = 1
        fa = np.array(f)
        M = tuple(int(x) for x in Na * fa)
        fine = np.array([(i, j, k) for i in range(M[0]) for j in range(M[1]) for k in range(M[2])], dtype=int)
        ndup = int(rng.integers(0, 6))
        if ndup:
            fine = np.vstack([fine, fine[rng.integers(len(fine), size=ndup)]])
        holes = set()
        if rng.random() < 0.3:       # coarse points (all copies) missing from the superset: must be rejected
            holes = {tuple(x) for x in allint[rng.choice(nmesh, int(rng.integers(1, min(3, nmesh) + 1)), replace=False)].tolist()}
            keep = [not (np.all(v % fa == 0) and tuple((v // fa).tolist()) in holes) for v in fine]
            fine = fine[np.array(keep, dtype=bool)]
        kfine = represent(rng, fine, M, how)
        noff = int(rng.integers(1 if holes else 0, 8))
        koff = []
        cc = np.array(cols)
        while len(koff) < noff:
            p = rng.uniform(0, 1, 3)
            x = (p * Na)[cc]
            if np.linalg.norm(x - np.round(x)) > 1e-2:     # clearly off the coarse mesh (library threshold 1e-5)
                koff.append(np.round(p, 8))
        k = np.vstack([kfine] + ([np.array(koff)] if koff else []))
        koi = [tuple((v // fa).tolist()) if np.all(v % fa == 0) else None for v in fine] + [None] * len(koff)
        perm = rng.permutation(len(k))
        k = k[perm]
        kk = k[:, cols]
        koi = [koi[i] for i in perm]
        wit.update(fine_mesh=M, nlist=len(k), off_grid_points=noff, duplicates=ndup, coarse_points_removed=sorted(holes))
        res, _ = run(ctx, rng, "grid_from_kpoints(select)", grid_from_kpoints, kk, wit, K_FORMS_ARRAY, grid=Ng)
        if holes:
            st, val = res
            if st == "ok":
                ctx.violation("grid_from_kpoints(select):incomplete_mesh_accepted",
                              f"{len(holes)} of {nmesh} mesh points missing from a list of {len(k)} points, "
                              f"returned a selection of {len(val)}", wit)
            elif not isinstance(val, ValueError):
                ctx.violation("grid_from_kpoints(select):undocumented_exception_on_incomplete_mesh",
                              f"{type(val).__name__}: {str(val)[:200]}", wit)
            else:
                ctx.count("superset_incomplete_rejected_ValueError")
        else:
            oks = check_selection(ctx, "grid_from_kpoints(select)", res, koi, meshset, N, wit)
            if oks and rng.random() < 0.5:
                chain(ctx, rng, fns, k, kk, res[1], koi, meshset, N, Ng, wit)
        ctx.count("superset_cases")

    if max(N) > 10:
        ctx.count("denominator_gt_10")
    if max(N) >= 97:
        ctx.count("denominator_ge_97")
    ctx.count(f"nontrivial_directions_{ndir}")
    ctx.count(f"columns_for_grid_from_kpoints_{nd}")
    ctx.count("representation_" + how)
    if nmesh == 1:
        ctx.count("single_point_mesh_cases")
    if ndir >= 1:
        ctx.nontrivial((N, variant, how, nd))
    ctx.sample(dict(mesh=N, variant=variant, representation=how, nlist=wit.get("nlist"), columns=cols))


if __name__ == "__main__":
    harness.main(
        PROP, "exploration", case, setup_fn=setup,
        tiers=dict(quick=dict(cases=3200, shards=8, time=900), thorough=dict(cases=12000, shards=16, time=3000)),
        rule="Gamma-centred meshes with 1-3 non-trivial directions, sizes 2..100 (incl. 96, 97, 99, 100; <= 4000 points "
             "quick / 6000 thorough), shuffled, as exact floats / 8-digit rounded / shifted by lattice vectors and reduced "
             "to [0,1) (un-reduced shifted lists only for get_mp_grid); variants: complete, with duplicates in mixed "
             "representations, with 1-6 mesh points removed (all copies), superset = finer mesh + off-grid points; "
             "second round: the one-point mesh, whole list repeated, (nk, ndim<3) input of grid_from_kpoints, argument forms "
             "(C/Fortran/non-contiguous arrays, lists for get_mp_grid; grid as tuple/list/array/numpy ints/detection result) "
             "with the arguments required to come back unchanged, representations round12 / i*(1/N) / unrounded shift, "
             "whole planes removed, superset with coarse points removed, one array asked for two meshes, functions applied "
             "to k[selection]; "
             "a case is non-trivial when the mesh has >= 1 direction of size > 1; distinct by (mesh, variant, "
             "representation, number of columns given to grid_from_kpoints)",
        assumptions=["expected answers come from the integer mesh coordinates the harness generated (exact Fractions)",
                     "for get_mp_grid on an incomplete mesh an AssertionError is the documented rejection; a returned "
                     "mesh must be the per-direction lcm of the exact denominators of the given points",
                     "inputs stay in the documented domain: Gamma-centred, denominators <= 100, [0,1) for grid_from_kpoints"],
        required_counters=("complete_mesh_cases", "duplicate_cases", "removed_cases", "superset_cases",
                           "incomplete_rejected_ValueError", "denominator_gt_10", "denominator_ge_97",
                           "nontrivial_directions_1", "nontrivial_directions_2", "nontrivial_directions_3",
                           "single_point_mesh_cases", "list_repeated_cases", "removed_plane_cases",
                           "removed_leaves_complete_coarser_mesh_detected", "superset_incomplete_rejected_ValueError",
                           "second_request_cases", "other_mesh_rejected_ValueError", "sorted_order_cases", "chained_cases", "grid_argument_from_detection",
                           "columns_for_grid_from_kpoints_1", "columns_for_grid_from_kpoints_2",
                           "kpoints_form_fortran", "kpoints_form_view", "kpoints_form_list", "kpoints_form_tuples",
                           "grid_form_list", "grid_form_array", "grid_form_array32", "grid_form_npints",
                           "representation_round12", "representation_recip", "representation_shift_unrounded"),
        min_nontrivial=50,
    )
