"""C07 - symmetry reduction and symmetrisation are exact for symmetric systems (DIFF).

Systems that genuinely have their declared (magnetic) point group are built by the harness (vlib/gen_symtb.py: bond-length-only
hoppings on a crystal structure, covariant spin-orbit term, Zeeman terms along the magnetic moments); the group itself comes from
the code's own entry point (set_pointgroup_from_structure).  For a random basket taken from *all* calculator classes (static,
dynamic, tabulating, SDCT) run(use_irred_kpt=True) must equal run(use_irred_kpt=False, symmetrize=False) on the same grid; for the
grid tabulator the per-k values over the full grid must coincide.  The tolerance floor is the magnitude of the same calculator on a
generic twin (the same model plus a non-symmetric perturbation), so components that vanish by symmetry are compared absolutely.
"""
import os
import shutil
import sys

sys.path.insert(0, os.path.dirname(os.path.dirname(os.path.abspath(__file__))))
from vlib import env, harness, gen_systems, gen_groups, gen_symtb, gen_pg, monitors  # noqa: E402
from vlib.calc_catalogue import calculator_catalogue, result_arrays  # noqa: E402
import numpy as np  # noqa: E402

PROP = "C07"
KNOWN_C08 = ("sdct.SDCT_asym_surf_II", "sdct.SDCT_asym", "sdct.SDCT")  # see KNOWN_FINDINGS.txt (C08): wrong declared TR transform


def uses_band_diagonal_velocity(name):
    return (name.startswith("sdct.") or name.startswith("dynamic.InjectionCurrent") or name.startswith("dynamic.ShiftCurrent")
            or ("SHC[simple]" in name))


def setup(ctx):
    env.import_wb()
    return {}


def case(ctx, rng, idx, state):
    import wannierberri as wb
    from wannierberri.grid import Grid
    tab = wb.calculators.tabulate

    names = [t["name"] for t in gen_groups.STRUCTURES]
    heavy = {"Pm-3m", "Fd-3m", "F-43m", "P63/mmc"}
    while True:
        sname = names[int(rng.integers(len(names)))]
        if sname in heavy and rng.random() < 0.6:
            continue
        break
    struct = gen_groups.structure(sname, rng)
    struct["name"] = sname
    spinful = bool(rng.random() < 0.6)
    seed = int(rng.integers(1 << 31))
    system, info = gen_symtb.build(np.random.default_rng(seed), struct, spinful=spinful)
    twin, _ = gen_symtb.build(np.random.default_rng(seed), struct, spinful=spinful, perturb=0.3)
    if info["num_wann"] > 10:
        raise harness.Skip("model too large for the budget")
    pg = system.pointgroup
    # grid compatible with the group
    for _ in range(50):
        div = gen_pg.symmetric_sizes(pg, rng, nmax=3)
        fft = gen_pg.symmetric_sizes(pg, rng, nmax=2)
        if 2 <= np.prod(div) * np.prod(fft) <= 64 and np.prod(div) > 1:
            break
    else:
        raise harness.Skip("no small symmetric grid found")
    N = np.array(div) * np.array(fft)
    ks = np.array([(i / N[0], j / N[1], k / N[2]) for i in range(N[0]) for j in range(N[1]) for k in range(N[2])])
    E = gen_systems.bands(system, ks)
    emin, emax = E.min(), E.max()
    Ef = np.linspace(emin + 0.1 * (emax - emin), emax - 0.1 * (emax - emin), 6) + rng.uniform(0, 0.02)
    dE = Ef[1] - Ef[0]
    pos = (E.reshape(-1)[:, None] - (Ef[0] - 3 * dE)) / dE
    if np.abs(pos - np.round(pos)).min() * dE < 1e-6:
        raise harness.Skip("tie: band energy on a Fermi-bin edge")
    gaps = np.diff(E, axis=1)
    if gaps.size and np.any((gaps > 1e-9) & (gaps < 3e-2)):
        # (a) the degeneracy thresholds 1e-4 (calculators) and 1e-3 (SDCT formulas) are discontinuities; (b) band-resolved geometric
        # quantities of a nearly degenerate pair are numerically ill-conditioned (an independent Kubo evaluation in the harness shows the
        # same 1e-4 noise at a 3e-3 gap), so such grids cannot be judged at a 1e-7 tolerance
        raise harness.Skip("tie: nearly degenerate (but not degenerate) bands on the grid")
    degenerate_grid = bool(gaps.size and np.any(gaps <= 1e-9))
    omega = np.array([0.3, 1.1, 2.3])
    cat = calculator_catalogue(Ef, omega)
    nsel = len(cat) if ctx.thorough and np.prod(N) <= 16 else (14 if not ctx.thorough else 30)
    sel = set(int(i) for i in rng.choice(len(cat), size=min(nsel, len(cat)), replace=False))
    core = ("dynamic.OpticalConductivity", "static.AHC", "static.BerryDipole_FermiSea", "static.Ohmic_FermiSurf", "static.NLDrude_FermiSurf")
    sel.update(i for i, (n, _) in enumerate(cat) if n in core)   # a core basket (ranks 1-3, TR-even/odd, transposing) is always there
    sel = sorted(sel)
    calcs = {}
    extra_tabs = {}
    kprobe = rng.uniform(0, 1, 3)
    for i in sel:
        name, make = cat[i]
        if name.split("[")[0] in KNOWN_C08:
            ctx.count("skipped_known_C08_finding")
            continue
        try:
            c = make()
        except Exception:  # a variant that the class does not accept (or a class that cannot be constructed at all)
            ctx.count("variant_not_constructible")
            continue
        try:
            wb.evaluate_k(system, k=tuple(kprobe), calculators={"c": c}, return_single_as_dict=True)
        except (ValueError, NotImplementedError, TypeError) as e:
            msg = str(e)
            if ("are not set in the system" in msg) or isinstance(e, NotImplementedError) or ("unexpected keyword" in msg) or ("missing" in msg):
                ctx.count("calculator_not_applicable_to_model")
                continue
            raise
        if name.startswith("tabulate."):
            extra_tabs[name] = c   # band-resolved results can only be used inside TabulatorAll
        else:
            calcs[name] = c
    tabs = {"Energy": tab.Energy(), "BerryCurvature": tab.BerryCurvature(), "Velocity": tab.Velocity(), "morb": tab.OrbitalMoment()}
    if spinful:
        tabs["Spin"] = tab.Spin()
    tabs.update(extra_tabs)
    calcs["tab"] = tab.TabulatorAll(tabs, mode="grid")
    wit = dict(info, seed=seed, NKdiv=div, NKFFT=fft, calculators=sorted(calcs), Efermi=Ef)
    tmp = os.path.join(env.WORK, f"c07-{os.getpid()}-{idx}")
    os.makedirs(tmp, exist_ok=True)
    try:
        with monitors.chdir(tmp):
            kw = dict(parallel=False, adpt_num_iter=0, fout_name="c07", print_progress_step_time=1e9)
            # documented: symmetrize is always True when use_irred_kpt is True, and both default to True
            flagsA = [dict(use_irred_kpt=True, symmetrize=True), dict(use_irred_kpt=True, symmetrize=False), dict(), dict(symmetrize=False)][idx % 4]
            ctx.count("irreducible_run_flags_" + ("default" if not flagsA else ",".join(f"{k}={v}" for k, v in sorted(flagsA.items()))))
            rA = wb.run(system, Grid(system, NKdiv=div, NKFFT=fft), calcs, **flagsA, **kw)
            rB = wb.run(system, Grid(system, NKdiv=div, NKFFT=fft), calcs, use_irred_kpt=False, symmetrize=False, **kw)
            rT = wb.run(twin, Grid(twin, NKdiv=div, NKFFT=fft, use_symmetry=False), calcs, use_irred_kpt=False, symmetrize=False, **kw)
    finally:
        shutil.rmtree(tmp, ignore_errors=True)
    nirr = None
    for name in calcs:
        if name == "tab":
            tA, tB, tT = rA.results[name], rB.results[name], rT.results[name]
            ctx.close("irreducible_tabulation_kpoints!=full_grid", tA.kpoints, tB.kpoints, rtol=1e-10, scale=1.0, what="kpoints", witness=wit)
            for q in tB.results:
                b = tB.results[q].data
                sc = max(np.abs(b).max(), np.abs(tT.results[q].data).max())
                ctx.close(f"irreducible_tabulation!=full_grid:{q}", tA.results[q].data, b, rtol=1e-6, scale=sc, what=f"tab {q}", witness=wit)
            continue
        for (lab, a, _, _), (_, b, _, _), (_, t, _, _) in zip(result_arrays(rA.results[name]), result_arrays(rB.results[name]), result_arrays(rT.results[name])):
            sc = max(float(np.abs(t).max()), float(np.abs(b).max()))
            if sc == 0.0:
                ctx.count("identically_zero_everywhere")
                continue
            cf = abs(float(getattr(calcs[name], "constant_factor", 1.0) or 1.0))
            if sc < 1e-14 * cf:
                # e.g. a Fermi-surface calculator when no band crosses any Fermi bin on this tiny grid: the result (also of the generic
                # twin) is the rounding noise of a difference quotient, 30 decades below the calculator's natural unit - nothing to judge
                ctx.count("noise_level_result_not_judged")
                continue
            mech = f"irreducible+symmetrised!=full_unsymmetrised:{name.split('[')[0]}"
            if degenerate_grid and uses_band_diagonal_velocity(name):
                # known finding (KNOWN_FINDINGS.txt): these formulas use the band-diagonal velocity dE_n/dk of individual bands, which is gauge
                # dependent inside an exactly degenerate multiplet (Kramers pairs at time-reversal invariant grid points, symmetry-enforced
                # crossings) - one mechanism for the whole structural class, so that any other failure of the same calculators is still new
                mech = "irreducible+symmetrised!=full_unsymmetrised:band-diagonal_velocity(delE_K)_at_degenerate_grid_points"
            ctx.close(mech, a, b, rtol=1e-6, scale=sc, what=f"{name}{lab}", witness=wit)
            ctx.count("calculators_compared")
            ctx.nontrivial((sname, spinful, tuple(div.tolist()), tuple(fft.tolist()), name, lab))
    ctx.count(f"group_order_{'large' if pg.size >= 16 else 'small'}")
    ctx.count("magnetic_cases", int(info["magnetic"]))
    ctx.count("soc_cases", int(info["soc_bonds"] > 0))
    ctx.count("grids_with_exactly_degenerate_points", int(degenerate_grid))
    ctx.sample(dict(info, NKdiv=div, NKFFT=fft, n_calculators=len(calcs), calculators=sorted(calcs)[:10]))


if __name__ == "__main__":
    harness.main(
        PROP, "exploration", case, setup_fn=setup,
        tiers=dict(quick=dict(cases=64, shards=8, time=900), thorough=dict(cases=320, shards=16, time=3000)),
        rule="24 crystal-structure templates (P1 ... Pm-3m, chiral, polar, non-primitive, ferro-/antiferro-/non-collinear magnetic) x spinless/spinful "
             "(covariant SOC, Zeeman) symmetric-by-construction tight-binding models, random symmetric NKdiv/NKFFT (<=64 k-points), 14 (quick) / 30-all "
             "(thorough) calculators drawn from every calculator class incl. variants + a grid tabulator; distinct = (structure, spin, grid, calculator, "
             "component)",
        assumptions=["model symmetric by construction (validated: check_symmetry residual <= 1e-11 on all templates); group from spglib through the code's own "
                     "set_pointgroup_from_structure", "tolerance floor from a generic twin (30 % non-symmetric perturbation)",
                     "the three SDCT calculators containing the term with the wrong declared TR transform (open C08 finding) are not used here"],
        required_counters=("calculators_compared", "group_order_large", "group_order_small", "magnetic_cases", "soc_cases"),
    )
