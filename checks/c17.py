"""C17 - energy smoothing applies every axis smoother (REF).

Part A (every case): one smoother (FermiDirac / Gaussian / Void, random grid, width, cut-off maxdE) applied to a
random array along a random axis is compared with an independent *dense-matrix convolution*:
    W[i, j] = kernel(E_j - E_i)  if |E_j - E_i| <= maxdE * smear  else 0,   rows renormalised to sum 1
(kernel: -df/dE of the Fermi function with kT = T k_B/e, written as e^-|x| / (kT (1+e^-|x|)^2); Gaussian
exp(-(E/s)^2)/(s sqrt(pi)); constants hard-coded from the SI definitions).  Because the rows are renormalised
over the part of the kernel that lies inside the grid, a constant array is mapped to the same constant also at
the edges - asserted separately, as are linearity, "acts only along the requested axis" (off-axis perturbation
leaves the other fibres untouched; every fibre equals the 1-D smoothing of that fibre), shape, non-mutation of
the input, Void = identity, and get_smoother() building the same smoother / a void one.

Part B: EnergyResult.dataSmooth for 1-3 energy axes with every combination of {FermiDirac, Gaussian, Void, None}
is compared with (a) the dense matrices applied along every axis, in both orders, and (b) the real __call__
composed along the axes in both orders; no smoothers -> data unchanged; dataSmooth linear in the result.

The cut-off is discontinuous in maxdE*smear/dE: cases closer than 1e-6 to an integer are regenerated (tie guard).

Widening (review): every 5th case draws one *special* smoother class: grids of 100-300 points (also multiples of 128) with the
kernel reaching >= 100 points, kernels 20-1000 grid steps wide, integer-dtype grids and integer parameters (the documented call
get_smoother(efermi, 300, "Fermi-Dirac")), maxdE = 0 (window of zero width: identity), cut-off *exactly* on a grid point in
exact (integer / dyadic) arithmetic - the closed window of the existing oracle.  Constructor forms: maxdE positional / numpy
scalar, all keywords, through get_smoother (positional / keywords).  Array forms: Fortran order, strided view, read-only,
numpy-integer axis, an empty off-axis extent.  Part B: 0 and 4 energy axes, an axis with a single energy (void by
get_smoother), an axis of 100-200 points, one smoother object shared by two axes, rank 3, tuples, set_smoother twice before the
first reading; and *used* objects: .max / savetxt of the smoothed data, dataSmooth of every derived result (/, number*, -, + 0,
+ VoidResult, mul_array, transform; smoothing commutes with transform), in-place add after the smoothed data were read,
file -> from_npz (no smoothers: unchanged) -> set_smoother, values returned earlier re-read at the end.
Classes that fire on the unchanged tree are generated only with VERIF_C17_PENDING=1 (see PENDING below).
"""
import os
import sys

sys.path.insert(0, os.path.dirname(os.path.dirname(os.path.abspath(__file__))))
from vlib import env, harness, monitors  # noqa: E402
import numpy as np  # noqa: E402
import shutil  # noqa: E402
import tempfile  # noqa: E402

PROP = "C17"
# classes that fire on the unchanged tree (reported, not decided): second set_smoother after dataSmooth was read (stale cache),
# descending grids (NaN), get_smoother(mode=None) (raises although documented), integer arrays (truncated), negative axis (raises)
PENDING = os.environ.get("VERIF_C17_PENDING") == "1"
RTOL = 1e-11
KB_EV = 1.380649e-23 / 1.602176634e-19      # k_B / e  (both exact in the SI), eV per kelvin


def setup(ctx):
    env.import_wb()
    from wannierberri import smoother as sm
    from wannierberri.result import EnergyResult
    from wannierberri.result.result import VoidResult
    from wannierberri.symmetry import point_symmetry as ps
    from wannierberri.symmetry.point_symmetry import transform_ident
    import wannierberri
    state = dict(sm=sm, EnergyResult=EnergyResult, VoidResult=VoidResult, ps=ps, ident=transform_ident, wb=wannierberri, log=[])

    # in-situ call counter of the convolution (does not change any value)
    orig = sm.AbstractSmoother.__call__

    def counted(self, A, axis=0):
        state["log"].append((type(self).__name__, axis))
        return orig(self, A, axis=axis)
    sm.AbstractSmoother.__call__ = counted
    return state


# --------------------------------------------------------------------------------------------------
#  independent reference
# --------------------------------------------------------------------------------------------------
def kernel(kind, e, width_eV):
    if kind == "FermiDirac":
        x = np.abs(e) / width_eV
        ex = np.exp(-x)
        return ex / (width_eV * (1.0 + ex) ** 2)
    if kind == "Gaussian":
        return np.exp(-(e / width_eV) ** 2) / (width_eV * np.sqrt(np.pi))
    raise ValueError(kind)


def dense_matrix(spec, E):
    """NE x NE row-stochastic matrix of the documented smoother (explicit double loop)"""
    NE = len(E)
    if spec["kind"] == "Void":
        return np.eye(NE)
    W = np.zeros((NE, NE))
    cut = spec["maxdE"] * spec["width_eV"]
    if NE > 60:            # same definition, whole matrix at once (grids of 100+ points)
        D = np.asarray(E, dtype=float)[None, :] - np.asarray(E, dtype=float)[:, None]
        W = np.where(np.abs(D) <= cut, kernel(spec["kind"], D, spec["width_eV"]), 0.0)
        return W / W.sum(axis=1)[:, None]
    for i in range(NE):
        for j in range(NE):
            d = E[j] - E[i]
            if abs(d) <= cut:
                W[i, j] = kernel(spec["kind"], d, spec["width_eV"])
        W[i] /= W[i].sum()
    return W


def rtol_dense(E):
    """tolerance of the comparison with the dense reference.  The kernel weights are functions of (E_j-E_i)/width;
    the grid itself carries a rounding error eps*max|E| per point, i.e. a relative error eps*max|E|/dE of the
    spacing that the library (dE = E[1]-E[0]) and the reference (E_j-E_i) see differently.  Observed deviation is
    about 0.5 of that estimate; the tolerance is 2000 x the estimate (+1e-11), still < 1e-7 for every generated
    grid, i.e. far below the 1e-4..1e-1 effect of a wrong kernel / cut-off / normalisation."""
    dE = abs(float(E[-1] - E[0])) / (len(E) - 1)
    return RTOL + 2e3 * 2.2e-16 * float(np.abs(E).max()) / dE


def apply_dense(W, A, axis):
    B = np.moveaxis(A, axis, 0)
    out = (W @ B.reshape(B.shape[0], -1)).reshape(B.shape)
    return np.moveaxis(out, 0, axis)


# --------------------------------------------------------------------------------------------------
#  generators
# --------------------------------------------------------------------------------------------------
def gen_grid(rng, NE):
    e0 = rng.uniform(-10, 10)
    span = 10 ** rng.uniform(-1.3, 1.3)
    return np.linspace(e0, e0 + span, NE)


def build(rng, sm, kind, E, param, maxdE, forms, allow_get=True):
    """construct the smoother in one of the documented call forms (recorded in `forms`)"""
    cls = sm.FermiDiracSmoother if kind == "FermiDirac" else sm.GaussianSmoother
    pname = "T_Kelvin" if kind == "FermiDirac" else "smear"
    if maxdE is None:
        r = rng.random()
        if allow_get and r < 0.3:
            mode = "Fermi-Dirac" if kind == "FermiDirac" else "Gaussian"
            if rng.random() < 0.5:
                forms.append("via_get_smoother")
                return sm.get_smoother(E, param, mode)
            forms.append("via_get_smoother_keywords")
            return sm.get_smoother(mode=mode, smear=param, energy=E)
        if r < 0.5:
            forms.append("keywords")
            return cls(**{"E": E, pname: param})
        return cls(E, param)
    r = int(rng.integers(5))
    if r == 0:
        forms.append("maxdE_positional")
        return cls(E, param, maxdE)
    if r == 1:
        forms.append("maxdE_numpy_scalar")
        return cls(E, param, maxdE=(np.int64(maxdE) if isinstance(maxdE, int) else np.float64(maxdE)))
    if r == 2:
        forms.append("keywords")
        return cls(**{"maxdE": maxdE, pname: param, "E": E})
    return cls(E, param, maxdE=maxdE)


def draw_maxdE(rng):
    r = rng.random()
    if r < 0.3:
        return None
    if r < 0.6:
        return int(rng.integers(1, 13))
    if r < 0.95:
        return float(10 ** rng.uniform(-0.7, 1.1))
    return float(rng.uniform(15, 40))


def gen_smoother(rng, sm, E, kind=None, wlog=(-1.5, 1.3), xrange=None):
    """-> (smoother object, spec).  Width relative to the grid step between 0.03 and 20 steps (10**wlog); with `xrange` the
    cut-off maxdE*width (in grid steps) is drawn from that interval instead"""
    if kind is None:
        kind = ["FermiDirac", "Gaussian", "Void"][int(rng.choice(3, p=[0.42, 0.42, 0.16]))]
    if kind == "Void":
        return sm.VoidSmoother(), dict(kind="Void", NE1=0, maxdE=None, width_eV=None, forms=[])
    NE = len(E)
    dE = (E[-1] - E[0]) / (NE - 1)
    for _ in range(100):
        width = dE * 10 ** rng.uniform(*wlog)
        maxdE = draw_maxdE(rng)
        m = 8 if maxdE is None else maxdE
        if xrange is not None:
            width = dE * rng.uniform(*xrange) / m
        x = m * width / dE
        if abs(x - round(x)) > 1e-6 * max(1.0, x):      # tie guard on the cut-off
            break
    else:
        raise harness.Skip("tie")
    forms = []
    param = width / KB_EV if kind == "FermiDirac" else width
    obj = build(rng, sm, kind, E.copy(), param, maxdE, forms)
    return obj, dict(kind=kind, width_eV=float(width), maxdE=m, maxdE_given=maxdE, NE1=int(np.floor(x)), param=float(param),
                     width_over_dE=float(width / dE), forms=forms)


SPECIAL = ("big_grid", "wide_kernel", "int_grid", "int_param", "maxdE_zero", "dyadic_tie")


def gen_special(rng, sm, cls):
    """-> (E, smoother, spec) of one of the special classes (see the module docstring)"""
    forms = [cls]
    kind = ["FermiDirac", "Gaussian"][int(rng.integers(2))]
    if cls == "big_grid":
        NE = int(rng.choice([100, 128, 129, 200, 256, int(rng.integers(100, 301))]))
        E = gen_grid(rng, NE)
        S, spec = gen_smoother(rng, sm, E, kind=kind, wlog=(-0.5, 2.0), xrange=(100, NE - 2) if NE >= 110 and rng.random() < 0.6 else None)
        spec["forms"] += forms
        return E, S, spec
    if cls == "wide_kernel":
        E = gen_grid(rng, int(rng.integers(2, 41)))
        S, spec = gen_smoother(rng, sm, E, kind=kind, wlog=(1.3, 3.0))
        spec["forms"] += forms
        return E, S, spec
    NE = int(rng.integers(2, 41))
    if cls == "maxdE_zero":
        E = gen_grid(rng, NE)
        dE = (E[-1] - E[0]) / (NE - 1)
        width = dE * 10 ** rng.uniform(-1.5, 1.3)
        maxdE = [0, 0.0][int(rng.integers(2))]
        x = 0.0
    elif cls == "dyadic_tie":
        # Gaussian, every number a dyadic rational: maxdE*smear/dE is an integer in exact arithmetic and the grid point at the
        # cut-off belongs to the window (closed interval, as everywhere in this check)
        kind = "Gaussian"
        dE = 2.0 ** -int(rng.integers(0, 5))
        E = dE * (int(rng.integers(-40, 40)) + np.arange(NE))
        q = int(rng.integers(0, 3))
        t, pp = int(rng.integers(1, 4)), int(rng.integers(1, 5))
        width = pp * dE / 2 ** q
        maxdE = 2 ** q * t
        if rng.random() < 0.5:
            maxdE = float(maxdE)
        x = float(t * pp)
        assert maxdE * width / dE == x
    else:
        if cls == "int_grid":
            step = int(rng.integers(1, 4))
            E = int(rng.integers(-20, 21)) + step * np.arange(NE)           # integer dtype
            assert E.dtype.kind == "i"
        else:
            step = rng.uniform(0.2, 2.0)
            E = np.linspace(0, step * (NE - 1), NE) + rng.uniform(-10, 10)
        dE = (E[-1] - E[0]) / (NE - 1)
        for _ in range(100):
            if kind == "Gaussian":
                width = int(rng.integers(1, 9))
                exact = cls == "int_grid"
            else:
                width = int(rng.integers(1500, 60000)) * KB_EV
                exact = False
            maxdE = draw_maxdE(rng)
            if maxdE is not None and rng.random() < 0.7:
                maxdE = int(np.ceil(maxdE))
            m = 8 if maxdE is None else maxdE
            x = m * width / dE
            if (exact and isinstance(m, int)) or abs(x - round(x)) > 1e-6 * max(1.0, x):
                break
        else:
            raise harness.Skip("tie")
    if cls in ("int_grid", "int_param"):
        param = int(round(width / KB_EV)) if kind == "FermiDirac" else width
        assert isinstance(param, int)
    else:
        param = width / KB_EV if kind == "FermiDirac" else width
    m = 8 if maxdE is None else maxdE
    S = build(rng, sm, kind, E.copy(), param, maxdE, forms)
    spec = dict(kind=kind, width_eV=float(width), maxdE=m, maxdE_given=maxdE, NE1=int(np.floor(x)), param=param,
                width_over_dE=float(width / dE), forms=forms)
    if x == round(x) and 1 <= x <= NE - 1:
        forms.append("cutoff_exactly_on_grid_point")
    return E, S, spec


def rand_array(rng, shape, cplx, amp=None):
    amp = 10 ** rng.uniform(-3, 3) if amp is None else amp
    A = rng.normal(size=shape)
    if cplx:
        A = A + 1j * rng.normal(size=shape)
    return A * amp


def count_spec(ctx, spec, NE):
    ctx.count("smoother_" + spec["kind"])
    if spec["kind"] == "Void":
        return
    if spec["NE1"] == 0:
        ctx.count("kernel_narrower_than_step(NE1=0)")
    elif spec["NE1"] >= NE - 1:
        ctx.count("kernel_wider_than_grid")
    else:
        ctx.count("rows_truncated_at_edges")
    if spec["maxdE_given"] is None:
        ctx.count("default_maxdE")
    elif spec["maxdE"] * 1.0 < 4:
        ctx.count("cutoff_inside_kernel_bulk(maxdE<4)")
    for f in spec["forms"]:
        ctx.count("form_" + f)
    if NE >= 100 and 100 <= spec["NE1"] < NE - 1:
        ctx.count("big_grid_kernel_reaches_100_or_more_points_inside_grid")


# --------------------------------------------------------------------------------------------------
def part_single(ctx, rng, st, special=None):
    sm = st["sm"]
    if special is None:
        NE = int(rng.integers(2, 41 if not ctx.thorough else 80))
        if rng.random() < 0.15:
            NE = int(rng.integers(2, 5))
        E = gen_grid(rng, NE)
        S, spec = gen_smoother(rng, sm, E)
    else:
        E, S, spec = gen_special(rng, sm, special)
        NE = len(E)
    kind = spec["kind"]
    ndim = int(rng.integers(1, 5))
    axis = int(rng.integers(ndim))
    shape = [int(rng.integers(1, 5)) for _ in range(ndim)]
    if rng.random() < 0.3:        # equal extents: a wrong transposition would not change the shape
        shape = [NE if NE <= 6 else shape[0]] * ndim
    shape[axis] = NE
    shape = tuple(shape)
    cplx = bool(rng.random() < 0.4)
    A = rand_array(rng, shape, cplx)
    B = rand_array(rng, shape, cplx, amp=np.abs(A).max())
    # the array as the caller may hold it: Fortran order, a strided view of a larger array, read-only
    layout = ["C", "C", "F", "strided", "readonly"][int(rng.integers(5))]
    big = big0 = None
    if layout == "F":
        A = np.asfortranarray(A)
    elif layout == "strided":
        big = rand_array(rng, tuple(2 * n for n in shape), cplx, amp=np.abs(A).max())
        big[tuple(slice(None, None, 2) for _ in shape)] = A
        big0 = big.copy()
        A = big[tuple(slice(None, None, 2) for _ in shape)]
    elif layout == "readonly":
        A.setflags(write=False)
    if layout != "C":
        ctx.count("array_layout_" + layout)
    A0 = A.copy()
    if rng.random() < 0.2:
        axis = np.int64(axis)
        ctx.count("axis_numpy_integer")
    wit = dict(kind=kind, NE=NE, E0=E[0], E1=E[-1], shape=shape, axis=int(axis), complex=cplx, layout=layout,
               axis_type=type(axis).__name__, **{k: v for k, v in spec.items() if k != "kind"})
    scale = float(np.abs(A).max())
    W = dense_matrix(spec, E)
    tag = f"smoother[{kind}]"

    out = S(A, axis=axis)
    ctx.ev()
    if not isinstance(out, np.ndarray) or out.shape != shape:
        ctx.violation(tag + ":shape", f"output shape {getattr(out, 'shape', None)} != input shape {shape}", wit)
        return wit, spec
    rtd = rtol_dense(E) if kind != "Void" else RTOL
    ctx.close(tag + "!=dense_convolution", out, apply_dense(W, A, axis), scale=scale, rtol=rtd,
              what=f"S(A, axis={axis})", witness=wit)
    if axis == 0:
        ctx.close(tag + "!=dense_convolution", S(A), apply_dense(W, A, 0), scale=scale, rtol=rtd,
                  what="S(A) default axis", witness=wit)
    # linear
    al, be = (rng.normal(), rng.normal()) if not cplx else (complex(*rng.normal(size=2)), complex(*rng.normal(size=2)))
    ctx.close(tag + ":not_linear", S(al * A + be * B, axis=axis), al * out + be * S(B, axis=axis),
              scale=scale * (abs(al) + abs(be)), rtol=RTOL, what="S(aA+bB) vs aS(A)+bS(B)", witness=wit)
    # constants are preserved (also at the edges of the grid)
    c = complex(*rng.normal(size=2)) * 10 ** rng.uniform(-3, 3) if cplx else float(rng.normal() * 10 ** rng.uniform(-3, 3))
    C = np.full(shape, c)
    ctx.close(tag + ":constant_not_preserved", S(C, axis=axis), C, rtol=RTOL, what="S(const)", witness=dict(wit, const=c))
    # acts only along the requested axis
    if ndim >= 2 and np.prod(shape) > NE:
        other = [i for i in range(ndim) if i != axis and shape[i] > 1]
        if other:
            idx = [slice(None)] * ndim
            pos = {}
            for i in other:
                pos[i] = int(rng.integers(shape[i]))
                idx[i] = pos[i]
            A2 = A.copy()
            A2[tuple(idx)] += rand_array(rng, A2[tuple(idx)].shape, cplx, amp=scale)   # perturb one fibre
            out2 = S(A2, axis=axis)
            mask = np.ones(shape, dtype=bool)
            mask[tuple(idx)] = False
            ctx.close(tag + ":acts_across_other_axes", out2[mask], out[mask], scale=scale, rtol=RTOL,
                      what="perturbing one fibre changed other fibres", witness=wit)
            ctx.count("off_axis_perturbation_checks")
        for _ in range(2):
            idx = [int(rng.integers(s)) for s in shape]
            idx[axis] = slice(None)
            fibre = np.ascontiguousarray(A[tuple(idx)])
            ctx.close(tag + ":fibre!=1D_smoothing", out[tuple(idx)], S(fibre, axis=0), scale=scale, rtol=RTOL,
                      what=f"fibre {idx}", witness=wit)
    ctx.ev()
    if not np.array_equal(A, A0) or (big is not None and not np.array_equal(big, big0)):
        ctx.violation(tag + ":input_mutated", "the smoother modified its input", wit)
    if spec["maxdE"] == 0 and kind != "Void":
        ctx.close(tag + ":maxdE=0_not_identity", out, A0, scale=scale, rtol=RTOL, what="window of zero width", witness=wit)
    if ndim >= 2 and rng.random() < 0.15:       # an empty off-axis extent
        sh0 = list(shape)
        sh0[(int(axis) + 1) % ndim] = 0
        o0 = S(np.zeros(tuple(sh0)), axis=axis)
        ctx.ev()
        if getattr(o0, "shape", None) != tuple(sh0):
            ctx.violation(tag + ":shape", f"empty input of shape {tuple(sh0)} -> {getattr(o0, 'shape', None)}", wit)
        ctx.count("empty_off_axis_extent")
    pending_single(ctx, rng, st, S, E, spec, A0, out, axis, wit, tag)   # fired on the unchanged tree; repaired (see KNOWN_FINDINGS.txt)
    if kind == "Void":
        ctx.ev()
        if not np.array_equal(out, A0):
            ctx.violation("smoother[Void]:not_identity", "VoidSmoother changed the array", wit)
    count_spec(ctx, spec, NE)

    # get_smoother builds the same thing
    if kind != "Void" and spec["maxdE_given"] is None:
        mode = "Fermi-Dirac" if kind == "FermiDirac" else "Gaussian"
        g = sm.get_smoother(E, spec["param"], mode) if rng.random() < 0.7 else sm.get_smoother(smear=spec["param"], mode=mode, energy=E)
        ctx.ev()
        if type(g) is not type(S) or not (g == S):
            ctx.violation("get_smoother:different_smoother", f"get_smoother(E, {spec['param']}, {mode!r}) -> {g}", wit)
        else:
            ctx.close("get_smoother!=dense_convolution", g(A, axis=axis), apply_dense(W, A, axis), scale=scale, rtol=rtd,
                      what="get_smoother(...)(A)", witness=wit)
        ctx.count("get_smoother_checks")
    if rng.random() < 0.2:
        for args in ((None, 0.1, "Gaussian"), (E, None, "Gaussian"), (E, 0.0, "Fermi-Dirac"), (E, -1.0, "Gaussian"),
                     (E[:1], 0.1, "Fermi-Dirac"), (E, 0, "Gaussian"), (E[:1], 300, "Fermi-Dirac"), (E[:0], 0.1, "Gaussian"),
                     (None, None, None), (E, None, None), (E, -300, None)):
            g = sm.get_smoother(*args)
            ctx.ev()
            if not isinstance(g, sm.VoidSmoother) or not np.array_equal(g(A, axis=axis), A0):
                ctx.violation("get_smoother:void_expected", f"get_smoother{args[1:]} is not a void smoother", wit)
    return wit, spec


def pending_single(ctx, rng, st, S, E, spec, A0, out, axis, wit, tag):
    """classes that fire on the unchanged tree (VERIF_C17_PENDING=1): negative axis, integer arrays, mode=None, descending grid"""
    sm = st["sm"]
    kind = spec["kind"]
    if kind == "Void":
        return
    ndim, shape, scale = A0.ndim, A0.shape, float(np.abs(A0).max())
    W = dense_matrix(spec, E)
    if PENDING:   # a negative axis raises ValueError (undocumented form, loud): side observation, only with VERIF_C17_PENDING=1
        ctx.ev()
        try:
            ctx.close(tag + ":negative_axis", S(A0, axis=int(axis) - ndim), out, scale=scale, rtol=RTOL, what="axis counted from the end",
                      witness=wit)
        except ValueError as e:
            ctx.violation(tag + ":negative_axis", f"axis={int(axis) - ndim} for a {ndim}-dimensional array raised ValueError: {e}", wit)
    k = int(rng.integers(-50, 51))
    Ci = np.full(shape, k)
    ctx.close(tag + ":integer_constant_not_preserved", S(Ci, axis=axis), Ci, rtol=RTOL, what=f"constant integer array {k}",
              witness=dict(wit, const=k))
    Ai = rng.integers(-100, 101, size=shape)
    ctx.close(tag + ":integer_array!=dense_convolution", S(Ai, axis=axis), apply_dense(W, Ai, int(axis)), scale=100.0,
              rtol=rtol_dense(E), what="integer input", witness=wit)
    ctx.ev()
    try:
        g = sm.get_smoother(E, spec["param"]) if rng.random() < 0.5 else sm.get_smoother(E, spec["param"], None)
        if not isinstance(g, sm.VoidSmoother):
            ctx.violation("get_smoother:mode_None", f"mode=None gave {g}", wit)
    except ValueError as e:
        ctx.violation("get_smoother:mode_None", f"the documented default mode=None raised ValueError: {e}", wit)
    # descending grid: the kernel is even, so the reversed data on the reversed grid give the reversed result
    Ed = E[::-1].copy()
    Sd = build(rng, sm, kind, Ed, spec["param"], spec["maxdE_given"], [], allow_get=False)
    rev = tuple(slice(None, None, -1) if i == int(axis) else slice(None) for i in range(ndim))
    try:
        with np.errstate(all="ignore"):
            od = Sd(np.ascontiguousarray(A0[rev]), axis=axis)
    except ValueError as e:
        od = None
        ctx.ev()
        ctx.violation(tag + ":descending_grid", f"smoother on a descending grid raised ValueError: {e}", wit)
    if od is not None:
        ctx.close(tag + ":descending_grid", od[rev], out, scale=scale, rtol=RTOL, what="reversed data on the reversed grid", witness=wit)
        ctx.close(tag + ":descending_grid", od, apply_dense(dense_matrix(spec, Ed), A0[rev], int(axis)), scale=scale,
                  rtol=rtol_dense(E), what="descending grid vs dense matrix", witness=wit)
    ctx.count("pending_single_checks")


# --------------------------------------------------------------------------------------------------
#  Part B
# --------------------------------------------------------------------------------------------------
def void_spec(**kw):
    return dict(kind="Void", NE1=0, maxdE=None, width_eV=None, maxdE_given=None, forms=[], **kw)


def read_txt(fn, ne, cplx):
    """-> (energy columns, raw part, smoothed part) of a file written by EnergyResult.savetxt"""
    rows = []
    with open(fn) as f:
        for line in f:
            if line.startswith("#") or not line.strip():
                continue
            rows.append([float(x) for x in line.split()])
    rows = np.array(rows)
    vals = rows[:, ne:]
    if cplx:
        vals = vals[:, 0::2] + 1j * vals[:, 1::2]
    n = vals.shape[1] // 2
    return rows[:, :ne], vals[:, :n], vals[:, n:]


def part_result(ctx, rng, st):
    sm = st["sm"]
    ER = st["EnergyResult"]
    ps = st["ps"]
    ne = int(rng.choice([0, 1, 2, 3, 4], p=[0.04, 0.18, 0.42, 0.31, 0.05]))
    rank = int(rng.choice([0, 1, 2, 3], p=[0.31, 0.31, 0.31, 0.07]))
    NEs = [int(rng.integers(2, 13 if ne < 4 else 7)) for _ in range(ne)]
    if rng.random() < 0.3 and ne:
        NEs = [NEs[0]] * ne
    special_axis = {}
    if ne and rng.random() < 0.12:              # one axis with a single energy (e.g. one Fermi level)
        i = int(rng.integers(ne))
        NEs[i] = 1
        special_axis[i] = "single"
    if ne and rng.random() < 0.05:              # one long axis
        i = int(rng.integers(ne))
        if i not in special_axis:
            NEs[i] = int(rng.choice([100, 128, 150, 200]))
            special_axis[i] = "long"
            rank = min(rank, 2 if ne < 3 else 1)
    if ne == 4:
        rank = min(rank, 1)
    Energies = [gen_grid(rng, N) for N in NEs]
    forced = None
    if ne >= 2 and (rng.random() < 0.5 or ne == 4):
        forced = ["FermiDirac", "Gaussian"]
    objs, specs = [], []
    for i, E in enumerate(Energies):
        k = None
        if forced is not None:
            k = forced[int(rng.integers(2))]
        if special_axis.get(i) == "single":
            # no smoothing is possible along one point: None, or what get_smoother returns for such a grid
            o = [None, sm.get_smoother(E, 0.1, "Gaussian"), sm.get_smoother(E, 300, "Fermi-Dirac")][int(rng.integers(3))]
            objs.append(o)
            specs.append(void_spec(given_as_None=o is None))
            continue
        if forced is None and rng.random() < 0.12:
            objs.append(None)                      # "no smoother given" for this axis
            specs.append(void_spec(given_as_None=True))
            continue
        o, s = gen_smoother(rng, sm, E, kind=k, wlog=(-0.5, 2.0) if special_axis.get(i) == "long" else (0.0, 1.3) if ne == 4 else (-1.5, 1.3))
        objs.append(o)
        specs.append(s)
    shared = False
    if ne >= 2 and rng.random() < 0.12:           # the same grid on two axes and ONE smoother object for both
        i, j = sorted(int(x) for x in rng.choice(ne, size=2, replace=False))
        if specs[i]["kind"] != "Void" and j not in special_axis:
            NEs[j], Energies[j], objs[j], specs[j] = NEs[i], Energies[i].copy(), objs[i], specs[i]
            shared = True
    # other smoothers on the same grids (set first, then replaced)
    decoys = [(None if N < 2 else gen_smoother(rng, sm, E)[0]) for N, E in zip(NEs, Energies)]
    cplx = bool(rng.random() < 0.4)
    shape = tuple(NEs) + (3,) * rank
    data = np.asarray(rand_array(rng, shape, cplx))
    data2 = np.asarray(rand_array(rng, shape, cplx, amp=np.abs(data).max()))
    scale = float(np.abs(data).max())
    nonvoid = [i for i, s in enumerate(specs) if s["kind"] != "Void"]
    effective = [i for i in nonvoid if specs[i]["NE1"] >= 1]
    wit = dict(n_energies=ne, NE=NEs, rank=rank, complex=cplx, shared_object=shared,
               smoothers=[dict(kind=s["kind"], NE1=s["NE1"], maxdE=s["maxdE"], width_eV=s["width_eV"]) for s in specs])
    tTR = [st["ident"], ps.transform_odd][int(rng.integers(2))]
    tInv = [st["ident"], ps.transform_odd][int(rng.integers(2))]
    made = []

    def make(d, how=None):
        how = int(rng.integers(6)) if how is None else how
        kw = dict(transformTR=tTR, transformInv=tInv)
        if all(o is None for o in objs) and how == 0:
            made.append("not_given")
            return ER([E.copy() for E in Energies], d.copy(), **kw)             # smoothers not given at all
        if how == 1:
            made.append("set_smoother")
            r = ER([E.copy() for E in Energies], d.copy(), **kw)
            r.set_smoother(list(objs))
            return r
        if ne == 1 and how == 2:
            made.append("bare")
            return ER(Energies[0].copy(), d.copy(), smoothers=objs[0], **kw)    # bare objects are accepted
        if how == 3:
            made.append("tuples")
            return ER(tuple(E.copy() for E in Energies), d.copy(), smoothers=tuple(objs), **kw)
        if how == 4:                                # smoothers replaced before the smoothed data are first read
            made.append("set_smoother_twice")
            if rng.random() < 0.5:
                r = ER([E.copy() for E in Energies], d.copy(), smoothers=list(decoys), **kw)
            else:
                r = ER([E.copy() for E in Energies], d.copy(), **kw)
                r.set_smoother(list(decoys))
            r.set_smoother(tuple(objs) if rng.random() < 0.5 else list(objs))
            return r
        made.append("list")
        return ER([E.copy() for E in Energies], d.copy(), smoothers=list(objs), **kw)

    res = make(data)
    ctx.count("result_built_by_" + made[-1])
    del st["log"][:]
    sm_data = res.dataSmooth
    ncalls = sum(1 for c in st["log"] if c[0] != "VoidSmoother")
    ctx.count("convolution_calls_inside_dataSmooth", ncalls)
    ctx.ev()
    if not np.array_equal(res.data, data):
        ctx.violation("dataSmooth:data_mutated", "dataSmooth modified the raw data", wit)
    if sm_data.shape != shape:
        ctx.violation("dataSmooth:shape", f"{sm_data.shape} != {shape}", wit)
        return wit
    sm_first = sm_data.copy()
    Ws = [dense_matrix(s, E) for s, E in zip(specs, Energies)]
    rtd = RTOL + sum(rtol_dense(Energies[i]) for i in nonvoid)

    def dense_ref(d, order=None):
        for i in (range(ne) if order is None else order):
            d = apply_dense(Ws[i], d, i)
        return d

    for order, nm in ((list(range(ne)), "axis order 0..n"), (list(range(ne))[::-1], "axis order n..0")):
        ref = dense_ref(data, order)
        ctx.close("dataSmooth!=dense_convolution_along_every_axis", sm_data, ref, scale=scale, rtol=rtd,
                  what="dataSmooth vs dense matrices, " + nm, witness=wit)
        comp = data
        for i in order:
            if objs[i] is not None:
                comp = objs[i](comp, axis=i)
        ctx.close("dataSmooth!=composition_of_axis_smoothers", sm_data, comp, scale=scale, rtol=RTOL,
                  what="dataSmooth vs composed __call__, " + nm, witness=wit)
    if ne >= 3:                                   # a mixed order as well
        order = [int(x) for x in rng.permutation(ne)]
        ctx.close("dataSmooth!=dense_convolution_along_every_axis", sm_data, dense_ref(data, order), scale=scale, rtol=rtd,
                  what=f"dataSmooth vs dense matrices, axis order {order}", witness=wit)
    if not nonvoid:
        ctx.ev()
        if not np.array_equal(sm_data, data):
            ctx.violation("dataSmooth:changed_without_smoothers", "a result without smoothers was changed", wit)
        ctx.count("dataSmooth_without_smoothers")
    # dataSmooth is linear in the result (the smoothers travel with + and *)
    res2 = make(data2)
    c = float(rng.uniform(-3, 3))
    ctx.close("dataSmooth:not_linear_in_result", (res * c + res2).dataSmooth, c * sm_data + res2.dataSmooth,
              scale=scale * (abs(c) + 1), rtol=RTOL, what="(c*a+b).dataSmooth", witness=wit)
    ctx.count(f"dataSmooth_{ne}_energy_axes")
    if len(nonvoid) >= 2:
        ctx.count("dataSmooth_two_or_more_nonvoid")
    if len(effective) >= 2:
        ctx.count("dataSmooth_two_or_more_effective(NE1>=1)")
    if len(effective) >= 3:
        ctx.count("dataSmooth_three_effective")
    if len(effective) >= 4:
        ctx.count("dataSmooth_four_effective")
    if shared and len(effective) >= 2:
        ctx.count("one_smoother_object_on_two_axes(effective)")
    for i, what in special_axis.items():
        others = [j for j in effective if j != i]
        if what == "single" and others:
            ctx.count("single_energy_axis_next_to_effective_smoother")
        if what == "long" and i in effective:
            ctx.count("long_axis_effective")
    if rank == 3:
        ctx.count("rank_3")

    # ---- the smoothed data as the library itself uses them
    ref = dense_ref(data)
    if ne >= 1:
        nsz = 2.0 * np.sqrt(ref.size)
        ctx.close("EnergyResult.max!=norms_of_smoothed_data", res.max,
                  [np.abs(ref).max(), np.linalg.norm(ref), np.linalg.norm(ref[1:] - ref[:-1])], scale=scale * nsz, rtol=rtd,
                  what="max = (maxval, norm, norm of the differences) of the smoothed data", witness=wit)
        ctx.count("max_checks")

    # ---- derived results carry the smoothers: their smoothed data belong to THEIR raw data
    c2 = float(rng.uniform(0.3, 3)) * (-1) ** int(rng.integers(2))
    derived = [("__truediv__", lambda: res / c2, data / c2), ("__rmul__", lambda: c2 * res, c2 * data),
               ("__mul__(int)", lambda: res * 3, data * 3),
               ("__sub__", lambda: res - res2, data - data2), ("__add__(0)", lambda: res + 0, data),
               ("__radd__(sum)", lambda: sum([res, res2]), data + data2),
               ("__add__(VoidResult)", lambda: res + st["VoidResult"](), data), ("__add__(None)", lambda: res + None, data)]
    if data.ndim >= 1:
        nax = int(rng.integers(1, min(2, data.ndim) + 1))
        axes = tuple(sorted(int(x) for x in rng.choice(data.ndim, size=nax, replace=False)))
        arr = rng.uniform(0.5, 2, size=tuple(shape[a] for a in axes)) * (-1) ** rng.integers(2, size=tuple(shape[a] for a in axes))
        full = arr.reshape(tuple(shape[a] if a in axes else 1 for a in range(data.ndim)))
        derived.append((f"mul_array(axes={axes})", lambda: res.mul_array(arr, axes=(axes[0] if nax == 1 and rng.random() < 0.5 else axes)),
                        data * full))
        if axes[0] < ne:
            ctx.count("mul_array_along_an_energy_axis")
    picks = [derived[int(i)] for i in rng.choice(len(derived), size=3, replace=False)]
    for nm, fn, raw in picks:
        d = fn()
        s_d = max(scale, float(np.abs(raw).max()))
        ctx.close(f"EnergyResult.{nm.split('(')[0]}:raw_data", d.data, raw, scale=s_d, rtol=RTOL, what=nm + ".data", witness=wit)
        ctx.close("dataSmooth_of_derived_result!=dense_convolution", d.dataSmooth, dense_ref(raw), scale=s_d, rtol=rtd,
                  what=f"{nm}.dataSmooth", witness=dict(wit, operation=nm))
        ctx.count("derived_result_checks")
        if nonvoid:
            ctx.count("derived_result_checks_nonvoid")
    if data.ndim >= 1:
        u = rng.normal(size=3)
        sym = [lambda: ps.Rotation(int(rng.choice([2, 3, 4, 6])), u), lambda: ps.Mirror(u), lambda: ps.Inversion,
               lambda: ps.TimeReversal, lambda: ps.PointSymmetry(-ps.Rotation(3, u).R, True),
               lambda: ps.C4z * ps.Mx][int(rng.integers(6))]()
        tr = res.transform(sym)
        ctx.close("dataSmooth_of_derived_result!=dense_convolution", tr.dataSmooth, dense_ref(tr.data), scale=scale * 3 ** (rank / 2),
                  rtol=rtd, what="transform(sym).dataSmooth", witness=dict(wit, operation="transform"))
        # smoothing (energy axes) commutes with the transformation (tensor axes)
        bare = ER([E.copy() for E in Energies], sm_first.copy(), transformTR=tTR, transformInv=tInv)
        ctx.close("dataSmooth:does_not_commute_with_transform", tr.dataSmooth, bare.transform(sym).data, scale=scale * 3 ** (rank / 2),
                  rtol=RTOL * 10, what="smooth(transform(x)) vs transform(smooth(x))", witness=wit)
        ctx.count("transform_checks")
        if nonvoid:
            ctx.count("transform_checks_nonvoid")

    # ---- in-place add on a result whose smoothed data were read before
    r = make(data)
    old = r.dataSmooth
    if rng.random() < 0.5:
        monitors.warm_caches(r)
    r.add(res2)
    ctx.close("dataSmooth_after_in_place_add!=dense_convolution", r.dataSmooth, dense_ref(data + data2), scale=2 * scale, rtol=rtd,
              what="x.dataSmooth; x.add(y); x.dataSmooth", witness=wit)
    ctx.close("dataSmooth:value_returned_earlier_changed", old, sm_first, scale=scale, rtol=0, atol=0,
              what="the array returned before add()", witness=wit)
    monitors.assert_no_stale_caches(ctx, r, "EnergyResult.add", wit)
    ctx.count("in_place_add_after_read")
    if nonvoid:
        ctx.count("in_place_add_after_read_nonvoid")

    # ---- files
    if rng.random() < 0.3:
        tmp = tempfile.mkdtemp(prefix="verif_c17_")
        try:
            if rng.random() < 0.6:
                res.save(os.path.join(tmp, "r"))
                ld = ER.from_npz(os.path.join(tmp, "r.npz"))
                ld2 = ER.from_npz(os.path.join(tmp, "r.npz"))
                ctx.ev()
                if not np.array_equal(ld.dataSmooth, data):     # smoothers are not stored: a loaded result has none
                    ctx.violation("dataSmooth:changed_without_smoothers", "a result loaded from npz (no smoothers) was changed", wit)
                ld2.set_smoother(list(objs) if ne != 1 or rng.random() < 0.5 else objs[0])
                ctx.close("dataSmooth_after_from_npz+set_smoother!=dense_convolution", ld2.dataSmooth, ref, scale=scale, rtol=rtd,
                          what="save -> from_npz -> set_smoother -> dataSmooth", witness=wit)
                ctx.count("npz_then_set_smoother")
                if nonvoid:
                    ctx.count("npz_then_set_smoother_nonvoid")
                if True:   # second set_smoother after the smoothed data were read: fired on the unchanged tree, repaired in 7344f08d
                    ld.set_smoother(list(objs))
                    ctx.close("dataSmooth_after_second_set_smoother!=dense_convolution", ld.dataSmooth, ref, scale=scale, rtol=rtd,
                              what="from_npz -> dataSmooth -> set_smoother -> dataSmooth", witness=wit)
            elif data.ndim >= 1:
                fn = os.path.join(tmp, "r.dat")
                res.savetxt(fn)
                en, raw, smo = read_txt(fn, ne, cplx)
                ncomp = 3 ** rank
                ctx.ev()
                if raw.shape != (int(np.prod(NEs)), ncomp) or smo.shape != raw.shape:
                    ctx.violation("savetxt:layout", f"{raw.shape} + {smo.shape} columns for data of shape {shape}", wit)
                else:
                    # printed with 7 significant digits
                    for nm, got, want in (("raw", raw, data), ("smoothed", smo, ref)):
                        want = want.reshape(raw.shape)
                        err = np.abs(got - want)
                        tol = 1.01e-6 * np.maximum(np.abs(want.real), np.abs(want.imag)) + rtd * scale
                        ctx.ev()
                        if np.any(err > tol):
                            ctx.violation(f"savetxt:{nm}_columns!=dense_convolution" if nm == "smoothed" else "savetxt:raw_columns",
                                          f"{nm} columns of the text file differ from the {nm} data by up to {err.max():.3e} "
                                          f"(printed precision {tol.max():.1e})", wit)
                ctx.count("savetxt_checks")
                if effective:
                    ctx.count("savetxt_checks_effective")
        finally:
            shutil.rmtree(tmp, ignore_errors=True)

    if ne >= 1:
        # (fired on the unchanged tree - stale dataSmooth - repaired in 7344f08d)  the same object asked again with other smoothers (second set_smoother after the smoothed data were read)
        r = make(data)
        r.dataSmooth
        new = [(None if N < 2 else gen_smoother(rng, sm, E)) for N, E in zip(NEs, Energies)]
        r.set_smoother([None if x is None else x[0] for x in new])
        W2 = [np.eye(N) if x is None else dense_matrix(x[1], E) for x, N, E in zip(new, NEs, Energies)]
        ref2 = data
        for i in range(ne):
            ref2 = apply_dense(W2[i], ref2, i)
        rtd2 = RTOL + sum(rtol_dense(E) for x, E in zip(new, Energies) if x is not None and x[1]["kind"] != "Void")
        ctx.close("dataSmooth_after_second_set_smoother!=dense_convolution", r.dataSmooth, ref2, scale=scale, rtol=rtd2,
                  what="dataSmooth -> set_smoother(other) -> dataSmooth", witness=wit)
        monitors.assert_no_stale_caches(ctx, r, "EnergyResult.set_smoother", wit)
        ctx.count("second_set_smoother_after_read")

    # ---- values returned earlier stay valid; the first object was not changed by anything done since
    ctx.close("dataSmooth:value_returned_earlier_changed", sm_data, sm_first, scale=scale, rtol=0, atol=0,
              what="the array returned by the first reading, re-read at the end of the case", witness=wit)
    ctx.close("dataSmooth:second_reading_differs", res.dataSmooth, sm_first, scale=scale, rtol=0, atol=0,
              what="second reading of dataSmooth at the end of the case", witness=wit)
    ctx.ev()
    if not np.array_equal(res.data, data) or not np.array_equal(res2.data, data2):
        ctx.violation("dataSmooth:data_mutated", "an operation on a result changed its (or its operand's) raw data", wit)
    return wit, tuple(s["kind"] for s in specs), len(effective)


def case(ctx, rng, idx, state):
    special = SPECIAL[(idx // 5) % len(SPECIAL)] if idx % 5 == 0 else None
    wit, spec = part_single(ctx, rng, state, special)
    key = ("single", spec["kind"], min(spec["NE1"], 12), wit["NE"], len(wit["shape"]), wit["axis"], wit["complex"], special)
    if spec["kind"] != "Void" and spec["NE1"] >= 1:
        ctx.nontrivial(key)
    out = part_result(ctx, rng, state)
    if isinstance(out, tuple):
        w2, kinds, neff = out
        if neff >= 1:
            ctx.nontrivial(("result", kinds, tuple(w2["NE"]), w2["rank"], w2["complex"], tuple(s["NE1"] for s in w2["smoothers"])))
        ctx.sample(dict(single=wit, result=w2))


if __name__ == "__main__":
    harness.main(
        PROP, "exploration", case, setup_fn=setup,
        tiers=dict(quick=dict(cases=800, shards=8, time=900), thorough=dict(cases=30000, shards=16, time=3000)),
        rule="(A) one FermiDirac/Gaussian/Void smoother on an evenly spaced grid of 2-40 points, width 0.03-20 grid steps, "
             "maxdE default/int 1-12/float 0.2-40, array of 1-4 dims (equal extents in 30 %), random axis, real/complex; "
             "every 5th case one special class (grid of 100-300 points, kernel 20-1000 steps wide, integer grid, integer "
             "parameter, maxdE=0, cut-off exactly on a grid point); constructor forms (positional / numpy scalar / keywords / "
             "get_smoother), array layouts (C, F, strided view, read-only), numpy-integer axis; "
             "(B) EnergyResult with 0-4 energy axes of 2-12 points (one axis with 1 or 100-200 points in 12 % / 5 %), rank 0-3, "
             "every mix of FermiDirac/Gaussian/Void/None smoothers given in the constructor (list / tuple / bare), by "
             "set_smoother (once / replacing earlier ones), one object on two axes; then .max, derived results, transform, "
             "in-place add after reading, npz -> set_smoother, savetxt.  Non-trivial: the kernel "
             "reaches at least the neighbouring grid point (NE1>=1); distinct by (kind, NE1, grid size, ndim, axis, "
             "dtype, special class) resp. (smoother kinds, grid sizes, rank, dtype, NE1 per axis)",
        assumptions=["documented semantics: convolution with the kernel truncated at |dE| <= maxdE*smear and renormalised "
                     "over the grid points inside the window (so constants are preserved at the edges)",
                     "kT = T*k_B/e with the exact SI values; evenly spaced ascending grids only; float64/complex128 arrays "
                     "(integer arrays are silently truncated by the library, descending grids give NaN, a negative axis and "
                     "get_smoother(mode=None) raise: generated only with VERIF_C17_PENDING=1, reported as findings)",
                     "tie guard: maxdE*smear/dE at least 1e-6 (relative) away from an integer, except where the quotient is an "
                     "integer in exact arithmetic (integer / dyadic numbers): there the grid point at the cut-off is inside",
                     "tolerance 1e-11 of max|input| (of |c| for the constant array); for the dense reference "
                     "+ 2000*eps*max|E|/dE (rounding of the grid spacing), < 1e-7 throughout; text files to the printed 7 digits",
                     "a second set_smoother after dataSmooth was read is generated only with VERIF_C17_PENDING=1 (stale cache)"],
        required_counters=("smoother_FermiDirac", "smoother_Gaussian", "smoother_Void", "rows_truncated_at_edges",
                           "kernel_wider_than_grid", "kernel_narrower_than_step(NE1=0)", "cutoff_inside_kernel_bulk(maxdE<4)",
                           "default_maxdE", "off_axis_perturbation_checks", "get_smoother_checks",
                           "dataSmooth_1_energy_axes", "dataSmooth_2_energy_axes", "dataSmooth_3_energy_axes",
                           "dataSmooth_two_or_more_nonvoid", "dataSmooth_two_or_more_effective(NE1>=1)",
                           "dataSmooth_three_effective", "dataSmooth_without_smoothers",
                           "convolution_calls_inside_dataSmooth",
                           # widening
                           "form_big_grid", "big_grid_kernel_reaches_100_or_more_points_inside_grid", "form_wide_kernel",
                           "form_int_grid", "form_int_param", "form_maxdE_zero", "form_dyadic_tie",
                           "form_cutoff_exactly_on_grid_point", "form_maxdE_positional", "form_maxdE_numpy_scalar",
                           "form_keywords", "form_via_get_smoother", "form_via_get_smoother_keywords",
                           "array_layout_F", "array_layout_strided", "array_layout_readonly", "axis_numpy_integer",
                           "empty_off_axis_extent",
                           "dataSmooth_0_energy_axes", "dataSmooth_4_energy_axes", "dataSmooth_four_effective",
                           "single_energy_axis_next_to_effective_smoother", "long_axis_effective",
                           "one_smoother_object_on_two_axes(effective)", "rank_3",
                           "result_built_by_tuples", "result_built_by_set_smoother_twice", "result_built_by_bare",
                           "max_checks", "derived_result_checks_nonvoid", "mul_array_along_an_energy_axis",
                           "transform_checks_nonvoid", "in_place_add_after_read_nonvoid", "npz_then_set_smoother_nonvoid",
                           "savetxt_checks_effective"),
    )
