"""C17 - energy smoothing applies every axis smoother (REF).

Part A (every case): one smoother (FermiDirac / Gaussian / Void, random grid, width, cut-off maxdE) applied to a
random array along a random axis is compared with an independent *dense-matrix convolution*:
    W[i, j] = kernel(E_j - E_i)  if |E_j - E_i| <= maxdE * smear  else 0,   rows renormalised to sum 1
(kernel: -df/dE of the Fermi function with kT = T k_B/e, written as e^-|x| / (kT (1+e^-|x|)^2); Gaussian
exp(-(E/s)^2)/(s sqrt(pi)); constants hard-coded from the SI definitions).  Because the rows are renormalised
over the part of the kernel that lies inside the grid, a constant array is mapped to the same constant also at
the edges - asserted separately, as are linearity, "acts only along the requested axis" (off-axis perturbation
leaves the other fibres untouched; every fibre equals the 1-D smoothing of that fibre), shape, non-mutation of
the input, Void = identity, and get_smoother() building the same smoother / a void one.

Part B: EnergyResult.dataSmooth for 1-3 energy axes with every combination of {FermiDirac, Gaussian, Void, None}
is compared with (a) the dense matrices applied along every axis, in both orders, and (b) the real __call__
composed along the axes in both orders; no smoothers -> data unchanged; dataSmooth linear in the result.

The cut-off is discontinuous in maxdE*smear/dE: cases closer than 1e-6 to an integer are regenerated (tie guard).
"""
import os
import sys

sys.path.insert(0, os.path.dirname(os.path.dirname(os.path.abspath(__file__))))
from vlib import env, harness  # noqa: E402
import numpy as np  # noqa: E402

PROP = "C17"
RTOL = 1e-11
KB_EV = 1.380649e-23 / 1.602176634e-19      # k_B / e  (both exact in the SI), eV per kelvin


def setup(ctx):
    env.import_wb()
    from wannierberri import smoother as sm
    from wannierberri.result import EnergyResult
    from wannierberri.symmetry.point_symmetry import transform_ident
    import wannierberri
    state = dict(sm=sm, EnergyResult=EnergyResult, ident=transform_ident, wb=wannierberri, log=[])

    # in-situ call counter of the convolution (does not change any value)
    orig = sm.AbstractSmoother.__call__

    def counted(self, A, axis=0):
        state["log"].append((type(self).__name__, axis))
        return orig(self, A, axis=axis)
    sm.AbstractSmoother.__call__ = counted
    return state


# --------------------------------------------------------------------------------------------------
#  independent reference
# --------------------------------------------------------------------------------------------------
def kernel(kind, e, width_eV):
    if kind == "FermiDirac":
        x = np.abs(e) / width_eV
        ex = np.exp(-x)
        return ex / (width_eV * (1.0 + ex) ** 2)
    if kind == "Gaussian":
        return np.exp(-(e / width_eV) ** 2) / (width_eV * np.sqrt(np.pi))
    raise ValueError(kind)


def dense_matrix(spec, E):
    """NE x NE row-stochastic matrix of the documented smoother (explicit double loop)"""
    NE = len(E)
    if spec["kind"] == "Void":
        return np.eye(NE)
    W = np.zeros((NE, NE))
    cut = spec["maxdE"] * spec["width_eV"]
    for i in range(NE):
        for j in range(NE):
            d = E[j] - E[i]
            if abs(d) <= cut:
                W[i, j] = kernel(spec["kind"], d, spec["width_eV"])
        W[i] /= W[i].sum()
    return W


def rtol_dense(E):
    """tolerance of the comparison with the dense reference.  The kernel weights are functions of (E_j-E_i)/width;
    the grid itself carries a rounding error eps*max|E| per point, i.e. a relative error eps*max|E|/dE of the
    spacing that the library (dE = E[1]-E[0]) and the reference (E_j-E_i) see differently.  Observed deviation is
    about 0.5 of that estimate; the tolerance is 2000 x the estimate (+1e-11), still < 1e-7 for every generated
    grid, i.e. far below the 1e-4..1e-1 effect of a wrong kernel / cut-off / normalisation."""
    dE = (E[-1] - E[0]) / (len(E) - 1)
    return RTOL + 2e3 * 2.2e-16 * float(np.abs(E).max()) / dE


def apply_dense(W, A, axis):
    B = np.moveaxis(A, axis, 0)
    out = (W @ B.reshape(B.shape[0], -1)).reshape(B.shape)
    return np.moveaxis(out, 0, axis)


# --------------------------------------------------------------------------------------------------
#  generators
# --------------------------------------------------------------------------------------------------
def gen_grid(rng, NE):
    e0 = rng.uniform(-10, 10)
    span = 10 ** rng.uniform(-1.3, 1.3)
    return np.linspace(e0, e0 + span, NE)


def gen_smoother(rng, sm, E, kind=None):
    """-> (smoother object, spec).  Width relative to the grid step between 0.03 and 20 steps"""
    if kind is None:
        kind = ["FermiDirac", "Gaussian", "Void"][int(rng.choice(3, p=[0.42, 0.42, 0.16]))]
    if kind == "Void":
        return sm.VoidSmoother(), dict(kind="Void", NE1=0, maxdE=None, width_eV=None)
    NE = len(E)
    dE = (E[-1] - E[0]) / (NE - 1)
    for _ in range(100):
        width = dE * 10 ** rng.uniform(-1.5, 1.3)
        r = rng.random()
        if r < 0.3:
            maxdE = None
        elif r < 0.6:
            maxdE = int(rng.integers(1, 13))
        elif r < 0.95:
            maxdE = float(10 ** rng.uniform(-0.7, 1.1))
        else:
            maxdE = float(rng.uniform(15, 40))
        m = 8 if maxdE is None else maxdE
        x = m * width / dE
        if abs(x - round(x)) > 1e-6 * max(1.0, x):      # tie guard on the cut-off
            break
    else:
        raise harness.Skip("tie")
    kw = {} if maxdE is None else dict(maxdE=maxdE)
    if kind == "FermiDirac":
        T = width / KB_EV
        obj = sm.FermiDiracSmoother(E.copy(), T, **kw)
        param = T
    else:
        obj = sm.GaussianSmoother(E.copy(), width, **kw)
        param = width
    return obj, dict(kind=kind, width_eV=float(width), maxdE=m, maxdE_given=maxdE, NE1=int(np.floor(x)), param=float(param),
                     width_over_dE=float(width / dE))


def rand_array(rng, shape, cplx, amp=None):
    amp = 10 ** rng.uniform(-3, 3) if amp is None else amp
    A = rng.normal(size=shape)
    if cplx:
        A = A + 1j * rng.normal(size=shape)
    return A * amp


def count_spec(ctx, spec, NE):
    ctx.count("smoother_" + spec["kind"])
    if spec["kind"] == "Void":
        return
    if spec["NE1"] == 0:
        ctx.count("kernel_narrower_than_step(NE1=0)")
    elif spec["NE1"] >= NE - 1:
        ctx.count("kernel_wider_than_grid")
    else:
        ctx.count("rows_truncated_at_edges")
    if spec["maxdE_given"] is None:
        ctx.count("default_maxdE")
    elif spec["maxdE"] * 1.0 < 4:
        ctx.count("cutoff_inside_kernel_bulk(maxdE<4)")


# --------------------------------------------------------------------------------------------------
def part_single(ctx, rng, st):
    sm = st["sm"]
    NE = int(rng.integers(2, 41 if not ctx.thorough else 80))
    if rng.random() < 0.15:
        NE = int(rng.integers(2, 5))
    E = gen_grid(rng, NE)
    S, spec = gen_smoother(rng, sm, E)
    kind = spec["kind"]
    ndim = int(rng.integers(1, 5))
    axis = int(rng.integers(ndim))
    shape = [int(rng.integers(1, 5)) for _ in range(ndim)]
    if rng.random() < 0.3:        # equal extents: a wrong transposition would not change the shape
        shape = [NE if NE <= 6 else shape[0]] * ndim
    shape[axis] = NE
    shape = tuple(shape)
    cplx = bool(rng.random() < 0.4)
    A = rand_array(rng, shape, cplx)
    B = rand_array(rng, shape, cplx, amp=np.abs(A).max())
    A0 = A.copy()
    wit = dict(kind=kind, NE=NE, E0=E[0], E1=E[-1], shape=shape, axis=axis, complex=cplx,
               **{k: v for k, v in spec.items() if k != "kind"})
    scale = float(np.abs(A).max())
    W = dense_matrix(spec, E)
    tag = f"smoother[{kind}]"

    out = S(A, axis=axis)
    ctx.ev()
    if not isinstance(out, np.ndarray) or out.shape != shape:
        ctx.violation(tag + ":shape", f"output shape {getattr(out, 'shape', None)} != input shape {shape}", wit)
        return wit, spec
    rtd = rtol_dense(E) if kind != "Void" else RTOL
    ctx.close(tag + "!=dense_convolution", out, apply_dense(W, A, axis), scale=scale, rtol=rtd,
              what=f"S(A, axis={axis})", witness=wit)
    if axis == 0:
        ctx.close(tag + "!=dense_convolution", S(A), apply_dense(W, A, 0), scale=scale, rtol=rtd,
                  what="S(A) default axis", witness=wit)
    # linear
    al, be = (rng.normal(), rng.normal()) if not cplx else (complex(*rng.normal(size=2)), complex(*rng.normal(size=2)))
    ctx.close(tag + ":not_linear", S(al * A + be * B, axis=axis), al * out + be * S(B, axis=axis),
              scale=scale * (abs(al) + abs(be)), rtol=RTOL, what="S(aA+bB) vs aS(A)+bS(B)", witness=wit)
    # constants are preserved (also at the edges of the grid)
    c = complex(*rng.normal(size=2)) * 10 ** rng.uniform(-3, 3) if cplx else float(rng.normal() * 10 ** rng.uniform(-3, 3))
    C = np.full(shape, c)
    ctx.close(tag + ":constant_not_preserved", S(C, axis=axis), C, rtol=RTOL, what="S(const)", witness=dict(wit, const=c))
    # acts only along the requested axis
    if ndim >= 2 and np.prod(shape) > NE:
        other = [i for i in range(ndim) if i != axis and shape[i] > 1]
        if other:
            idx = [slice(None)] * ndim
            pos = {}
            for i in other:
                pos[i] = int(rng.integers(shape[i]))
                idx[i] = pos[i]
            A2 = A.copy()
            A2[tuple(idx)] += rand_array(rng, A2[tuple(idx)].shape, cplx, amp=scale)   # perturb one fibre
            out2 = S(A2, axis=axis)
            mask = np.ones(shape, dtype=bool)
            mask[tuple(idx)] = False
            ctx.close(tag + ":acts_across_other_axes", out2[mask], out[mask], scale=scale, rtol=RTOL,
                      what="perturbing one fibre changed other fibres", witness=wit)
            ctx.count("off_axis_perturbation_checks")
        for _ in range(2):
            idx = [int(rng.integers(s)) for s in shape]
            idx[axis] = slice(None)
            fibre = np.ascontiguousarray(A[tuple(idx)])
            ctx.close(tag + ":fibre!=1D_smoothing", out[tuple(idx)], S(fibre, axis=0), scale=scale, rtol=RTOL,
                      what=f"fibre {idx}", witness=wit)
    ctx.ev()
    if not np.array_equal(A, A0):
        ctx.violation(tag + ":input_mutated", "the smoother modified its input", wit)
    if kind == "Void":
        ctx.ev()
        if not np.array_equal(out, A0):
            ctx.violation("smoother[Void]:not_identity", "VoidSmoother changed the array", wit)
    count_spec(ctx, spec, NE)

    # get_smoother builds the same thing
    if kind != "Void" and spec["maxdE_given"] is None:
        mode = "Fermi-Dirac" if kind == "FermiDirac" else "Gaussian"
        g = sm.get_smoother(E, spec["param"], mode)
        ctx.ev()
        if type(g) is not type(S) or not (g == S):
            ctx.violation("get_smoother:different_smoother", f"get_smoother(E, {spec['param']}, {mode!r}) -> {g}", wit)
        else:
            ctx.close("get_smoother!=dense_convolution", g(A, axis=axis), apply_dense(W, A, axis), scale=scale, rtol=rtd,
                      what="get_smoother(...)(A)", witness=wit)
        ctx.count("get_smoother_checks")
    if rng.random() < 0.2:
        for args in ((None, 0.1, "Gaussian"), (E, None, "Gaussian"), (E, 0.0, "Fermi-Dirac"), (E, -1.0, "Gaussian"),
                     (E[:1], 0.1, "Fermi-Dirac")):
            g = sm.get_smoother(*args)
            ctx.ev()
            if not isinstance(g, sm.VoidSmoother) or not np.array_equal(g(A, axis=axis), A0):
                ctx.violation("get_smoother:void_expected", f"get_smoother{args[1:]} is not a void smoother", wit)
    return wit, spec


def part_result(ctx, rng, st):
    sm = st["sm"]
    ER = st["EnergyResult"]
    ne = int(rng.choice([1, 2, 3], p=[0.2, 0.45, 0.35]))
    rank = int(rng.integers(0, 3))
    NEs = [int(rng.integers(2, 13)) for _ in range(ne)]
    if rng.random() < 0.3:
        NEs = [NEs[0]] * ne
    Energies = [gen_grid(rng, N) for N in NEs]
    forced = None
    if ne >= 2 and rng.random() < 0.5:
        forced = ["FermiDirac", "Gaussian"]
    objs, specs = [], []
    for i, E in enumerate(Energies):
        k = None
        if forced is not None:
            k = forced[int(rng.integers(2))]
        if forced is None and rng.random() < 0.12:
            objs.append(None)                      # "no smoother given" for this axis
            specs.append(dict(kind="Void", NE1=0, maxdE=None, width_eV=None, maxdE_given=None, given_as_None=True))
            continue
        o, s = gen_smoother(rng, sm, E, kind=k)
        objs.append(o)
        specs.append(s)
    cplx = bool(rng.random() < 0.4)
    shape = tuple(NEs) + (3,) * rank
    data = rand_array(rng, shape, cplx)
    data2 = rand_array(rng, shape, cplx, amp=np.abs(data).max())
    scale = float(np.abs(data).max())
    nonvoid = [i for i, s in enumerate(specs) if s["kind"] != "Void"]
    effective = [i for i in nonvoid if specs[i]["NE1"] >= 1]
    wit = dict(n_energies=ne, NE=NEs, rank=rank, complex=cplx,
               smoothers=[dict(kind=s["kind"], NE1=s["NE1"], maxdE=s["maxdE"], width_eV=s["width_eV"]) for s in specs])

    def make(d):
        how = int(rng.integers(3))
        kw = dict(transformTR=st["ident"], transformInv=st["ident"])
        if all(o is None for o in objs) and how == 0:
            return ER([E.copy() for E in Energies], d.copy(), **kw)             # smoothers not given at all
        if how == 1:
            r = ER([E.copy() for E in Energies], d.copy(), **kw)
            r.set_smoother(list(objs))
            return r
        if ne == 1 and how == 2:
            return ER(Energies[0].copy(), d.copy(), smoothers=objs[0], **kw)    # bare objects are accepted
        return ER([E.copy() for E in Energies], d.copy(), smoothers=list(objs), **kw)

    res = make(data)
    del st["log"][:]
    sm_data = res.dataSmooth
    ncalls = sum(1 for c in st["log"] if c[0] != "VoidSmoother")
    ctx.count("convolution_calls_inside_dataSmooth", ncalls)
    ctx.ev()
    if not np.array_equal(res.data, data):
        ctx.violation("dataSmooth:data_mutated", "dataSmooth modified the raw data", wit)
    if sm_data.shape != shape:
        ctx.violation("dataSmooth:shape", f"{sm_data.shape} != {shape}", wit)
        return wit
    Ws = [dense_matrix(s, E) for s, E in zip(specs, Energies)]
    rtd = RTOL + sum(rtol_dense(Energies[i]) for i in nonvoid)
    for order, nm in ((list(range(ne)), "axis order 0..n"), (list(range(ne))[::-1], "axis order n..0")):
        ref = data
        for i in order:
            ref = apply_dense(Ws[i], ref, i)
        ctx.close("dataSmooth!=dense_convolution_along_every_axis", sm_data, ref, scale=scale, rtol=rtd,
                  what="dataSmooth vs dense matrices, " + nm, witness=wit)
        comp = data
        for i in order:
            if objs[i] is not None:
                comp = objs[i](comp, axis=i)
        ctx.close("dataSmooth!=composition_of_axis_smoothers", sm_data, comp, scale=scale, rtol=RTOL,
                  what="dataSmooth vs composed __call__, " + nm, witness=wit)
    if not nonvoid:
        ctx.ev()
        if not np.array_equal(sm_data, data):
            ctx.violation("dataSmooth:changed_without_smoothers", "a result without smoothers was changed", wit)
        ctx.count("dataSmooth_without_smoothers")
    # dataSmooth is linear in the result (the smoothers travel with + and *)
    res2 = make(data2)
    c = float(rng.uniform(-3, 3))
    ctx.close("dataSmooth:not_linear_in_result", (res * c + res2).dataSmooth, c * sm_data + res2.dataSmooth,
              scale=scale * (abs(c) + 1), rtol=RTOL, what="(c*a+b).dataSmooth", witness=wit)
    ctx.count(f"dataSmooth_{ne}_energy_axes")
    if len(nonvoid) >= 2:
        ctx.count("dataSmooth_two_or_more_nonvoid")
    if len(effective) >= 2:
        ctx.count("dataSmooth_two_or_more_effective(NE1>=1)")
    if len(effective) == 3:
        ctx.count("dataSmooth_three_effective")
    return wit, tuple(s["kind"] for s in specs), len(effective)


def case(ctx, rng, idx, state):
    wit, spec = part_single(ctx, rng, state)
    key = ("single", spec["kind"], min(spec["NE1"], 12), wit["NE"], len(wit["shape"]), wit["axis"], wit["complex"])
    if spec["kind"] != "Void" and spec["NE1"] >= 1:
        ctx.nontrivial(key)
    out = part_result(ctx, rng, state)
    if isinstance(out, tuple):
        w2, kinds, neff = out
        if neff >= 1:
            ctx.nontrivial(("result", kinds, tuple(w2["NE"]), w2["rank"], w2["complex"], tuple(s["NE1"] for s in w2["smoothers"])))
        ctx.sample(dict(single=wit, result=w2))


if __name__ == "__main__":
    harness.main(
        PROP, "exploration", case, setup_fn=setup,
        tiers=dict(quick=dict(cases=800, shards=8, time=900), thorough=dict(cases=30000, shards=16, time=3000)),
        rule="(A) one FermiDirac/Gaussian/Void smoother on an evenly spaced grid of 2-40 points, width 0.03-20 grid steps, "
             "maxdE default/int 1-12/float 0.2-40, array of 1-4 dims (equal extents in 30 %), random axis, real/complex; "
             "(B) EnergyResult with 1-3 energy axes of 2-12 points, rank 0-2, every mix of FermiDirac/Gaussian/Void/None "
             "smoothers given in the constructor, by set_smoother or as a bare object.  Non-trivial: the kernel "
             "reaches at least the neighbouring grid point (NE1>=1); distinct by (kind, NE1, grid size, ndim, axis, "
             "dtype) resp. (smoother kinds, grid sizes, rank, dtype, NE1 per axis)",
        assumptions=["documented semantics: convolution with the kernel truncated at |dE| <= maxdE*smear and renormalised "
                     "over the grid points inside the window (so constants are preserved at the edges)",
                     "kT = T*k_B/e with the exact SI values; evenly spaced ascending grids only; float64/complex128 arrays "
                     "(integer arrays are silently truncated by the library: outside the generated domain)",
                     "tie guard: maxdE*smear/dE at least 1e-6 (relative) away from an integer",
                     "tolerance 1e-11 of max|input| (of |c| for the constant array); for the dense reference "
                     "+ 2000*eps*max|E|/dE (rounding of the grid spacing), < 1e-7 throughout"],
        required_counters=("smoother_FermiDirac", "smoother_Gaussian", "smoother_Void", "rows_truncated_at_edges",
                           "kernel_wider_than_grid", "kernel_narrower_than_step(NE1=0)", "cutoff_inside_kernel_bulk(maxdE<4)",
                           "default_maxdE", "off_axis_perturbation_checks", "get_smoother_checks",
                           "dataSmooth_1_energy_axes", "dataSmooth_2_energy_axes", "dataSmooth_3_energy_axes",
                           "dataSmooth_two_or_more_nonvoid", "dataSmooth_two_or_more_effective(NE1>=1)",
                           "dataSmooth_three_effective", "dataSmooth_without_smoothers",
                           "convolution_calls_inside_dataSmooth"),
    )
