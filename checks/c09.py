"""C09 - point-group operations form a group acting on tensors (REF + INV).

Oracle (harness side, vlib.gen_groups): every generator string is parsed by the harness and turned into an
*improper* 3x3 matrix with Rodrigues' formula (+ a time-reversal flag); the group is closed independently;
tensors are transformed with an explicit einsum over the improper matrix, with the inversion / time-reversal
Transform re-implemented from its docstring (factor, conj, transpose_axes, swap_axes).

What is decided on the real code (wannierberri/symmetry/point_symmetry.py):
  * |G| = textbook order (x2 for gray groups; n or 2n for black-white groups, decided by "pure TR in the closure"),
    the element set equals the independent closure, no element listed twice, closure / identity / inverses
    through the library's own ``*`` and ``==``;
  * the lattice given to the group is invariant (integer matrices), ``check_basis_symmetry`` is True on it and
    a clearly incompatible lattice is rejected; ``symmetric_grid`` equals an exact integer divisibility test;
  * ``transform_tensor(g1*g2) = transform_tensor(g1) o transform_tensor(g2)`` and both equal the einsum oracle,
    ranks 0-4, real and complex data, all pairs of pre-defined Transforms (+TransformProducts, random custom ones);
  * ``symmetrize_tensor`` = explicit group average, idempotent, invariant under every element;
  * ``star(k)`` = distinct images modulo reciprocal-lattice vectors, each exactly once;
  * ``as_dict`` -> ``PointGroup(dictionary=...)`` round trip (plain dict and through an npz file);
  * ``PointGroup(spacegroup=...)`` for the structure catalogue.
Pairs (transformTR, transformInv) whose axis permutations do not commute (or are no involutions) cannot give
a group action with any implementation: counted ``outside_domain_*``, only the single-element oracle is used.
"""
import io
import os
import sys

sys.path.insert(0, os.path.dirname(os.path.dirname(os.path.abspath(__file__))))
from vlib import env, harness, gen_systems, gen_groups as gg  # noqa: E402
import numpy as np  # noqa: E402

PROP = "C09"
RTOL = 1e-10
LETTERS = "abcd"
BIG = "ijkl"


# ------------------------------------------------------------------ oracle pieces
def spec(factor=1, conj=False, transpose_axes=None, swap_axes=None):
    return dict(factor=factor, conj=conj, transpose_axes=transpose_axes, swap_axes=swap_axes)


PREDEFINED = {
    "transform_ident": spec(),
    "transform_odd": spec(factor=-1),
    "transform_odd_conj": spec(factor=-1, conj=True),
    "transform_odd_trans_021": spec(factor=-1, transpose_axes=(0, 2, 1)),
    "transform_odd_trans_102": spec(factor=-1, transpose_axes=(1, 0, 2)),
    "transform_trans": spec(transpose_axes=(1, 0)),
}


def oracle_transform(sp, x):
    """Transform semantics re-implemented from the class docstring (out of place)"""
    y = x
    if sp["transpose_axes"] is not None:
        ta = sp["transpose_axes"]
        lead = x.ndim - len(ta)
        y = np.transpose(x, tuple(range(lead)) + tuple(lead + a for a in ta))
    elif sp["swap_axes"] is not None:
        y = np.swapaxes(x, *sp["swap_axes"])
    if sp["conj"]:
        y = np.conj(y)
    return sp["factor"] * y


def perm_of(sp, rank):
    """permutation of the last `rank` axes induced by the transform (None: touches non-tensor axes)"""
    p = list(range(rank))
    if sp["transpose_axes"] is not None:
        ta = sp["transpose_axes"]
        m = len(ta)
        if m > rank:
            return None
        p = list(range(rank - m)) + [rank - m + a for a in ta]
    elif sp["swap_axes"] is not None:
        a, b = sp["swap_axes"]
        if not (a < 0 and b < 0 and -a <= rank and -b <= rank):
            return None
        p[rank + a], p[rank + b] = p[rank + b], p[rank + a]
    return tuple(p)


def compose(p, q):
    return tuple(p[i] for i in q)


def oracle_action(M, TR, x, rank, spTR, spInv):
    """tensor action with the improper matrix M: every tensor index is contracted with M, the factor
    (-1)^rank of a true tensor is taken out again and replaced by the user's inversion transform"""
    y = x
    if rank > 0:
        sub = "..." + LETTERS[:rank] + "," + ",".join(BIG[i] + LETTERS[i] for i in range(rank)) + "->..." + BIG[:rank]
        y = np.einsum(sub, x, *([M] * rank))
    if np.linalg.det(M) < 0:
        y = y * (-1) ** rank
        y = oracle_transform(spInv, y)
    if TR:
        y = oracle_transform(spTR, y)
    return y


def lib_matrix(s):
    """improper matrix and TR flag as stored by the library element"""
    return np.array(s.R) * (-1 if s.Inv else 1), bool(s.TR)


def match_index(M, TR, group, tol=1e-8):
    hits = [i for i, (M2, T2) in enumerate(group) if T2 == TR and np.abs(M2 - M).max() < tol]
    return hits


def rand_data(rng, shape, cplx):
    x = rng.normal(size=shape)
    if cplx:
        x = x + 1j * rng.normal(size=shape)
    return x


# ------------------------------------------------------------------ setup
def setup(ctx):
    env.import_wb()
    from wannierberri.symmetry import point_symmetry as ps
    lib_tr = {name: getattr(ps, name) for name in PREDEFINED}
    return dict(ps=ps, lib_tr=lib_tr)


def make_transform(ps, sp):
    return ps.Transform(factor=sp["factor"], conj=sp["conj"], transpose_axes=sp["transpose_axes"],
                        swap_axes=sp["swap_axes"])


def random_custom_spec(rng, rank):
    sp = spec(factor=int(rng.choice([1, -1])), conj=bool(rng.random() < 0.5))
    if rank >= 2 and rng.random() < 0.8:
        if rng.random() < 0.5:
            m = int(rng.integers(2, rank + 1))
            perm = list(range(m))
            i, j = rng.choice(m, 2, replace=False)
            perm[i], perm[j] = perm[j], perm[i]
            if m == 4 and rng.random() < 0.5:
                rest = [k for k in range(m) if k not in (i, j)]
                perm[rest[0]], perm[rest[1]] = perm[rest[1]], perm[rest[0]]
            sp["transpose_axes"] = tuple(int(a) for a in perm)
        else:
            i, j = rng.choice(rank, 2, replace=False)
            sp["swap_axes"] = (-int(i) - 1, -int(j) - 1)
    return sp


# ------------------------------------------------------------------ sub-checks
def check_product_strings(ctx, ps, rng):
    """'A*B*C' must be the operation A.B.C (left factor acts last) - also for factors that do not commute; and a group declared by such
    a string alone must be the closure of that operation (the reversed product generally generates another group)"""
    cubic = ["C4z", "C4x", "C4y", "Mx", "My", "Mz", "C2x", "C2y", "C2z", "Inversion", "TimeReversal"]
    hexa = ["C6z", "C3z", "C2z", "Mx", "My", "Mz", "C2x", "C2y", "Inversion", "TimeReversal"]
    pool, lat = (cubic, np.eye(3) * 2.3) if rng.random() < 0.6 else (hexa, np.array([[1, 0, 0], [-0.5, gg.SQ3 / 2, 0], [0, 0, 1.7]]))
    nf = int(rng.integers(2, 5))
    names = [pool[int(i)] for i in rng.integers(len(pool), size=nf)]
    string = "*".join(names)
    M, TR = gg.generator_matrix(string)
    Mrev, _ = gg.generator_matrix("*".join(names[::-1]))
    wit = dict(string=string, order_matters=bool(np.abs(M - Mrev).max() > 1e-9))
    op = ps.from_string_prod(string)
    Ml, TRl = lib_matrix(op)
    ctx.close("from_string_prod!=ordered_matrix_product", Ml, M, rtol=1e-12, scale=1.0, what=string, witness=wit)
    if TRl != TR:
        ctx.violation("from_string_prod!=ordered_matrix_product", f"{string}: TR={TRl}, expected {TR}", wit)
    G = ps.PointGroup([string], real_lattice=lat)
    oracle = gg.close_group([(M, TR)])
    libset = [lib_matrix(e) for e in G.symmetries]
    if len(libset) != len(oracle) or any(len(match_index(Mo, To, libset)) != 1 for Mo, To in oracle):
        ctx.violation("PointGroup(['A*B*...'])!=closure_of_the_ordered_product", f"{string}: {len(libset)} elements, oracle {len(oracle)}", wit)
    ctx.count("product_strings_checked")
    if wit["order_matters"]:
        ctx.count("product_strings_noncommuting")


def check_group_structure(ctx, ps, G, oracle, expected_order, wit, rng):
    n = G.size
    ctx.count("groups_built")
    if n != expected_order:
        ctx.violation("PointGroup:order!=known_order", f"size {n}, known order {expected_order}", wit)
    ctx.ev()
    # element set against the independent closure
    used = {}
    ok = True
    for i, s in enumerate(G.symmetries):
        M, TR = lib_matrix(s)
        R = np.array(s.R)
        if abs(np.linalg.det(R) - 1) > 1e-9 or np.abs(R @ R.T - np.eye(3)).max() > 1e-9:
            ctx.violation("PointSymmetry:R_not_proper_rotation", f"element {i}: det={np.linalg.det(R)}", wit)
        if (s.iTR, s.iInv) != (-1 if s.TR else 1, -1 if s.Inv else 1):
            ctx.violation("PointSymmetry:iTR_iInv_inconsistent", f"element {i}", wit)
        hits = match_index(M, TR, oracle)
        if len(hits) != 1 or hits[0] in used:
            ok = False
            ctx.violation("PointGroup:elements!=independent_closure",
                          f"library element {i} matches oracle elements {hits} (already used: {hits and hits[0] in used})", wit)
            break
        used[hits[0]] = i
        d = s.as_dict()
        if np.abs(np.array(d["R"]) - M).max() > 1e-12 or bool(d["TR"]) != TR:
            ctx.violation("PointSymmetry.as_dict!=improper_matrix", f"element {i}", wit)
    ctx.ev(n)
    if ok and len(used) != len(oracle):
        ctx.violation("PointGroup:elements!=independent_closure", f"{len(oracle) - len(used)} oracle elements missing", wit)
        ok = False
    # closure, identity, inverses through the library's own operators
    syms = G.symmetries
    nid = sum(1 for s in syms if s == ps.Identity)
    ctx.ev()
    if nid != 1:
        ctx.violation("PointGroup:identity_count", f"identity appears {nid} times", wit)
    pairs = [(i, j) for i in range(n) for j in range(n)]
    if len(pairs) > 500:
        sel = rng.choice(len(pairs), 500, replace=False)
        pairs = [pairs[k] for k in sel]
    for i, j in pairs:
        p = syms[i] * syms[j]
        cnt = sum(1 for s in syms if s == p)
        if cnt != 1:
            ctx.violation("PointGroup:not_closed", f"product of elements {i},{j} found {cnt} times in the group", wit)
            break
        Mi, Ti = lib_matrix(syms[i])
        Mj, Tj = lib_matrix(syms[j])
        Mp, Tp = lib_matrix(p)
        if np.abs(Mp - Mi @ Mj).max() > 1e-10 or Tp != (Ti != Tj):
            ctx.violation("PointSymmetry.__mul__!=matrix_product", f"elements {i},{j}", wit)
            break
    ctx.ev(len(pairs))
    ctx.count("closure_pairs", len(pairs))
    for i, s in enumerate(syms):
        right = [j for j, h in enumerate(syms) if (s * h) == ps.Identity]
        if len(right) != 1 or not ((syms[right[0]] * s) == ps.Identity):
            ctx.violation("PointGroup:inverse_missing", f"element {i}: right inverses {right}", wit)
            break
    ctx.ev(n)
    return ok


def check_lattice(ctx, ps, G, L, oracle, wit, rng):
    B = 2 * np.pi * np.linalg.inv(L).T
    ctx.close("PointGroup:stored_lattice", G.real_lattice, L, rtol=1e-12, what="real_lattice", witness=wit)
    ctx.close("PointGroup:stored_lattice", G.recip_lattice, B, rtol=1e-10, what="recip_lattice", witness=wit)
    worst = 0.0
    for s in G.symmetries:
        M, TR = lib_matrix(s)
        for bas in (L, B):
            A = bas @ M.T @ np.linalg.inv(bas)
            worst = max(worst, np.abs(A - np.round(A)).max())
    ctx.ev(G.size)
    ctx.dev("PointGroup:lattice_not_invariant", worst / 1e-7)
    if worst > 1e-7:
        ctx.violation("PointGroup:lattice_not_invariant", f"max distance from an integer matrix {worst:.2e}", wit)
    for nm, bas in (("real", G.real_lattice), ("recip", G.recip_lattice)):
        ctx.ev()
        if not G.check_basis_symmetry(bas):
            ctx.violation("check_basis_symmetry:false_on_compatible_lattice", nm, wit)
    # transform_reduced_vector against the documented action  k -> iTR * iInv * (R @ k)
    for s in [G.symmetries[int(i)] for i in rng.integers(G.size, size=min(G.size, 6))]:
        M, TR = lib_matrix(s)
        bas = B if rng.random() < 0.7 else gg.BRAVAIS["triclinic"](rng)
        v = rng.normal(size=(int(rng.integers(1, 4)), 3))
        exp = ((v @ bas) @ M.T * (-1 if TR else 1)) @ np.linalg.inv(bas)
        ctx.close("transform_reduced_vector!=oracle", s.transform_reduced_vector(v, bas), exp, rtol=RTOL,
                  scale=np.abs(v).max(), what="reduced vector", witness=wit)
    # symmetric_grid against an exact integer divisibility test
    for _ in range(4):
        nk = rng.integers(1, 9, size=3)
        if rng.random() < 0.4:
            nk[:] = nk[0]
        elif rng.random() < 0.5:
            nk[1] = nk[0]
        expect = True
        for M, TR in oracle:
            A = np.round(B @ M.T @ np.linalg.inv(B)).astype(int)
            for i in range(3):
                for j in range(3):
                    if (A[i, j] * int(nk[j])) % int(nk[i]) != 0:
                        expect = False
        got = bool(G.symmetric_grid(nk))
        ctx.ev()
        ctx.count("symmetric_grid_true" if expect else "symmetric_grid_false")
        if got != expect:
            ctx.violation("symmetric_grid!=exact_integer_test", f"nk={nk.tolist()} library {got}, exact {expect}",
                          dict(nk=nk, **wit))


def check_incompatible_lattice(ctx, ps, gens_lib, gens_str, frame, wit, rng):
    Lbad = gg.incompatible_lattice_for(gens_str, rng)
    if Lbad is None:
        return
    if frame is not None:
        Lbad = Lbad @ frame.T
    ctx.ev()
    ctx.count("incompatible_lattice_tested")
    try:
        ps.PointGroup(gens_lib, real_lattice=Lbad)
    except AssertionError:
        return
    ctx.violation("PointGroup.__init__:incompatible_lattice_accepted",
                  "a lattice that is not invariant under the group was accepted", dict(lattice=Lbad, **wit))


def transform_pool(ps, lib_tr, rng, rank):
    """list of (label, library Transform, oracle spec)"""
    pool = [(name, lib_tr[name], sp) for name, sp in PREDEFINED.items()]
    # TransformProduct: factor = product of factors, conj = the common flag (transform of a product of quantities)
    for names in (("transform_odd", "transform_odd"), ("transform_odd", "transform_ident"),
                  ("transform_odd_conj", "transform_odd_conj"), ("transform_odd", "transform_odd", "transform_odd")):
        f = int(np.prod([PREDEFINED[nm]["factor"] for nm in names]))
        pool.append(("prod(" + ",".join(names) + ")", ps.TransformProduct(lib_tr[nm] for nm in names),
                     spec(factor=f, conj=PREDEFINED[names[0]]["conj"])))
    for _ in range(2):
        sp = random_custom_spec(rng, rank)
        pool.append((f"custom{sorted(sp.items())}", make_transform(ps, sp), sp))
    return pool


def check_transform_objects(ctx, ps, lib_tr, rng, wit):
    """Transform.__call__ and TransformProduct against the docstring semantics"""
    for rank in (2, 3, 4):
        for label, T, sp in transform_pool(ps, lib_tr, rng, rank):
            if perm_of(sp, rank) is None:
                continue
            x = rand_data(rng, (2,) + (3,) * rank, True)
            y = x.copy()
            out = T(y)
            exp = oracle_transform(sp, x)
            ctx.close("Transform.__call__!=docstring_semantics", out, exp, rtol=RTOL, scale=1.0, what=label, witness=wit)
            ctx.close("Transform.__call__!=docstring_semantics", y, exp, rtol=RTOL, scale=1.0, what=label + " (in place)",
                      witness=wit)
    # product of quantities: T_prod(A (x) B) = T_A(A) (x) T_B(B)
    for names in (("transform_odd", "transform_ident"), ("transform_odd", "transform_odd"),
                  ("transform_odd_conj", "transform_odd_conj"), ("transform_ident", "transform_ident")):
        A = rand_data(rng, (2, 3), True)
        Bm = rand_data(rng, (2, 3, 3), True)
        TP = ps.TransformProduct([lib_tr[nm] for nm in names])
        prod = np.einsum("na,nbc->nabc", A, Bm)
        exp = np.einsum("na,nbc->nabc", oracle_transform(PREDEFINED[names[0]], A), oracle_transform(PREDEFINED[names[1]], Bm))
        ctx.close("TransformProduct!=product_of_transforms", TP(prod.copy()), exp, rtol=RTOL, scale=1.0, what=str(names),
                  witness=wit)
    ctx.count("transform_objects")


def check_tensor_action(ctx, ps, lib_tr, G, oracle, rng, wit, ranks):
    syms = G.symmetries
    n = G.size
    for rank in ranks:
        pool = transform_pool(ps, lib_tr, rng, rank)
        npre = len(PREDEFINED)
        combos = [(a, b) for a in range(npre) for b in range(npre)]          # all pairs of pre-defined transforms
        while len(combos) < npre * npre + 12:                                 # + pairs with products / custom transforms
            a, b = int(rng.integers(len(pool))), int(rng.integers(len(pool)))
            if a >= npre or b >= npre:
                combos.append((a, b))
        for ia, ib in combos:
            for (lTR, TTR, spTR), (lInv, TInv, spInv) in [(pool[ia], pool[ib])]:
                pT, pI = perm_of(spTR, rank), perm_of(spInv, rank)
                if pT is None or pI is None:
                    ctx.count("outside_domain_transform_touches_non_tensor_axes")
                    continue
                idp = tuple(range(rank))
                involutive = compose(pT, pT) == idp and compose(pI, pI) == idp
                commuting = compose(pT, pI) == compose(pI, pT)
                nb = int(rng.integers(0, 3)) if rank > 0 else int(rng.integers(1, 3))
                shape = tuple(int(v) for v in rng.integers(1, 4, size=nb)) + (3,) * rank
                cplx = bool(rng.random() < 0.5)
                x = rand_data(rng, shape, cplx)
                x0 = x.copy()
                i, j = int(rng.integers(n)), int(rng.integers(n))
                g1, g2 = syms[i], syms[j]
                g12 = g1 * g2
                w = dict(rank=rank, transformTR=lTR, transformInv=lInv, shape=shape, complex=cplx, elements=(i, j), **wit)
                kw = dict(rank=rank, transformTR=TTR, transformInv=TInv)
                y2 = g2.transform_tensor(x, **kw)
                M2, T2 = lib_matrix(g2)
                both2 = T2 and np.linalg.det(M2) < 0
                if commuting or not both2:
                    ctx.close("transform_tensor!=einsum_oracle", y2, oracle_action(M2, T2, x0, rank, spTR, spInv), rtol=RTOL,
                              scale=np.abs(x0).max(), what="single element", witness=w)
                    ctx.count(f"tensor_oracle_rank{rank}")
                if np.abs(x - x0).max() > 0:
                    ctx.violation("transform_tensor:input_modified", "input array changed", w)
                if not (involutive and commuting):
                    ctx.count("outside_domain_noncommuting_or_noninvolutive_transforms")
                    continue
                y12 = g12.transform_tensor(x, **kw)
                y1y2 = g1.transform_tensor(y2, **kw)
                ctx.close("transform_tensor:not_a_group_action", y12, y1y2, rtol=RTOL, scale=np.abs(x0).max(),
                          what="T(g1*g2) vs T(g1)T(g2)", witness=w)
                M1, T1 = lib_matrix(g1)
                ctx.close("transform_tensor!=einsum_oracle", y12,
                          oracle_action(M1 @ M2, T1 != T2, x0, rank, spTR, spInv), rtol=RTOL,
                          scale=np.abs(x0).max(), what="product element", witness=w)
                ctx.count(f"action_law_rank{rank}")
                if cplx:
                    ctx.count("action_law_complex")
                if T1 or T2:
                    ctx.count("action_law_with_TR")
                if np.linalg.det(M1) < 0 or np.linalg.det(M2) < 0:
                    ctx.count("action_law_with_inversion")


def check_symmetrize(ctx, ps, lib_tr, G, oracle, rng, wit):
    n = G.size
    for rank in (0, 1, 2, 3, 4):
        pool = transform_pool(ps, lib_tr, rng, rank)
        ntry = 0
        for _ in range(40):
            if ntry >= (3 if rank < 4 else 2):
                break
            lTR, TTR, spTR = pool[int(rng.integers(len(pool)))]
            lInv, TInv, spInv = pool[int(rng.integers(len(pool)))]
            pT, pI = perm_of(spTR, rank), perm_of(spInv, rank)
            idp = tuple(range(rank))
            if pT is None or pI is None or compose(pT, pT) != idp or compose(pI, pI) != idp or compose(pT, pI) != compose(pI, pT):
                continue
            ntry += 1
            batch = rank == 0 or rng.random() < 0.5
            shape = ((int(rng.integers(1, 4)),) if batch else ()) + (3,) * rank
            cplx = bool(rng.random() < 0.5)
            x = rand_data(rng, shape, cplx)
            w = dict(rank=rank, transformTR=lTR, transformInv=lInv, shape=shape, complex=cplx, **wit)
            kw = dict(transformTR=TTR, transformInv=TInv)
            rk = dict(rank=rank) if (batch or rng.random() < 0.5) else {}
            S = G.symmetrize_tensor(x, **kw, **rk)
            exp = sum(oracle_action(M, TR, x, rank, spTR, spInv) for M, TR in oracle) / len(oracle)
            sc = np.abs(x).max()
            ctx.close("symmetrize_tensor!=oracle_average", S, exp, rtol=RTOL, scale=sc, what="average", witness=w)
            S2 = G.symmetrize_tensor(S, **kw, **rk)
            ctx.close("symmetrize_tensor:not_idempotent", S2, S, rtol=RTOL, scale=sc, what="S(S(x)) vs S(x)", witness=w)
            worst = 0.0
            for s in G.symmetries:
                worst = max(worst, np.abs(s.transform_tensor(S, rank=rank, **kw) - S).max())
            ctx.close("symmetrize_tensor:not_invariant", worst, 0.0, rtol=RTOL, scale=sc, what="max_g |T(g)S - S|", witness=w)
            ctx.count("symmetrize_checked")
            if np.abs(exp).max() > 1e-3 * sc:
                ctx.count("symmetrize_nonzero_result")
            if np.abs(exp - x).max() > 1e-3 * sc:
                ctx.count("symmetrize_changes_input")


KTEMPLATES = [
    lambda u, v, w: (u, v, w), lambda u, v, w: (0, 0, 0), lambda u, v, w: (0.5, 0.5, 0.5), lambda u, v, w: (0.5, 0, 0),
    lambda u, v, w: (0, 0.5, 0.5), lambda u, v, w: (1 / 3, 1 / 3, 0), lambda u, v, w: (1 / 3, 2 / 3, 0.5),
    lambda u, v, w: (2 / 3, 1 / 3, w), lambda u, v, w: (u, 0, 0), lambda u, v, w: (0, 0, w), lambda u, v, w: (u, u, 0),
    lambda u, v, w: (u, u, u), lambda u, v, w: (u, -u, 0), lambda u, v, w: (u, 2 * u, 0), lambda u, v, w: (u, v, 0),
    lambda u, v, w: (u, v, 0.5), lambda u, v, w: (0, v, w), lambda u, v, w: (0.5, v, 0), lambda u, v, w: (u, u, w),
    lambda u, v, w: (0.25, 0.25, 0.25), lambda u, v, w: (0.5, 0.25, 0.75), lambda u, v, w: (u, 0.5, 0.5),
    lambda u, v, w: (0.25, 0.75, w), lambda u, v, w: (u, v, -u - v), lambda u, v, w: (u, 0, -u),
]


def check_star(ctx, G, L, oracle, rng, wit, nk=8):
    B = 2 * np.pi * np.linalg.inv(L).T
    Binv = np.linalg.inv(B)
    A = [(-1 if TR else 1) * (B @ M.T @ Binv) for M, TR in oracle]      # action on reduced row vectors
    n = len(oracle)
    for it in range(nk):
        u, v, w = rng.uniform(0.06, 0.44, 3) * rng.choice([-1, 1], 3)
        tpl = KTEMPLATES[int(rng.integers(len(KTEMPLATES)))] if it > 0 else KTEMPLATES[0]
        k = np.array(tpl(u, v, w), dtype=float)
        if rng.random() < 0.4:
            k = k + rng.integers(-2, 3, size=3)
        images = np.array([k @ a for a in A])
        # distinct classes modulo 1
        classes = []
        tie = False
        for im in images:
            for c in classes:
                d = im - c
                dist = np.abs(d - np.round(d)).max()
                if dist < 1e-9:
                    break
                if dist < 1e-4:
                    tie = True
            else:
                classes.append(im)
        if tie:
            ctx.count("star_tie_skipped")
            continue
        st = np.array(G.star(k))
        ctx.ev()
        ctx.count("star_checked")
        if len(classes) < n:
            ctx.count("star_high_symmetry_k")
        if len(classes) == n:
            ctx.count("star_generic_k")
        w_ = dict(k=k, star_size=len(st), distinct_images=len(classes), **wit)
        if st.ndim != 2 or st.shape[1:] != (3,):
            ctx.violation("star!=distinct_images", f"shape {st.shape}", w_)
            continue
        hitcount = np.zeros(len(classes), dtype=int)
        bad = False
        for row in st:
            dd = [np.abs((row - c) - np.round(row - c)).max() for c in classes]
            j = int(np.argmin(dd))
            if dd[j] > 1e-7:
                bad = True
                break
            hitcount[j] += 1
        if bad or len(st) != len(classes) or np.any(hitcount != 1):
            ctx.violation("star!=distinct_images",
                          f"star has {len(st)} points, {len(classes)} distinct images, multiplicities {hitcount.tolist()}", w_)


def same_group(G1, G2):
    if G1.size != G2.size:
        return f"sizes {G1.size} vs {G2.size}"
    for i, (a, b) in enumerate(zip(G1.symmetries, G2.symmetries)):
        Ma, Ta = lib_matrix(a)
        Mb, Tb = lib_matrix(b)
        if np.abs(Ma - Mb).max() > 1e-14 or Ta != Tb:
            return f"element {i} differs"
    if np.abs(np.array(G1.real_lattice) - np.array(G2.real_lattice)).max() > 0:
        return "real_lattice differs"
    if np.abs(np.array(G1.recip_lattice) - np.array(G2.recip_lattice)).max() > 1e-12 * np.abs(G1.recip_lattice).max():
        return "recip_lattice differs"
    return None


def check_roundtrip(ctx, ps, G, wit):
    d = G.as_dict()
    G2 = ps.PointGroup(dictionary=d)
    ctx.ev()
    msg = same_group(G, G2)
    if msg:
        ctx.violation("as_dict_roundtrip", "plain dict: " + msg, wit)
    buf = io.BytesIO()
    np.savez(buf, **d)
    buf.seek(0)
    with np.load(buf, allow_pickle=False) as a:
        G3 = ps.PointGroup(dictionary=a)
    ctx.ev()
    msg = same_group(G, G3)
    if msg:
        ctx.violation("as_dict_roundtrip", "through npz: " + msg, wit)
    ctx.count("roundtrip")


def check_duplicates(ctx, ps, gens_str, expected_order, wit, rng):
    """a generator written twice (literally, or as an equal product) must not be listed twice"""
    pool = list(gens_str) if gens_str else ["Identity"]
    g = pool[int(rng.integers(len(pool)))]
    how = int(rng.integers(3))
    dup = [g, "Identity*" + g, g + "*Identity"][how]
    lst = list(gens_str) + [dup]
    lst = [lst[i] for i in rng.permutation(len(lst))]
    G = ps.PointGroup(lst)
    ctx.ev()
    ctx.count("duplicate_generator_lists")
    if G.size != expected_order:
        ctx.violation("PointGroup.__init__:duplicate_generators_kept",
                      f"generators {lst}: size {G.size}, expected {expected_order}", dict(generators_dup=lst, **wit))


# ------------------------------------------------------------------ cases
def group_case(ctx, rng, idx, state):
    ps = state["ps"]
    lib_tr = state["lib_tr"]
    pg = gg.POINT_GROUPS[idx % len(gg.POINT_GROUPS)]
    rnd = idx // len(gg.POINT_GROUPS)
    alts = gg.alternative_generators(pg["name"])
    gens0, kind = alts[0] if rnd == 0 else alts[int(rng.integers(len(alts)))]
    variant = ["ordinary", "gray", "bw"][rnd % 3] if rnd < 3 else ["ordinary", "gray", "bw"][int(rng.integers(3))]
    mv = gg.magnetic_variants(gens0, rng, nbw=1)
    if variant == "bw":
        keys = [k for k in mv if k.startswith("bw")]
        if not keys:
            variant, gens = "gray", mv["gray"]
        else:
            gens = mv[keys[0]]
    else:
        gens = mv[variant]
    gens = list(gens)
    # redundant (but pairwise distinct) extra generators, shuffled order
    if rng.random() < 0.5 and len(gens0) >= 1:
        base = gg.group_from_generators(gens)
        listed = [gg.generator_matrix(g) for g in gens]
        for _ in range(int(rng.integers(1, 3))):
            a, b = gens[int(rng.integers(len(gens)))], gens[int(rng.integers(len(gens)))]
            cand = a + "*" + b
            M, TR = gg.generator_matrix(cand)
            if not match_index(M, TR, listed) and len(cand) < 60:
                gens.append(cand)
                listed.append((M, TR))
        assert len(gg.group_from_generators(gens)) == len(base)
    gens = [gens[i] for i in rng.permutation(len(gens))]
    n0 = pg["order"]
    frame_mode = ["standard", "standard", "rotated_api", "rotated_matrix"][int(rng.integers(4))]
    if rnd == 0:
        frame_mode = "standard"
    Q = gen_systems.random_rotation(rng) if frame_mode != "standard" else None
    lname, L0 = gg.lattice_for(kind, rng)
    L = L0 if Q is None else L0 @ Q.T
    oracle = gg.group_from_generators(gens, frame=Q)
    has_pure_TR = len(match_index(np.eye(3), True, oracle)) == 1
    expected = n0 * (2 if has_pure_TR else 1)
    if variant == "ordinary" and has_pure_TR or variant == "gray" and not has_pure_TR:
        raise RuntimeError("catalogue inconsistent")
    if len(oracle) != expected:
        raise RuntimeError(f"oracle closure {len(oracle)} != expected {expected} for {pg['name']} {gens}")
    wit = dict(group=pg["name"], variant=variant, generators=gens, frame=frame_mode, lattice_name=lname, lattice=L,
               expected_order=expected)
    if Q is not None:
        wit["frame_matrix"] = Q
    if frame_mode == "standard":
        gens_lib = list(gens)
        if rng.random() < 0.3:       # mix strings and objects
            gens_lib = [ps.from_string_prod(g) if rng.random() < 0.5 else g for g in gens_lib]
    else:
        gens_lib = gg.build_generators(ps, gens, frame=Q, how="api" if frame_mode == "rotated_api" else "matrix")
    use_recip = rng.random() < 0.2
    if use_recip:
        G = ps.PointGroup(gens_lib, recip_lattice=2 * np.pi * np.linalg.inv(L).T)
        Lg = np.array(G.real_lattice)
        ctx.close("PointGroup:stored_lattice", Lg, L, rtol=1e-10, what="real lattice from recip_lattice", witness=wit)
        L = Lg
    else:
        G = ps.PointGroup(gens_lib, real_lattice=L)
    wit["from_recip_lattice"] = bool(use_recip)

    check_product_strings(ctx, ps, rng)
    check_group_structure(ctx, ps, G, oracle, expected, wit, rng)
    if G.size != expected:
        return      # everything below needs the right element set
    check_lattice(ctx, ps, G, L, oracle, wit, rng)
    check_incompatible_lattice(ctx, ps, gens_lib, gens, Q, wit, rng)
    if idx % 4 == 0:
        check_transform_objects(ctx, ps, lib_tr, rng, wit)
    ranks = [0, 1, 2, 3, 4] if (ctx.thorough or expected <= 48) else [0, 1, 2, 3]
    check_tensor_action(ctx, ps, lib_tr, G, oracle, rng, wit, ranks)
    check_symmetrize(ctx, ps, lib_tr, G, oracle, rng, wit)
    check_star(ctx, G, L, oracle, rng, wit, nk=8 if expected <= 48 else 5)
    check_roundtrip(ctx, ps, G, wit)
    if frame_mode == "standard" and rng.random() < 0.5:
        check_duplicates(ctx, ps, gens, expected, wit, rng)
    ctx.count(f"variant_{variant}")
    ctx.count(f"frame_{frame_mode}")
    if expected > 1:
        ctx.nontrivial((pg["name"], variant, frame_mode, lname, len(gens)))
    ctx.sample({k: v for k, v in wit.items() if k not in ("frame_matrix",)})


def spacegroup_case(ctx, rng, idx, state):
    """PointGroup(spacegroup=...) for the structure catalogue"""
    ps = state["ps"]
    lib_tr = state["lib_tr"]
    tpl = gg.STRUCTURES[(idx // 8) % len(gg.STRUCTURES)]
    st = gg.structure(tpl["name"], rng)
    magnetic = st["magmoms"] is not None and rng.random() < 0.6
    include_TR = True if magnetic else bool(rng.random() < 0.5)
    sg = gg.spacegroup_for(st, spinor=bool(rng.random() < 0.5), magnetic=magnetic, include_TR=include_TR)
    ops = [(np.array(o.rotation_cart, dtype=float), bool(o.time_reversal)) for o in sg.symmetries]
    oracle = gg.close_group(ops)
    distinct = []
    for M, TR in ops:
        if not match_index(M, TR, distinct):
            distinct.append((M, TR))
    wit = dict(structure=st["name"], magnetic=magnetic, include_TR=include_TR, spacegroup=str(sg.name),
               sg_size=int(sg.size), distinct_rotations=len(distinct), lattice=st["lattice"], positions=st["positions"])
    known = gg.expected_sg_pointgroup_order(st, magnetic=magnetic, include_TR=include_TR)
    if len(oracle) != len(distinct):
        raise harness.Skip("spacegroup operations not closed (spglib tolerance)")
    if known is not None and known != len(distinct):
        raise harness.Skip("spglib found a different group than catalogued")
    L = np.array(st["lattice"], dtype=float)
    G = ps.PointGroup(spacegroup=sg)
    ctx.count("spacegroup_groups")
    ctx.ev()
    if G.size != len(distinct):
        ctx.violation("PointGroup.__init__:duplicate_generators_kept",
                      f"PointGroup(spacegroup) of {st['name']}: size {G.size}, distinct (rotation,TR) pairs {len(distinct)} "
                      f"(space group has {sg.size} operations)", wit)
        return
    ok = check_group_structure(ctx, ps, G, oracle, len(distinct), wit, rng)
    if not ok:
        return
    check_lattice(ctx, ps, G, L, oracle, wit, rng)
    check_tensor_action(ctx, ps, lib_tr, G, oracle, rng, wit, [1, 2, 3])
    check_symmetrize(ctx, ps, lib_tr, G, oracle, rng, wit)
    check_star(ctx, G, L, oracle, rng, wit, nk=5)
    check_roundtrip(ctx, ps, G, wit)
    if len(distinct) > 1:
        ctx.nontrivial(("spacegroup", st["name"], magnetic, include_TR))
    if not st["primitive"] and not magnetic:
        ctx.count("spacegroup_nonprimitive_cell")


def case(ctx, rng, idx, state):
    if idx % 8 == 7:
        spacegroup_case(ctx, rng, idx, state)
    else:
        group_case(ctx, rng, idx - idx // 8, state)


if __name__ == "__main__":
    harness.main(
        PROP, "exploration", case, setup_fn=setup,
        tiers=dict(quick=dict(cases=256, shards=8, time=900), thorough=dict(cases=4800, shards=16, time=3000)),
        rule="all 32 crystallographic point groups (cycled by case index, so each is built 7 times in the quick tier) x "
             "{ordinary, gray, black-white} x alternative/redundant/shuffled generator lists x {standard frame via strings, "
             "random SO(3) frame via Rotation/Mirror, via explicit matrices} x compatible Bravais lattices (own family or "
             "higher symmetry, real or reciprocal input); every 8th case PointGroup(spacegroup=) of a catalogue structure. "
             "A case is non-trivial if |G|>1; distinct by (group, variant, frame mode, lattice type, number of generators)",
        assumptions=["oracle group = independent closure of harness-built improper matrices (Rodrigues), vlib/gen_groups.py",
                     "tensor oracle = einsum with the improper matrix, (-1)^rank removed, Transform semantics re-implemented",
                     "pairs of transforms whose axis permutations do not commute are outside the domain of 'group action'",
                     "irrep/spglib space groups are trusted as input generators (their closure is verified, else Skip)"],
        required_counters=("groups_built", "product_strings_noncommuting", "closure_pairs", "action_law_rank0", "action_law_rank4", "action_law_complex",
                           "action_law_with_TR", "action_law_with_inversion", "tensor_oracle_rank3", "symmetrize_checked",
                           "symmetrize_nonzero_result", "symmetrize_changes_input", "star_generic_k", "star_high_symmetry_k",
                           "roundtrip", "incompatible_lattice_tested", "symmetric_grid_true", "symmetric_grid_false",
                           "variant_gray", "variant_bw", "frame_rotated_api", "frame_rotated_matrix", "spacegroup_groups",
                           "transform_objects", "duplicate_generator_lists"),
    )
