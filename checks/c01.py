"""C01 - Wannier interpolation reproduces the input on the ab-initio mesh (REF + INV).

Real code driven: Rvectors.set_Rvec (MDRS replica selection), set_fft_q_to_R, q_to_R (both FFT
libraries, also the select_left/right path), conj_XX_R, R_to_k (k-list and FFT box = mesh),
System_R.do_ws_dist, and end-to-end synthetic Wannier90 data -> wannierise -> get_system_w90.  Oracles: explicit Fourier sum at every mesh point (harness), harness-side
X(-R)=X(R)^dagger test, replica-weight conservation recomputed from the recorded replica lists,
and a brute-force Wigner-Seitz minimal-distance test with a larger search range.
"""
import os
import sys

sys.path.insert(0, os.path.dirname(os.path.dirname(os.path.abspath(__file__))))
from vlib import env, harness, gen_systems, oracles  # noqa: E402
import numpy as np  # noqa: E402

PROP = "C01"


def setup(ctx):
    env.import_wb()
    return {}


def herm_q(rng, nq, nw, cart):
    shape = (nq, nw, nw) + (3,) * cart
    X = rng.normal(size=shape) + 1j * rng.normal(size=shape)
    return 0.5 * (X + np.conj(np.swapaxes(X, 1, 2)))


def case_w90(ctx, rng, idx):
    """end-to-end: synthetic Wannier90 data (random ab-initio model on a shuffled mesh) -> wannierise -> System_R (get_system_w90 with MDRS):
    the interpolated bands at the mesh points must be the ab-initio eigenvalues (all of them for num_wann = num_bands, the frozen ones
    otherwise), and the real-space matrices must obey X(-R) = X(R)^dagger"""
    from vlib import gen_w90
    from wannierberri.system import System_R
    mp = gen_w90.MP_GRIDS[int(rng.integers(len(gen_w90.MP_GRIDS)))]
    NB = int(rng.integers(2, 7))
    full = rng.random() < 0.5
    NW = NB if full else int(rng.integers(1, NB))
    try:
        syn = gen_w90.synthetic_w90(rng, mp_grid=mp, NB=NB, NW=NW, amn_kind="lowbands" if not full else None)
    except RuntimeError:
        raise harness.Skip("b-vector search failed for the synthetic lattice")
    wd = syn.wandata(with_chk=False)
    E = np.sort(syn.E, axis=1)
    wit = dict(part="w90", mp_grid=mp, NB=NB, NW=NW, NK=syn.NK)
    if full:
        wd.wannierise(init="amn", num_iter=int(rng.integers(0, 20)), froz_min=-np.inf, froz_max=np.inf, print_progress_every=10 ** 6)
        nfroz = NB
    else:
        # freeze the lowest bands that are separated from the rest at every mesh point by a clear gap
        nfroz = None
        for n in range(NW, 0, -1):
            if E[:, n - 1].max() + 0.05 < E[:, n].min():
                nfroz = n
                break
        if nfroz is None:
            raise harness.Skip("no global gap below num_wann bands for a frozen window")
        fmax = 0.5 * (E[:, nfroz - 1].max() + E[:, nfroz].min())
        wd.wannierise(init="amn", num_iter=int(rng.integers(5, 30)), froz_min=-np.inf, froz_max=fmax, print_progress_every=10 ** 6)
    system = System_R.from_wannierdata(wd, berry=bool(rng.random() < 0.5))
    Ei = gen_systems.bands(system, syn.kpt_red)
    ctx.close("get_system_w90:interpolated_bands_on_mesh!=ab_initio", np.sort(Ei, axis=1)[:, :nfroz], E[:, :nfroz], rtol=1e-9, scale=np.abs(E).max(),
              what="bands on the mesh", witness=wit)
    iR = system.rvec.iRvec
    index = {tuple(R): i for i, R in enumerate(iR.tolist())}
    for key in [kk for kk in ("Ham", "AA") if system.has_R_mat(kk)]:
        X = system.get_R_mat(key)
        ctx.ev()
        if any(tuple(-x for x in R) not in index for R in index):
            ctx.violation("get_system_w90:R_set_not_closed_under_-R", key, wit)
            continue
        Xc = np.array([np.conj(np.swapaxes(X[index[tuple(-x for x in R)]], 0, 1)) for R in iR.tolist()])
        ctx.close("get_system_w90:X(-R)!=X(R)^dagger", Xc, X, rtol=1e-10, scale=np.abs(X).max(), what=key, witness=wit)
    ctx.count("w90_end_to_end_cases")
    ctx.count("w90_disentangled_cases", int(not full))
    ctx.nontrivial(("w90", tuple(mp), NB, NW, nfroz))
    ctx.sample(wit)


def case(ctx, rng, idx, state):
    from wannierberri.fourier.rvectors import Rvectors
    if idx % 5 == 4:
        return case_w90(ctx, rng, idx)

    # ---------------- input -------------------------------------------------------------
    if rng.random() < 0.6:
        kind, lattice = gen_systems.bravais_lattice(rng)
        if rng.random() < 0.5:
            lattice = lattice @ gen_systems.random_rotation(rng).T
    else:
        kind, lattice = "random", gen_systems.random_lattice(rng)
    if rng.random() < 0.25:
        # a non-reduced setting of the same lattice (unimodular integer combination of the lattice vectors, shear up to 4) or a
        # Gaussian-random cell: strongly sheared supercells are in the property's domain ("all non-degenerate real lattices")
        if rng.random() < 0.7:
            U = np.eye(3, dtype=int)
            for _ in range(int(rng.integers(1, 3))):
                i, j = rng.choice(3, size=2, replace=False)
                E = np.eye(3, dtype=int)
                E[i, j] = int(rng.integers(-4, 5))
                U = E @ U
            lattice = U @ lattice
            kind += "_sheared"
        else:
            while True:
                lattice = rng.normal(size=(3, 3)) * 3
                if abs(np.linalg.det(lattice)) > 3 and np.linalg.cond(lattice) < 200:
                    break
            kind = "gaussian"
    hi = 5 if ctx.thorough else 4
    mp = np.array([int(x) for x in rng.integers(1, hi + 1, size=3)])
    if rng.random() < 0.35:
        mp[:] = mp[0]
    if np.prod(mp) > (80 if ctx.thorough else 48):
        mp = np.minimum(mp, 3)
    nw = int(rng.integers(1, 5))
    cmode = ["random", "outside", "groups", "highsym", "zero"][int(rng.integers(5))]
    cred = gen_systems.random_centers(rng, nw, cmode)
    tol = float(rng.choice([1e-7, 1e-6, 1e-5, 1e-4, 1e-3, 1e-2]))
    legacy = rng.random() < 0.12
    ws_tol = -tol if legacy else tol
    fftlib = "fftw" if rng.random() < 0.5 else "numpy"
    nq = int(np.prod(mp))
    mesh = np.array([(i, j, k) for i in range(mp[0]) for j in range(mp[1]) for k in range(mp[2])])
    perm = rng.permutation(nq)
    kpt_int = mesh[perm]
    kpt_red = kpt_int / mp[None, :]
    if rng.random() < 0.3:  # the same mesh listed with some points shifted by reciprocal lattice vectors
        kpt_red = kpt_red + rng.integers(-1, 2, size=kpt_red.shape)
    cond_super = float(np.linalg.cond(lattice * mp[:, None]))
    wit = dict(lattice=lattice, kind=kind, mp_grid=mp, nw=nw, centres=cmode, centres_red=cred, ws_tol=ws_tol,
               fftlib=fftlib, cond_supercell=cond_super)

    # ---------------- real code: MDRS + q->R ----------------------------------------------
    rvec = Rvectors(lattice=lattice, shifts_left_red=cred)
    rvec.set_Rvec(mp, ws_tolerance=ws_tol)
    rvec.set_fft_q_to_R(kpt_red=kpt_red, fftlib=fftlib)
    iR = rvec.iRvec
    nR = len(iR)

    # ---------------- M-ws: invariants of the replica bookkeeping ---------------------------
    if len(set(map(tuple, iR.tolist()))) != nR:
        ctx.violation("set_Rvec:duplicate_R", "iRvec contains duplicates", wit)
    ctx.ev()
    nboundary = 0
    pair_weights = np.zeros((nw, nw))
    pair_sets = {}
    for a in range(nw):
        for b in range(nw):
            ish = rvec.shift_index[a, b]
            Rs = rvec.iRvec_list[ish]
            nd = rvec.Ndegen_list[ish]
            pair_weights[a, b] = np.sum(1.0 / nd)
            pair_sets[a, b] = {tuple(R): n for R, n in zip(Rs.tolist(), nd.tolist())}
            nboundary += int(np.sum(nd > 1))
    ctx.close("replica_weights_do_not_sum_to_Nmp", pair_weights, np.full((nw, nw), float(nq)), rtol=1e-12,
              what="sum_R 1/Ndegen per pair", witness=wit)
    mapx, mapy, mapz, weights = rvec.get_remapper_XX_from_grid_to_list_R
    ctx.close("remapper_weights_do_not_sum_to_Nmp", weights.sum(axis=0), np.full((nw, nw), float(nq)), rtol=1e-12,
              what="remapper weights per pair", witness=wit)
    # replicas of (b,a) are the negatives of those of (a,b) with the same degeneracy (needed for Hermiticity);
    # judged only when the Wigner-Seitz search is symmetric (moderately skewed supercell)
    if True:
        for a in range(nw):
            for b in range(a, nw):
                neg = {tuple(-x for x in R): n for R, n in pair_sets[b, a].items()}
                ctx.ev()
                if neg != pair_sets[a, b]:
                    ctx.violation("replicas_of_(b,a)_not_negatives_of_(a,b)", f"pair ({a},{b})",
                                  dict(case=wit, pair=(a, b)))

    # Wigner-Seitz oracle (certificate check): for every pair and every R0 all supercell translations that could be as close as the claimed
    # minimum are enumerated by the harness (box derived from the claimed distance and the supercell metric, no fixed window), the true
    # minimal set within the tolerance is computed and compared with the selected replicas
    if nq <= 36 and nw <= 3:
        atol = tol
        Asup = lattice * mp[:, None]
        coln = np.linalg.norm(np.linalg.inv(Asup), axis=0)
        for a in range(nw):
            for b in range(nw):
                d_ab = (cred[b] - cred[a])
                sel = pair_sets[a, b]
                for R0 in mesh:
                    got = {R for R in sel if tuple(np.array(R) % mp) == tuple(R0 % mp)}
                    if not got:
                        ctx.violation("no_replica_selected_for_a_mesh_vector", f"pair ({a},{b}) R0={R0.tolist()}", dict(case=wit, pair=(a, b), R0=R0))
                        continue
                    claimed = min(np.linalg.norm((np.array(R) + d_ab) @ lattice) for R in got)
                    u0 = (R0 + d_ab) / mp
                    centre = -np.round(u0).astype(int)
                    nbox = np.floor((claimed + atol) * coln + np.abs(u0 + centre)).astype(int) + 1
                    if np.prod(2 * nbox + 1) > 200000:
                        ctx.count("ws_oracle_box_too_large_skipped")
                        continue
                    T = np.array([(i, j, k) for i in range(-nbox[0], nbox[0] + 1) for j in range(-nbox[1], nbox[1] + 1)
                                  for k in range(-nbox[2], nbox[2] + 1)]) + centre[None, :]
                    cand = R0[None, :] + T * mp[None, :]
                    dist = np.linalg.norm((cand + d_ab[None, :]) @ lattice, axis=1)
                    dmin = dist.min()
                    excess = dist - dmin
                    if np.any((excess > atol / 3) & (excess < atol * 3)):
                        ctx.count("ws_tie_guard_skipped")
                        continue
                    expected = {tuple(int(x) for x in c) for c in cand[excess <= atol]}
                    ctx.ev()
                    if got != expected:
                        ctx.violation("replicas_are_not_the_Wigner-Seitz_minimal_set",
                                      f"pair ({a},{b}) R0={R0.tolist()}: got {sorted(got)} expected {sorted(expected)}",
                                      dict(case=wit, pair=(a, b), R0=R0))
                    elif any(sel[R] != len(expected) for R in got):
                        ctx.violation("Ndegen_is_not_the_number_of_replicas", f"pair ({a},{b}) R0={R0.tolist()}",
                                      dict(case=wit, pair=(a, b), R0=R0))
        ctx.count("ws_bruteforce_cases")
        ctx.count("ws_bruteforce_sheared_cases", int(cond_super > 12))

    # ---------------- round trip for scalar / vector / tensor data ----------------------------
    for cart in (0, 1, 2):
        Xq = herm_q(rng, nq, nw, cart)
        XR = rvec.q_to_R(Xq)
        scale = np.abs(Xq).max()
        # (1) explicit sum at every mesh point reproduces the input (plain phases)
        back = np.array([oracles.ft_explicit(XR, iR, lattice, k, der=0) for k in kpt_red])
        ctx.close("explicit_sum_at_mesh!=input", back, Xq, rtol=1e-11, scale=scale, what=f"round trip cart={cart}", witness=wit)
        # (2) the code's own interpolation on the mesh: k-list and FFT box = mesh
        r2 = Rvectors(lattice=lattice, shifts_left_red=cred, iRvec=iR)
        r2.set_fft_R_to_k(NK=None, num_wann=nw, k_list=kpt_red)
        out = r2.R_to_k(r2.apply_expdK(XR.copy()), der=0, hermitian=False)
        ctx.close("R_to_k(k_list=mesh)!=input", out, Xq, rtol=1e-11, scale=scale, what=f"R_to_k k-list cart={cart}", witness=wit)
        for lib in ("fftw", "numpy"):
            r3 = Rvectors(lattice=lattice, shifts_left_red=cred, iRvec=iR)
            r3.set_fft_R_to_k(NK=tuple(int(x) for x in mp), num_wann=nw, fftlib=lib, dK=(0, 0, 0))
            out = r3.R_to_k(r3.apply_expdK(XR.copy()), der=0, hermitian=False)
            inv = np.empty(nq, dtype=int)
            # C-order index of each listed mesh point
            cidx = (kpt_int[:, 0] * mp[1] + kpt_int[:, 1]) * mp[2] + kpt_int[:, 2]
            ctx.close(f"R_to_k(FFT={lib},box=mesh)!=input", out[cidx], Xq, rtol=1e-11, scale=scale,
                      what=f"R_to_k fft cart={cart}", witness=wit)
        # (3) Hermiticity in real space, harness-side and through conj_XX_R
        index = {tuple(R): i for i, R in enumerate(iR.tolist())}
        missing = [R for R in index if tuple(-x for x in R) not in index]
        if missing:
            ctx.violation("R_set_not_closed_under_-R", f"{missing[:5]}", wit)
        else:
            XRc = np.array([np.conj(np.swapaxes(XR[index[tuple(-x for x in R)]], 0, 1)) for R in iR.tolist()])
            ctx.close("X(-R)!=X(R)^dagger", XRc, XR, rtol=1e-11, scale=np.abs(XR).max(), what=f"hermiticity cart={cart}", witness=wit)
            ctx.close("conj_XX_R(X)!=X", rvec.conj_XX_R(XR), XR, rtol=1e-11, scale=np.abs(XR).max(),
                      what=f"conj_XX_R cart={cart}", witness=wit)
        # (4) select_left / select_right path
        if nw >= 2 and cart == 1:
            sl = np.sort(rng.choice(nw, size=int(rng.integers(1, nw + 1)), replace=False))
            sr = np.sort(rng.choice(nw, size=int(rng.integers(1, nw + 1)), replace=False))
            XRs = rvec.q_to_R(Xq[:, sl][:, :, sr], select_left=sl, select_right=sr)
            ctx.close("q_to_R(select)!=slice_of_full", XRs, XR[:, sl][:, :, sr], rtol=1e-12, scale=np.abs(XR).max(),
                      what="select_left/right", witness=wit)

    # ---------------- the same Rvectors object given the mesh in another order (and through the other FFT library) --------------
    # history on one object: set_fft_q_to_R is called again with a re-listed mesh; the round trip must hold for the new listing too
    if nq >= 2:
        for rep in range(2):
            perm2 = rng.permutation(nq)
            kpt_int2 = mesh[perm2]
            kpt_red2 = kpt_int2 / mp[None, :]
            if rng.random() < 0.3:
                kpt_red2 = kpt_red2 + rng.integers(-1, 2, size=kpt_red2.shape)
            lib2 = "fftw" if rng.random() < 0.5 else "numpy"
            rvec.set_fft_q_to_R(kpt_red=kpt_red2, fftlib=lib2)
            cart = int(rng.integers(3))
            Xq2 = herm_q(rng, nq, nw, cart)
            XR2 = rvec.q_to_R(Xq2)
            back = np.array([oracles.ft_explicit(XR2, rvec.iRvec, lattice, k, der=0) for k in kpt_red2])
            ctx.close("explicit_sum_at_mesh!=input[Rvectors_object_re-used_with_another_listing]", back, Xq2, rtol=1e-11, scale=np.abs(Xq2).max(),
                      what=f"round trip after re-listing #{rep + 1} cart={cart} lib={lib2}", witness=dict(wit, second_listing=kpt_red2, fftlib2=lib2))
            ctx.count("relisting_histories")

    # ---------------- do_ws_dist on a System_R: H on the mesh must not change -------------------
    if nq >= 2:
        Rbox = np.array([(i, j, k) for i in range(-(mp[0] // 2), mp[0] - mp[0] // 2) for j in range(-(mp[1] // 2), mp[1] - mp[1] // 2)
                         for k in range(-(mp[2] // 2), mp[2] - mp[2] // 2)])
        keys = ("Ham", "AA") if rng.random() < 0.5 else ("Ham",)
        shape = lambda key: (len(Rbox), nw, nw) + (3,) * gen_systems.NCART[key]  # noqa: E731
        mats = {key: rng.normal(size=shape(key)) + 1j * rng.normal(size=shape(key)) for key in keys}
        s = gen_systems.make_system(lattice, Rbox, mats, cred)
        before = {key: np.array([oracles.ft_explicit(mats[key], Rbox, lattice, k) for k in kpt_red]) for key in keys}
        s.do_ws_dist(mp_grid=tuple(int(x) for x in mp), ws_dist_tol=tol)
        for key in keys:
            after = np.array([oracles.ft_explicit(s.get_R_mat(key), s.rvec.iRvec, lattice, k) for k in kpt_red])
            ctx.close("do_ws_dist_changed_X_on_mesh", after, before[key], rtol=1e-11, scale=np.abs(before[key]).max(),
                      what=f"do_ws_dist key={key}", witness=wit)
        ctx.count("do_ws_dist")

    if nboundary > 0 or cmode == "outside":
        ctx.nontrivial((kind, tuple(mp.tolist()), nw, cmode, ws_tol, nboundary > 0))
    ctx.count("boundary_replicas_seen", nboundary)
    ctx.count("legacy_negative_tolerance_cases", int(legacy))
    ctx.sample(dict(kind=kind, mp_grid=mp, nw=nw, centres=cmode, ws_tol=ws_tol, nR=nR, boundary_replicas=nboundary))


if __name__ == "__main__":
    harness.main(
        PROP, "exploration", case, setup_fn=setup,
        tiers=dict(quick=dict(cases=120, shards=8, time=900), thorough=dict(cases=4000, shards=16, time=3000)),
        rule="lattices from the Bravais catalogue (randomly rotated) or random (cond<=20), a quarter of them in non-reduced (sheared, shear<=4) or Gaussian-random settings, meshes 1..5 per direction incl. anisotropic, "
             "randomly permuted and G-shifted mesh lists, centres random/outside/co-centred/high-symmetry/zero, WS tolerances 1e-7..1e-2 and the "
             "negative legacy mode, scalar/vector/rank-2 Hermitian data; non-trivial = at least one replica with Ndegen>1 or centres outside the home cell",
        assumptions=["oracle = explicit Fourier sum in plain numpy; Wigner-Seitz certificate check: all supercell translations within the claimed minimal distance "
                     "are enumerated by the harness (box from the supercell metric)"],
        required_counters=("boundary_replicas_seen", "do_ws_dist", "ws_bruteforce_cases", "ws_bruteforce_sheared_cases", "w90_end_to_end_cases", "w90_disentangled_cases"),
    )
