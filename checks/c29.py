"""C29 - paths are built and tabulated faithfully (REF + DIFF).

Construction (REF): Path.from_nodes / get_refined / getKline / Path.seekpath are compared with a
harness-side construction written from the property statement: every node present in order with
its label, each segment sampled uniformly in reduced coordinates (nk points incl. both ends, or the
integer number of steps nearest to |dk_cart|/dk), breaks restart the path, refinement puts original
point i at i*factor - (factor-1)*#{breaks before i} with labels/breaks moved along, the path
coordinate is the cumulative cartesian distance with zero increment across breaks.

Tabulation (DIFF, as the property is stated): row i of evaluate_k_path / run(grid=path, TabulatorAll
mode='path') must equal the evaluation of point K_list[i] alone (wannierberri.evaluate_k with fresh
tabulators) and the energies must equal an independent diagonalisation (vlib.gen_systems.bands);
serial evaluation only (parallel schedules belong to C12), k_batch 1..50, paths that revisit points
and contain k and k+G.  TABresult.self_to_path is additionally driven with the batches concatenated
in a permuted order (what a parallel completion order produces), without ray.
"""
import os
import sys

sys.path.insert(0, os.path.dirname(os.path.dirname(os.path.abspath(__file__))))
from vlib import env, harness, gen_systems  # noqa: E402
import numpy as np  # noqa: E402

PROP = "C29"
LABELS = ["G", "GAMMA", "X", "M", "K", "L", "W", "U", "A", "H", "R", "Z", "S_0", "A1", "Y", "", "", "0", "$\\Gamma$", " "]   # incl. unnamed nodes
HS = np.array([0.0, 0.5, 1 / 3, 2 / 3, 0.25, 0.75, 1.0, -0.5])
GAP_GUARD = 1e-3  # band-resolved non-scalar quantities are compared only where all gaps exceed this
PENDING = os.environ.get("VERIF_C29_PENDING", "") == "1"   # classes that fire on the unchanged tree (reported, undecided)
LEAK_MECH = "evaluate_k_path(ibands)_leaves_ibands_in_available_quantities"


def setup(ctx):
    wb = env.import_wb()
    return dict(wb=wb)


def recip_of(real_lattice):
    return 2 * np.pi * np.linalg.inv(np.array(real_lattice, dtype=float)).T


# ------------------------------------------------------------------ generators ----------------

NODE_FORMS = ("list", "array", "tuple", "int", "2darray", "mixed")


def gen_nodes(rng, maxnodes=6, allow_gshift=True, minnodes=2):
    nn = int(rng.integers(minnodes, maxnodes + 1))
    pts = []
    form = "list" if rng.random() < 0.3 else ("array" if rng.random() < 0.4 else NODE_FORMS[int(rng.integers(len(NODE_FORMS)))])
    flags = dict(revisit=False, gshift=False, form=form)
    for i in range(nn):
        u = rng.random()
        if i > 0 and u < 0.15:
            p = pts[int(rng.integers(i))].copy()
            flags["revisit"] = True
        elif i > 0 and u < 0.30 and allow_gshift:
            G = rng.integers(-2, 3, 3)
            if not np.any(G):
                G[int(rng.integers(3))] = 1
            p = pts[int(rng.integers(i))] + G
            flags["gshift"] = True
        elif form == "int":
            p = rng.integers(-1, 3, 3)   # nodes written as plain integers ([0, 0, 0], [1, 0, 0])
        elif u < 0.6:
            p = HS[rng.integers(len(HS), size=3)]
        else:
            p = rng.uniform(-1.0, 1.5, 3)
        pts.append(np.array(p, dtype=float))
    if form == "2darray":
        return np.array(pts), flags   # one (n,3) array: no breaks possible
    nodes = []
    if rng.random() < 0.12:
        nodes.append(None)
    for i, p in enumerate(pts):
        f = form if form != "mixed" else ("list", "array", "tuple")[int(rng.integers(3))]
        if f == "int":
            nodes.append([int(round(x)) for x in p])
        elif f == "list":
            nodes.append([float(x) for x in p])
        elif f == "tuple":
            nodes.append(tuple(float(x) for x in p))
        else:
            nodes.append(p.copy())
        if i < nn - 1 and rng.random() < 0.25:
            nodes.append(None)
            if rng.random() < 0.15:
                nodes.append(None)
    return nodes, flags


def copy_nodes(nodes):
    """an independent copy of a node list in the same form (the library must not see the harness's own objects)"""
    if isinstance(nodes, np.ndarray):
        return nodes.copy()
    return [None if n is None else (n.copy() if isinstance(n, np.ndarray) else type(n)(n)) for n in nodes]


def split_runs(nodes):
    runs, cur = [], []
    for n in nodes:
        if n is None:
            if cur:
                runs.append(cur)
            cur = []
        else:
            cur.append(np.array(n, dtype=float))
    if cur:
        runs.append(cur)
    return runs


def segment_lengths(nodes, recip):
    out = []
    for run in split_runs(nodes):
        for a, b in zip(run, run[1:]):
            out.append(float(np.linalg.norm((b - a) @ recip)))
    return out


def gen_spec(rng, nodes, recip, maxpts, big=False):
    """returns (kwargs for from_nodes, number of points per real segment, kind) - or None on a rounding tie"""
    L = segment_lengths(nodes, recip)
    nseg = len(L)
    kind = ["nk_int", "nk_list", "dk", "length"][int(rng.integers(4))]
    nmax = int(max(2, min(9, maxpts // max(1, nseg))))
    if big:
        nmax = int(max(100, maxpts // max(1, nseg)))   # segments of >= 100 points
    if kind == "nk_int":
        n = int(rng.integers(100 if big else 2, nmax + 1))
        nk = n if rng.random() < 0.7 else np.int64(n)
        return dict(nk=nk), [n] * nseg, kind
    if kind == "nk_list":
        ns = [int(x) for x in rng.integers(2, nmax + 1, size=nseg)]
        if big and nseg:
            ns[int(rng.integers(nseg))] = int(rng.integers(100, nmax + 1))
        form = int(rng.integers(4))
        nk = ns if form == 0 else (tuple(ns) if form == 1 else (np.array(ns, dtype=int) if form == 2 else iter(list(ns))))
        return dict(nk=nk), ns, kind
    Lpos = [x for x in L if x > 1e-9]
    Lref = float(np.mean(Lpos)) if Lpos else 1.0
    u = rng.random()
    if big:
        dk = Lref / rng.uniform(100, nmax)
    elif u < 0.25 and Lpos:
        dk = Lpos[int(rng.integers(len(Lpos)))] / int(rng.integers(1, nmax))  # a segment is an exact multiple of dk
    elif u < 0.35:
        dk = Lref * rng.uniform(2.5, 10.0)  # longer than every segment: two points per segment
    else:
        dk = Lref / rng.uniform(0.7, nmax - 0.5)
    length = None
    if kind == "length":
        length = float(2 * np.pi / dk)
        if rng.random() < 0.4 and length >= 1.5:
            length = int(round(length))    # `length` written as an integer number of angstroms
            dk = 2 * np.pi / length
    ns = []
    for x in L:
        r = x / dk
        if abs(r - np.floor(r) - 0.5) < 1e-6:
            return None
        ns.append(max(2, int(np.floor(r + 0.5)) + 1))
    if sum(ns) > 4 * maxpts:
        return None
    if kind == "dk":
        return dict(dk=float(dk)), ns, kind
    return dict(length=length), ns, kind


def expected_path(nodes, labels, seg_npts):
    """the path as the property describes it"""
    K, lab, br = [], {}, []
    it = iter(seg_npts)
    lit = iter(labels)
    runs = split_runs(nodes)
    for ir, run in enumerate(runs):
        for j, node in enumerate(run):
            lab[len(K)] = next(lit)
            if j < len(run) - 1:
                n = next(it)
                for t in range(n - 1):
                    K.append(node + (t / (n - 1)) * (run[j + 1] - node))
            else:
                K.append(node.copy())
        if ir < len(runs) - 1:
            br.append(len(K) - 1)
    return np.array(K).reshape(-1, 3), lab, br


def expected_kline(K, breaks, recip, break_thresh=np.inf):
    d = np.linalg.norm((K[1:] - K[:-1]) @ recip, axis=1)
    d = np.where(d > break_thresh, 0.0, d)
    for b in breaks:
        if b < len(d):
            d[b] = 0.0
    return np.concatenate([[0.0], np.cumsum(d)])


# ------------------------------------------------------------------ verifiers -----------------

def verify_path(ctx, path, K_exp, lab_exp, br_exp, recip, tag, wit):
    ok = True
    K = np.asarray(path.K_list, dtype=float)
    cs = max(1.0, float(np.abs(K_exp).max()))
    ok &= ctx.close(f"{tag}:K_list!=nodes_uniformly_sampled", K, K_exp, rtol=0, atol=1e-12 * cs,
                    what=f"{tag} K_list", witness=wit)
    ctx.ev()
    lab = {int(k): v for k, v in dict(path.labels).items()}
    if lab != lab_exp:
        ok = False
        ctx.violation(f"{tag}:labels_not_at_their_nodes", f"labels {lab} expected {lab_exp}", wit)
    ctx.ev()
    br = [int(b) for b in path.breaks]
    if br != list(br_exp):
        ok = False
        ctx.violation(f"{tag}:breaks_wrong", f"breaks {br} expected {br_exp}", wit)
    if K.shape == K_exp.shape:
        ok &= verify_kline(ctx, path, K_exp, br_exp, recip, tag, wit)
    return bool(ok)


def verify_kline(ctx, path, K_exp, br_exp, recip, tag, wit):
    ok = True
    kl = path.getKline()
    kl_exp = expected_kline(K_exp, br_exp, recip)
    tot = max(float(kl_exp[-1]), float(np.abs(recip).max()))
    ok &= ctx.close(f"{tag}:getKline!=cumulative_distance", kl, kl_exp, rtol=0, atol=1e-11 * tot, what=f"{tag} Kline",
                    witness=wit)
    ctx.ev()
    if kl.shape == kl_exp.shape:
        inc = np.diff(kl)
        if np.any(inc < 0):
            ok = False
            ctx.violation(f"{tag}:getKline_decreasing", f"increments {inc.tolist()}", wit)
        if any(b < len(inc) and inc[b] != 0 for b in br_exp):
            ok = False
            ctx.violation(f"{tag}:getKline_nonzero_across_break", f"increments {inc.tolist()} breaks {br_exp}", wit)
    ctx.count("kline")
    return bool(ok)


def verify_kline_thresh(ctx, rng, path, K_exp, br_exp, recip, tag, wit):
    d = np.linalg.norm((K_exp[1:] - K_exp[:-1]) @ recip, axis=1)
    vals = np.unique(np.round(d[d > 1e-9], 9))
    if len(vals) < 2:
        return
    j = int(rng.integers(len(vals) - 1))
    if vals[j + 1] < vals[j] * (1 + 1e-3):
        return
    thr = float(np.sqrt(vals[j] * vals[j + 1]))
    kl = path.getKline(break_thresh=thr)
    kl_exp = expected_kline(K_exp, br_exp, recip, break_thresh=thr)
    tot = max(float(kl_exp[-1]), float(np.abs(recip).max()))
    ctx.close(f"{tag}:getKline(break_thresh)!=jumps_removed", kl, kl_exp, rtol=0, atol=1e-11 * tot,
              what=f"{tag} Kline thr={thr}", witness=wit)
    ctx.count("kline_break_thresh")


def refined_expectation(K, lab, br, f):
    """closed form: original point i goes to i*f - (f-1)*#{breaks before i}; uniform interpolation in between"""
    n = len(K)
    brs = sorted(br)
    new = [i * f - (f - 1) * sum(1 for b in brs if b < i) for i in range(n)]
    Kn = np.zeros((new[-1] + 1, 3))
    for i in range(n):
        Kn[new[i]] = K[i]
        if i < n - 1 and i not in brs:
            for j in range(1, f):
                Kn[new[i] + j] = K[i] + (j / f) * (K[i + 1] - K[i])
    return Kn, {new[i]: l for i, l in lab.items()}, [new[b] for b in br], new


def documented_errors(ctx, rng, wbPath, lattice, nodes):
    """combinations that Path.from_nodes documents as errors must be refused (not silently resolved in favour of one)"""
    combos = [dict(nk=3, dk=0.1), dict(length=30.0, dk=0.1), dict(length=30.0, nk=3), dict(nk=[3] * 40, dk=0.2)]
    kw = combos[int(rng.integers(len(combos)))]
    ctx.ev()
    try:
        wbPath.from_nodes(real_lattice=lattice, nodes=copy_nodes(nodes), **kw)
    except ValueError:
        ctx.count("contradicting_spec_refused")
        return
    ctx.violation("from_nodes:contradicting_spec_accepted", f"from_nodes accepted {sorted(kw)} together",
                  dict(spec=kw))


def construction_subcase(ctx, rng, wbPath, lattice, recip, how, system=None, maxpts=60, allow_gshift=True, big=False,
                         maxnodes=6, minnodes=2):
    """one generated node list -> from_nodes, Kline, refinement.  returns (path, K_exp, lab_exp, br_exp, info)"""
    for _ in range(8):
        nodes, flags = gen_nodes(rng, allow_gshift=allow_gshift, maxnodes=maxnodes, minnodes=minnodes)
        spec = gen_spec(rng, nodes, recip, maxpts, big=big)
        if spec is not None:
            break
    else:
        raise harness.Skip("tie:dk_rounding")
    kw, seg_npts, kind = spec
    nreal = sum(1 for n in nodes if n is not None)
    lform = "none"
    if rng.random() < 0.25:
        labels_arg, labels = None, [str(i + 1) for i in range(nreal)]
    else:
        labels = [LABELS[int(rng.integers(len(LABELS)))] for _ in range(nreal)]
        lform = ("list", "list", "tuple", "array", "iter")[int(rng.integers(5))]
        labels_arg = list(labels) if lform == "list" else (tuple(labels) if lform == "tuple" else (
            np.array(labels, dtype=object) if lform == "array" else iter(list(labels))))
    pg_src = None
    if how == "pointgroup":
        pg_src = wbPath(real_lattice=np.array(lattice), k_list=[[0.0, 0.0, 0.0]]).pointgroup
    src = dict(system=system) if how == "system" else (
        dict(real_lattice=lattice) if how == "real_lattice" else (
            dict(pointgroup=pg_src) if how == "pointgroup" else dict(recip_lattice=recip)))
    nodes_in = copy_nodes(nodes)
    path = wbPath.from_nodes(nodes=nodes_in, labels=labels_arg, **src, **kw)
    ctx.count("path_from_nodes")
    ctx.count(f"spec_{kind}")
    ctx.count(f"nodes_{flags['form']}")
    ctx.count(f"labels_{lform}")
    ctx.count(f"lattice_from_{how}")
    if isinstance(kw.get("length"), int):
        ctx.count("spec_length_int")
    if max(seg_npts, default=0) >= 100:
        ctx.count("segment_ge_100_points")
    K_exp, lab_exp, br_exp = expected_path(nodes, labels, seg_npts)
    nbreaks = len(br_exp)
    wit = dict(nodes=[None if n is None else [float(x) for x in n] for n in nodes], node_form=flags["form"],
               labels=None if labels_arg is None else list(labels), label_form=lform,
               spec={k: (list(seg_npts) if k == "nk" and not isinstance(v, (int, np.integer)) else (
                   int(v) if isinstance(v, np.integer) else v)) for k, v in kw.items()},
               lattice_from=how, real_lattice=np.array(lattice))
    ctx.close("Path.recip_lattice", path.recip_lattice, recip, rtol=1e-12, what="recip lattice", witness=wit)
    ok = verify_path(ctx, path, K_exp, lab_exp, br_exp, recip, "from_nodes", wit)
    # the caller's node list is not modified
    ctx.ev()
    same = all((a is None and b is None) or (a is not None and b is not None and np.array_equal(np.asarray(a), np.asarray(b)))
               for a, b in zip(nodes_in, nodes)) and len(nodes_in) == len(nodes)
    if not same:
        ok = False
        ctx.violation("from_nodes:modifies_the_node_list_of_the_caller", "nodes changed by from_nodes", wit)
    if nbreaks:
        ctx.count("breaks", nbreaks)
    if flags["revisit"]:
        ctx.count("revisit_paths")
    if flags["gshift"]:
        ctx.count("gshift_paths")
    if not ok:
        return None
    # the two documented accessors of the points
    cs = max(1.0, float(np.abs(K_exp).max()))
    ctx.close("get_kpoints!=K_list", path.get_kpoints(), K_exp, rtol=0, atol=1e-12 * cs, what="get_kpoints", witness=wit)
    ctx.close("get_kpoints_cart!=K_list@recip", path.get_kpoints_cart(), K_exp @ recip, rtol=0,
              atol=1e-12 * cs * float(np.abs(recip).max()), what="get_kpoints_cart", witness=wit)
    ctx.count("get_kpoints")
    verify_kline_thresh(ctx, rng, path, K_exp, br_exp, recip, "from_nodes", wit)
    if rng.random() < 0.15:
        documented_errors(ctx, rng, wbPath, lattice, nodes)
    # the batches handed to the evaluation: all points once, in path order, at most k_batch per batch
    kb = int(rng.integers(1, 51)) if rng.random() < 0.5 else int(rng.integers(1, len(K_exp) + 2))
    if rng.random() < 0.2 and len(K_exp) >= 4:
        divs = [d for d in range(2, len(K_exp)) if len(K_exp) % d == 0]
        if divs:
            kb = int(divs[int(rng.integers(len(divs)))])    # the number of points is a multiple of the batch size
            ctx.count("npts_multiple_of_k_batch")
    batches = path.get_K_list(k_batch=kb)
    sizes = [len(np.atleast_2d(b.Kp_fullBZ)) for b in batches]
    ctx.ev()
    if max(sizes) > kb or len(batches) != -(-len(K_exp) // kb):
        ctx.violation("get_K_list:batch_sizes", f"k_batch={kb}: batch sizes {sizes} for {len(K_exp)} points", wit)
    else:
        ctx.close("get_K_list:batches!=K_list_in_order", np.vstack([np.atleast_2d(b.Kp_fullBZ) for b in batches]),
                  np.asarray(path.K_list), rtol=0, atol=0, what=f"k_batch={kb}", witness=wit)
    ctx.count("get_K_list")
    info = dict(kind=kind, nnodes=nreal, nbreaks=nbreaks, npts=len(K_exp), **flags)
    return path, K_exp, lab_exp, br_exp, info, wit


def rebuilt_path(ctx, rng, wbPath, path, K_exp, lab_exp, br_exp, recip, wit):
    """the same path reached through another public route (explicit k-list, dict or npz round trip); returns (path, tag)"""
    import tempfile
    import shutil
    route = ("k_list", "dict", "npz", "npz_twice")[int(rng.integers(4))]
    if route == "k_list":
        kl = K_exp.copy() if rng.random() < 0.5 else [[float(x) for x in k] for k in K_exp]
        keyt = (int, np.int64)[int(rng.integers(2))]
        labs = {keyt(i): l for i, l in lab_exp.items()}
        u = rng.random()
        brs = list(br_exp) if u < 0.4 else (tuple(br_exp) if u < 0.6 else np.array(br_exp, dtype=int))
        if isinstance(brs, tuple):
            # open finding (witnesses/review_c29_finding_1.py): getKline indexes with `breaks`; a tuple of >= 2 breaks raises
            ctx.count("breaks_given_as_tuple")
        src = dict(recip_lattice=recip.copy()) if rng.random() < 0.5 else dict(pointgroup=path.pointgroup)
        new = wbPath(k_list=kl, labels=labs, breaks=brs, **src)
    elif route == "dict":
        new = wbPath.from_dict(path.as_dict())
    else:
        d = tempfile.mkdtemp(prefix="c29_", dir="/tmp")
        try:
            f = os.path.join(d, "path.npz")
            path.to_npz(f)
            new = wbPath.from_npz(f)
            if route == "npz_twice":
                f2 = os.path.join(d, "path2.npz")
                new.to_npz(f2)
                new = wbPath.from_npz(f2)
        finally:
            shutil.rmtree(d, ignore_errors=True)
    ctx.count(f"rebuilt_{route}")
    w = dict(wit, rebuilt_through=route)
    ctx.close(f"rebuilt({route}):recip_lattice", new.recip_lattice, recip, rtol=1e-12, what="recip lattice", witness=w)
    ok = verify_path(ctx, new, K_exp, lab_exp, br_exp, recip, f"rebuilt({route})", w)
    return (new, route, w) if ok else None


def refinement_subcase(ctx, rng, path, K_exp, lab_exp, br_exp, recip, wit):
    u = rng.random()
    if u < 0.08:
        f, ref = 1, path.get_refined(factor=1)          # nothing to insert: the same path
        ctx.count("refined_factor_1")
    elif u < 0.16:
        f, ref = 2, path.get_refined()                   # documented default
        ctx.count("refined_default_factor")
    elif u < 0.24:
        f = int(rng.integers(2, 6))
        ref = path.get_refined(np.int64(f))
        ctx.count("refined_positional_npint")
    elif u < 0.30:
        f = int(rng.integers(6, 41))                      # large factors
        ref = path.get_refined(factor=f)
        ctx.count("refined_large_factor")
    else:
        f = int(rng.integers(2, 6))
        ref = path.get_refined(factor=f)
    ctx.count("path_refined")
    # the path that was refined is still the same path
    verify_path(ctx, path, K_exp, lab_exp, br_exp, recip, "original_after_get_refined", dict(wit, factor=f))
    Kn, labn, brn, new = refined_expectation(K_exp, lab_exp, br_exp, f)
    w = dict(wit, factor=f)
    ok = verify_path(ctx, ref, Kn, labn, brn, recip, "get_refined", w)
    if not ok:
        return None
    # the original points (and their path coordinate) are kept
    ctx.close("get_refined:original_points_not_kept", np.asarray(ref.K_list)[new], K_exp, rtol=0, atol=1e-12 * max(
        1.0, np.abs(K_exp).max()), what="refined[new(i)] == original[i]", witness=w)
    kl0 = path.getKline()
    ctx.close("get_refined:Kline_of_original_points_changed", ref.getKline()[new], kl0, rtol=0,
              atol=1e-11 * max(kl0[-1], np.abs(recip).max()), what="Kline refined vs original", witness=w)
    ctx.close("get_refined:recip_lattice_changed", ref.recip_lattice, recip, rtol=1e-12, what="recip of refined path",
              witness=w)
    if rng.random() < 0.3 and len(Kn) < 150:
        f2 = int(rng.integers(2, 4))
        ref2 = ref.get_refined(factor=f2)
        Kn2, labn2, brn2, _ = refined_expectation(K_exp, lab_exp, br_exp, f * f2)
        verify_path(ctx, ref2, Kn2, labn2, brn2, recip, "get_refined(get_refined)", dict(w, factor2=f2))
        ctx.count("path_refined_twice")
    return ref, Kn, labn, brn, f


# ------------------------------------------------------------------ seekpath ------------------

def gen_cell(rng, kind=None):
    a = float(rng.uniform(2.5, 6.0))
    c = a * float(rng.uniform(1.2, 1.8))
    kinds = ["cubic", "fcc", "bcc", "hexagonal", "tetragonal", "orthorhombic", "bct", "monoclinic"]
    kind = kinds[int(rng.integers(len(kinds)))] if kind is None else kind
    b = a if kind not in ("orthorhombic", "monoclinic") else a * float(rng.uniform(1.25, 1.45))
    if kind in ("orthorhombic", "monoclinic"):
        c = a * float(rng.uniform(1.6, 1.9))
    lat = np.array(gen_systems.BRAVAIS[kind](a, b, c), dtype=float)
    two = rng.random() < 0.5 and kind not in ("orthorhombic", "bct", "monoclinic")
    if not two:
        pos, num = [[0.0, 0.0, 0.0]], [1]
    elif kind == "cubic":
        pos, num = [[0, 0, 0], [0.5, 0.5, 0.5]], [1, 2]
    elif kind == "fcc":
        pos, num = ([[0, 0, 0], [0.25, 0.25, 0.25]], [1, 1]) if rng.random() < 0.5 else (
            [[0, 0, 0], [0.5, 0.5, 0.5]], [1, 2])
    elif kind == "bcc":
        pos, num = [[0, 0, 0], [0.5, 0.5, 0.0]], [1, 2]
    elif kind == "hexagonal":
        pos, num = [[1 / 3, 2 / 3, 0.25], [2 / 3, 1 / 3, 0.75]], [1, 1]
    else:
        pos, num = [[0, 0, 0], [0.5, 0.5, 0.5]], [1, 2]
    return kind, a, lat, np.array(pos, dtype=float), np.array(num, dtype=int)


def seekpath_subcase(ctx, rng, wbPath, maxpts=150):
    import seekpath as sp
    kind, a, lat, pos, num = gen_cell(rng)
    defaults = bool(rng.random() < 0.15)      # documented defaults: dk=0.05, with_time_reversal=True
    wtr = True if defaults else bool(rng.random() < 0.7)
    recip = recip_of(lat)
    out = sp.get_path_orig_cell((lat, pos, num), with_time_reversal=wtr)
    coords = {k: np.array(v, dtype=float) for k, v in out["point_coords"].items()}
    runs = []
    for s0, s1 in out["path"]:
        if runs and runs[-1][-1] == s0:
            runs[-1].append(s1)
        else:
            runs.append([s0, s1])
    nodes, labels = [], []
    for r in runs:
        nodes.append(None)
        nodes += [coords[x] for x in r]
        labels += list(r)
    L = segment_lengths(nodes, recip)
    dk = 0.05 if defaults else float(sum(L) / rng.uniform(12, maxpts))
    ns = []
    for x in L:
        r = x / dk
        if abs(r - np.floor(r) - 0.5) < 1e-6:
            raise harness.Skip("tie:dk_rounding")
        ns.append(max(2, int(np.floor(r + 0.5)) + 1))
    u = rng.random()
    if defaults:
        path = wbPath.seekpath((lat.tolist(), pos.tolist(), num.tolist())) if u < 0.5 else wbPath.seekpath(
            lattice=lat, positions=pos, numbers=num)
        ctx.count("seekpath_default_dk")
    elif u < 0.4:
        path = wbPath.seekpath(cell=(lat, pos, num), dk=dk, with_time_reversal=wtr)
    elif u < 0.6:
        path = wbPath.seekpath(cell=[lat.tolist(), pos.tolist(), [int(x) for x in num]], dk=dk, with_time_reversal=wtr,
                               twoD_direction=None)
        ctx.count("seekpath_cell_as_lists")
    else:
        path = wbPath.seekpath(lattice=lat, positions=pos, numbers=num, dk=dk, with_time_reversal=wtr)
    ctx.count("seekpath")
    K_exp, lab_exp, br_exp = expected_path(nodes, labels, ns)
    wit = dict(cell=kind, a=a, lattice=lat, positions=pos, numbers=num, dk=dk, with_time_reversal=wtr,
               seekpath_segments=[list(s) for s in out["path"]])
    ctx.close("seekpath:recip_lattice", path.recip_lattice, recip, rtol=1e-12, what="recip lattice", witness=wit)
    ok = verify_path(ctx, path, K_exp, lab_exp, br_exp, recip, "seekpath", wit)
    if ok:
        ctx.nontrivial(("seekpath", kind, len(num), wtr, len(br_exp)))
        if len(br_exp):
            ctx.count("seekpath_with_breaks")
    return (path, K_exp, lat, kind) if ok else None


def seekpath_flat_subcase(ctx, rng, wbPath, maxpts=120):
    """Path.seekpath(twoD_direction=d): the band path of a layered cell drawn in the plane k_d = 0.  Judged without the
    library's own ordering: every point lies in the plane, every label sits at the seekpath coordinates of that name, the set
    of (undirected) segments equals the set of in-plane projections of the seekpath segments (vertical ones dropped), each once,
    and every segment is sampled uniformly with the documented number of points."""
    import seekpath as sp
    kind = ("hexagonal", "tetragonal", "cubic", "orthorhombic")[int(rng.integers(4))]
    kind, a, lat, pos, num = gen_cell(rng, kind=kind)
    d = 2 if kind != "orthorhombic" else int(rng.integers(3))   # the stacking axis of a layered cell
    wtr = bool(rng.random() < 0.7)
    recip = recip_of(lat)
    out = sp.get_path_orig_cell((lat, pos, num), with_time_reversal=wtr)
    coords = {k: np.array(v, dtype=float) for k, v in out["point_coords"].items()}
    inplane = {k: v for k, v in coords.items() if abs(v[d]) < 1e-7}

    def project(name):
        v = coords[name].copy()
        v[d] = 0.0
        hits = [k for k, w in inplane.items() if np.linalg.norm(w - v) < 1e-7]
        return hits[0] if len(hits) == 1 else None
    want = set()
    for s0, s1 in out["path"]:
        p0, p1 = project(s0), project(s1)
        if p0 is None or p1 is None:
            raise harness.Skip("seekpath: a node has no unique in-plane counterpart")
        if p0 != p1:
            want.add(frozenset((p0, p1)))
    dk = float(rng.uniform(0.03, 0.3))
    path = wbPath.seekpath(cell=(lat, pos, num), dk=dk, with_time_reversal=wtr, twoD_direction=d)
    ctx.count("seekpath_twoD")
    wit = dict(cell=kind, a=a, lattice=lat, positions=pos, numbers=num, dk=dk, with_time_reversal=wtr, twoD_direction=d,
               seekpath_segments=[list(x) for x in out["path"]])
    K = np.asarray(path.K_list, dtype=float)
    ctx.ev()
    if np.abs(K[:, d]).max() > 1e-12:
        ctx.violation("seekpath(twoD):points_outside_the_plane", f"max |k_{d}| = {np.abs(K[:, d]).max()}", wit)
        return
    lab = {int(k): str(v) for k, v in dict(path.labels).items()}
    brs = set(int(x) for x in path.breaks)
    idx = sorted(lab)
    ctx.ev()
    bad = [(i, lab[i]) for i in idx if lab[i] not in inplane or np.abs(K[i] - inplane[lab[i]]).max() > 1e-12]
    if bad or not idx or idx[0] != 0 or idx[-1] != len(K) - 1:
        ctx.violation("seekpath(twoD):label_not_at_its_seekpath_point", f"labels {lab}: wrong {bad}", wit)
        return
    runs = [[idx[0]]]
    for i0, i1 in zip(idx, idx[1:]):
        if i0 in brs:
            runs.append([i1])
        else:
            runs[-1].append(i1)
    got = [frozenset((lab[i0], lab[i1])) for r in runs for i0, i1 in zip(r, r[1:])]
    ctx.ev()
    if set(got) != want or len(got) != len(set(got)) or any(len(x) != 2 for x in got):
        ctx.violation("seekpath(twoD):segments!=in_plane_projections_of_seekpath_segments",
                      f"segments {[sorted(x) for x in got]} expected (any order) {[sorted(x) for x in want]}", wit)
        return
    nodes, labels = [], []
    for r in runs:
        nodes.append(None)
        nodes += [inplane[lab[i]] for i in r]
        labels += [lab[i] for i in r]
    ns = []
    for x in segment_lengths(nodes, recip):
        r = x / dk
        if abs(r - np.floor(r) - 0.5) < 1e-6:
            raise harness.Skip("tie:dk_rounding")
        ns.append(max(2, int(np.floor(r + 0.5)) + 1))
    K_exp, lab_exp, br_exp = expected_path(nodes, labels, ns)
    if verify_path(ctx, path, K_exp, lab_exp, br_exp, recip, "seekpath(twoD)", wit):
        ctx.nontrivial(("seekpath_twoD", kind, d, len(num), wtr, len(want), len(br_exp)))


# ------------------------------------------------------------------ tabulation ----------------

NATURAL = dict(energy=0, band_gradients=1, berry_curvature=2, berry_curvature_internal_terms=2,
               berry_curvature_external_terms=2, vel=1, im=2, bc_int=2, dbc=3, Energy=0, spin=0, spin_t=0, dspin=1)


def fresh_tabulators(tab, names, ibands, has_AA):
    """new tabulator objects equivalent to the named quantities / to the extra tabulators, with ibands preset"""
    ib = None if ibands is None else np.array(ibands)
    mk = dict(
        energy=lambda: tab.Energy(ibands=ib),
        Energy=lambda: tab.Energy(ibands=ib),
        band_gradients=lambda: tab.Velocity(ibands=ib, kwargs_formula={"external_terms": False}),
        berry_curvature=lambda: tab.BerryCurvature(ibands=ib),
        berry_curvature_internal_terms=lambda: tab.BerryCurvature(ibands=ib, kwargs_formula={"external_terms": False}),
        berry_curvature_external_terms=lambda: tab.BerryCurvature(ibands=ib, kwargs_formula={"internal_terms": False}),
        vel=lambda: tab.Velocity(ibands=ib),
        im=lambda: tab.InvMass(ibands=ib),
        bc_int=lambda: tab.BerryCurvature(ibands=ib, kwargs_formula={"external_terms": False}),
        dbc=lambda: tab.DerBerryCurvature(ibands=ib, kwargs_formula={} if has_AA else {"external_terms": False}),
        spin=lambda: tab.Spin(ibands=ib),
        spin_t=lambda: tab.Spin(ibands=ib),
        dspin=lambda: tab.DerSpin(ibands=ib),
    )
    return {n: mk[n]() for n in names}


def pointwise_oracle(wb, tab, system, K, names, ibands, has_AA):
    """every point evaluated alone, by fresh tabulator objects"""
    out = {n: [] for n in names}
    for k in K:
        r = wb.evaluate_k(system, k=tuple(float(x) for x in k), calculators=fresh_tabulators(tab, names, ibands, has_AA),
                          return_single_as_dict=True)
        for n in names:
            out[n].append(np.array(r[n].data[0]))
    return {n: np.array(v) for n, v in out.items()}


def compare_tab(ctx, res, oracle, K, system, ibands, good, a0, tag, wit):
    """rows of the tabulation vs the single-point oracle"""
    K = np.asarray(K)
    ctx.close(f"{tag}:kpoints!=path.K_list", np.asarray(res.kpoints), K, rtol=0, atol=1e-12 * max(1, np.abs(K).max()),
              what="TABresult.kpoints", witness=wit)
    E = gen_systems.bands(system, K)
    if ibands is not None:
        E = E[:, list(ibands)]
    ctx.close(f"{tag}:Energy!=independent_diagonalisation", res.get_data("Energy"), E, rtol=1e-10,
              scale=np.abs(E).max(), atol=1e-12, what="Energy along the path", witness=wit)
    ctx.count("tab_energy_vs_diag")
    for q, ref in oracle.items():
        got = np.asarray(res.get_data(q))
        if got.shape != ref.shape:
            ctx.ev()
            ctx.violation(f"{tag}:row_i!=evaluate_k(K_i)", f"{q}: shape {got.shape} expected {ref.shape}", wit)
            continue
        sel = np.ones(len(K), dtype=bool) if NATURAL[q] == 0 else good
        if not np.any(sel):
            continue
        sc = float(np.abs(ref[sel]).max())
        ctx.close(f"{tag}:row_i!=evaluate_k(K_i)", got[sel], ref[sel], rtol=1e-9, scale=sc,
                  atol=1e-9 * a0 ** NATURAL[q], what=f"quantity {q}", witness=wit)
        ctx.count("tab_rows_vs_evaluate_k", int(sel.sum()))


COMPONENTS = {1: ["x", "y", "z", (0,), (2,), "norm"], 2: ["xx", "xy", "zy", "yz", (0, 2), (1, 1), "trace"],
              3: ["xyz", "zzx", (2, 0, 1)]}


def component_of(arr, comp):
    """the documented meaning of `component`, from the full tensor (axes after (k, band))"""
    if comp == "norm":
        return np.linalg.norm(arr, axis=-1)
    if comp == "trace":
        return np.trace(arr, axis1=-2, axis2=-1)
    ind = tuple("xyz".index(c) for c in comp) if isinstance(comp, str) else tuple(comp)
    return arr[(Ellipsis,) + ind]


def get_data_subcase(ctx, rng, res, oracle, K, good, a0, wit):
    """TABresult.get_data(quantity, iband=..., component=...) on a path result: a selection of what get_data(quantity) gives"""
    nb = int(res.nband)
    for q, ref in oracle.items():
        if rng.random() < 0.6:
            continue
        rank = ref.ndim - 2
        u = rng.random()
        if u < 0.3:
            ib = int(rng.integers(nb))
        elif u < 0.6:
            ib = [int(x) for x in rng.permutation(nb)[:int(rng.integers(1, nb + 1))]]
        elif u < 0.8:
            ib = np.array(sorted(int(x) for x in rng.choice(nb, int(rng.integers(1, nb + 1)), replace=False)))
        else:
            ib = None
        comp = None
        if rank >= 1 and rng.random() < 0.7:
            c = COMPONENTS[rank]
            comp = c[int(rng.integers(len(c)))]
        got = np.asarray(res.get_data(q, iband=ib, component=comp))
        exp = ref if comp is None else component_of(ref, comp)
        exp = exp if ib is None else exp[:, ib]
        sel = np.ones(len(K), dtype=bool) if rank == 0 else good
        w = dict(wit, get_data=dict(quantity=q, iband=ib if not isinstance(ib, np.ndarray) else ib.tolist(), component=comp))
        ctx.ev()
        if got.shape != exp.shape:
            ctx.violation("get_data(iband,component)!=selection_of_the_rows", f"{q}: shape {got.shape} expected {exp.shape}", w)
            continue
        if not np.any(sel):
            continue
        ctx.close("get_data(iband,component)!=selection_of_the_rows", got[sel], exp[sel], rtol=1e-9,
                  scale=float(np.abs(ref[sel]).max()), atol=1e-9 * a0 ** NATURAL[q], what=f"{q} iband={ib} component={comp}",
                  witness=w)
        ctx.count("get_data_iband_component")


def second_request_subcase(ctx, rng, state, system, path, K, res, tabs, oracle, ibands, ibands_arg, good, a0, has_AA, wit):
    """the same path object, and the same tabulator objects, used for a second request; what the first request returned
    must stay what it was"""
    wb = state["wb"]
    from wannierberri.calculators import tabulate as tab
    from wannierberri.grid import Path
    snap = {q: np.array(res.get_data(q)) for q in oracle}
    snapE = np.array(res.get_data("Energy"))
    snapK = np.array(res.kpoints)
    K0 = np.array(path.K_list)
    lab0, br0 = (dict(path.labels) if isinstance(path.labels, dict) else list(path.labels)), [int(b) for b in path.breaks]
    npts = len(K)
    kb2 = int(rng.integers(1, npts + 2))
    u = rng.random()
    mytabs = {k: v for k, v in (tabs or {}).items() if k in oracle}
    if u < 0.5 and mytabs:
        # the user's tabulator objects again (they carry the band set of the first request), other k_batch
        if rng.random() < 0.5 and npts >= 4:
            i0 = int(rng.integers(0, npts - 2))
            i1 = int(rng.integers(i0 + 2, npts + 1))
            sub, rows = Path(system, k_list=K[i0:i1][::-1].copy()), np.arange(i0, i1)[::-1]   # walked backwards
        else:
            sub, rows = path, np.arange(npts)
        res2 = wb.evaluate_k_path(system, path=sub, tabulators=mytabs, ibands=ibands_arg, parallel=False, k_batch=kb2)
        orc2 = {q: oracle[q][rows] for q in mytabs}
        compare_tab(ctx, res2, orc2, K[rows], system, ibands, good[rows], a0, "second_request(same tabulator objects)",
                    dict(wit, second=dict(k_batch=kb2, rows=rows.tolist())))
        ctx.count("second_request_same_tabulators")
    else:
        # the same path, other quantities / bands / batch size
        nw = system.num_wann
        ib2 = None
        if nw > 1 and rng.random() < 0.6:
            ib2 = sorted(int(x) for x in rng.choice(nw, int(rng.integers(1, nw)), replace=False))
        names2 = ["energy", "band_gradients"]
        res2 = wb.evaluate_k_path(system, path=path, quantities=names2, ibands=ib2, parallel=False, k_batch=kb2)
        orc2 = pointwise_oracle(wb, tab, system, K, names2, ib2, has_AA)
        compare_tab(ctx, res2, orc2, K, system, ib2, good, a0, "second_request(same path)",
                    dict(wit, second=dict(k_batch=kb2, ibands=ib2, quantities=names2)))
        ctx.count("second_request_same_path")
    # values returned earlier stay valid
    ok = all(np.array_equal(np.asarray(res.get_data(q)), snap[q]) for q in snap) and np.array_equal(
        np.asarray(res.get_data("Energy")), snapE) and np.array_equal(np.asarray(res.kpoints), snapK)
    ctx.ev()
    if not ok:
        ctx.violation("second_request:changes_the_result_returned_by_the_first", "data of the first TABresult changed", wit)
    ctx.ev()
    if not (np.array_equal(np.asarray(path.K_list), K0) and (dict(path.labels) if isinstance(path.labels, dict) else list(path.labels)) == lab0 and [int(b) for b in path.breaks] == br0):
        ctx.violation("path_tabulation:changes_the_path", "K_list / labels / breaks of the path changed by the evaluation", wit)
    ctx.count("first_result_still_valid")


def tabulation_subcase(ctx, rng, state, system, path, K, info, wit0, has_AA):
    wb = state["wb"]
    from wannierberri.calculators import tabulate as tab
    from wannierberri.grid import Path
    nw = system.num_wann
    a0 = float(np.mean(np.linalg.norm(system.real_lattice, axis=1)))
    npts = len(K)
    # tie guard: gaps
    Eall = gen_systems.bands(system, K)
    good = np.ones(npts, dtype=bool) if nw == 1 else (np.diff(Eall, axis=1).min(axis=1) > GAP_GUARD)
    if (~good).sum():
        ctx.count("points_excluded_small_gap", int((~good).sum()))
    named_all = ["energy", "band_gradients", "berry_curvature_internal_terms"] + (
        ["berry_curvature", "berry_curvature_external_terms"] if has_AA else [])
    extra_all = ["vel", "im", "bc_int", "dbc"]
    if system.has_R_mat("SS"):
        named_all.append("spin")
        extra_all += ["spin_t", "dspin"]
    names = [n for n in named_all if rng.random() < 0.6]
    extras = [n for n in extra_all if rng.random() < 0.4]
    if not names and not extras:
        names = ["band_gradients"]
    ibands = None
    ibands_arg = None
    if nw > 1 and rng.random() < 0.45:
        nb = int(rng.integers(1, nw))
        ibands = sorted(int(x) for x in rng.choice(nw, nb, replace=False))
        ibands_arg = list(ibands)
        u = rng.random()
        if u < 0.25 and nw > 2:
            # any order (documented nowhere as sorted): column j of the result is band ibands[j]
            nb = int(rng.integers(2, nw + 1))
            ibands = [int(x) for x in rng.permutation(nw)[:nb]]
            ibands_arg = list(ibands)
            ctx.count("ibands_unsorted" if ibands != sorted(ibands) else "ibands_sorted_by_chance")
        elif u < 0.4:
            ibands_arg = tuple(ibands)
            ctx.count("ibands_tuple")
        elif u < 0.6:
            ibands_arg = np.array(ibands, dtype=[int, np.int32][int(rng.integers(2))])
            ctx.count("ibands_array")
    kbs = sorted({1, 2, 3, 5, 7, 10, 50, max(1, npts - 1), npts, npts + 1, int(rng.integers(1, 51))})
    kb = int(kbs[int(rng.integers(len(kbs)))])
    nbatch = -(-npts // kb)
    entry = ["evaluate_k_path", "run"][int(rng.integers(2))]
    wit = dict(wit0, k_batch=kb, ibands=ibands, quantities=names, tabulators=extras, entry=entry, num_wann=nw,
               path_points=npts)

    # the oracle: every point alone
    allnames = names + extras
    if ibands is not None and rng.random() < 0.5:
        # all bands evaluated, the columns picked by the harness (does not rely on the band selection of the tabulators)
        full = pointwise_oracle(wb, tab, system, K, allnames, None, has_AA)
        oracle = {n: v[:, list(ibands)] for n, v in full.items()}
        ctx.count("oracle_columns_selected_by_harness")
    else:
        oracle = pointwise_oracle(wb, tab, system, K, allnames, ibands, has_AA)
    if ibands is None and names:
        # ... and through the documented single-point shortcut with the named quantities
        for i in sorted(set(int(x) for x in rng.integers(0, npts, size=3))):
            r = wb.evaluate_k(system, k=tuple(K[i]), quantities=names, return_single_as_dict=True)
            for n in names:
                ctx.close("evaluate_k(quantities)!=evaluate_k(fresh tabulators)", r[n], oracle[n][i], rtol=1e-12,
                          scale=np.abs(oracle[n]).max(), what=f"{n} at point {i}", witness=wit)

    # the code under test
    tabs = None
    if entry == "evaluate_k_path" and (ibands is None or rng.random() < 0.5):
        tabs = fresh_tabulators(tab, extras, None, has_AA)
        qarg = list(names) if rng.random() < 0.6 else tuple(names)
        u = rng.random()
        if u < 0.25:
            ret = wb.evaluate_k_path(system, path=path, quantities=qarg, tabulators=tabs, ibands=ibands_arg, parallel=False,
                                     k_batch=kb, return_path=True)
            ctx.ev()
            if not (isinstance(ret, tuple) and len(ret) == 2 and ret[0] is path):
                ctx.violation("evaluate_k_path(return_path=True)_does_not_return_(path,result)", f"returned {type(ret)}", wit)
                return wit
            res = ret[1]
            ctx.count("return_path_true_with_path")
        elif u < 0.4:
            res = wb.evaluate_k_path(system, path=path, quantities=qarg, tabulators=tabs, ibands=ibands_arg, parallel=False,
                                     k_batch=kb, return_path=False)
        else:
            res = wb.evaluate_k_path(system, path=path, quantities=qarg, tabulators=tabs if (extras or rng.random() < 0.5)
                                     else None, ibands=ibands_arg, parallel=False, k_batch=kb)
        if ibands is not None:
            ctx.count("named_quantities_with_ibands")
    else:
        # named quantities as fresh objects
        tabs = fresh_tabulators(tab, allnames, None, has_AA)
        if entry == "evaluate_k_path":
            res = wb.evaluate_k_path(system, path=path, tabulators=tabs, ibands=ibands_arg, parallel=False, k_batch=kb)
        else:
            tall = tab.TabulatorAll(tabs, ibands=ibands_arg, mode=("path", "PATH", "Path")[int(rng.integers(3))])
            kw = dict(use_irred_kpt=False) if rng.random() < 0.5 else {}
            if rng.random() < 0.3:
                kw["symmetrize"] = bool(rng.random() < 0.5)
            res = wb.run(system, grid=path, calculators={"tabulate": tall}, parallel=False, k_batch=kb, **kw).results[
                "tabulate"]
    ctx.ev()
    if not hasattr(res, "get_data"):
        ctx.violation("evaluate_k_path(path=...)_does_not_return_the_result_alone", f"returned {type(res)}", wit)
        return wit
    ctx.count(f"entry_{entry}")
    ctx.count("k_batch_multi" if nbatch > 1 else "k_batch_single")
    compare_tab(ctx, res, oracle, K, system, ibands, good, a0, "path_tabulation", wit)
    if info.get("revisit"):
        ctx.count("tab_revisit_paths")
    if info.get("gshift"):
        ctx.count("tab_gshift_paths")
    get_data_subcase(ctx, rng, res, oracle, K, good, a0, wit)
    if rng.random() < 0.35:
        second_request_subcase(ctx, rng, state, system, path, K, res, tabs, oracle, ibands, ibands_arg, good, a0, has_AA, wit)

    # batches concatenated in another order, then TABresult.self_to_path (what a parallel completion order produces)
    if npts >= 3 and rng.random() < 0.6:
        nchunk = int(rng.integers(2, min(6, npts) + 1))
        cuts = sorted(int(x) for x in rng.choice(np.arange(1, npts), nchunk - 1, replace=False))
        bounds = [0] + cuts + [npts]
        chunks = []
        for b0, b1 in zip(bounds, bounds[1:]):
            sub = Path(system, k_list=K[b0:b1])
            tall = tab.TabulatorAll(fresh_tabulators(tab, allnames, None, has_AA), ibands=ibands, mode="path")
            chunks.append(wb.run(system, grid=sub, calculators={"tabulate": tall}, parallel=False,
                                 k_batch=int(rng.integers(1, 8))).results["tabulate"])
        perm = rng.permutation(len(chunks))
        if rng.random() < 0.3:
            tot = sum(chunks[j] for j in perm)
            ctx.count("chunks_joined_by_sum")
        else:
            tot = None
            for j in perm:
                tot = chunks[j] if tot is None else tot + chunks[j]
        tot.self_to_path(path)
        ctx.count("self_to_path_permuted")
        compare_tab(ctx, tot, oracle, K, system, ibands, good, a0, "self_to_path(permuted batches)",
                    dict(wit, chunks=bounds, order=perm.tolist()))
    ctx.nontrivial(("tab", info.get("kind"), info.get("nnodes"), info.get("nbreaks"), info.get("revisit"),
                    info.get("gshift"), info.get("factor"), min(nbatch, 4), nw, entry, ibands is None, has_AA))
    return wit


def leak_subcase(ctx, rng, state, system, path, K, has_AA, wit0):
    """named quantities with a band subset: the path rows, and the single-point evaluation afterwards"""
    wb = state["wb"]
    from wannierberri.calculators import tabulate as tab
    nw = system.num_wann
    if nw < 2:
        return
    a0 = float(np.mean(np.linalg.norm(system.real_lattice, axis=1)))
    nb = int(rng.integers(1, nw))
    ibands = sorted(int(x) for x in rng.choice(nw, nb, replace=False))
    names = ["energy", "band_gradients"]
    wit = dict(wit0, ibands=ibands, quantities=names, entry="evaluate_k_path(quantities, ibands)")
    Eall = gen_systems.bands(system, K)
    good = np.diff(Eall, axis=1).min(axis=1) > GAP_GUARD
    oracle = pointwise_oracle(wb, tab, system, K, names, ibands, has_AA)
    res = wb.evaluate_k_path(system, path=path, quantities=names, ibands=ibands, parallel=False,
                             k_batch=int(rng.integers(1, 51)))
    compare_tab(ctx, res, oracle, K, system, ibands, good, a0, "path_tabulation", wit)
    ctx.count("named_quantities_with_ibands")
    # afterwards (same process, nothing reset by the harness) a point alone must still give its own values ...
    i = int(rng.integers(len(K)))
    after = f"after evaluate_k_path(quantities={names}, ibands={ibands})"
    ctx.ev()
    try:
        r = wb.evaluate_k(system, k=tuple(K[i]), quantities=names, iband=ibands, return_single_as_dict=True)
        bad = [n for n in names if np.shape(r[n]) != oracle[n][i].shape or
               np.abs(np.asarray(r[n]) - oracle[n][i]).max() > 1e-9 * max(1.0, np.abs(oracle[n]).max())]
        if bad:
            ctx.violation(LEAK_MECH, f"evaluate_k(quantities={names}, iband={ibands}) {after} returns other values "
                          f"for {bad}", wit)
    except (IndexError, TypeError, ValueError) as e:
        ctx.violation(LEAK_MECH, f"evaluate_k(quantities={names}, iband={ibands}) {after} raises "
                      f"{type(e).__name__}: {e}", wit)
    # ... also for the whole band set ...
    ctx.ev()
    try:
        r = wb.evaluate_k(system, k=tuple(K[i]), quantities=["energy"])
        if np.shape(r) != (nw,) or np.abs(r - Eall[i]).max() > 1e-9:
            ctx.violation(LEAK_MECH, f"evaluate_k(quantities=['energy']) {after} returns {np.asarray(r).tolist()} "
                          f"expected {Eall[i].tolist()}", wit)
    except (IndexError, TypeError, ValueError) as e:
        ctx.violation(LEAK_MECH, f"evaluate_k(quantities=['energy']) {after} raises {type(e).__name__}: {e}", wit)
    # ... and a second path evaluation with all bands gives all bands
    ctx.ev()
    try:
        from wannierberri.grid import Path
        sub = Path(system, k_list=K[:5])
        r2 = wb.evaluate_k_path(system, path=sub, quantities=["energy"], parallel=False)
        E2 = np.asarray(r2.get_data("energy"))
        if E2.shape != Eall[:5].shape or np.abs(E2 - Eall[:5]).max() > 1e-9:
            ctx.violation(LEAK_MECH, f"evaluate_k_path(quantities=['energy']) {after} returns shape {E2.shape} "
                          f"expected {Eall[:5].shape} / other values", wit)
    except (IndexError, TypeError, ValueError) as e:
        ctx.violation(LEAK_MECH, f"evaluate_k_path(quantities=['energy']) {after} raises {type(e).__name__}: {e}", wit)


def compare_tab_sampled(ctx, rng, state, system, res, K, names, has_AA, tag, wit, extra_rows=()):
    """long paths: points and energies of every row, the other quantities at sampled rows (first, last, batch borders, random)"""
    from wannierberri.calculators import tabulate as tab
    K = np.asarray(K)
    npts = len(K)
    a0 = float(np.mean(np.linalg.norm(system.real_lattice, axis=1)))
    ctx.close(f"{tag}:kpoints!=path.K_list", np.asarray(res.kpoints), K, rtol=0, atol=1e-12 * max(1, np.abs(K).max()),
              what="TABresult.kpoints", witness=wit)
    E = gen_systems.bands(system, K)
    ctx.close(f"{tag}:Energy!=independent_diagonalisation", res.get_data("Energy"), E, rtol=1e-10,
              scale=np.abs(E).max(), atol=1e-12, what="Energy along the path", witness=wit)
    ctx.count("tab_energy_vs_diag")
    rows = sorted(set([0, npts - 1] + [int(r) for r in extra_rows if 0 <= r < npts] + [int(x) for x in rng.integers(0, npts, 5)]))
    good = np.ones(len(rows), dtype=bool) if system.num_wann == 1 else (np.diff(E[rows], axis=1).min(axis=1) > GAP_GUARD)
    oracle = pointwise_oracle(state["wb"], tab, system, K[rows], names, None, has_AA)
    for q, ref in oracle.items():
        got = np.asarray(res.get_data(q))
        if got.shape[1:] != ref.shape[1:] or got.shape[0] != npts:
            ctx.ev()
            ctx.violation(f"{tag}:row_i!=evaluate_k(K_i)", f"{q}: shape {got.shape} for {npts} points", wit)
            continue
        sel = np.ones(len(rows), dtype=bool) if NATURAL[q] == 0 else good
        if not np.any(sel):
            continue
        ctx.close(f"{tag}:row_i!=evaluate_k(K_i)", got[rows][sel], ref[sel], rtol=1e-9, scale=float(np.abs(ref[sel]).max()),
                  atol=1e-9 * a0 ** NATURAL[q], what=f"quantity {q} at rows {rows}", witness=wit)
        ctx.count("tab_rows_vs_evaluate_k", int(sel.sum()))


def big_tab_subcase(ctx, rng, state, system, recip, has_AA):
    """paths of >= 100 points whose length is a multiple of the batch size (or one more / one less)"""
    wb = state["wb"]
    from wannierberri.grid import Path
    kb = int((50, 25, 20, 10)[int(rng.integers(4))])
    nbat = int(rng.integers(2, 5))
    npts = max(100, kb * nbat) + int((0, 0, 1, -1)[int(rng.integers(4))])
    nodes = [rng.uniform(-1.0, 1.5, 3) for _ in range(3)]
    n1 = int(rng.integers(3, npts - 3))
    n2 = npts - n1 + 1                     # n1 + n2 - 1 points, or n1 + n2 with a break in between
    withbreak = bool(rng.random() < 0.4)
    if withbreak:
        nd = [nodes[0], nodes[1], None, nodes[1] + rng.integers(-1, 2, 3), nodes[2]]
        n2 -= 1
        labels = ["A", "B", "B'", "C"]
    else:
        nd = [nodes[0], nodes[1], nodes[2]]
        labels = ["A", "B", "C"]
    path = Path.from_nodes(system, nodes=copy_nodes(nd), labels=list(labels), nk=[n1, n2])
    K_exp, lab_exp, br_exp = expected_path(nd, labels, [n1, n2])
    wit = dict(nodes=[None if n is None else [float(x) for x in n] for n in nd], labels=labels, spec=dict(nk=[n1, n2]),
               k_batch=kb, path_points=npts, entry="evaluate_k_path (long path)")
    if len(K_exp) != npts or not verify_path(ctx, path, K_exp, lab_exp, br_exp, recip, "from_nodes", wit):
        return
    names = ["energy", "band_gradients"]
    res = wb.evaluate_k_path(system, path=path, quantities=names, parallel=False, k_batch=kb)
    borders = [b + d for b in range(kb, npts, kb) for d in (-1, 0)]
    compare_tab_sampled(ctx, rng, state, system, res, K_exp, names, has_AA, "path_tabulation", wit, extra_rows=borders)
    ctx.count("tab_npts_ge_100")
    if npts % kb == 0:
        ctx.count("tab_npts_multiple_of_k_batch")
    ctx.nontrivial(("tab_big", kb, npts % kb == 0, withbreak, system.num_wann))


# ------------------------------------------------------------------ the case ------------------

def case(ctx, rng, idx, state):
    from wannierberri.grid import Path
    # ---- construction only (cheap): several node lists on bare lattices
    ncons = 6
    for icons in range(ncons):
        lattice = gen_systems.random_lattice(rng) if rng.random() < 0.7 else gen_systems.bravais_lattice(rng)[1]
        recip = recip_of(lattice)
        how = ["real_lattice", "recip_lattice", "pointgroup"][int(rng.integers(3))]
        cls = "plain"
        kwc = dict(maxpts=80)
        if icons == 0 and idx % 3 == 0:
            cls, kwc = "big", dict(maxpts=int(rng.integers(200, 900)), big=True, maxnodes=3)    # segments of >= 100 points
        elif icons == 0 and idx % 3 == 1:
            cls, kwc = "many_nodes", dict(maxpts=400, maxnodes=40, minnodes=15)
        try:
            out = construction_subcase(ctx, rng, Path, lattice, recip, how, **kwc)
        except harness.Skip as s:
            ctx.skip(s.reason)
            continue
        if out is None:
            continue
        path, K_exp, lab_exp, br_exp, info, wit = out
        ctx.count(f"cons_{cls}")
        if rng.random() < 0.35:
            # the same path reached through an explicit k-list / as_dict / npz before it is refined
            rb = rebuilt_path(ctx, rng, Path, path, K_exp, lab_exp, br_exp, recip, wit)
            if rb is None:
                continue
            path, route, wit = rb
            info = dict(info, kind=info["kind"] + "+" + route)
        r = refinement_subcase(ctx, rng, path, K_exp, lab_exp, br_exp, recip, wit)
        if info["npts"] >= 3:
            ctx.nontrivial(("cons", info["kind"], min(info["nnodes"], 8), min(info["nbreaks"], 4), info["revisit"], info["gshift"],
                            None if r is None else min(r[4], 6), cls))
    # ---- seekpath wrapper
    sp_out = None
    if rng.random() < 0.5:
        try:
            sp_out = seekpath_subcase(ctx, rng, Path)
        except harness.Skip as s:
            ctx.skip(s.reason)
    if rng.random() < 0.3:
        try:
            seekpath_flat_subcase(ctx, rng, Path)
        except harness.Skip as s:
            ctx.skip(s.reason)

    # ---- tabulation along a path
    nw = int(rng.integers(1, 5))
    has_AA = bool(rng.random() < 0.4)
    has_SS = bool(rng.random() < 0.2)
    if has_SS:
        nw = 2 * int(rng.integers(1, 3))
    keys = ("Ham",) + (("AA",) if has_AA else ()) + (("SS",) if has_SS else ())
    use_sp = sp_out is not None and len(sp_out[1]) <= 70 and rng.random() < 0.6
    if use_sp:
        lattice = sp_out[2]
    else:
        lattice = gen_systems.random_lattice(rng)
    two_d = bool((not use_sp) and rng.random() < 0.15)
    if two_d:
        ctx.count("tab_2d_system")
    system = gen_systems.herm_system(rng, num_wann=nw, lattice=lattice, radius=rng.uniform(1.0, 2.2), keys=keys,
                                     centers=["random", "outside", "zero"][int(rng.integers(3))],
                                     spinor=True if has_SS else None,
                                     periodic=(True, True, False) if two_d else (True, True, True))
    system, hist = gen_systems.history_variant(rng, system, which=gen_systems.HISTORIES_NO_DISK[idx % 4])   # state reached through the API first
    ctx.count(f"history_{hist}")
    recip = recip_of(lattice)
    if use_sp:
        path, K = sp_out[0], sp_out[1]
        Kmod = np.round(K % 1, 9) % 1
        info = dict(kind="seekpath_" + sp_out[3], nnodes=len(path.labels), nbreaks=len(path.breaks),
                    revisit=bool(len(np.unique(Kmod, axis=0)) < len(K)), gshift=False)
        wit = dict(path="seekpath", cell=sp_out[3], K_list=K)
        ctx.count("tab_on_seekpath")
    else:
        out = construction_subcase(ctx, rng, Path, lattice, recip, "system", system=system, maxpts=36)
        if out is None:
            return
        path, K, lab_exp, br_exp, info, wit = out
        u = rng.random()
        if u < 0.3 and len(K) <= 14:
            r = refinement_subcase(ctx, rng, path, K, lab_exp, br_exp, recip, wit)
            if r is not None:
                path, K = r[0], r[1]
                info = dict(info, factor=r[4])
                wit = dict(wit, refined_by=r[4])
                ctx.count("tab_on_refined_path")
        elif u < 0.4:
            # the same points given as an explicit k-list
            path = Path(system, k_list=K.copy(), labels=dict(lab_exp), breaks=list(br_exp))
            info = dict(info, kind=info["kind"] + "+k_list")
            ctx.count("tab_on_k_list_path")
        elif u < 0.52:
            # the path went through as_dict / npz / an explicit k-list with numpy keys first (it then knows the lattice only)
            rb = rebuilt_path(ctx, rng, Path, path, K, lab_exp, br_exp, recip, wit)
            if rb is None:
                return
            path, route, wit = rb
            info = dict(info, kind=info["kind"] + "+" + route)
            ctx.count("tab_on_rebuilt_path")
        elif u < 0.6:
            # not built from nodes at all: points on a sphere (the rows must still be the points alone)
            nth, nph = int(rng.integers(2, 6)), int(rng.integers(2, 7))
            org = None if rng.random() < 0.5 else rng.uniform(-0.5, 0.5, 3)
            path = Path.sphere(system, r1=float(rng.uniform(0.05, 0.6)), ntheta=nth, nphi=nph, origin=org)
            info = dict(kind="sphere", nnodes=nth, nbreaks=nph, revisit=True, gshift=False)
            wit = dict(path="sphere", K_list=np.array(path.K_list))
            ctx.count("tab_on_sphere")
    K = np.array(path.K_list, dtype=float)  # verified above against the expectation
    if len(K) > 75:
        raise harness.Skip("path too long for the tabulation budget")
    if rng.random() < 0.3:
        # the path object was used before: listed, printed, batched, refined
        path.getKline()
        str(path)
        path.str_short
        path.get_K_list(k_batch=int(rng.integers(1, 9)))
        path.get_refined(2)
        ctx.count("tab_on_used_path")
    w = tabulation_subcase(ctx, rng, state, system, path, K, info, wit, has_AA)
    if idx % 6 == 5:
        big_tab_subcase(ctx, rng, state, system, recip, has_AA)
    if rng.random() < 0.35:
        leak_subcase(ctx, rng, state, system, path, K, has_AA, wit)
    # evaluate_k_path building the path itself from nodes/labels/length
    if rng.random() < 0.3:
        default_length = bool(rng.random() < 0.2)
        nodes, flags = gen_nodes(rng, maxnodes=2 if default_length else 4)
        L = segment_lengths(nodes, recip)
        Lpos = [x for x in L if x > 1e-9]
        dk = 2 * np.pi / 500 if default_length else (np.mean(Lpos) if Lpos else 1.0) / rng.uniform(1.5, 5.0)
        ns = []
        for x in L:
            rr = x / dk
            if abs(rr - np.floor(rr) - 0.5) < 1e-6:
                return
            ns.append(max(2, int(np.floor(rr + 0.5)) + 1))
        nreal = sum(1 for n in nodes if n is not None)
        labels = [LABELS[int(rng.integers(len(LABELS)))] for _ in range(nreal)]
        kwl = {} if default_length else dict(length=float(2 * np.pi / dk))
        u = rng.random()
        if default_length:
            ctx.count("evaluate_k_path_default_length")
        if u < 0.25:
            kwl["return_path"] = True
        elif u < 0.4:
            kwl["return_path"] = False
        ret = state["wb"].evaluate_k_path(system, nodes=copy_nodes(nodes), labels=list(labels), **kwl,
                                          quantities=["energy", "band_gradients"], parallel=False,
                                          k_batch=int(rng.integers(1, 51)))
        K2, lab2, br2 = expected_path(nodes, labels, ns)
        wit2 = dict(nodes=[None if n is None else [float(x) for x in n] for n in nodes], labels=labels, node_form=flags["form"],
                    entry="evaluate_k_path(nodes=...)", **kwl)
        ctx.ev()
        if kwl.get("return_path") is False:
            if not hasattr(ret, "get_data"):
                ctx.violation("evaluate_k_path(return_path=False)_does_not_return_the_result_alone", f"returned {type(ret)}", wit2)
                return
            ctx.count("return_path_false_with_nodes")
            p2, res2 = Path.from_nodes(system, nodes=copy_nodes(nodes), labels=list(labels), dk=float(dk)), ret
        else:
            if not (isinstance(ret, tuple) and len(ret) == 2 and isinstance(ret[0], Path)):
                ctx.violation("evaluate_k_path(nodes)_does_not_return_(path,result)", f"returned {type(ret)}", wit2)
                return
            p2, res2 = ret
        if len(K2) > 120:
            if verify_path(ctx, p2, K2, lab2, br2, recip, "evaluate_k_path(nodes)", wit2):
                compare_tab_sampled(ctx, rng, state, system, res2, K2, ["energy", "band_gradients"], has_AA,
                                    "path_tabulation", wit2)
                ctx.count("evaluate_k_path_from_nodes")
        elif verify_path(ctx, p2, K2, lab2, br2, recip, "evaluate_k_path(nodes)", wit2):
            from wannierberri.calculators import tabulate as tab
            a0 = float(np.mean(np.linalg.norm(system.real_lattice, axis=1)))
            E2 = gen_systems.bands(system, K2)
            good2 = np.ones(len(K2), dtype=bool) if nw == 1 else (np.diff(E2, axis=1).min(axis=1) > GAP_GUARD)
            orc = pointwise_oracle(state["wb"], tab, system, K2, ["energy", "band_gradients"], None, has_AA)
            compare_tab(ctx, res2, orc, K2, system, None, good2, a0, "path_tabulation", wit2)
            ctx.count("evaluate_k_path_from_nodes")
    ctx.sample(w)


if __name__ == "__main__":
    harness.main(
        PROP, "exploration", case, setup_fn=setup,
        tiers=dict(quick=dict(cases=192, shards=8, time=900), thorough=dict(cases=4000, shards=16, time=3000)),
        rule="node lists of 2-6 nodes (random / high-symmetry / revisited / shifted by G, list or array) with leading, "
             "single and double None breaks, labels given or default, nk int / nk list|tuple|array / dk / length "
             "(incl. dk dividing a segment exactly and dk longer than every segment), lattices random or Bravais given "
             "as system / real_lattice / recip_lattice, refinement factors 2-5 (and twice), seekpath on cubic/fcc/bcc/"
             "hexagonal/tetragonal cells with 1-2 atoms; tabulation on generic random Hermitian models (1-4 WFs, with or "
             "without AA / SS) with k_batch in {1..50, n-1, n, n+1}, band subsets, named quantities and tabulators of rank "
             "0-2, through evaluate_k_path and run(); a construction case is non-trivial with >=3 path points, distinct "
             "by (spec kind, #nodes, #breaks, revisit, G-shift, factor); a tabulation by (spec kind, #nodes, #breaks, "
             "revisit, G-shift, factor, #batches, num_wann, entry point, band subset, AA); widening review: nodes as "
             "tuples / integers / one (n,3) array / mixed, labels as tuple / array / iterator, lattice from a pointgroup, "
             "integer length, nk as numpy integer / iterator, segments of 100-900 points, 15-40 nodes, contradictory specs "
             "refused, paths rebuilt through k_list (numpy keys, tuple/array breaks) / as_dict / npz (once, twice) before "
             "refinement and tabulation, factors 1, default, 6-40, seekpath defaults / list cell / orthorhombic, bct, "
             "monoclinic cells / twoD_direction, ibands unsorted / tuple / array, return_path both ways, default length, "
             "get_data(iband, component), second request on the same path and with the same tabulator objects (first "
             "result unchanged), 2D systems, sphere paths, used paths, paths of >= 100 points with k_batch dividing the "
             "number of points",
        assumptions=["single-point oracle = wannierberri.evaluate_k with freshly built tabulators (the property is "
                     "stated against the evaluation of the point alone); energies also vs numpy eigvalsh of the "
                     "explicit Fourier sum",
                     "band-resolved non-scalar quantities are compared only at points whose minimal gap exceeds 1e-3 eV",
                     "serial evaluation only; parallel completion orders are emulated by concatenating separately "
                     "evaluated batches in a permuted order before TABresult.self_to_path (ray schedules: C12)",
                     "seekpath (third-party) is called directly by the harness to know nodes and segments"],
        required_counters=("path_from_nodes", "path_refined", "kline", "seekpath", "breaks", "revisit_paths",
                           "gshift_paths", "spec_nk_int", "spec_nk_list", "spec_dk", "spec_length",
                           "tab_rows_vs_evaluate_k", "tab_energy_vs_diag", "k_batch_multi", "self_to_path_permuted",
                           "entry_evaluate_k_path", "entry_run", "tab_revisit_paths", "tab_gshift_paths",
                           "named_quantities_with_ibands",
                           # widening review: argument forms, histories, re-use, sizes
                           "nodes_tuple", "nodes_int", "nodes_2darray", "nodes_mixed", "labels_tuple", "labels_array",
                           "labels_iter", "labels_none", "lattice_from_pointgroup", "spec_length_int",
                           "segment_ge_100_points", "cons_big", "cons_many_nodes", "contradicting_spec_refused",
                           "get_kpoints", "npts_multiple_of_k_batch", "rebuilt_k_list", "rebuilt_dict", "rebuilt_npz",
                           "rebuilt_npz_twice", "refined_factor_1", "refined_default_factor", "refined_large_factor",
                           "seekpath_default_dk", "seekpath_cell_as_lists", "seekpath_twoD", "ibands_unsorted", "ibands_tuple",
                           "ibands_array", "oracle_columns_selected_by_harness", "return_path_true_with_path",
                           "return_path_false_with_nodes", "get_data_iband_component", "second_request_same_tabulators",
                           "second_request_same_path", "first_result_still_valid", "tab_2d_system", "tab_on_rebuilt_path",
                           "tab_on_sphere", "tab_on_used_path", "tab_npts_ge_100", "tab_npts_multiple_of_k_batch",
                           "chunks_joined_by_sum", "evaluate_k_path_default_length"),
    )
