"""C03 - integrals depend only on the k-point set, not on its FFT factorisation (DIFF).

For a regular grid with N_i points along direction i, run() is executed for every factorisation
N_i = NKdiv_i x NKFFT_i (incl. FFT grids smaller than the recommended size), for both FFT libraries, for a
basket of static (fder 0-3, tetra on/off), dynamic and tabulating calculators.  All runs must agree; tabulated
grids must agree point by point.  Tie guard: band energies of the grid points must stay away from Fermi-bin
edges and from the degeneracy threshold (otherwise the case is skipped as `tie`).
"""
import itertools
import os
import shutil
import sys

sys.path.insert(0, os.path.dirname(os.path.dirname(os.path.abspath(__file__))))
from vlib import env, harness, gen_systems, monitors, runkit  # noqa: E402
import numpy as np  # noqa: E402

PROP = "C03"


def setup(ctx):
    env.import_wb()
    return {}


def factorisations(N):
    per_axis = [[(d, n // d) for d in range(1, n + 1) if n % d == 0] for n in N]
    return [(tuple(x[0] for x in c), tuple(x[1] for x in c)) for c in itertools.product(*per_axis)]


def case(ctx, rng, idx, state):
    import wannierberri as wb
    from wannierberri.grid import Grid

    nw = int(rng.integers(2, 5))
    keys = [("Ham",), ("Ham", "AA"), ("Ham", "AA", "SS")][int(rng.integers(3))]
    twoD = rng.random() < 0.2
    periodic = (True, True, False) if twoD else (True, True, True)
    system = gen_systems.herm_system(rng, num_wann=nw, radius=rng.uniform(1.0, 2.2), keys=keys, centers=["random", "groups", "outside"][int(rng.integers(3))],
                                     periodic=periodic)
    system, hist = gen_systems.history_variant(rng, system, which=gen_systems.HISTORIES_NO_DISK[idx % 4])   # state reached through the API first
    ctx.count(f"history_{hist}")
    choices = [2, 3, 4, 6] if not ctx.thorough else [2, 3, 4, 6, 8]
    N = [int(rng.choice(choices)) for _ in range(3)]
    if twoD:
        N[2] = 1
    while np.prod(N) > (48 if not ctx.thorough else 220):
        N[int(np.argmax(N))] = 2
    facs = factorisations(N)
    if len(facs) > (5 if not ctx.thorough else 12):
        keep = [0, len(facs) - 1] + [int(i) for i in rng.choice(np.arange(1, len(facs) - 1), size=(3 if not ctx.thorough else 10), replace=False)]
        facs = [facs[i] for i in sorted(set(keep))]
    emin, emax, _ = gen_systems.bandwidth(system, nk=3)
    nEf = int(rng.integers(4, 9))
    Ef = np.linspace(emin + 0.15 * (emax - emin), emax - 0.15 * (emax - emin), nEf) + rng.uniform(0, 1e-2)
    omega = np.linspace(0.1, 0.8 * (emax - emin), 4)
    calcs = runkit.big_basket(rng, wb, system, Ef, omega)
    ctx.count('calculator_options_' + ('+'.join(sorted(runkit.big_basket.last_options)) or 'default'))
    twins = runkit.raw_twins(calcs)
    calcs_run = dict(calcs, **twins)
    # ---- tie guard: energies on the grid vs Fermi-bin edges of the finite-difference calculators ----
    ks = np.array([(i / N[0], j / N[1], k / N[2]) for i in range(N[0]) for j in range(N[1]) for k in range(N[2])])
    E = gen_systems.bands(system, ks)
    dE = Ef[1] - Ef[0]
    pos = (E.reshape(-1)[:, None] - (Ef[0] - 3 * dE)) / dE
    if np.abs(pos - np.round(pos)).min() * dE < 1e-7:
        raise harness.Skip("tie: band energy on a Fermi-bin edge")
    gaps = np.diff(E, axis=1)
    if gaps.size and np.any(np.abs(gaps - 1e-4) < 1e-6):
        raise harness.Skip("tie: gap at the degeneracy threshold")
    wit = dict(num_wann=nw, keys=keys, N=N, periodic=periodic, calculators=sorted(calcs), Efermi=Ef, factorisations=facs)
    tmp = os.path.join(env.WORK, f"c03-{os.getpid()}-{idx}")
    os.makedirs(tmp, exist_ok=True)
    results = []
    try:
        for (div, fft) in facs:
            for lib in ("fftw", "numpy"):
                if lib == "numpy" and rng.random() < 0.5 and len(results) > 1:
                    continue
                grid = Grid(system, NKdiv=div, NKFFT=fft)
                if not (np.all(grid.div == np.array(div) * np.array(periodic)) or np.all(grid.div == div)):
                    raise harness.Skip("grid adjusted")
                with monitors.chdir(tmp):
                    res = wb.run(system, grid, calcs_run, parallel=False, use_irred_kpt=False, symmetrize=False, adpt_num_iter=0, fout_name="c03",
                                 parameters_K={"fftlib": lib}, print_progress_step_time=1e9)
                results.append(((div, fft, lib), res))
                ctx.count(f"runs_{lib}")
    finally:
        shutil.rmtree(tmp, ignore_errors=True)
    (ref_tag, ref) = results[0]
    for tag, res in results[1:]:
        w = dict(case=wit, reference=ref_tag, run=tag)
        for key in calcs:
            if key == "tab":
                ta, tb = res.results[key], ref.results[key]
                ctx.close("tabulated_kpoints_differ_between_factorisations", ta.kpoints, tb.kpoints, rtol=1e-12, scale=1.0, what=f"kpoints {tag}", witness=w)
                for q in tb.results:
                    b = tb.results[q].data
                    ctx.close("tabulated_values_differ_between_factorisations", ta.results[q].data, b, rtol=1e-8, scale=np.abs(b).max(),
                              what=f"tab {q} {tag} vs {ref_tag}", witness=w)
            else:
                b = ref.results[key].data
                sc = runkit.natural_scale([r for _, r in results], key)
                ctx.close("integral_differs_between_factorisations", res.results[key].data, b, rtol=1e-9, scale=sc,
                          what=f"key {key} {tag} vs {ref_tag}", witness=w)
    small_fft = any(np.any(np.array(fft) < np.array(system.NKFFT_recommended)) for (_, fft) in facs)
    ctx.count("cases_with_FFT_smaller_than_recommended", int(small_fft))
    if len(results) >= 3:
        ctx.nontrivial((nw, keys, tuple(N), periodic, tuple(sorted(calcs)), len(results)))
    ctx.sample(dict(num_wann=nw, keys=keys, N=N, runs=[t for t, _ in results], calculators=sorted(calcs)))


if __name__ == "__main__":
    harness.main(
        PROP, "exploration", case, setup_fn=setup,
        tiers=dict(quick=dict(cases=16, shards=8, time=900), thorough=dict(cases=400, shards=16, time=3000)),
        rule="random Hermitian models (2-4 WFs, Ham / +AA / +AA+SS, 3D or 2D), grids N_i in {2,3,4,6(,8)} incl. anisotropic; all (or 6-12 sampled incl. "
             "the two extreme) factorisations NKdiv x NKFFT, both FFT libraries, 2-4 calculators from a pool of 14 static/dynamic ones (tetra randomly on) "
             "plus a grid tabulator (energy, Berry curvature, velocity); non-trivial = at least 3 runs compared; distinct by (model size, N, calculators)",
        assumptions=["differential oracle: the first factorisation (NKFFT=1) is the reference", "tie guard on Fermi-bin edges (1e-7) and the degeneracy threshold"],
        required_counters=("runs_fftw", "runs_numpy", "cases_with_FFT_smaller_than_recommended"),
    )
