"""C16 - result objects behave as vectors and survive saving (REF).

Real objects: EnergyResult, KBandResult, K__Result, ResultDict (nested, with Void values), TABresult,
VoidResult, Transform / TransformProduct, PointSymmetry (Rotation, Mirror, named, general, products).

Oracle: a *model* of every result kept next to the real object (plain numpy arrays + the meta data the
harness itself chose); every operation is carried out on the model with explicit numpy
(`+`/`-`/`*`/`/` element-wise for energy results, `+` = union over k (stack along k) for band-resolved
results, key-wise for dictionaries, Void = neutral element) and the real result is compared with it:
data, type, rank, energies, both transforms.  `transform(sym)` is compared (a) metamorphically
(distributes over `+`, commutes with scaling) and (b) with an independent einsum rotation by the proper
part of the matrix the harness built itself (Rodrigues formula), followed by index-loop
implementations of the TR / inversion transforms.  Save -> from_npz must reproduce energies, data,
rank, both transforms (attributes and behaviour), comment.

Not judged (by design of the library): K__Result.__truediv__ (no-op copy), TABresult.__mul__ (returns
self), the comment chosen by `+`.  `EnergyResult * x` for numpy scalars that are neither int nor float
(np.int64, np.float32) raises the library's explicit TypeError: accepted and counted (a wrong *value*
would be a violation).  0-d data (no energy axis, rank 0) cannot be transformed by TR/inversion
(Transform.__call__ indexes res[:]) - counted as skipped.

Widening review (histories and argument forms, same oracles):
* every result returned by an operation is kept and re-read at the end of the case (values returned
  earlier must stay valid); operands are re-compared completely (data, energies, transforms) at the end;
* objects that were used before: cached properties warm (`monitors.warm_caches`), sums whose blocks were
  merged before / after the operation, a result built from a list of k-blocks, results of earlier operations
  as operands of the in-place `add`, of `transform` (twice, inverse) and of save;
* save histories: `save` with a `{}` place holder, `savedata` in every save mode with empty / non-empty
  prefix and suffix, `ResultDict.savedata`, save of derived objects, load -> save -> load, the loaded object as
  an operand (`ld*c`, `ld+a`, `a+ld`), a missing file (documented: void result);
* argument forms: Energies as tuple / bare array, smoothers None / tuple / bare, empty title lists, equal but
  separately built transforms on the two operands, default (None) transforms with proper rotations, data that
  are Fortran-ordered / strided / negative-stride views / read-only, 100-1000 energies, 100-300 k-points, 16-40
  bands; symmetry axes as list / tuple / array of any non-zero length (1e-6..1e6), default axes, `copy()`,
  `PointSymmetry(**sym.as_dict())`, `from_string_prod`; dictionaries with different key order, no keys.
* smoothers must travel through `*`, `/`, `-`, `transform`, `mul_array` (documented in the class docstring).
Classes that fire on the unchanged tree are run only with VERIF_C16_PENDING=1 (see `PENDING`).
"""
import os
import shutil
import sys
import tempfile

sys.path.insert(0, os.path.dirname(os.path.dirname(os.path.abspath(__file__))))
from vlib import env, harness, monitors  # noqa: E402
import numpy as np  # noqa: E402

PROP = "C16"
RTOL = 1e-12
PENDING = True   # the three classes that fired on the unchanged tree were repaired (81bea256, 67048005, 9fb42ef4) and are always run

# what the pre-defined Transform objects are documented to be (factor, conj, transpose_axes, swap_axes)
PREDEF = {
    "transform_ident": (1, False, None, None),
    "transform_odd": (-1, False, None, None),
    "transform_odd_conj": (-1, True, None, None),
    "transform_odd_trans_021": (-1, False, (0, 2, 1), None),
    "transform_odd_trans_102": (-1, False, (1, 0, 2), None),
    "transform_trans": (1, False, (1, 0), None),
}
NAMED_SYM = {  # name -> (kind, n, axis)
    "Identity": ("rot", 1, (0, 0, 1)), "Inversion": ("inv", 1, (0, 0, 1)), "TimeReversal": ("tr", 1, (0, 0, 1)),
    "Mx": ("mirror", 2, (1, 0, 0)), "My": ("mirror", 2, (0, 1, 0)), "Mz": ("mirror", 2, (0, 0, 1)),
    "C2x": ("rot", 2, (1, 0, 0)), "C2y": ("rot", 2, (0, 1, 0)), "C2z": ("rot", 2, (0, 0, 1)),
    "C3z": ("rot", 3, (0, 0, 1)), "C4x": ("rot", 4, (1, 0, 0)), "C4y": ("rot", 4, (0, 1, 0)),
    "C4z": ("rot", 4, (0, 0, 1)), "C6z": ("rot", 6, (0, 0, 1)),
}


def setup(ctx):
    env.import_wb()
    from wannierberri.result import EnergyResult, KBandResult, K__Result, ResultDict, TABresult
    from wannierberri.result.result import VoidResult
    from wannierberri.symmetry import point_symmetry as ps
    from wannierberri import smoother
    return dict(EnergyResult=EnergyResult, KBandResult=KBandResult, K__Result=K__Result, ResultDict=ResultDict,
                TABresult=TABresult, VoidResult=VoidResult, ps=ps, smoother=smoother)


# --------------------------------------------------------------------------------------------------
#  independent reference implementations
# --------------------------------------------------------------------------------------------------
def rodrigues(axis, angle):
    n = np.asarray(axis, dtype=float)
    n = n / np.sqrt(np.dot(n, n))
    K = np.array([[0, -n[2], n[1]], [n[2], 0, -n[0]], [-n[1], n[0], 0]])
    return np.eye(3) + np.sin(angle) * K + (1 - np.cos(angle)) * (K @ K)


def mkspec(factor=1, conj=False, transpose_axes=None, swap_axes=None):
    return dict(factor=int(factor), conj=bool(conj),
                transpose_axes=None if transpose_axes is None else tuple(int(x) for x in transpose_axes),
                swap_axes=None if swap_axes is None else tuple(int(x) for x in swap_axes))


def spec_of(t):
    """read the four defining attributes of a real Transform object"""
    if t is None:
        return None
    ta = getattr(t, "transpose_axes", "missing")
    sa = getattr(t, "swap_axes", "missing")
    return dict(factor=int(t.factor), conj=bool(t.conj),
                transpose_axes=None if ta is None else (ta if isinstance(ta, str) else tuple(int(x) for x in ta)),
                swap_axes=None if sa is None else (sa if isinstance(sa, str) else tuple(int(x) for x in sa)))


def ref_T(arr, sp):
    """TR / inversion transform of a tensor field, written with explicit index loops"""
    nd = arr.ndim
    out = np.array(arr, copy=True)
    if sp["transpose_axes"] is not None:
        p = sp["transpose_axes"]
        n = len(p)
        for i in np.ndindex(*((3,) * n)):
            j = [0] * n
            for k in range(n):
                j[p[k]] = i[k]          # out[i_0..i_{n-1}] = arr[j],  j[p_k] = i_k   (numpy transpose)
            out[(Ellipsis,) + tuple(i)] = arr[(Ellipsis,) + tuple(j)]
    elif sp["swap_axes"] is not None:
        a, b = sp["swap_axes"]
        for i0 in range(3):
            for i1 in range(3):
                io = [slice(None)] * nd
                ii = [slice(None)] * nd
                io[a], io[b] = i0, i1
                ii[a], ii[b] = i1, i0
                out[tuple(io)] = arr[tuple(ii)]
    if sp["conj"]:
        out = np.conj(out)
    return sp["factor"] * out


def ref_transform(arr, rank, M, TR, spTR, spInv):
    """rotate every tensor index with the proper part of M, then TR transform, then inversion transform"""
    inv = np.linalg.det(M) < 0
    P = -M if inv else M
    out = np.array(arr, copy=True)
    if rank > 0:
        lo = "abcd"[:rank]
        up = "ABCD"[:rank]
        out = np.einsum("..." + lo + "," + ",".join(u + l for u, l in zip(up, lo)) + "->..." + up, out, *([P] * rank))
    if TR:
        out = ref_T(out, spTR)
    if inv:
        out = ref_T(out, spInv)
    return out


# --------------------------------------------------------------------------------------------------
#  generators
# --------------------------------------------------------------------------------------------------
def gen_transform(rng, rank, ps):
    """-> (Transform object, spec, label)"""
    opts = ["transform_ident", "transform_odd", "transform_odd_conj", "conj", "product"]
    if rank >= 2:
        opts += ["transform_trans", "transform_trans", "swap", "perm"]
    if rank >= 3:
        opts += ["transform_odd_trans_021", "transform_odd_trans_102", "perm"]
    c = opts[int(rng.integers(len(opts)))]
    if c in PREDEF:
        return getattr(ps, c), mkspec(*PREDEF[c]), c
    if c == "conj":
        f = int(rng.choice([1, -1]))
        return ps.Transform(factor=f, conj=True), mkspec(f, True), "conj"
    if c == "product":
        cj = bool(rng.random() < 0.5)
        fs = [int(x) for x in rng.choice([1, -1], size=int(rng.integers(1, 4)))]
        t = ps.TransformProduct([ps.Transform(factor=f, conj=cj) for f in fs])
        return t, mkspec(int(np.prod(fs)), cj), "product"
    f = int(rng.choice([1, -1]))
    cj = bool(rng.random() < 0.3)
    if c == "swap":
        a, b = rng.choice(np.arange(-rank, 0), size=2, replace=False)
        sw = (int(a), int(b))
        return ps.Transform(factor=f, conj=cj, swap_axes=sw), mkspec(f, cj, None, sw), "swap"
    n = int(rng.integers(2, rank + 1))
    p = tuple(int(x) for x in rng.permutation(n))
    return ps.Transform(factor=f, conj=cj, transpose_axes=p), mkspec(f, cj, p), f"perm{n}"


def gen_sym(rng, ps, ctx=None, proper_only=False):
    """-> (PointSymmetry object, full 3x3 matrix (improper allowed), TR flag, label)
    proper_only: no TR, det = +1 (for results that have no TR / inversion transform)"""
    def cnt(name):
        if ctx is not None:
            ctx.count(name)

    def randaxis():
        if rng.random() < 0.3:
            return [(1, 0, 0), (0, 1, 0), (0, 0, 1), (1, 1, 0), (1, 1, 1), (1, -1, 0)][int(rng.integers(6))]
        v = rng.normal(size=3)
        return tuple(float(x) for x in v / np.linalg.norm(v) * rng.uniform(0.3, 3))

    def axis_form(ax):
        """the same direction in another documented form ("Iterable of 3 float numbers. Length of vector does not matter")"""
        ax = np.array(ax, dtype=float)
        if rng.random() < 0.25:
            ax = ax * 10 ** rng.uniform(-6, 6)
            cnt("sym_axis_rescaled")
        form = int(rng.integers(3))
        if form == 0:
            return [float(x) for x in ax]
        if form == 1:
            cnt("sym_axis_tuple_or_array")
            return tuple(float(x) for x in ax)
        cnt("sym_axis_tuple_or_array")
        return ax

    def named(name):
        k, n, ax = NAMED_SYM[name]
        if k == "rot":
            return rodrigues(ax, 2 * np.pi / n), False
        if k == "mirror":
            u = np.array(ax, dtype=float)
            return np.eye(3) - 2 * np.outer(u, u), False
        if k == "inv":
            return -np.eye(3), False
        return np.eye(3), True

    def one():
        kinds = ["rot", "mirror", "named", "named", "general", "tr", "inv", "default_axis", "string_prod"]
        if proper_only:
            kinds = ["rot", "rot", "general", "default_axis"]
        kind = kinds[int(rng.integers(len(kinds)))]
        if kind == "rot":
            n = int(rng.choice([1, 2, 3, 4, 6, 5, -3, -4, 8]))
            ax = randaxis()
            return ps.Rotation(n, axis_form(ax)), rodrigues(ax, 2 * np.pi / n), False, "rot"
        if kind == "mirror":
            ax = np.array(randaxis(), dtype=float)
            u = ax / np.linalg.norm(ax)
            return ps.Mirror(axis_form(ax)), np.eye(3) - 2 * np.outer(u, u), False, "mirror"
        if kind == "default_axis":     # documented default axis = z
            cnt("sym_default_axis")
            if proper_only or rng.random() < 0.5:
                n = int(rng.choice([2, 3, 4, 6, -6]))
                return ps.Rotation(n), rodrigues((0, 0, 1), 2 * np.pi / n), False, "rot_default_axis"
            return ps.Mirror(), np.diag([1.0, 1.0, -1.0]), False, "mirror_default_axis"
        if kind == "named":
            name = sorted(NAMED_SYM)[int(rng.integers(len(NAMED_SYM)))]
            obj = ps.dict_sym[name] if rng.random() < 0.5 else ps.from_string(name)
            M, TR = named(name)
            return obj, M, TR, name
        if kind == "string_prod":      # 'A*B*C' = the ordered product A.B.C
            names = [sorted(NAMED_SYM)[int(rng.integers(len(NAMED_SYM)))] for _ in range(int(rng.integers(1, 4)))]
            M, TR = np.eye(3), False
            for nm in names:
                Mi, TRi = named(nm)
                M = M @ Mi
                TR = TR != TRi
            cnt("sym_from_string_prod")
            return ps.from_string_prod("*".join(names)), M, TR, "'" + "*".join(names) + "'"
        if kind == "general":
            M = rodrigues(rng.normal(size=3), rng.uniform(0, 2 * np.pi))
            if proper_only:
                return ps.PointSymmetry(M.copy(), False), M, False, "general"
            M = M * int(rng.choice([1, -1]))
            TR = bool(rng.random() < 0.5)
            return ps.PointSymmetry(M.copy(), TR), M, TR, "general"
        if kind == "tr":
            return ps.TimeReversal, np.eye(3), True, "TimeReversal"
        return ps.Inversion, -np.eye(3), False, "Inversion"

    nfac = int(rng.choice([1, 1, 2, 2, 3]))
    facs = [one() for _ in range(nfac)]
    if nfac == 1:
        obj = facs[0][0]
    elif rng.random() < 0.5:
        obj = ps.product([f[0] for f in facs])
    else:
        obj = facs[0][0]
        for f in facs[1:]:
            obj = obj * f[0]
    M = np.eye(3)
    TR = False
    for f in facs:
        M = M @ f[1]
        TR = TR != f[2]
    label = "*".join(f[3] for f in facs)
    # the same operation after going through other public calls
    r = rng.random()
    if r < 0.12:
        obj = obj.copy()
        cnt("sym_via_copy")
        label += ".copy()"
    elif r < 0.27:
        obj = ps.PointSymmetry(**obj.as_dict())
        cnt("sym_via_as_dict")
        label += "->as_dict"
    return obj, M, TR, label


def rebuild_transform(ps, sp):
    """an equal Transform built separately from its four defining attributes"""
    if sp is None:
        return None
    return ps.Transform(factor=sp["factor"], conj=sp["conj"], transpose_axes=sp["transpose_axes"], swap_axes=sp["swap_axes"])


def relayout(rng, data):
    """the same values in another memory layout (what transposes / einsum / slicing in calculators produce) -> (array, label)"""
    k = int(rng.integers(6))
    if data.ndim == 0 or k <= 1:
        return data.copy(), "C"
    if k == 2:
        return np.asfortranarray(data), "F"
    if k == 3:
        big = np.zeros(data.shape[:-1] + (2 * data.shape[-1],), dtype=data.dtype)
        view = big[..., ::2]
        view[...] = data
        return view, "strided"
    if k == 4:
        buf = data[::-1].copy()
        return buf[::-1], "negstride"
    d = data.copy()
    d.flags.writeable = False
    return d, "readonly"


def rand_data(rng, shape, cplx, amp):
    d = rng.normal(size=shape)
    if cplx:
        d = d + 1j * rng.normal(size=shape)
    return np.asarray(d * amp)


def gen_scalar(rng):
    k = ["int", "float", "npfloat64", "float", "bool"][int(rng.integers(5))]
    if k == "int":
        return int(rng.choice([-7, -2, -1, 2, 3, 5, 0, 12])), k
    if k == "float":
        return float(rng.choice([-1, 1]) * 10 ** rng.uniform(-3, 3)), k
    if k == "npfloat64":
        return np.float64(rng.uniform(-4, 4)), k
    return bool(rng.random() < 0.7), k


def gen_smoothers(rng, st, Energies):
    """two lists of equal (but separately constructed) smoothers"""
    sm = st["smoother"]
    s1, s2 = [], []
    for E in Energies:
        r = rng.random()
        if len(E) < 3 or r < 0.6:
            choice = (None, None) if rng.random() < 0.5 else (sm.VoidSmoother(), None)
        elif r < 0.8:
            T = float(rng.uniform(50, 3000))
            choice = (sm.FermiDiracSmoother(E, T), sm.FermiDiracSmoother(E.copy(), T))
        else:
            w = float(rng.uniform(0.05, 1.0))
            choice = (sm.GaussianSmoother(E, w), sm.GaussianSmoother(E.copy(), w))
        s1.append(choice[0])
        s2.append(choice[1])
    return s1, s2


# ---- models: ("E", arr, meta) ("K", arr, meta) ("D", {key: model}) ("V",) ("T", kpoints, {key: model}) ----
def build_energy(rng, st, nobj=2, big=False, variants=True):
    ER = st["EnergyResult"]
    ne = int(rng.integers(0, 4))
    rank = int(rng.integers(0, 5))
    NEs = [int(rng.integers(1, 6 if big else 5)) for _ in range(ne)]
    limit = 12000
    large = bool(variants and rng.random() < 0.06)
    if large:      # >= 100 energies on one axis (what a real Fermi scan has)
        ne = max(ne, 1)
        rank = min(rank, 2)
        NEs = [int(rng.integers(1, 3)) for _ in range(ne)]
        NEs[int(rng.integers(ne))] = int(rng.choice([100, 101, 128, 257, 1000]))
        limit = 40000
    while int(np.prod(NEs, dtype=int)) * 3 ** rank > limit:
        NEs[int(np.argmax(NEs))] -= 1
    cplx = bool(rng.random() < 0.5)
    amp = 10 ** rng.uniform(-3, 3)
    Energies = []
    for N in NEs:
        e0 = rng.uniform(-5, 5)
        Energies.append(np.linspace(e0, e0 + rng.uniform(0.1, 10), N) if N > 1 else np.array([e0]))
    notrans = bool(variants and rng.random() < 0.05)    # the documented defaults transformTR=None, transformInv=None
    if notrans:
        tTR = tInv = spTR = spInv = None
        lTR = lInv = "None"
    else:
        tTR, spTR, lTR = gen_transform(rng, rank, st["ps"])
        tInv, spInv, lInv = gen_transform(rng, rank, st["ps"])
    sm1, sm2 = gen_smoothers(rng, st, Energies)
    nonvoid = sum(s is not None and type(s).__name__ != "VoidSmoother" for s in sm1)
    titles = [("Efermi", "Omega"), ["E1", "E2", "E3"], "Efermi", ("a", "b", "c", "d"), (), []][int(rng.integers(6))]
    comment = ["undocumented", "", "AHC in S/cm\nsecond line", "x" * 40, "unicode Ω é"][int(rng.integers(5))]
    shape = tuple(NEs) + (3,) * rank
    meta = dict(kind="E", energies=[E.copy() for E in Energies], rank=rank, spTR=spTR, spInv=spInv, comment=comment,
                labels=(lTR, lInv), cplx=cplx, ne=ne, nonvoid_smoothers=nonvoid, notrans=notrans, large=large, forms=[])
    out = []
    for i in range(nobj):
        data = rand_data(rng, shape, cplx, amp)
        given, lay = relayout(rng, data) if variants else (data.copy(), "C")
        En = [E.copy() for E in Energies]
        r = rng.random()
        if ne == 1 and r < 0.3:
            En = En[0]  # a bare array is accepted for one energy axis
        elif variants and r < 0.55:
            En = tuple(En)
            meta["forms"].append("Energies_tuple")
        smo = list(sm1 if i == 0 else sm2)
        r = rng.random()
        if variants and r < 0.15 and all(x is None for x in smo):
            smo = None
            meta["forms"].append("smoothers_None")
        elif variants and r < 0.3:
            smo = tuple(smo)
            meta["forms"].append("smoothers_tuple")
        elif variants and r < 0.45 and ne == 1:
            smo = smo[0]                # "a list of Smoother": one smoother for one axis is accepted bare (None = void)
            meta["forms"].append("smoothers_bare")
        ti_TR, ti_Inv = tTR, tInv
        if variants and i > 0 and not notrans and rng.random() < 0.5:
            ti_TR, ti_Inv = rebuild_transform(st["ps"], spTR), rebuild_transform(st["ps"], spInv)
            meta["forms"].append("transforms_rebuilt")
        kw = dict(smoothers=smo, rank=rank if rng.random() < 0.5 else None, E_titles=titles, comment=comment,
                  save_mode=["bin", "bin+txt", "txt"][int(rng.integers(3))])
        if not notrans or rng.random() < 0.5:
            kw.update(transformTR=ti_TR, transformInv=ti_Inv)      # (otherwise: the defaults)
        obj = ER(En, given, **kw)
        if lay != "C":
            meta["forms"].append("layout_" + lay)
        out.append((obj, ("E", data, meta)))
    return out


def build_kband(rng, st, nobj=3, same_nk=False, nb=None, base=None, variants=True):
    """nobj band-resolved results with the same band count / rank; nk random (equal if same_nk)"""
    rank = int(rng.integers(0, 5))
    if base is None:
        base = rng.random() < 0.25
    large = bool(variants and nb is None and rng.random() < 0.06)
    nb = int(rng.integers(1, 5)) if nb is None else nb
    if large:
        rank = min(rank, 1)
        nb = int(rng.choice([1, 16, 40]))
    mid = (nb,)   # (K__Result.__sub__ always returns a KBandResult, so the base class is used with one band axis too)
    cplx = bool(rng.random() < 0.4)
    amp = 10 ** rng.uniform(-3, 3)
    notrans = bool(variants and rng.random() < 0.05)
    if notrans:
        tTR = tInv = spTR = spInv = None
        lTR = lInv = "None"
    else:
        tTR, spTR, lTR = gen_transform(rng, rank, st["ps"])
        tInv, spInv, lInv = gen_transform(rng, rank, st["ps"])
    cls = st["K__Result"] if base else st["KBandResult"]
    meta = dict(kind="K", rank=rank, spTR=spTR, spInv=spInv, labels=(lTR, lInv), cplx=cplx, cls=cls.__name__, nb=nb,
                notrans=notrans, large=large, forms=[])
    nk0 = int(rng.integers(1, 6))
    if large:
        nk0 = int(rng.choice([100, 128, 300]))
    out = []
    for i in range(nobj):
        nk = nk0 if (same_nk or large) else int(rng.integers(1, 6))
        data = rand_data(rng, (nk,) + mid + (3,) * rank, cplx, amp)
        given, lay = relayout(rng, data) if variants else (data.copy(), "C")
        if lay != "C":
            meta["forms"].append("layout_" + lay)
        ti_TR, ti_Inv = tTR, tInv
        if variants and i > 0 and not notrans and rng.random() < 0.5:
            ti_TR, ti_Inv = rebuild_transform(st["ps"], spTR), rebuild_transform(st["ps"], spInv)
            meta["forms"].append("transforms_rebuilt")
        if notrans and rng.random() < 0.5:
            obj = cls(given, rank=rank)           # the defaults
        elif base:
            obj = cls(given, transformTR=ti_TR, transformInv=ti_Inv, rank=rank)
        else:
            obj = cls(given, transformTR=ti_TR, transformInv=ti_Inv, rank=rank if rng.random() < 0.5 else None)
        out.append((obj, ("K", data, meta)))
    return out


def build_dict(rng, st, nobj=2, depth=0):
    RD = st["ResultDict"]
    nkeys = int(rng.integers(1, 5))
    if depth == 0 and rng.random() < 0.03:
        nkeys = 0                      # a dictionary without entries is a valid (zero-dimensional) vector
    objs = [dict() for _ in range(nobj)]
    mods = [dict() for _ in range(nobj)]
    for ik in range(nkeys):
        key = ["ahc", "dos", "tab", "x", "berry_dipole", "k5"][ik] + ("" if rng.random() < 0.8 else "^sym")
        r = rng.random()
        if r < 0.45:
            vals = build_energy(rng, st, nobj)
        elif r < 0.75:
            vals = build_kband(rng, st, nobj, same_nk=bool(rng.random() < 0.5), base=False)
        elif r < 0.9 and depth == 0:
            vals = build_dict(rng, st, nobj, depth=1)
        else:
            # Void on some side(s): still a valid summand
            vals = build_energy(rng, st, nobj)
            for i in range(nobj):
                if rng.random() < 0.6:
                    vals[i] = (st["VoidResult"](), ("V",))
        for i in range(nobj):
            objs[i][key] = vals[i][0]
            mods[i][key] = vals[i][1]
    out = []
    for i in range(nobj):
        d = objs[i]
        if i > 0 and nkeys > 1 and rng.random() < 0.5:      # equal as a set of keys, inserted in another order
            d = {k: d[k] for k in [list(d)[j] for j in rng.permutation(len(d))]}
        r = rng.random()
        obj = RD(d) if r < 0.6 else RD(d, save_mode=["bin", "txt", "bin+txt", "none"][int(rng.integers(4))])
        out.append((obj, ("D", mods[i])))
    return out


# ---- operations on models ---------------------------------------------------------------------------
def m_mul(m, c):
    if m[0] == "V":
        return m
    if m[0] == "D":
        return ("D", {k: m_mul(v, c) for k, v in m[1].items()})
    return (m[0], m[1] * c, m[2])


def m_add(a, b):
    if a[0] == "V":
        return b
    if b[0] == "V":
        return a
    if a[0] == "D":
        return ("D", {k: m_add(a[1][k], b[1][k]) for k in a[1] if k in b[1]})
    if a[0] == "E":
        return ("E", a[1] + b[1], a[2])
    return ("K", np.concatenate([a[1], b[1]], axis=0), a[2])   # union over k


def m_sub_direct(a, b):
    """the operator `-` of energy results and of band-resolved results taken directly: element-wise"""
    if b[0] == "V":
        return a
    if a[0] == "V":
        return m_mul(b, -1)
    return (a[0], a[1] - b[1], a[2])


def m_div(m, c):
    if m[0] == "V":
        return m
    if m[0] == "D":
        return ("D", {k: m_div(v, c) for k, v in m[1].items()})
    if m[0] == "K":
        return ("K", None, m[2])      # no-op copy by design: not judged
    return ("E", m[1] / c, m[2])


def m_transform(m, M, TR):
    if m[0] == "V":
        return m
    if m[0] == "D":
        return ("D", {k: m_transform(v, M, TR) for k, v in m[1].items()})
    meta = m[2]
    return (m[0], ref_transform(m[1], meta["rank"], M, TR, meta["spTR"], meta["spInv"]), meta)


def m_scale(m):
    if m[0] == "V":
        return 0.0
    if m[0] == "D":
        return max([m_scale(v) for v in m[1].values()] + [0.0])
    return float(np.abs(m[1]).max()) if m[1] is not None and m[1].size else 0.0


def m_notrans(m):
    """some member has no TR / inversion transform (documented default None): only proper rotations without TR are defined"""
    if m[0] == "V":
        return False
    if m[0] == "D":
        return any(m_notrans(v) for v in m[1].values())
    return bool(m[2].get("notrans"))


def m_transformable(m, M, TR):
    """0-d data cannot go through Transform.__call__ (library limitation, see the author guide)"""
    if m[0] == "V":
        return True
    if m[0] == "D":
        return all(m_transformable(v, M, TR) for v in m[1].values())
    return not (m[1].ndim == 0 and (TR or np.linalg.det(M) < 0))


# ---- comparison of a real object with a model ----------------------------------------------------------
def compare(ctx, st, mech, res, model, scale, wit, what="", _top=True):
    if _top and st.get("retain") is not None and len(st["retain"]) < 60:
        st["retain"].append((res, model, scale, what))     # re-read at the end of the case
    kind = model[0]
    if kind == "V":
        ctx.ev()
        if not isinstance(res, st["VoidResult"]):
            ctx.violation(mech + ":type", f"{what}: expected VoidResult, got {type(res).__name__}", wit)
        return
    if kind == "D":
        ctx.ev()
        if not isinstance(res, st["ResultDict"]):
            ctx.violation(mech + ":type", f"{what}: expected ResultDict, got {type(res).__name__}", wit)
            return
        if set(res.results) != set(model[1]):
            ctx.violation(mech + ":keys", f"{what}: keys {sorted(res.results)} != {sorted(model[1])}", wit)
            return
        for k in model[1]:
            compare(ctx, st, mech, res.results[k], model[1][k], scale, wit, what + f"[{k}]", _top=False)
        return
    meta = model[2]
    cls = st["EnergyResult"] if kind == "E" else st["K__Result"]
    if not isinstance(res, cls):
        ctx.ev()
        ctx.violation(mech + ":type", f"{what}: expected {cls.__name__}, got {type(res).__name__}", wit)
        return
    if model[1] is not None:
        ctx.close(mech, res.data, model[1], scale=scale, rtol=RTOL, what=what, witness=wit)
    # meta data must survive every operation
    ctx.ev()
    try:
        rk = int(res.rank)
    except Exception:
        rk = None
    if rk != meta["rank"]:
        ctx.violation(mech + ":rank", f"{what}: rank {res.rank!r} != {meta['rank']}", wit)
    if spec_of(res.transformTR) != meta["spTR"] or spec_of(res.transformInv) != meta["spInv"]:
        ctx.violation(mech + ":transforms", f"{what}: transforms {spec_of(res.transformTR)} / {spec_of(res.transformInv)} "
                      f"!= {meta['spTR']} / {meta['spInv']}", wit)
    if kind == "E":
        ok = len(res.Energies) == len(meta["energies"]) and all(
            np.array_equal(np.asarray(x), y) for x, y in zip(res.Energies, meta["energies"]))
        if not ok:
            ctx.violation(mech + ":energies", f"{what}: energies changed", wit)


def recheck_retained(ctx, st, kind, wit):
    """values returned earlier must stay valid after everything that was done later in the case"""
    kept, st["retain"] = st.get("retain") or [], None
    for res, model, scale, what in kept:
        compare(ctx, st, f"{kind}:earlier_result_changed", res, model, scale, wit, what + " (re-read at the end of the case)", _top=False)
    ctx.count("retained_results_rechecked", len(kept))


def same_smoothers(x, y):
    return len(x.smoothers) == len(y.smoothers) and all(p == q for p, q in zip(x.smoothers, y.smoothers))


def snapshot(m):
    if m[0] == "V":
        return None
    if m[0] == "D":
        return {k: snapshot(v) for k, v in m[1].items()}
    return m[1].copy()


def data_of(obj, st):
    if isinstance(obj, st["VoidResult"]):
        return None
    if isinstance(obj, st["ResultDict"]):
        return {k: data_of(v, st) for k, v in obj.results.items()}
    return obj.data


def same_snapshot(a, b):
    if a is None or b is None:
        return a is None and b is None
    if isinstance(a, dict):
        return isinstance(b, dict) and set(a) == set(b) and all(same_snapshot(a[k], b[k]) for k in a)
    return a.shape == b.shape and np.array_equal(a, b)


# --------------------------------------------------------------------------------------------------
#  the batteries
# --------------------------------------------------------------------------------------------------
def battery_vector(ctx, rng, st, a, ma, b, mb, wit, kind):
    """operations common to energy results and dictionaries (and Void): linear-space laws vs the model"""
    Void = st["VoidResult"]
    c, ckind = gen_scalar(rng)
    c2, _ = gen_scalar(rng)
    wit = dict(wit, scalar=repr(c), scalar_kind=ckind)
    s = m_scale(ma) + m_scale(mb)
    compare(ctx, st, f"{kind}.__add__", a + b, m_add(ma, mb), s, wit, "a+b")
    compare(ctx, st, f"{kind}.__mul__", a * c, m_mul(ma, c), s * max(1, abs(c)), wit, "a*c")
    compare(ctx, st, f"{kind}.__rmul__", c * a, m_mul(ma, c), s * max(1, abs(c)), wit, "c*a")
    compare(ctx, st, f"{kind}.distributive", (a + b) * c, m_add(m_mul(ma, c), m_mul(mb, c)), s * max(1, abs(c)), wit,
            "(a+b)*c")
    compare(ctx, st, f"{kind}.distributive", a * c + b * c2, m_add(m_mul(ma, c), m_mul(mb, c2)),
            s * max(1, abs(c), abs(c2)), wit, "a*c+b*c2")
    d = c if c != 0 else 3
    compare(ctx, st, f"{kind}.__truediv__", a / d, m_div(ma, d), s * max(1, 1 / abs(d)), wit, "a/c")
    if kind == "EnergyResult":
        compare(ctx, st, f"{kind}.__sub__", a - b, m_sub_direct(ma, mb), s, wit, "a-b")
        compare(ctx, st, f"{kind}.add_sub_roundtrip", a + b - b, ma, s, wit, "a+b-b")
        compare(ctx, st, f"{kind}.sum()", sum([a, b, a]), m_add(m_add(ma, mb), ma), 2 * s, wit, "sum([a,b,a])")
    else:
        # dictionary: a-b is a+(-1)*b key-wise (for band-resolved values that is the union over k of a and -b)
        compare(ctx, st, f"{kind}.__sub__", a - b, m_add(ma, m_mul(mb, -1)), s, wit, "a-b")
        compare(ctx, st, f"{kind}.sum()", sum([a, b]), m_add(ma, mb), 2 * s, wit, "sum([a,b])")
    # neutral elements
    for nm, f in (("a+Void", lambda: a + Void()), ("Void+a", lambda: Void() + a), ("a-Void", lambda: a - Void()),
                  ("a+None", lambda: a + None), ("a+0", lambda: a + 0), ("0+a", lambda: 0 + a), ("a+0.0", lambda: a + 0.0)):
        ctx.count("void_neutrality_checks")
        try:
            r = f()
        except Exception as e:  # noqa  - any exception here refutes "the void result is neutral"
            ctx.ev()
            ctx.violation(f"{kind}.void_neutral:raises", f"{nm} raised {type(e).__name__}: {e}", wit)
            continue
        compare(ctx, st, f"{kind}.void_neutral", r, ma, s, wit, nm)
    compare(ctx, st, f"{kind}.void_neutral", Void() - a, m_mul(ma, -1), s, wit, "Void-a")
    compare(ctx, st, f"{kind}.void_neutral", (a + Void()) + b, m_add(ma, mb), s, wit, "(a+Void)+b")
    return wit


def battery_transform(ctx, rng, st, a, ma, b, mb, wit, kind, fresh_sum):
    proper = m_notrans(ma) or m_notrans(mb)
    obj, M, TR, label = gen_sym(rng, st["ps"], ctx, proper_only=proper)
    wit = dict(wit, sym=label, sym_matrix=M, sym_TR=TR)
    if not (m_transformable(ma, M, TR) and m_transformable(mb, M, TR)):
        ctx.count("skipped_transform_of_0d_data")
        return label, False
    s = (m_scale(ma) + m_scale(mb)) * 3.0 ** 4
    ta, tb = a.transform(obj), b.transform(obj)
    mta, mtb = m_transform(ma, M, TR), m_transform(mb, M, TR)
    # (a) metamorphic: transform distributes over + (for band-resolved: + is the union over k)
    tsum = fresh_sum().transform(obj)
    ref = ta + tb
    compare(ctx, st, f"{kind}.transform_distributes_over_add", tsum, model_of(ref, st, ma, mb), s, wit, "T(a+b) vs T(a)+T(b)")
    c, _ = gen_scalar(rng)
    compare(ctx, st, f"{kind}.transform_commutes_with_scaling", (a * c).transform(obj), model_of(ta * c, st, ma, None), s * max(1, abs(c)),
            wit, "T(a*c) vs T(a)*c")
    # (b) reference: explicit rotation + TR / inversion transforms
    compare(ctx, st, f"{kind}.transform!=reference", ta, mta, s, wit, "T(a)")
    compare(ctx, st, f"{kind}.transform!=reference", tsum, m_add(mta, mtb), s, wit, "T(a+b)")
    ctx.count("transform_checks")
    if proper:
        ctx.count("transform_of_result_without_TR_Inv_transforms")
    if TR:
        ctx.count("transform_with_TR")
    if np.linalg.det(M) < 0:
        ctx.count("transform_with_inversion")
    # (c) the operation on the result of an operation: h after g (h independent / h = g / h = inverse of g), against the reference
    mode = int(rng.integers(3))
    if mode == 0:
        obj2, M2, TR2, label2 = gen_sym(rng, st["ps"], ctx, proper_only=proper)
    elif mode == 1:
        obj2, M2, TR2, label2 = obj, M, TR, "same"
    else:
        obj2, M2, TR2, label2 = st["ps"].PointSymmetry(M.T.copy(), TR), M.T, TR, "inverse"
    if m_transformable(mta, M2, TR2) and m_transformable(mtb, M2, TR2):
        wit2 = dict(wit, second_sym=label2, second_matrix=M2, second_TR=TR2)
        compare(ctx, st, f"{kind}.transform(of a transformed result)!=reference", ta.transform(obj2), m_transform(mta, M2, TR2), s, wit2,
                "T2(T(a))")
        compare(ctx, st, f"{kind}.transform(of a transformed result)!=reference", tsum.transform(obj2),
                m_transform(m_add(mta, mtb), M2, TR2), s, wit2, "T2(T(a+b))")
        ctx.count("transform_twice_checks")
    return label, True


def model_of(res, st, ma, mb):
    """model of a real object produced by the library itself (used only for metamorphic comparisons):
    data read back, meta data taken from the operand model"""
    if isinstance(res, st["VoidResult"]):
        return ("V",)
    if isinstance(res, st["ResultDict"]):
        out = {}
        for k, v in res.results.items():
            sub_a = ma[1].get(k) if ma is not None and ma[0] == "D" else None
            sub_b = mb[1].get(k) if mb is not None and mb[0] == "D" else None
            out[k] = model_of(v, st, sub_a, sub_b)
        return ("D", out)
    src = ma if (ma is not None and ma[0] in ("E", "K")) else mb
    return (src[0], np.array(res.data, copy=True), src[2])


def check_numpy_scalars(ctx, rng, st, a, ma, wit):
    """numpy scalars that are not python int/float subclasses: correct product or the explicit TypeError"""
    for c in (np.int64(rng.integers(2, 9)), np.float32(2.5), np.int32(-3)):
        nm = type(c).__name__
        try:
            r = a * c
        except TypeError as e:
            if "can only be multiplied by a number" in str(e):
                ctx.count(f"observed_TypeError_EnergyResult*{nm}")
                continue
            raise
        compare(ctx, st, "EnergyResult.__mul__[numpy scalar]", r, m_mul(ma, float(c)), m_scale(ma) * abs(float(c)),
                dict(wit, scalar=repr(c)), f"a*{nm}")
    # division goes through 1./number, which is a float subclass for every numpy integer
    k = np.int64(rng.integers(2, 9)) * int(rng.choice([-1, 1]))
    compare(ctx, st, "EnergyResult.__truediv__[numpy integer]", a / k, m_div(ma, int(k)), m_scale(ma), dict(wit, scalar=repr(k)), "a/np.int64")


def check_mul_array(ctx, rng, st, a, ma, wit):
    """mul_array(other, axes): multiply by an array living on the given (increasing) axes"""
    arr = ma[1]
    kind = ma[0]
    off = 1 if kind == "K" else 0     # for band-resolved results axis 0 of `axes` is the band axis (k excluded)
    nax = arr.ndim - off
    if nax == 0:
        return
    mode = int(rng.integers(4))
    if mode == 0:
        n = int(rng.integers(1, min(nax, 3) + 1))
        axes = None                    # default: the leading axes
        ax_list = list(range(n))
    else:
        n = int(rng.integers(1, min(nax, 3) + 1))
        ax_list = sorted(int(x) for x in rng.choice(nax, size=n, replace=False))
        axes = tuple(ax_list) if (n > 1 or mode == 1) else ax_list[0]
        if mode == 3:
            axes = list(ax_list)
            ctx.count("mul_array_axes_list")
    other = rng.uniform(-2, 2, size=tuple(arr.shape[x + off] for x in ax_list))
    if rng.random() < 0.3 and other.ndim >= 2:
        other = np.asfortranarray(other)      # same values, other memory layout
    idx = [None] * arr.ndim
    for x in ax_list:
        idx[x + off] = slice(None)
    expected = arr * other[tuple(idx)] if len(ax_list) == other.ndim else None
    res = a.mul_array(other) if axes is None else a.mul_array(other, axes=axes)
    name = "EnergyResult" if kind == "E" else "K__Result"
    compare(ctx, st, f"{name}.mul_array", res, (kind, expected, ma[2]), m_scale(ma) * 2,
            dict(wit, axes=repr(axes), other_shape=other.shape), "mul_array")
    ctx.count("mul_array_checks")
    return res


def savedata_names(rng, tmp):
    """(name, prefix, suffix, i_iter, expected file stem) - the documented file name with empty / non-empty prefix and suffix"""
    v = int(rng.integers(4))
    it = int(rng.choice([0, 7, 123, 9999]))
    pre, suf = ("pre", "suf") if v == 0 else ("", "suf") if v == 1 else ("pre", "") if v == 2 else ("", "")
    if pre:
        name, prefix = "quantity", os.path.join(tmp, pre)
    else:
        name, prefix = os.path.join(tmp, "quantity"), ""      # no prefix: the directory travels in the name
    stem = (prefix + "-" if prefix else "") + name + ("-" + suf if suf else "") + f"_iter-{it:04d}"
    return name, prefix, suf, it, stem


def check_save_load(ctx, rng, st, a, ma, wit, b=None, mb=None):
    """EnergyResult.save / savedata -> from_npz, of a fresh result or of the result of an earlier operation;
    load -> save -> load; the loaded object as an operand"""
    ER = st["EnergyResult"]
    meta = ma[2]
    if meta["notrans"] and not PENDING:
        ctx.count("skipped_save_of_result_without_transforms")    # finding (pending): as_dict() raises on the default transforms
        return
    # what is saved
    obj, mod, expected_comment, target = a, ma, meta["comment"], "fresh"
    which = int(rng.integers(7))
    c, _ = gen_scalar(rng)
    if which == 3 and b is not None:
        obj, mod, target = a + b, m_add(ma, mb), "a+b"
    elif which == 4:
        obj, mod, target = a * c, m_mul(ma, c), "a*c"
    elif which == 5 and b is not None:
        obj, mod, target = a - b, m_sub_direct(ma, mb), "a-b"
    elif which == 6:
        g, Mg, TRg, lg = gen_sym(rng, st["ps"], ctx, proper_only=meta["notrans"])
        if m_transformable(ma, Mg, TRg):
            obj, mod, target = a.transform(g), m_transform(ma, Mg, TRg), "T(a)"
    if target != "fresh":
        expected_comment = str(obj.comment)     # (which comment a derived result carries is not judged; the one it has must survive)
        ctx.count("saved_derived_result")
    wit = dict(wit, saved=target)
    # the round trip itself must be bit-exact (judged separately); a derived result is compared with its numpy model on the scale
    # used for the operation that made it (rotation of a rank-4 tensor: 81 terms)
    scale = 0.0 if target == "fresh" else (m_scale(ma) + m_scale(mod)) * 81
    tmp = tempfile.mkdtemp(prefix="verif_c16_")
    try:
        compare(ctx, st, "EnergyResult.save:object_before_saving", obj, mod, m_scale(ma) * 100 + m_scale(mod), wit, target)
        saved_data = ma[1] if target == "fresh" else np.array(obj.data, copy=True)
        r = rng.random()
        if "bin" in obj.save_mode and r < 0.6:
            name, prefix, suf, it, stem = savedata_names(rng, tmp)
            obj.savedata(name, prefix, suf, it)
            path = stem + ".npz"
            ctx.count("saved_with_savedata")
            if "txt" in obj.save_mode:
                ctx.count("saved_with_savedata_bin+txt")
            if not (prefix and suf):
                ctx.count("saved_with_empty_prefix_or_suffix")
        elif r < 0.8:
            obj.save(os.path.join(tmp, "res{}"))       # documented place holder, filled with ''
            path = os.path.join(tmp, "res.npz")
            ctx.count("saved_with_placeholder_name")
        else:
            obj.save(os.path.join(tmp, "res"))
            path = os.path.join(tmp, "res.npz")
        ctx.ev()
        if not os.path.isfile(path):
            ctx.violation("EnergyResult.save:no_file", f"{os.path.basename(path)} not written", wit)
            return
        ld = ER.from_npz(path)
        compare(ctx, st, "EnergyResult.from_npz", ld, mod, scale, wit, "loaded")
        ctx.ev(2)
        if isinstance(ld, ER):
            if not np.array_equal(ld.data, saved_data) or ld.data.dtype != saved_data.dtype:
                ctx.violation("EnergyResult.from_npz:data_not_identical", "binary round trip changed the data or its dtype", wit)
            if ld.comment != expected_comment:
                ctx.violation("EnergyResult.from_npz:comment", f"comment {ld.comment!r} != {expected_comment!r}", wit)
            # behaviour of the re-loaded transforms
            if not meta["notrans"]:
                sym, M, TR, label = gen_sym(rng, st["ps"], ctx)
                if not TR:
                    sym = sym * st["ps"].TimeReversal       # make sure both re-loaded transforms act
                if np.linalg.det(M) > 0:
                    sym = st["ps"].Inversion * sym
                if mod[1].ndim > 0:
                    t1 = obj.transform(sym).data
                    t2 = ld.transform(sym).data
                    ctx.close("EnergyResult.from_npz:transform_behaviour", t2, t1, rtol=1e-14, scale=m_scale(mod),
                              what="loaded.transform(sym) vs original.transform(sym)", witness=dict(wit, sym=label))
            # load -> save -> load
            if rng.random() < 0.5:
                ld.save(os.path.join(tmp, "again"))
                ld2 = ER.from_npz(os.path.join(tmp, "again.npz"))
                compare(ctx, st, "EnergyResult.from_npz(second round trip)", ld2, mod, scale, wit, "loaded twice")
                ctx.ev()
                if isinstance(ld2, ER) and (not np.array_equal(ld2.data, saved_data) or ld2.comment != expected_comment):
                    ctx.violation("EnergyResult.from_npz(second round trip):not_identical", "data or comment changed in load -> save -> load", wit)
                ctx.count("save_load_twice")
            # the loaded object as an operand (smoothers are not stored: only with void smoothers can it meet the original)
            c2, _ = gen_scalar(rng)
            s = max(m_scale(mod), scale)
            compare(ctx, st, "EnergyResult.from_npz:loaded_as_operand", ld * c2, m_mul(mod, c2), s * max(1, abs(c2)), wit, "loaded*c")
            if meta["nonvoid_smoothers"] == 0:
                compare(ctx, st, "EnergyResult.from_npz:loaded_as_operand", ld + obj, m_add(mod, mod), 2 * s, wit, "loaded+original")
                compare(ctx, st, "EnergyResult.from_npz:loaded_as_operand", obj - ld, m_sub_direct(mod, mod), 2 * s, wit, "original-loaded")
                ctx.count("loaded_result_meets_original")
            else:
                compare(ctx, st, "EnergyResult.from_npz:loaded_as_operand", ld + ld, m_add(mod, mod), 2 * s, wit, "loaded+loaded")
            ctx.count("loaded_result_reused")
        ctx.count("save_load_roundtrips")
        # the void result is saved / loaded as void
        if rng.random() < 0.1:
            st["VoidResult"]().save(os.path.join(tmp, "void"))
            ctx.ev()
            if not isinstance(ER.from_npz(os.path.join(tmp, "void.npz")), st["VoidResult"]):
                ctx.violation("VoidResult.save->from_npz", "a saved VoidResult is not loaded as VoidResult", wit)
        # a missing file is documented to give the void result
        if rng.random() < 0.2:
            ctx.ev()
            r = ER.from_npz(os.path.join(tmp, "never_written.npz"))
            if not isinstance(r, st["VoidResult"]):
                ctx.violation("EnergyResult.from_npz:missing_file", f"missing file gave {type(r).__name__}, not the void result", wit)
            ctx.count("from_npz_missing_file")
    finally:
        shutil.rmtree(tmp, ignore_errors=True)


def check_inplace_add_energy(ctx, rng, st, a, ma, b, mb, wit):
    """EnergyResult.add(other): in-place element-wise sum into the result of an earlier operation.  Whatever that operation
    was given must not change (re-checked at the end of the case: operands and every retained result)"""
    ps = st["ps"]
    which = int(rng.integers(4))
    if which == 0:
        r, mr, lab = a * 1, ma, "a*1"
    elif which == 1:
        r, mr, lab = a + b, m_add(ma, mb), "a+b"
    elif which == 2:
        ident = [ps.Identity, ps.Rotation(1, [0.3, -1, 2]), ps.C2x * ps.C2x, ps.from_string("Identity"), ps.C4z * ps.C4z * ps.C2z][int(rng.integers(5))]
        r, mr, lab = a.transform(ident), ma, "T_identity(a)"
    else:
        r, mr, lab = a / 1, ma, "a/1"
    warm = bool(rng.random() < 0.5)
    if warm and PENDING:
        monitors.warm_caches(r, depth=0)
    r.add(b)
    wit = dict(wit, add_into=lab)
    compare(ctx, st, "EnergyResult.add(in place)", r, m_add(mr, mb), m_scale(ma) + 2 * m_scale(mb), wit, f"({lab}).add(b)")
    ctx.ev()
    if not same_smoothers(r, a):
        ctx.violation("EnergyResult.add(in place):smoothers", "smoothers lost", wit)
    if warm and PENDING:
        monitors.assert_no_stale_caches(ctx, r, "EnergyResult.add", wit)     # finding (pending): dataSmooth is not invalidated
    ctx.count("inplace_add_checks")
    ctx.count("inplace_add_into_" + lab)


def case_energy(ctx, rng, st):
    (a, ma), (b, mb) = build_energy(rng, st, 2, big=ctx.thorough)
    meta = ma[2]
    wit = dict(kind="EnergyResult", shape=ma[1].shape, n_energies=meta["ne"], rank=meta["rank"], complex=meta["cplx"],
               transformTR=meta["spTR"], transformInv=meta["spInv"], forms=sorted(set(meta["forms"])))
    st["retain"] = []
    snap = (snapshot(ma), snapshot(mb))
    warm = bool(rng.random() < 0.5)
    if warm:        # objects that were used before: cached properties filled
        monitors.warm_caches(a, depth=0)
        monitors.warm_caches(b, depth=0)
        ctx.count("operands_with_warm_caches")
    compare(ctx, st, "EnergyResult.__init__", a, ma, 0.0, wit, "a as constructed")
    wit2 = battery_vector(ctx, rng, st, a, ma, b, mb, wit, "EnergyResult")
    check_numpy_scalars(ctx, rng, st, a, ma, wit)
    ma_res = check_mul_array(ctx, rng, st, a, ma, wit)
    if rng.random() < 0.3:
        check_mul_array(ctx, rng, st, a + b, m_add(ma, mb), wit)     # on the result of an operation
    label, done = battery_transform(ctx, rng, st, a, ma, b, mb, wit, "EnergyResult", lambda: a + b)
    # smoothers travel with the result ("set automatically ... during the further * and + operations")
    ctx.ev()
    r = a + b
    if len(r.smoothers) != len(a.smoothers) or any(not (x == y) for x, y in zip(r.smoothers, a.smoothers)):
        ctx.violation("EnergyResult.__add__:smoothers", "sum lost the smoothers", wit)
    derived = [("a*c", a * 3), ("c*a", 2.5 * a), ("a/c", a / 7), ("a-b", a - b), ("a+Void", a + st["VoidResult"]()), ("sum", sum([a, b]))]
    if ma_res is not None:
        derived.append(("mul_array", ma_res))
    if m_transformable(ma, np.eye(3), False):
        derived.append(("transform", a.transform(st["ps"].C3z if meta["notrans"] else st["ps"].C3z * st["ps"].Mx * st["ps"].TimeReversal
                                                 if ma[1].ndim > 0 else st["ps"].C3z)))
    for nm, r in derived:
        ctx.ev()
        if not same_smoothers(r, a):
            ctx.violation(f"EnergyResult.{nm}:smoothers", f"{nm} lost the smoothers", wit)
    ctx.count("smoothers_travel_checks", len(derived))
    if meta["nonvoid_smoothers"]:
        ctx.count("smoothers_travel_checks_nonvoid")
    check_inplace_add_energy(ctx, rng, st, a, ma, b, mb, wit)
    check_save_load(ctx, rng, st, a, ma, wit, b, mb)
    recheck_retained(ctx, st, "EnergyResult", wit)
    ctx.ev()
    if not (same_snapshot(snap[0], data_of(a, st)) and same_snapshot(snap[1], data_of(b, st))):
        ctx.violation("EnergyResult:operand_mutated", "an operand was modified by +,-,*,/,add,transform,save", wit)
    compare(ctx, st, "EnergyResult:operand_mutated", a, ma, 0.0, wit, "a at the end")
    compare(ctx, st, "EnergyResult:operand_mutated", b, mb, 0.0, wit, "b at the end")
    if warm:
        monitors.assert_no_stale_caches(ctx, a, "EnergyResult_operations", wit)
        monitors.assert_no_stale_caches(ctx, b, "EnergyResult_operations", wit)
    ctx.count("cases_EnergyResult")
    ctx.count(f"energy_axes_{meta['ne']}")
    ctx.count(f"rank_{meta['rank']}")
    for f in set(meta["forms"]):
        ctx.count("form_" + f)
    if meta["large"]:
        ctx.count("large_result")
    if meta["notrans"]:
        ctx.count("result_without_TR_Inv_transforms")
    else:
        if meta["spTR"]["transpose_axes"] or meta["spInv"]["transpose_axes"]:
            ctx.count("transposing_transform")
        if meta["spTR"]["swap_axes"] or meta["spInv"]["swap_axes"]:
            ctx.count("swapping_transform")
    ctx.nontrivial(("E", meta["ne"], meta["rank"], meta["cplx"], meta["labels"], wit2["scalar_kind"], label if done else None))
    ctx.sample(dict(wit, sym=label))


def check_inplace_add_kband(ctx, rng, st, a, ma, b, mb, a2, ma2, wit, name):
    """K__Result.add(other): in-place element-wise sum (equal k counts) into the result of an earlier operation"""
    ps = st["ps"]
    which = int(rng.integers(4))
    mx = ma2
    if which == 0:
        r, mr, x, lab = a * 1, ma, a2, "a*1"
    elif which == 1:
        ident = [ps.Identity, ps.Rotation(1, [0.3, -1, 2]), ps.C2x * ps.C2x, ps.from_string("Identity")][int(rng.integers(4))]
        r, mr, x, lab = a.transform(ident), ma, a2, "T_identity(a)"
    else:
        # both sides are sums of two blocks with the same k counts
        r, mr, x, mx, lab = a + b, m_add(ma, mb), a2 + b, m_add(ma2, mb), "a+b"
        state = int(rng.integers(4))     # which of the two had its blocks merged (by reading .data) before
        if state in (1, 3):
            r.data
        if state in (2, 3):
            x.data
        if state in (1, 2):
            # finding (pending): add() pairs the blocks with zip, so its result depends on whether .data was read before
            if not PENDING:
                ctx.count("skipped_inplace_add_with_different_block_state")
                return
            lab += " (one side merged)"
        elif state == 3:
            lab += " (both merged)"
    r.add(x)
    wit = dict(wit, add_into=lab)
    compare(ctx, st, f"{name}.add(in place)", r, ("K", mr[1] + mx[1], mr[2]), m_scale(mr) + m_scale(mx), wit, f"({lab}).add(x)")
    ctx.count("inplace_add_checks")
    ctx.count("inplace_add_into_" + lab)


def case_kband(ctx, rng, st):
    KB = st["KBandResult"]
    Void = st["VoidResult"]
    (a, ma), (b, mb), (a2, ma2) = build_kband(rng, st, 3)
    meta = ma[2]
    # a2 gets the k-count of a (needed by `-`)
    d2 = rand_data(rng, ma[1].shape, meta["cplx"], max(m_scale(ma), 1e-3))
    a2 = type(a)(d2.copy(), transformTR=a.transformTR, transformInv=a.transformInv, rank=meta["rank"])
    ma2 = ("K", d2, meta)
    name = "K__Result"
    wit = dict(kind=meta["cls"], shape_a=ma[1].shape, shape_b=mb[1].shape, rank=meta["rank"], complex=meta["cplx"],
               transformTR=meta["spTR"], transformInv=meta["spInv"], forms=sorted(set(meta["forms"])))
    st["retain"] = []
    snap = (snapshot(ma), snapshot(mb), snapshot(ma2))
    compare(ctx, st, f"{name}.__init__", a, ma, 0.0, wit, "a as constructed")
    s = m_scale(ma) + m_scale(mb) + m_scale(ma2)
    c, ckind = gen_scalar(rng)
    if rng.random() < 0.3:
        c, ckind = np.int64(rng.integers(-4, 5)), "npint64"
    wit["scalar"] = repr(c)
    sc = s * max(1, abs(c))
    # + is the union over k.  Operate on *fresh* sums (their data_list still holds several blocks)
    compare(ctx, st, f"{name}.__add__(union over k)", a + b, m_add(ma, mb), s, wit, "a+b")
    compare(ctx, st, f"{name}.__add__(union over k)", (a + b) + a2, m_add(m_add(ma, mb), ma2), s, wit, "(a+b)+a2")
    compare(ctx, st, f"{name}.__add__(union over k)", a + (b + a2), m_add(ma, m_add(mb, ma2)), s, wit, "a+(b+a2)")
    ctx.ev()
    if (a + b).nk != ma[1].shape[0] + mb[1].shape[0]:
        ctx.violation(f"{name}.nk", "nk of a sum is not the sum of the k counts", wit)
    compare(ctx, st, f"{name}.__mul__", a * c, m_mul(ma, c), sc, wit, "a*c")
    compare(ctx, st, f"{name}.__rmul__", c * a, m_mul(ma, c), sc, wit, "c*a")
    compare(ctx, st, f"{name}.__mul__(of a sum)", (a + b) * c, m_add(m_mul(ma, c), m_mul(mb, c)), sc, wit, "(a+b)*c")
    compare(ctx, st, f"{name}.__mul__(of a sum)", (a + b + a2) * c, m_add(m_add(m_mul(ma, c), m_mul(mb, c)), m_mul(ma2, c)), sc, wit,
            "(a+b+a2)*c")
    compare(ctx, st, f"{name}.__sub__", a - a2, m_sub_direct(ma, ma2), s, wit, "a-a2")
    compare(ctx, st, f"{name}.__sub__", (a + b) - (a2 + b), ("K", np.concatenate([ma[1] - d2, mb[1] * 0], axis=0), meta), s, wit,
            "(a+b)-(a2+b)")
    for nm, f in (("a+Void", lambda: a + Void()), ("Void+a", lambda: Void() + a), ("a-Void", lambda: a - Void()),
                  ("a+None", lambda: a + None)):
        ctx.count("void_neutrality_checks")
        try:
            r = f()
        except Exception as e:  # noqa  - any exception here refutes "the void result is neutral"
            ctx.ev()
            ctx.violation(f"{name}.void_neutral:raises", f"{nm} raised {type(e).__name__}: {e}", wit)
            continue
        compare(ctx, st, f"{name}.void_neutral", r, ma, s, wit, nm)
    compare(ctx, st, f"{name}.void_neutral", Void() - a, m_mul(ma, -1), s, wit, "Void-a")
    compare(ctx, st, f"{name}.void_neutral", (a + Void()) + b, m_add(ma, mb), s, wit, "(a+Void)+b")
    # one sum object used for several requests, its k-blocks merged (by reading .data) before or between them
    ssum = a + b
    msum = m_add(ma, mb)
    merged_first = bool(rng.random() < 0.5)
    if merged_first:
        ssum.data
    r_before = ssum * c
    compare(ctx, st, f"{name}.__mul__(of a re-used sum)", r_before, m_mul(msum, c), sc, wit, "s*c")
    if not merged_first:
        ssum.data
    compare(ctx, st, f"{name}.__mul__(of a re-used sum)", ssum * c, m_mul(msum, c), sc, wit, "s*c again")
    compare(ctx, st, f"{name}.__add__(union over k)", ssum + a2, m_add(msum, ma2), s, wit, "s+a2 (s re-used)")
    compare(ctx, st, f"{name}.__add__(union over k)", a2 + ssum, m_add(ma2, msum), s, wit, "a2+s (s re-used)")
    ctx.ev()
    if ssum.nk != msum[1].shape[0] or r_before.nk != msum[1].shape[0]:
        ctx.violation(f"{name}.nk", "nk of a re-used sum is not the sum of the k counts", wit)
    ctx.count("reused_sum_merged_first" if merged_first else "reused_sum_merged_between")
    # a result given as a list of k-blocks (what `+` builds internally; accepted by the constructor)
    if ma[1].shape[0] >= 2:
        cut = int(rng.integers(1, ma[1].shape[0]))
        al = type(a)([ma[1][:cut].copy(), ma[1][cut:].copy()], transformTR=a.transformTR, transformInv=a.transformInv, rank=meta["rank"])
        ctx.ev()
        if al.nk != ma[1].shape[0]:
            ctx.violation(f"{name}.nk", "nk of a result built from a list of blocks", wit)
        compare(ctx, st, f"{name}.__mul__(of a sum)", al * c, m_mul(ma, c), sc, wit, "[blocks]*c")
        compare(ctx, st, f"{name}.__add__(union over k)", al + b, m_add(ma, mb), s, wit, "[blocks]+b")
        compare(ctx, st, f"{name}.__sub__", al - a2, m_sub_direct(ma, ma2), s, wit, "[blocks]-a2")
        compare(ctx, st, f"{name}.__init__", al, ma, 0.0, wit, "built from a list of blocks")
        ctx.count("built_from_block_list")
    check_inplace_add_kband(ctx, rng, st, a, ma, b, mb, a2, ma2, wit, name)
    check_mul_array(ctx, rng, st, a, ma, wit)
    if rng.random() < 0.3:
        check_mul_array(ctx, rng, st, ssum, msum, wit)        # any axes, on the re-used sum
    if rng.random() < 0.5:    # mul_array of a fresh sum (several blocks)
        other = rng.uniform(-2, 2, size=meta["nb"])
        idx = (None, slice(None)) + (None,) * (ma[1].ndim - 2)
        compare(ctx, st, f"{name}.mul_array", (a + b).mul_array(other, axes=0),
                ("K", np.concatenate([ma[1], mb[1]], axis=0) * other[idx], meta), 2 * s, wit, "(a+b).mul_array")
    label, done = battery_transform(ctx, rng, st, a, ma, b, mb, wit, name, lambda: a + b)
    # save -> from_npz of the band-resolved result (rank is re-derived from the shape): the fresh result or the result of an operation
    if type(a) is KB and (PENDING or not meta["notrans"]):
        tmp = tempfile.mkdtemp(prefix="verif_c16_")
        try:
            which = int(rng.integers(6))
            obj, mod, target = a, ma, "fresh"
            if which == 2:
                obj, mod, target = a + b, m_add(ma, mb), "a+b (blocks not merged)"
            elif which == 3:
                obj, mod, target = (a + b) * c, m_mul(m_add(ma, mb), c), "(a+b)*c"
            elif which == 4:
                g, Mg, TRg, lg = gen_sym(rng, st["ps"], ctx, proper_only=meta["notrans"])
                if m_transformable(ma, Mg, TRg):
                    obj, mod, target = (a + b).transform(g), m_transform(m_add(ma, mb), Mg, TRg), "T(a+b)"
            elif which == 5:
                obj, mod, target = a - a2, m_sub_direct(ma, ma2), "a-a2"
            witk = dict(wit, saved=target)
            if target != "fresh":
                ctx.count("saved_derived_result_kband")
            sk = (s + m_scale(mod)) * 81
            obj.save(os.path.join(tmp, "kb{}" if rng.random() < 0.3 else "kb"))
            ld = KB.from_npz(os.path.join(tmp, "kb.npz"))
            compare(ctx, st, "KBandResult.from_npz", ld, mod, sk if target != "fresh" else 0.0, witk, "loaded")
            ctx.ev()
            if not np.array_equal(ld.data, ma[1] if target == "fresh" else obj.data):
                ctx.violation("KBandResult.from_npz:data_not_identical", "binary round trip changed the data", witk)
            if rng.random() < 0.5:
                ld.save(os.path.join(tmp, "again"))
                ld2 = KB.from_npz(os.path.join(tmp, "again.npz"))
                compare(ctx, st, "KBandResult.from_npz(second round trip)", ld2, mod, sk, witk, "loaded twice")
                ctx.ev()
                if not np.array_equal(ld2.data, obj.data):
                    ctx.violation("KBandResult.from_npz(second round trip):not_identical", "data changed in load -> save -> load", witk)
                ctx.count("save_load_twice_kband")
            # the loaded object as an operand
            compare(ctx, st, "KBandResult.from_npz:loaded_as_operand", ld * c, m_mul(mod, c), sk * max(1, abs(c)), witk, "loaded*c")
            compare(ctx, st, "KBandResult.from_npz:loaded_as_operand", ld + b, m_add(mod, mb), sk, witk, "loaded+b")
            compare(ctx, st, "KBandResult.from_npz:loaded_as_operand", b + ld, m_add(mb, mod), sk, witk, "b+loaded")
            compare(ctx, st, "KBandResult.from_npz:loaded_as_operand", obj - ld, m_sub_direct(mod, mod), sk, witk, "original-loaded")
            ctx.count("loaded_result_reused_kband")
            ctx.count("save_load_roundtrips_kband")
        finally:
            shutil.rmtree(tmp, ignore_errors=True)
    recheck_retained(ctx, st, name, wit)
    ctx.ev()
    if not (same_snapshot(snap[0], a.data) and same_snapshot(snap[1], b.data) and same_snapshot(snap[2], a2.data)):
        ctx.violation(f"{name}:operand_mutated", "an operand was modified by +,-,*,add,transform,save", wit)
    compare(ctx, st, f"{name}:operand_mutated", a, ma, 0.0, wit, "a at the end")
    compare(ctx, st, f"{name}:operand_mutated", b, mb, 0.0, wit, "b at the end")
    for f in set(meta["forms"]):
        ctx.count("form_" + f)
    if meta["large"]:
        ctx.count("large_result")
    ctx.count("cases_" + meta["cls"])
    ctx.count(f"rank_{meta['rank']}")
    if meta["notrans"]:
        ctx.count("result_without_TR_Inv_transforms")
    else:
        if meta["spTR"]["transpose_axes"] or meta["spInv"]["transpose_axes"]:
            ctx.count("transposing_transform")
        if meta["spTR"]["swap_axes"] or meta["spInv"]["swap_axes"]:
            ctx.count("swapping_transform")
    ctx.nontrivial((meta["cls"], ma[1].shape[1:], meta["cplx"], meta["labels"], ckind, label if done else None))
    ctx.sample(dict(wit, sym=label))


def dict_signature(m):
    if m[0] == "D":
        return tuple(sorted((k, dict_signature(v)) for k, v in m[1].items()))
    if m[0] == "V":
        return "V"
    return (m[0], m[2]["rank"], m[2].get("ne"), m[2]["labels"])


def check_dict_savedata(ctx, rng, st, a, ma, wit):
    """ResultDict.savedata(prefix, suffix, i_iter): every energy-resolved entry is written under its key; the binary files must load back"""
    ER = st["EnergyResult"]
    keys = [k for k, m in ma[1].items() if m[0] == "E" and (PENDING or not m[2]["notrans"])]
    if not keys:
        return
    sub = st["ResultDict"]({k: a.results[k] for k in keys})
    tmp = tempfile.mkdtemp(prefix="verif_c16_")
    try:
        v = int(rng.integers(3))
        it = int(rng.choice([0, 3, 42]))
        pre, suf = (os.path.join(tmp, "run"), "suf") if v == 0 else (os.path.join(tmp, "run"), "") if v == 1 else (os.path.join(tmp, "x"), "sym-2")
        sub.savedata(pre, suf, it)
        for k in keys:
            r = a.results[k]
            if "bin" not in r.save_mode:
                continue
            path = pre + "-" + k + ("-" + suf if suf else "") + f"_iter-{it:04d}.npz"
            witk = dict(wit, key=k, file=os.path.basename(path))
            ctx.ev()
            if not os.path.isfile(path):
                ctx.violation("ResultDict.savedata:no_file", f"{os.path.basename(path)} not written; directory holds {sorted(os.listdir(tmp))}", witk)
                continue
            ld = ER.from_npz(path)
            compare(ctx, st, "ResultDict.savedata->from_npz", ld, ma[1][k], 0.0, witk, f"loaded[{k}]")
            ctx.ev()
            if isinstance(ld, ER) and (not np.array_equal(ld.data, ma[1][k][1]) or ld.comment != ma[1][k][2]["comment"]):
                ctx.violation("ResultDict.savedata->from_npz:not_identical", "data or comment changed", witk)
            ctx.count("dict_savedata_roundtrips")
    finally:
        shutil.rmtree(tmp, ignore_errors=True)


def case_dict(ctx, rng, st):
    (a, ma), (b, mb) = build_dict(rng, st, 2)
    wit = dict(kind="ResultDict", signature=repr(dict_signature(ma))[:600], key_order_a=list(a.results), key_order_b=list(b.results))
    st["retain"] = []
    snap = (snapshot(ma), snapshot(mb))
    if list(a.results) != list(b.results):
        ctx.count("dict_key_order_differs")
    if not a.results:
        ctx.count("dict_without_keys")
    wit2 = battery_vector(ctx, rng, st, a, ma, b, mb, wit, "ResultDict")
    label, done = battery_transform(ctx, rng, st, a, ma, b, mb, wit, "ResultDict", lambda: a + b)
    check_dict_savedata(ctx, rng, st, a, ma, wit)
    recheck_retained(ctx, st, "ResultDict", wit)
    ctx.ev()
    if not (same_snapshot(snap[0], data_of(a, st)) and same_snapshot(snap[1], data_of(b, st))):
        ctx.violation("ResultDict:operand_mutated", "an operand was modified by +,-,*,/,transform,savedata", wit)
    compare(ctx, st, "ResultDict:operand_mutated", a, ma, 0.0, wit, "a at the end")
    compare(ctx, st, "ResultDict:operand_mutated", b, mb, 0.0, wit, "b at the end")
    ctx.count("cases_ResultDict")
    ctx.nontrivial(("D", dict_signature(ma), wit2["scalar_kind"], label if done else None))
    ctx.sample(dict(wit, sym=label))


def case_tab(ctx, rng, st):
    """TABresult: + is the union over k of the k-points and of every tabulated quantity"""
    TAB = st["TABresult"]
    Void = st["VoidResult"]
    st["retain"] = None
    nb = int(rng.integers(1, 4))
    nq = int(rng.integers(0, 3))
    quantities = ["Energy"] + ["berry", "spin", "morb"][:nq]
    lattice = rng.normal(size=(3, 3)) + 2 * np.eye(3)
    recip = 2 * np.pi * np.linalg.inv(lattice).T
    per_q = {}
    for q in quantities:
        per_q[q] = build_kband(rng, st, 2, nb=nb, base=False, variants=False)
    mode = ["grid", "path"][int(rng.integers(2))]
    tabs, mods, kpts = [], [], []
    for i in range(2):
        nk = int(rng.integers(1, 5))
        kp = rng.uniform(-1, 2, size=(nk, 3))
        res, mod = {}, {}
        for q in quantities:
            obj, m = per_q[q][i]
            meta = m[2]
            data = rand_data(rng, (nk,) + m[1].shape[1:], meta["cplx"], 1.0)
            res[q] = st["KBandResult"](data.copy(), transformTR=obj.transformTR, transformInv=obj.transformInv)
            mod[q] = ("K", data, meta)
        tabs.append(TAB(kp.copy(), recip, results=res, mode=mode))
        mods.append(mod)
        kpts.append(kp)
    wit = dict(kind="TABresult", nband=nb, quantities=quantities, nk=[len(k) for k in kpts], mode=mode)

    def cmp_tab(mech, t, kp_expected, mod_expected, what):
        ctx.ev()
        if not isinstance(t, TAB):
            ctx.violation(mech + ":type", f"{what}: got {type(t).__name__}", wit)
            return
        if set(t.results) != set(mod_expected):
            ctx.violation(mech + ":keys", f"{what}: quantities {sorted(t.results)}", wit)
            return
        kp = np.asarray(t.kpoints)
        if kp.shape != kp_expected.shape:
            ctx.violation(mech + ":kpoints", f"{what}: k-point array {kp.shape} vs {kp_expected.shape}", wit)
            return
        d = (kp - kp_expected + 0.5) % 1 - 0.5
        ctx.close(mech + ":kpoints", d, np.zeros_like(d), atol=1e-10, rtol=0, what=what + " kpoints (mod 1)", witness=wit)
        for q in mod_expected:
            compare(ctx, st, mech, t.results[q], mod_expected[q], 1.0, wit, what + f"[{q}]")

    summ = {q: m_add(mods[0][q], mods[1][q]) for q in quantities}
    cmp_tab("TABresult.__add__(union over k)", tabs[0] + tabs[1], np.vstack(kpts), summ, "t0+t1")
    cmp_tab("TABresult.void_neutral", Void() + tabs[0], kpts[0], mods[0], "Void+t0")
    cmp_tab("TABresult.void_neutral", tabs[0] + None, kpts[0], mods[0], "t0+None")
    cmp_tab("TABresult.void_neutral", sum([tabs[0], tabs[1]]), np.vstack(kpts), summ, "sum([t0,t1])")
    try:
        r = tabs[0] + Void()
        cmp_tab("TABresult.void_neutral", r, kpts[0], mods[0], "t0+Void")
    except AttributeError:
        ctx.count("observed_AttributeError_TABresult+Void")     # outside the anchored classes: reported, not judged
    obj, M, TR, label = gen_sym(rng, st["ps"], ctx)
    t01 = (tabs[0] + tabs[1]).transform(obj)
    t0, t1 = tabs[0].transform(obj), tabs[1].transform(obj)
    tsum = {q: ("K", np.concatenate([t0.results[q].data, t1.results[q].data], axis=0), mods[0][q][2]) for q in quantities}
    cmp_tab("TABresult.transform_distributes_over_add", t01, np.vstack([t0.kpoints, t1.kpoints]), tsum, "T(t0+t1) vs T(t0)+T(t1)")
    tref = {q: m_add(m_transform(mods[0][q], M, TR), m_transform(mods[1][q], M, TR)) for q in quantities}
    for q in quantities:
        compare(ctx, st, "TABresult.transform!=reference", t01.results[q], tref[q], 81.0, dict(wit, sym=label), f"T(t0+t1)[{q}]")
    ctx.count("cases_TABresult")
    ctx.count("transform_checks")
    ctx.nontrivial(("T", nb, tuple(quantities), mode, tuple(wit["nk"]), label))
    ctx.sample(dict(wit, sym=label))


def case_void(ctx, rng, st):
    Void = st["VoidResult"]
    st["retain"] = None
    v, w = Void(), Void()
    obj, M, TR, label = gen_sym(rng, st["ps"], ctx)
    c, _ = gen_scalar(rng)
    for nm, r in (("v+w", v + w), ("v*c", v * c), ("c*v", c * v), ("v/c", v / (c if c else 2)), ("v-w", v - w),
                  ("T(v)", v.transform(obj)), ("sum", sum([v, w], Void()))):
        compare(ctx, st, "VoidResult.closed", r, ("V",), 0.0, dict(op=nm), nm)
    ctx.count("cases_VoidResult")


def case(ctx, rng, idx, state):
    r = rng.random()
    if r < 0.40:
        case_energy(ctx, rng, state)
    elif r < 0.65:
        case_kband(ctx, rng, state)
    elif r < 0.90:
        case_dict(ctx, rng, state)
    elif r < 0.98:
        case_tab(ctx, rng, state)
    else:
        case_void(ctx, rng, state)


if __name__ == "__main__":
    harness.main(
        PROP, "exploration", case, setup_fn=setup,
        tiers=dict(quick=dict(cases=1200, shards=8, time=900), thorough=dict(cases=60000, shards=16, time=3000)),
        rule="random EnergyResult (0-3 energy axes of 1-5 points, rank 0-4, real/complex, amplitude 1e-3..1e3, "
             "Void/FermiDirac/Gaussian smoothers), KBandResult / K__Result (1-5 k, 1-4 bands, rank 0-4), ResultDict "
             "(1-4 keys, nested, Void values), TABresult, VoidResult; scalars python int/float/bool, numpy float64/"
             "int64/float32/int32; TR/inversion transforms: every pre-defined Transform, conj, TransformProduct, random "
             "transposes and swaps; symmetries: Rotation(n, axis), Mirror, the 14 named ones, general orthogonal "
             "matrices, TimeReversal, Inversion and products of up to 3.  A case is non-trivial when its data are "
             "random non-zero arrays; distinct by (class, energy axes, rank/shape, dtype, transform pair, scalar "
             "type, symmetry label).  Widening: argument forms (tuple / bare Energies and smoothers, empty titles, separately "
             "built equal transforms, default None transforms, F-ordered / strided / read-only data, 100-1000 energies, "
             "100-300 k x 16-40 bands, axes of length 1e-6..1e6 as list/tuple/array, default axes, sym.copy(), as_dict round "
             "trip, from_string_prod, permuted / empty dictionaries) and histories (warm caches, re-used sums merged before / "
             "between requests, block lists, in-place add into derived results, transform of transformed results, save of "
             "derived results, load->save->load, loaded objects as operands, savedata name forms, ResultDict.savedata); "
             "every returned result is re-read at the end of the case",
        assumptions=["oracle = numpy on model arrays kept by the harness; rotation = einsum with the proper part of a "
                     "Rodrigues matrix built by the harness; TR transform applied before the inversion transform",
                     "for band-resolved results `+` is the union over k (stack along k) and ResultDict a-b = a+(-1)*b",
                     "K__Result.__truediv__, TABresult.__mul__ and the comment of a sum are not judged",
                     "EnergyResult*x with x a numpy scalar that is not a python int/float subclass may raise the "
                     "library's explicit TypeError (counted, not judged)",
                     "relative tolerance 1e-12 of the input magnitude; binary round trip must be bit-identical",
                     "the comment carried by a derived result (a+b, a*c, T(a)) is not judged, but the one it has must survive saving",
                     "smoothers are not stored in the binary file: a loaded result meets the original only when all smoothers are void",
                     "results without TR / inversion transforms (the constructor defaults) are transformed by proper rotations only",
                     "pending findings (run only with VERIF_C16_PENDING=1): save of a result with the default None transforms, "
                     "dataSmooth after the in-place add, K__Result.add between sums in different block states"],
        required_counters=("cases_EnergyResult", "cases_KBandResult", "cases_K__Result", "cases_ResultDict",
                           "cases_TABresult", "void_neutrality_checks", "transform_checks", "transform_with_TR",
                           "transform_with_inversion", "save_load_roundtrips", "save_load_roundtrips_kband",
                           "mul_array_checks", "transposing_transform", "swapping_transform",
                           "energy_axes_0", "energy_axes_1", "energy_axes_2", "energy_axes_3",
                           "rank_0", "rank_1", "rank_2", "rank_3", "rank_4",
                           # widening review
                           "retained_results_rechecked", "operands_with_warm_caches", "transform_twice_checks",
                           "smoothers_travel_checks", "smoothers_travel_checks_nonvoid", "inplace_add_checks",
                           "inplace_add_into_T_identity(a)", "inplace_add_into_a+b", "inplace_add_into_a+b (both merged)",
                           "saved_derived_result", "saved_derived_result_kband", "save_load_twice", "save_load_twice_kband",
                           "loaded_result_reused", "loaded_result_meets_original", "loaded_result_reused_kband",
                           "saved_with_savedata_bin+txt", "saved_with_empty_prefix_or_suffix", "saved_with_placeholder_name",
                           "from_npz_missing_file", "dict_savedata_roundtrips", "dict_key_order_differs", "dict_without_keys",
                           "reused_sum_merged_first", "reused_sum_merged_between", "built_from_block_list",
                           "sym_axis_rescaled", "sym_axis_tuple_or_array", "sym_default_axis", "sym_via_copy", "sym_via_as_dict",
                           "sym_from_string_prod", "form_Energies_tuple", "form_smoothers_None", "form_smoothers_tuple",
                           "form_smoothers_bare", "form_transforms_rebuilt", "form_layout_F", "form_layout_strided",
                           "form_layout_negstride", "form_layout_readonly", "large_result",
                           "result_without_TR_Inv_transforms", "transform_of_result_without_TR_Inv_transforms", "mul_array_axes_list"),
    )
