"""C16 - result objects behave as vectors and survive saving (REF).

Real objects: EnergyResult, KBandResult, K__Result, ResultDict (nested, with Void values), TABresult,
VoidResult, Transform / TransformProduct, PointSymmetry (Rotation, Mirror, named, general, products).

Oracle: a *model* of every result kept next to the real object (plain numpy arrays + the meta data the
harness itself chose); every operation is carried out on the model with explicit numpy
(`+`/`-`/`*`/`/` element-wise for energy results, `+` = union over k (stack along k) for band-resolved
results, key-wise for dictionaries, Void = neutral element) and the real result is compared with it:
data, type, rank, energies, both transforms.  `transform(sym)` is compared (a) metamorphically
(distributes over `+`, commutes with scaling) and (b) with an independent einsum rotation by the proper
part of the matrix the harness built itself (Rodrigues formula), followed by index-loop
implementations of the TR / inversion transforms.  Save -> from_npz must reproduce energies, data,
rank, both transforms (attributes and behaviour), comment.

Not judged (by design of the library): K__Result.__truediv__ (no-op copy), TABresult.__mul__ (returns
self), the comment chosen by `+`.  `EnergyResult * x` for numpy scalars that are neither int nor float
(np.int64, np.float32) raises the library's explicit TypeError: accepted and counted (a wrong *value*
would be a violation).  0-d data (no energy axis, rank 0) cannot be transformed by TR/inversion
(Transform.__call__ indexes res[:]) - counted as skipped.
"""
import os
import shutil
import sys
import tempfile

sys.path.insert(0, os.path.dirname(os.path.dirname(os.path.abspath(__file__))))
from vlib import env, harness  # noqa: E402
import numpy as np  # noqa: E402

PROP = "C16"
RTOL = 1e-12

# what the pre-defined Transform objects are documented to be (factor, conj, transpose_axes, swap_axes)
PREDEF = {
    "transform_ident": (1, False, None, None),
    "transform_odd": (-1, False, None, None),
    "transform_odd_conj": (-1, True, None, None),
    "transform_odd_trans_021": (-1, False, (0, 2, 1), None),
    "transform_odd_trans_102": (-1, False, (1, 0, 2), None),
    "transform_trans": (1, False, (1, 0), None),
}
NAMED_SYM = {  # name -> (kind, n, axis)
    "Identity": ("rot", 1, (0, 0, 1)), "Inversion": ("inv", 1, (0, 0, 1)), "TimeReversal": ("tr", 1, (0, 0, 1)),
    "Mx": ("mirror", 2, (1, 0, 0)), "My": ("mirror", 2, (0, 1, 0)), "Mz": ("mirror", 2, (0, 0, 1)),
    "C2x": ("rot", 2, (1, 0, 0)), "C2y": ("rot", 2, (0, 1, 0)), "C2z": ("rot", 2, (0, 0, 1)),
    "C3z": ("rot", 3, (0, 0, 1)), "C4x": ("rot", 4, (1, 0, 0)), "C4y": ("rot", 4, (0, 1, 0)),
    "C4z": ("rot", 4, (0, 0, 1)), "C6z": ("rot", 6, (0, 0, 1)),
}


def setup(ctx):
    env.import_wb()
    from wannierberri.result import EnergyResult, KBandResult, K__Result, ResultDict, TABresult
    from wannierberri.result.result import VoidResult
    from wannierberri.symmetry import point_symmetry as ps
    from wannierberri import smoother
    return dict(EnergyResult=EnergyResult, KBandResult=KBandResult, K__Result=K__Result, ResultDict=ResultDict,
                TABresult=TABresult, VoidResult=VoidResult, ps=ps, smoother=smoother)


# --------------------------------------------------------------------------------------------------
#  independent reference implementations
# --------------------------------------------------------------------------------------------------
def rodrigues(axis, angle):
    n = np.asarray(axis, dtype=float)
    n = n / np.sqrt(np.dot(n, n))
    K = np.array([[0, -n[2], n[1]], [n[2], 0, -n[0]], [-n[1], n[0], 0]])
    return np.eye(3) + np.sin(angle) * K + (1 - np.cos(angle)) * (K @ K)


def mkspec(factor=1, conj=False, transpose_axes=None, swap_axes=None):
    return dict(factor=int(factor), conj=bool(conj),
                transpose_axes=None if transpose_axes is None else tuple(int(x) for x in transpose_axes),
                swap_axes=None if swap_axes is None else tuple(int(x) for x in swap_axes))


def spec_of(t):
    """read the four defining attributes of a real Transform object"""
    if t is None:
        return None
    ta = getattr(t, "transpose_axes", "missing")
    sa = getattr(t, "swap_axes", "missing")
    return dict(factor=int(t.factor), conj=bool(t.conj),
                transpose_axes=None if ta is None else (ta if isinstance(ta, str) else tuple(int(x) for x in ta)),
                swap_axes=None if sa is None else (sa if isinstance(sa, str) else tuple(int(x) for x in sa)))


def ref_T(arr, sp):
    """TR / inversion transform of a tensor field, written with explicit index loops"""
    nd = arr.ndim
    out = np.array(arr, copy=True)
    if sp["transpose_axes"] is not None:
        p = sp["transpose_axes"]
        n = len(p)
        for i in np.ndindex(*((3,) * n)):
            j = [0] * n
            for k in range(n):
                j[p[k]] = i[k]          # out[i_0..i_{n-1}] = arr[j],  j[p_k] = i_k   (numpy transpose)
            out[(Ellipsis,) + tuple(i)] = arr[(Ellipsis,) + tuple(j)]
    elif sp["swap_axes"] is not None:
        a, b = sp["swap_axes"]
        for i0 in range(3):
            for i1 in range(3):
                io = [slice(None)] * nd
                ii = [slice(None)] * nd
                io[a], io[b] = i0, i1
                ii[a], ii[b] = i1, i0
                out[tuple(io)] = arr[tuple(ii)]
    if sp["conj"]:
        out = np.conj(out)
    return sp["factor"] * out


def ref_transform(arr, rank, M, TR, spTR, spInv):
    """rotate every tensor index with the proper part of M, then TR transform, then inversion transform"""
    inv = np.linalg.det(M) < 0
    P = -M if inv else M
    out = np.array(arr, copy=True)
    if rank > 0:
        lo = "abcd"[:rank]
        up = "ABCD"[:rank]
        out = np.einsum("..." + lo + "," + ",".join(u + l for u, l in zip(up, lo)) + "->..." + up, out, *([P] * rank))
    if TR:
        out = ref_T(out, spTR)
    if inv:
        out = ref_T(out, spInv)
    return out


# --------------------------------------------------------------------------------------------------
#  generators
# --------------------------------------------------------------------------------------------------
def gen_transform(rng, rank, ps):
    """-> (Transform object, spec, label)"""
    opts = ["transform_ident", "transform_odd", "transform_odd_conj", "conj", "product"]
    if rank >= 2:
        opts += ["transform_trans", "transform_trans", "swap", "perm"]
    if rank >= 3:
        opts += ["transform_odd_trans_021", "transform_odd_trans_102", "perm"]
    c = opts[int(rng.integers(len(opts)))]
    if c in PREDEF:
        return getattr(ps, c), mkspec(*PREDEF[c]), c
    if c == "conj":
        f = int(rng.choice([1, -1]))
        return ps.Transform(factor=f, conj=True), mkspec(f, True), "conj"
    if c == "product":
        cj = bool(rng.random() < 0.5)
        fs = [int(x) for x in rng.choice([1, -1], size=int(rng.integers(1, 4)))]
        t = ps.TransformProduct([ps.Transform(factor=f, conj=cj) for f in fs])
        return t, mkspec(int(np.prod(fs)), cj), "product"
    f = int(rng.choice([1, -1]))
    cj = bool(rng.random() < 0.3)
    if c == "swap":
        a, b = rng.choice(np.arange(-rank, 0), size=2, replace=False)
        sw = (int(a), int(b))
        return ps.Transform(factor=f, conj=cj, swap_axes=sw), mkspec(f, cj, None, sw), "swap"
    n = int(rng.integers(2, rank + 1))
    p = tuple(int(x) for x in rng.permutation(n))
    return ps.Transform(factor=f, conj=cj, transpose_axes=p), mkspec(f, cj, p), f"perm{n}"


def gen_sym(rng, ps):
    """-> (PointSymmetry object, full 3x3 matrix (improper allowed), TR flag, label)"""
    def randaxis():
        if rng.random() < 0.3:
            return [(1, 0, 0), (0, 1, 0), (0, 0, 1), (1, 1, 0), (1, 1, 1), (1, -1, 0)][int(rng.integers(6))]
        v = rng.normal(size=3)
        return tuple(float(x) for x in v / np.linalg.norm(v) * rng.uniform(0.3, 3))

    def one():
        kind = ["rot", "mirror", "named", "named", "general", "tr", "inv"][int(rng.integers(7))]
        if kind == "rot":
            n = int(rng.choice([1, 2, 3, 4, 6, 5, -3, -4, 8]))
            ax = randaxis()
            return ps.Rotation(n, list(ax)), rodrigues(ax, 2 * np.pi / n), False, "rot"
        if kind == "mirror":
            ax = np.array(randaxis(), dtype=float)
            u = ax / np.linalg.norm(ax)
            return ps.Mirror(list(ax)), np.eye(3) - 2 * np.outer(u, u), False, "mirror"
        if kind == "named":
            name = sorted(NAMED_SYM)[int(rng.integers(len(NAMED_SYM)))]
            k, n, ax = NAMED_SYM[name]
            obj = ps.dict_sym[name] if rng.random() < 0.5 else ps.from_string(name)
            if k == "rot":
                return obj, rodrigues(ax, 2 * np.pi / n), False, name
            if k == "mirror":
                u = np.array(ax, dtype=float)
                return obj, np.eye(3) - 2 * np.outer(u, u), False, name
            if k == "inv":
                return obj, -np.eye(3), False, name
            return obj, np.eye(3), True, name
        if kind == "general":
            M = rodrigues(rng.normal(size=3), rng.uniform(0, 2 * np.pi)) * int(rng.choice([1, -1]))
            TR = bool(rng.random() < 0.5)
            return ps.PointSymmetry(M.copy(), TR), M, TR, "general"
        if kind == "tr":
            return ps.TimeReversal, np.eye(3), True, "TimeReversal"
        return ps.Inversion, -np.eye(3), False, "Inversion"

    nfac = int(rng.choice([1, 1, 2, 2, 3]))
    facs = [one() for _ in range(nfac)]
    if nfac == 1:
        obj = facs[0][0]
    elif rng.random() < 0.5:
        obj = ps.product([f[0] for f in facs])
    else:
        obj = facs[0][0]
        for f in facs[1:]:
            obj = obj * f[0]
    M = np.eye(3)
    TR = False
    for f in facs:
        M = M @ f[1]
        TR = TR != f[2]
    return obj, M, TR, "*".join(f[3] for f in facs)


def rand_data(rng, shape, cplx, amp):
    d = rng.normal(size=shape)
    if cplx:
        d = d + 1j * rng.normal(size=shape)
    return np.asarray(d * amp)


def gen_scalar(rng):
    k = ["int", "float", "npfloat64", "float", "bool"][int(rng.integers(5))]
    if k == "int":
        return int(rng.choice([-7, -2, -1, 2, 3, 5, 0, 12])), k
    if k == "float":
        return float(rng.choice([-1, 1]) * 10 ** rng.uniform(-3, 3)), k
    if k == "npfloat64":
        return np.float64(rng.uniform(-4, 4)), k
    return bool(rng.random() < 0.7), k


def gen_smoothers(rng, st, Energies):
    """two lists of equal (but separately constructed) smoothers"""
    sm = st["smoother"]
    s1, s2 = [], []
    for E in Energies:
        r = rng.random()
        if len(E) < 3 or r < 0.6:
            choice = (None, None) if rng.random() < 0.5 else (sm.VoidSmoother(), None)
        elif r < 0.8:
            T = float(rng.uniform(50, 3000))
            choice = (sm.FermiDiracSmoother(E, T), sm.FermiDiracSmoother(E.copy(), T))
        else:
            w = float(rng.uniform(0.05, 1.0))
            choice = (sm.GaussianSmoother(E, w), sm.GaussianSmoother(E.copy(), w))
        s1.append(choice[0])
        s2.append(choice[1])
    return s1, s2


# ---- models: ("E", arr, meta) ("K", arr, meta) ("D", {key: model}) ("V",) ("T", kpoints, {key: model}) ----
def build_energy(rng, st, nobj=2, big=False):
    ER = st["EnergyResult"]
    ne = int(rng.integers(0, 4))
    rank = int(rng.integers(0, 5))
    NEs = [int(rng.integers(1, 6 if big else 5)) for _ in range(ne)]
    while int(np.prod(NEs, dtype=int)) * 3 ** rank > 12000:
        NEs[int(np.argmax(NEs))] -= 1
    cplx = bool(rng.random() < 0.5)
    amp = 10 ** rng.uniform(-3, 3)
    Energies = []
    for N in NEs:
        e0 = rng.uniform(-5, 5)
        Energies.append(np.linspace(e0, e0 + rng.uniform(0.1, 10), N) if N > 1 else np.array([e0]))
    tTR, spTR, lTR = gen_transform(rng, rank, st["ps"])
    tInv, spInv, lInv = gen_transform(rng, rank, st["ps"])
    sm1, sm2 = gen_smoothers(rng, st, Energies)
    titles = [("Efermi", "Omega"), ["E1", "E2", "E3"], "Efermi", ("a", "b", "c", "d")][int(rng.integers(4))]
    comment = ["undocumented", "", "AHC in S/cm\nsecond line", "x" * 40, "unicode Ω é"][int(rng.integers(5))]
    shape = tuple(NEs) + (3,) * rank
    meta = dict(kind="E", energies=[E.copy() for E in Energies], rank=rank, spTR=spTR, spInv=spInv, comment=comment,
                labels=(lTR, lInv), cplx=cplx, ne=ne, nonvoid_smoothers=sum(s is not None and type(s).__name__ != "VoidSmoother" for s in sm1))
    out = []
    for i in range(nobj):
        data = rand_data(rng, shape, cplx, amp)
        En = [E.copy() for E in Energies]
        if ne == 1 and rng.random() < 0.3:
            En = En[0]  # a bare array is accepted for one energy axis
        obj = ER(En, data.copy(), smoothers=list(sm1 if i == 0 else sm2), transformTR=tTR, transformInv=tInv,
                 rank=rank if rng.random() < 0.5 else None, E_titles=titles, comment=comment,
                 save_mode=["bin", "bin+txt", "txt"][int(rng.integers(3))])
        out.append((obj, ("E", data, meta)))
    return out


def build_kband(rng, st, nobj=3, same_nk=False, nb=None, base=None):
    """nobj band-resolved results with the same band count / rank; nk random (equal if same_nk)"""
    rank = int(rng.integers(0, 5))
    if base is None:
        base = rng.random() < 0.25
    nb = int(rng.integers(1, 5)) if nb is None else nb
    mid = (nb,)   # (K__Result.__sub__ always returns a KBandResult, so the base class is used with one band axis too)
    cplx = bool(rng.random() < 0.4)
    amp = 10 ** rng.uniform(-3, 3)
    tTR, spTR, lTR = gen_transform(rng, rank, st["ps"])
    tInv, spInv, lInv = gen_transform(rng, rank, st["ps"])
    cls = st["K__Result"] if base else st["KBandResult"]
    meta = dict(kind="K", rank=rank, spTR=spTR, spInv=spInv, labels=(lTR, lInv), cplx=cplx, cls=cls.__name__, nb=nb)
    nk0 = int(rng.integers(1, 6))
    out = []
    for i in range(nobj):
        nk = nk0 if same_nk else int(rng.integers(1, 6))
        data = rand_data(rng, (nk,) + mid + (3,) * rank, cplx, amp)
        if base:
            obj = cls(data.copy(), transformTR=tTR, transformInv=tInv, rank=rank)
        else:
            obj = cls(data.copy(), transformTR=tTR, transformInv=tInv, rank=rank if rng.random() < 0.5 else None)
        out.append((obj, ("K", data, meta)))
    return out


def build_dict(rng, st, nobj=2, depth=0):
    RD = st["ResultDict"]
    nkeys = int(rng.integers(1, 5))
    objs = [dict() for _ in range(nobj)]
    mods = [dict() for _ in range(nobj)]
    for ik in range(nkeys):
        key = ["ahc", "dos", "tab", "x", "berry_dipole", "k5"][ik] + ("" if rng.random() < 0.8 else "^sym")
        r = rng.random()
        if r < 0.45:
            vals = build_energy(rng, st, nobj)
        elif r < 0.75:
            vals = build_kband(rng, st, nobj, same_nk=bool(rng.random() < 0.5), base=False)
        elif r < 0.9 and depth == 0:
            vals = build_dict(rng, st, nobj, depth=1)
        else:
            # Void on some side(s): still a valid summand
            vals = build_energy(rng, st, nobj)
            for i in range(nobj):
                if rng.random() < 0.6:
                    vals[i] = (st["VoidResult"](), ("V",))
        for i in range(nobj):
            objs[i][key] = vals[i][0]
            mods[i][key] = vals[i][1]
    return [(RD(objs[i]), ("D", mods[i])) for i in range(nobj)]


# ---- operations on models ---------------------------------------------------------------------------
def m_mul(m, c):
    if m[0] == "V":
        return m
    if m[0] == "D":
        return ("D", {k: m_mul(v, c) for k, v in m[1].items()})
    return (m[0], m[1] * c, m[2])


def m_add(a, b):
    if a[0] == "V":
        return b
    if b[0] == "V":
        return a
    if a[0] == "D":
        return ("D", {k: m_add(a[1][k], b[1][k]) for k in a[1] if k in b[1]})
    if a[0] == "E":
        return ("E", a[1] + b[1], a[2])
    return ("K", np.concatenate([a[1], b[1]], axis=0), a[2])   # union over k


def m_sub_direct(a, b):
    """the operator `-` of energy results and of band-resolved results taken directly: element-wise"""
    if b[0] == "V":
        return a
    if a[0] == "V":
        return m_mul(b, -1)
    return (a[0], a[1] - b[1], a[2])


def m_div(m, c):
    if m[0] == "V":
        return m
    if m[0] == "D":
        return ("D", {k: m_div(v, c) for k, v in m[1].items()})
    if m[0] == "K":
        return ("K", None, m[2])      # no-op copy by design: not judged
    return ("E", m[1] / c, m[2])


def m_transform(m, M, TR):
    if m[0] == "V":
        return m
    if m[0] == "D":
        return ("D", {k: m_transform(v, M, TR) for k, v in m[1].items()})
    meta = m[2]
    return (m[0], ref_transform(m[1], meta["rank"], M, TR, meta["spTR"], meta["spInv"]), meta)


def m_scale(m):
    if m[0] == "V":
        return 0.0
    if m[0] == "D":
        return max([m_scale(v) for v in m[1].values()] + [0.0])
    return float(np.abs(m[1]).max()) if m[1] is not None and m[1].size else 0.0


def m_transformable(m, M, TR):
    """0-d data cannot go through Transform.__call__ (library limitation, see the author guide)"""
    if m[0] == "V":
        return True
    if m[0] == "D":
        return all(m_transformable(v, M, TR) for v in m[1].values())
    return not (m[1].ndim == 0 and (TR or np.linalg.det(M) < 0))


# ---- comparison of a real object with a model ----------------------------------------------------------
def compare(ctx, st, mech, res, model, scale, wit, what=""):
    kind = model[0]
    if kind == "V":
        ctx.ev()
        if not isinstance(res, st["VoidResult"]):
            ctx.violation(mech + ":type", f"{what}: expected VoidResult, got {type(res).__name__}", wit)
        return
    if kind == "D":
        ctx.ev()
        if not isinstance(res, st["ResultDict"]):
            ctx.violation(mech + ":type", f"{what}: expected ResultDict, got {type(res).__name__}", wit)
            return
        if set(res.results) != set(model[1]):
            ctx.violation(mech + ":keys", f"{what}: keys {sorted(res.results)} != {sorted(model[1])}", wit)
            return
        for k in model[1]:
            compare(ctx, st, mech, res.results[k], model[1][k], scale, wit, what + f"[{k}]")
        return
    meta = model[2]
    cls = st["EnergyResult"] if kind == "E" else st["K__Result"]
    if not isinstance(res, cls):
        ctx.ev()
        ctx.violation(mech + ":type", f"{what}: expected {cls.__name__}, got {type(res).__name__}", wit)
        return
    if model[1] is not None:
        ctx.close(mech, res.data, model[1], scale=scale, rtol=RTOL, what=what, witness=wit)
    # meta data must survive every operation
    ctx.ev()
    try:
        rk = int(res.rank)
    except Exception:
        rk = None
    if rk != meta["rank"]:
        ctx.violation(mech + ":rank", f"{what}: rank {res.rank!r} != {meta['rank']}", wit)
    if spec_of(res.transformTR) != meta["spTR"] or spec_of(res.transformInv) != meta["spInv"]:
        ctx.violation(mech + ":transforms", f"{what}: transforms {spec_of(res.transformTR)} / {spec_of(res.transformInv)} "
                      f"!= {meta['spTR']} / {meta['spInv']}", wit)
    if kind == "E":
        ok = len(res.Energies) == len(meta["energies"]) and all(
            np.array_equal(np.asarray(x), y) for x, y in zip(res.Energies, meta["energies"]))
        if not ok:
            ctx.violation(mech + ":energies", f"{what}: energies changed", wit)


def snapshot(m):
    if m[0] == "V":
        return None
    if m[0] == "D":
        return {k: snapshot(v) for k, v in m[1].items()}
    return m[1].copy()


def data_of(obj, st):
    if isinstance(obj, st["VoidResult"]):
        return None
    if isinstance(obj, st["ResultDict"]):
        return {k: data_of(v, st) for k, v in obj.results.items()}
    return obj.data


def same_snapshot(a, b):
    if a is None or b is None:
        return a is None and b is None
    if isinstance(a, dict):
        return isinstance(b, dict) and set(a) == set(b) and all(same_snapshot(a[k], b[k]) for k in a)
    return a.shape == b.shape and np.array_equal(a, b)


# --------------------------------------------------------------------------------------------------
#  the batteries
# --------------------------------------------------------------------------------------------------
def battery_vector(ctx, rng, st, a, ma, b, mb, wit, kind):
    """operations common to energy results and dictionaries (and Void): linear-space laws vs the model"""
    Void = st["VoidResult"]
    c, ckind = gen_scalar(rng)
    c2, _ = gen_scalar(rng)
    wit = dict(wit, scalar=repr(c), scalar_kind=ckind)
    s = m_scale(ma) + m_scale(mb)
    compare(ctx, st, f"{kind}.__add__", a + b, m_add(ma, mb), s, wit, "a+b")
    compare(ctx, st, f"{kind}.__mul__", a * c, m_mul(ma, c), s * max(1, abs(c)), wit, "a*c")
    compare(ctx, st, f"{kind}.__rmul__", c * a, m_mul(ma, c), s * max(1, abs(c)), wit, "c*a")
    compare(ctx, st, f"{kind}.distributive", (a + b) * c, m_add(m_mul(ma, c), m_mul(mb, c)), s * max(1, abs(c)), wit,
            "(a+b)*c")
    compare(ctx, st, f"{kind}.distributive", a * c + b * c2, m_add(m_mul(ma, c), m_mul(mb, c2)),
            s * max(1, abs(c), abs(c2)), wit, "a*c+b*c2")
    d = c if c != 0 else 3
    compare(ctx, st, f"{kind}.__truediv__", a / d, m_div(ma, d), s * max(1, 1 / abs(d)), wit, "a/c")
    if kind == "EnergyResult":
        compare(ctx, st, f"{kind}.__sub__", a - b, m_sub_direct(ma, mb), s, wit, "a-b")
        compare(ctx, st, f"{kind}.add_sub_roundtrip", a + b - b, ma, s, wit, "a+b-b")
        compare(ctx, st, f"{kind}.sum()", sum([a, b, a]), m_add(m_add(ma, mb), ma), 2 * s, wit, "sum([a,b,a])")
    else:
        # dictionary: a-b is a+(-1)*b key-wise (for band-resolved values that is the union over k of a and -b)
        compare(ctx, st, f"{kind}.__sub__", a - b, m_add(ma, m_mul(mb, -1)), s, wit, "a-b")
        compare(ctx, st, f"{kind}.sum()", sum([a, b]), m_add(ma, mb), 2 * s, wit, "sum([a,b])")
    # neutral elements
    for nm, f in (("a+Void", lambda: a + Void()), ("Void+a", lambda: Void() + a), ("a-Void", lambda: a - Void()),
                  ("a+None", lambda: a + None), ("a+0", lambda: a + 0), ("0+a", lambda: 0 + a)):
        ctx.count("void_neutrality_checks")
        try:
            r = f()
        except Exception as e:  # noqa  - any exception here refutes "the void result is neutral"
            ctx.ev()
            ctx.violation(f"{kind}.void_neutral:raises", f"{nm} raised {type(e).__name__}: {e}", wit)
            continue
        compare(ctx, st, f"{kind}.void_neutral", r, ma, s, wit, nm)
    compare(ctx, st, f"{kind}.void_neutral", Void() - a, m_mul(ma, -1), s, wit, "Void-a")
    compare(ctx, st, f"{kind}.void_neutral", (a + Void()) + b, m_add(ma, mb), s, wit, "(a+Void)+b")
    return wit


def battery_transform(ctx, rng, st, a, ma, b, mb, wit, kind, fresh_sum):
    obj, M, TR, label = gen_sym(rng, st["ps"])
    wit = dict(wit, sym=label, sym_matrix=M, sym_TR=TR)
    if not (m_transformable(ma, M, TR) and m_transformable(mb, M, TR)):
        ctx.count("skipped_transform_of_0d_data")
        return label, False
    s = (m_scale(ma) + m_scale(mb)) * 3.0 ** 4
    ta, tb = a.transform(obj), b.transform(obj)
    mta, mtb = m_transform(ma, M, TR), m_transform(mb, M, TR)
    # (a) metamorphic: transform distributes over + (for band-resolved: + is the union over k)
    tsum = fresh_sum().transform(obj)
    ref = ta + tb
    compare(ctx, st, f"{kind}.transform_distributes_over_add", tsum, model_of(ref, st, ma, mb), s, wit, "T(a+b) vs T(a)+T(b)")
    c, _ = gen_scalar(rng)
    compare(ctx, st, f"{kind}.transform_commutes_with_scaling", (a * c).transform(obj), model_of(ta * c, st, ma, None), s * max(1, abs(c)),
            wit, "T(a*c) vs T(a)*c")
    # (b) reference: explicit rotation + TR / inversion transforms
    compare(ctx, st, f"{kind}.transform!=reference", ta, mta, s, wit, "T(a)")
    compare(ctx, st, f"{kind}.transform!=reference", tsum, m_add(mta, mtb), s, wit, "T(a+b)")
    ctx.count("transform_checks")
    if TR:
        ctx.count("transform_with_TR")
    if np.linalg.det(M) < 0:
        ctx.count("transform_with_inversion")
    return label, True


def model_of(res, st, ma, mb):
    """model of a real object produced by the library itself (used only for metamorphic comparisons):
    data read back, meta data taken from the operand model"""
    if isinstance(res, st["VoidResult"]):
        return ("V",)
    if isinstance(res, st["ResultDict"]):
        out = {}
        for k, v in res.results.items():
            sub_a = ma[1].get(k) if ma is not None and ma[0] == "D" else None
            sub_b = mb[1].get(k) if mb is not None and mb[0] == "D" else None
            out[k] = model_of(v, st, sub_a, sub_b)
        return ("D", out)
    src = ma if (ma is not None and ma[0] in ("E", "K")) else mb
    return (src[0], np.array(res.data, copy=True), src[2])


def check_numpy_scalars(ctx, rng, st, a, ma, wit):
    """numpy scalars that are not python int/float subclasses: correct product or the explicit TypeError"""
    for c in (np.int64(rng.integers(2, 9)), np.float32(2.5), np.int32(-3)):
        nm = type(c).__name__
        try:
            r = a * c
        except TypeError as e:
            if "can only be multiplied by a number" in str(e):
                ctx.count(f"observed_TypeError_EnergyResult*{nm}")
                continue
            raise
        compare(ctx, st, "EnergyResult.__mul__[numpy scalar]", r, m_mul(ma, float(c)), m_scale(ma) * abs(float(c)),
                dict(wit, scalar=repr(c)), f"a*{nm}")


def check_mul_array(ctx, rng, st, a, ma, wit):
    """mul_array(other, axes): multiply by an array living on the given (increasing) axes"""
    arr = ma[1]
    kind = ma[0]
    off = 1 if kind == "K" else 0     # for band-resolved results axis 0 of `axes` is the band axis (k excluded)
    nax = arr.ndim - off
    if nax == 0:
        return
    mode = int(rng.integers(3))
    if mode == 0:
        n = int(rng.integers(1, min(nax, 3) + 1))
        axes = None                    # default: the leading axes
        ax_list = list(range(n))
    else:
        n = int(rng.integers(1, min(nax, 3) + 1))
        ax_list = sorted(int(x) for x in rng.choice(nax, size=n, replace=False))
        axes = tuple(ax_list) if (n > 1 or mode == 1) else ax_list[0]
    other = rng.uniform(-2, 2, size=tuple(arr.shape[x + off] for x in ax_list))
    idx = [None] * arr.ndim
    for x in ax_list:
        idx[x + off] = slice(None)
    expected = arr * other[tuple(idx)] if len(ax_list) == other.ndim else None
    res = a.mul_array(other) if axes is None else a.mul_array(other, axes=axes)
    name = "EnergyResult" if kind == "E" else "K__Result"
    compare(ctx, st, f"{name}.mul_array", res, (kind, expected, ma[2]), m_scale(ma) * 2,
            dict(wit, axes=repr(axes), other_shape=other.shape), "mul_array")
    ctx.count("mul_array_checks")


def check_save_load(ctx, rng, st, a, ma, wit):
    """EnergyResult.save / savedata -> from_npz"""
    ER = st["EnergyResult"]
    meta = ma[2]
    tmp = tempfile.mkdtemp(prefix="verif_c16_")
    try:
        if a.save_mode == {"bin"} and rng.random() < 0.7:
            a.savedata("quantity", os.path.join(tmp, "pre"), "suf", 7)
            path = os.path.join(tmp, "pre-quantity-suf_iter-0007.npz")
            ctx.count("saved_with_savedata")
        else:
            a.save(os.path.join(tmp, "res"))
            path = os.path.join(tmp, "res.npz")
        ctx.ev()
        if not os.path.isfile(path):
            ctx.violation("EnergyResult.save:no_file", f"{os.path.basename(path)} not written", wit)
            return
        ld = ER.from_npz(path)
        compare(ctx, st, "EnergyResult.from_npz", ld, ma, 0.0, wit, "loaded")
        ctx.ev(2)
        if isinstance(ld, ER):
            if not np.array_equal(ld.data, ma[1]) or ld.data.dtype != ma[1].dtype:
                ctx.violation("EnergyResult.from_npz:data_not_identical", "binary round trip changed the data or its dtype", wit)
            if ld.comment != meta["comment"]:
                ctx.violation("EnergyResult.from_npz:comment", f"comment {ld.comment!r} != {meta['comment']!r}", wit)
            # behaviour of the re-loaded transforms
            obj, M, TR, label = gen_sym(rng, st["ps"])
            if not TR:
                obj = obj * st["ps"].TimeReversal       # make sure both re-loaded transforms act
            if np.linalg.det(M) > 0:
                obj = st["ps"].Inversion * obj
            if ma[1].ndim > 0:
                t1 = a.transform(obj).data
                t2 = ld.transform(obj).data
                ctx.close("EnergyResult.from_npz:transform_behaviour", t2, t1, rtol=1e-14, scale=m_scale(ma),
                          what="loaded.transform(sym) vs original.transform(sym)", witness=dict(wit, sym=label))
        ctx.count("save_load_roundtrips")
        # the void result is saved / loaded as void
        if rng.random() < 0.1:
            st["VoidResult"]().save(os.path.join(tmp, "void"))
            ctx.ev()
            if not isinstance(ER.from_npz(os.path.join(tmp, "void.npz")), st["VoidResult"]):
                ctx.violation("VoidResult.save->from_npz", "a saved VoidResult is not loaded as VoidResult", wit)
    finally:
        shutil.rmtree(tmp, ignore_errors=True)


def case_energy(ctx, rng, st):
    (a, ma), (b, mb) = build_energy(rng, st, 2, big=ctx.thorough)
    meta = ma[2]
    wit = dict(kind="EnergyResult", shape=ma[1].shape, n_energies=meta["ne"], rank=meta["rank"], complex=meta["cplx"],
               transformTR=meta["spTR"], transformInv=meta["spInv"])
    snap = (snapshot(ma), snapshot(mb))
    wit2 = battery_vector(ctx, rng, st, a, ma, b, mb, wit, "EnergyResult")
    check_numpy_scalars(ctx, rng, st, a, ma, wit)
    check_mul_array(ctx, rng, st, a, ma, wit)
    label, done = battery_transform(ctx, rng, st, a, ma, b, mb, wit, "EnergyResult", lambda: a + b)
    # smoothers travel with the result
    ctx.ev()
    r = a + b
    if len(r.smoothers) != len(a.smoothers) or any(not (x == y) for x, y in zip(r.smoothers, a.smoothers)):
        ctx.violation("EnergyResult.__add__:smoothers", "sum lost the smoothers", wit)
    check_save_load(ctx, rng, st, a, ma, wit)
    ctx.ev()
    if not (same_snapshot(snap[0], data_of(a, st)) and same_snapshot(snap[1], data_of(b, st))):
        ctx.violation("EnergyResult:operand_mutated", "an operand was modified by +,-,*,/,transform,save", wit)
    ctx.count("cases_EnergyResult")
    ctx.count(f"energy_axes_{meta['ne']}")
    ctx.count(f"rank_{meta['rank']}")
    if meta["spTR"]["transpose_axes"] or meta["spInv"]["transpose_axes"]:
        ctx.count("transposing_transform")
    if meta["spTR"]["swap_axes"] or meta["spInv"]["swap_axes"]:
        ctx.count("swapping_transform")
    ctx.nontrivial(("E", meta["ne"], meta["rank"], meta["cplx"], meta["labels"], wit2["scalar_kind"], label if done else None))
    ctx.sample(dict(wit, sym=label))


def case_kband(ctx, rng, st):
    KB = st["KBandResult"]
    Void = st["VoidResult"]
    (a, ma), (b, mb), (a2, ma2) = build_kband(rng, st, 3)
    meta = ma[2]
    # a2 gets the k-count of a (needed by `-`)
    d2 = rand_data(rng, ma[1].shape, meta["cplx"], max(m_scale(ma), 1e-3))
    a2 = type(a)(d2.copy(), transformTR=a.transformTR, transformInv=a.transformInv, rank=meta["rank"])
    ma2 = ("K", d2, meta)
    name = "K__Result"
    wit = dict(kind=meta["cls"], shape_a=ma[1].shape, shape_b=mb[1].shape, rank=meta["rank"], complex=meta["cplx"],
               transformTR=meta["spTR"], transformInv=meta["spInv"])
    snap = (snapshot(ma), snapshot(mb), snapshot(ma2))
    s = m_scale(ma) + m_scale(mb) + m_scale(ma2)
    c, ckind = gen_scalar(rng)
    if rng.random() < 0.3:
        c, ckind = np.int64(rng.integers(-4, 5)), "npint64"
    wit["scalar"] = repr(c)
    sc = s * max(1, abs(c))
    # + is the union over k.  Operate on *fresh* sums (their data_list still holds several blocks)
    compare(ctx, st, f"{name}.__add__(union over k)", a + b, m_add(ma, mb), s, wit, "a+b")
    compare(ctx, st, f"{name}.__add__(union over k)", (a + b) + a2, m_add(m_add(ma, mb), ma2), s, wit, "(a+b)+a2")
    compare(ctx, st, f"{name}.__add__(union over k)", a + (b + a2), m_add(ma, m_add(mb, ma2)), s, wit, "a+(b+a2)")
    ctx.ev()
    if (a + b).nk != ma[1].shape[0] + mb[1].shape[0]:
        ctx.violation(f"{name}.nk", "nk of a sum is not the sum of the k counts", wit)
    compare(ctx, st, f"{name}.__mul__", a * c, m_mul(ma, c), sc, wit, "a*c")
    compare(ctx, st, f"{name}.__rmul__", c * a, m_mul(ma, c), sc, wit, "c*a")
    compare(ctx, st, f"{name}.__mul__(of a sum)", (a + b) * c, m_add(m_mul(ma, c), m_mul(mb, c)), sc, wit, "(a+b)*c")
    compare(ctx, st, f"{name}.__mul__(of a sum)", (a + b + a2) * c, m_add(m_add(m_mul(ma, c), m_mul(mb, c)), m_mul(ma2, c)), sc, wit,
            "(a+b+a2)*c")
    compare(ctx, st, f"{name}.__sub__", a - a2, m_sub_direct(ma, ma2), s, wit, "a-a2")
    compare(ctx, st, f"{name}.__sub__", (a + b) - (a2 + b), ("K", np.concatenate([ma[1] - d2, mb[1] * 0], axis=0), meta), s, wit,
            "(a+b)-(a2+b)")
    for nm, f in (("a+Void", lambda: a + Void()), ("Void+a", lambda: Void() + a), ("a-Void", lambda: a - Void()),
                  ("a+None", lambda: a + None)):
        ctx.count("void_neutrality_checks")
        try:
            r = f()
        except Exception as e:  # noqa  - any exception here refutes "the void result is neutral"
            ctx.ev()
            ctx.violation(f"{name}.void_neutral:raises", f"{nm} raised {type(e).__name__}: {e}", wit)
            continue
        compare(ctx, st, f"{name}.void_neutral", r, ma, s, wit, nm)
    compare(ctx, st, f"{name}.void_neutral", Void() - a, m_mul(ma, -1), s, wit, "Void-a")
    compare(ctx, st, f"{name}.void_neutral", (a + Void()) + b, m_add(ma, mb), s, wit, "(a+Void)+b")
    check_mul_array(ctx, rng, st, a, ma, wit)
    if rng.random() < 0.5:    # mul_array of a fresh sum (several blocks)
        other = rng.uniform(-2, 2, size=meta["nb"])
        idx = (None, slice(None)) + (None,) * (ma[1].ndim - 2)
        compare(ctx, st, f"{name}.mul_array", (a + b).mul_array(other, axes=0),
                ("K", np.concatenate([ma[1], mb[1]], axis=0) * other[idx], meta), 2 * s, wit, "(a+b).mul_array")
    label, done = battery_transform(ctx, rng, st, a, ma, b, mb, wit, name, lambda: a + b)
    # save -> from_npz of the band-resolved result (rank is re-derived from the shape)
    if type(a) is KB:
        tmp = tempfile.mkdtemp(prefix="verif_c16_")
        try:
            a.save(os.path.join(tmp, "kb"))
            ld = KB.from_npz(os.path.join(tmp, "kb.npz"))
            compare(ctx, st, "KBandResult.from_npz", ld, ma, 0.0, wit, "loaded")
            ctx.ev()
            if not np.array_equal(ld.data, ma[1]):
                ctx.violation("KBandResult.from_npz:data_not_identical", "binary round trip changed the data", wit)
            ctx.count("save_load_roundtrips_kband")
        finally:
            shutil.rmtree(tmp, ignore_errors=True)
    ctx.ev()
    if not (same_snapshot(snap[0], a.data) and same_snapshot(snap[1], b.data) and same_snapshot(snap[2], a2.data)):
        ctx.violation(f"{name}:operand_mutated", "an operand was modified by +,-,*,transform,save", wit)
    ctx.count("cases_" + meta["cls"])
    ctx.count(f"rank_{meta['rank']}")
    if meta["spTR"]["transpose_axes"] or meta["spInv"]["transpose_axes"]:
        ctx.count("transposing_transform")
    if meta["spTR"]["swap_axes"] or meta["spInv"]["swap_axes"]:
        ctx.count("swapping_transform")
    ctx.nontrivial((meta["cls"], ma[1].shape[1:], meta["cplx"], meta["labels"], ckind, label if done else None))
    ctx.sample(dict(wit, sym=label))


def dict_signature(m):
    if m[0] == "D":
        return tuple(sorted((k, dict_signature(v)) for k, v in m[1].items()))
    if m[0] == "V":
        return "V"
    return (m[0], m[2]["rank"], m[2].get("ne"), m[2]["labels"])


def case_dict(ctx, rng, st):
    (a, ma), (b, mb) = build_dict(rng, st, 2)
    wit = dict(kind="ResultDict", signature=repr(dict_signature(ma))[:600])
    snap = (snapshot(ma), snapshot(mb))
    wit2 = battery_vector(ctx, rng, st, a, ma, b, mb, wit, "ResultDict")
    label, done = battery_transform(ctx, rng, st, a, ma, b, mb, wit, "ResultDict", lambda: a + b)
    ctx.ev()
    if not (same_snapshot(snap[0], data_of(a, st)) and same_snapshot(snap[1], data_of(b, st))):
        ctx.violation("ResultDict:operand_mutated", "an operand was modified by +,-,*,/,transform", wit)
    ctx.count("cases_ResultDict")
    ctx.nontrivial(("D", dict_signature(ma), wit2["scalar_kind"], label if done else None))
    ctx.sample(dict(wit, sym=label))


def case_tab(ctx, rng, st):
    """TABresult: + is the union over k of the k-points and of every tabulated quantity"""
    TAB = st["TABresult"]
    Void = st["VoidResult"]
    nb = int(rng.integers(1, 4))
    nq = int(rng.integers(0, 3))
    quantities = ["Energy"] + ["berry", "spin", "morb"][:nq]
    lattice = rng.normal(size=(3, 3)) + 2 * np.eye(3)
    recip = 2 * np.pi * np.linalg.inv(lattice).T
    per_q = {}
    for q in quantities:
        per_q[q] = build_kband(rng, st, 2, nb=nb, base=False)
    mode = ["grid", "path"][int(rng.integers(2))]
    tabs, mods, kpts = [], [], []
    for i in range(2):
        nk = int(rng.integers(1, 5))
        kp = rng.uniform(-1, 2, size=(nk, 3))
        res, mod = {}, {}
        for q in quantities:
            obj, m = per_q[q][i]
            meta = m[2]
            data = rand_data(rng, (nk,) + m[1].shape[1:], meta["cplx"], 1.0)
            res[q] = st["KBandResult"](data.copy(), transformTR=obj.transformTR, transformInv=obj.transformInv)
            mod[q] = ("K", data, meta)
        tabs.append(TAB(kp.copy(), recip, results=res, mode=mode))
        mods.append(mod)
        kpts.append(kp)
    wit = dict(kind="TABresult", nband=nb, quantities=quantities, nk=[len(k) for k in kpts], mode=mode)

    def cmp_tab(mech, t, kp_expected, mod_expected, what):
        ctx.ev()
        if not isinstance(t, TAB):
            ctx.violation(mech + ":type", f"{what}: got {type(t).__name__}", wit)
            return
        if set(t.results) != set(mod_expected):
            ctx.violation(mech + ":keys", f"{what}: quantities {sorted(t.results)}", wit)
            return
        kp = np.asarray(t.kpoints)
        if kp.shape != kp_expected.shape:
            ctx.violation(mech + ":kpoints", f"{what}: k-point array {kp.shape} vs {kp_expected.shape}", wit)
            return
        d = (kp - kp_expected + 0.5) % 1 - 0.5
        ctx.close(mech + ":kpoints", d, np.zeros_like(d), atol=1e-10, rtol=0, what=what + " kpoints (mod 1)", witness=wit)
        for q in mod_expected:
            compare(ctx, st, mech, t.results[q], mod_expected[q], 1.0, wit, what + f"[{q}]")

    summ = {q: m_add(mods[0][q], mods[1][q]) for q in quantities}
    cmp_tab("TABresult.__add__(union over k)", tabs[0] + tabs[1], np.vstack(kpts), summ, "t0+t1")
    cmp_tab("TABresult.void_neutral", Void() + tabs[0], kpts[0], mods[0], "Void+t0")
    cmp_tab("TABresult.void_neutral", tabs[0] + None, kpts[0], mods[0], "t0+None")
    cmp_tab("TABresult.void_neutral", sum([tabs[0], tabs[1]]), np.vstack(kpts), summ, "sum([t0,t1])")
    try:
        r = tabs[0] + Void()
        cmp_tab("TABresult.void_neutral", r, kpts[0], mods[0], "t0+Void")
    except AttributeError:
        ctx.count("observed_AttributeError_TABresult+Void")     # outside the anchored classes: reported, not judged
    obj, M, TR, label = gen_sym(rng, st["ps"])
    t01 = (tabs[0] + tabs[1]).transform(obj)
    t0, t1 = tabs[0].transform(obj), tabs[1].transform(obj)
    tsum = {q: ("K", np.concatenate([t0.results[q].data, t1.results[q].data], axis=0), mods[0][q][2]) for q in quantities}
    cmp_tab("TABresult.transform_distributes_over_add", t01, np.vstack([t0.kpoints, t1.kpoints]), tsum, "T(t0+t1) vs T(t0)+T(t1)")
    tref = {q: m_add(m_transform(mods[0][q], M, TR), m_transform(mods[1][q], M, TR)) for q in quantities}
    for q in quantities:
        compare(ctx, st, "TABresult.transform!=reference", t01.results[q], tref[q], 81.0, dict(wit, sym=label), f"T(t0+t1)[{q}]")
    ctx.count("cases_TABresult")
    ctx.count("transform_checks")
    ctx.nontrivial(("T", nb, tuple(quantities), mode, tuple(wit["nk"]), label))
    ctx.sample(dict(wit, sym=label))


def case_void(ctx, rng, st):
    Void = st["VoidResult"]
    v, w = Void(), Void()
    obj, M, TR, label = gen_sym(rng, st["ps"])
    c, _ = gen_scalar(rng)
    for nm, r in (("v+w", v + w), ("v*c", v * c), ("c*v", c * v), ("v/c", v / (c if c else 2)), ("v-w", v - w),
                  ("T(v)", v.transform(obj)), ("sum", sum([v, w], Void()))):
        compare(ctx, st, "VoidResult.closed", r, ("V",), 0.0, dict(op=nm), nm)
    ctx.count("cases_VoidResult")


def case(ctx, rng, idx, state):
    r = rng.random()
    if r < 0.40:
        case_energy(ctx, rng, state)
    elif r < 0.65:
        case_kband(ctx, rng, state)
    elif r < 0.90:
        case_dict(ctx, rng, state)
    elif r < 0.98:
        case_tab(ctx, rng, state)
    else:
        case_void(ctx, rng, state)


if __name__ == "__main__":
    harness.main(
        PROP, "exploration", case, setup_fn=setup,
        tiers=dict(quick=dict(cases=1200, shards=8, time=900), thorough=dict(cases=60000, shards=16, time=3000)),
        rule="random EnergyResult (0-3 energy axes of 1-5 points, rank 0-4, real/complex, amplitude 1e-3..1e3, "
             "Void/FermiDirac/Gaussian smoothers), KBandResult / K__Result (1-5 k, 1-4 bands, rank 0-4), ResultDict "
             "(1-4 keys, nested, Void values), TABresult, VoidResult; scalars python int/float/bool, numpy float64/"
             "int64/float32/int32; TR/inversion transforms: every pre-defined Transform, conj, TransformProduct, random "
             "transposes and swaps; symmetries: Rotation(n, axis), Mirror, the 14 named ones, general orthogonal "
             "matrices, TimeReversal, Inversion and products of up to 3.  A case is non-trivial when its data are "
             "random non-zero arrays; distinct by (class, energy axes, rank/shape, dtype, transform pair, scalar "
             "type, symmetry label)",
        assumptions=["oracle = numpy on model arrays kept by the harness; rotation = einsum with the proper part of a "
                     "Rodrigues matrix built by the harness; TR transform applied before the inversion transform",
                     "for band-resolved results `+` is the union over k (stack along k) and ResultDict a-b = a+(-1)*b",
                     "K__Result.__truediv__, TABresult.__mul__ and the comment of a sum are not judged",
                     "EnergyResult*x with x a numpy scalar that is not a python int/float subclass may raise the "
                     "library's explicit TypeError (counted, not judged)",
                     "relative tolerance 1e-12 of the input magnitude; binary round trip must be bit-identical"],
        required_counters=("cases_EnergyResult", "cases_KBandResult", "cases_K__Result", "cases_ResultDict",
                           "cases_TABresult", "void_neutrality_checks", "transform_checks", "transform_with_TR",
                           "transform_with_inversion", "save_load_roundtrips", "save_load_roundtrips_kband",
                           "mul_array_checks", "transposing_transform", "swapping_transform",
                           "energy_axes_0", "energy_axes_1", "energy_axes_2", "energy_axes_3",
                           "rank_0", "rank_1", "rank_2", "rank_3", "rank_4"),
    )
