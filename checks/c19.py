"""C19 - Wannier90 files written by the code can be read back (META).

Objects are built directly from random arrays (no physics needed for a persistence property):
EIG, AMN (with/without the optional projection tags), BKVectors from a *real* b-vector search
(`BKVectors.from_kpoints` on a Gamma-centred mesh in random order), MMN (NNB from that search, random
`bk_reorder`), and every other `SavableNPZ` subclass found by introspection that can be constructed from
arrays (SPN, UXU/UIU/UHU, SXU/SIU/SHU, UNK, SOC, CheckPoint, WIN).

Oracles
  * text: `X.to_w90_file` -> `X.from_w90_file(npar=1)` for EIG, AMN, MMN.  Compared with the class's own
    `equals` AND, independently, element-wise to the printed precision of the documented format
    (EIG/AMN `%17.12f`: |diff| <= 0.5e-12 + 2 ulp;  MMN prints `repr` -> exact), sizes, and `bk_reorder`.
    The mmn file is additionally rewritten by the harness with the b-vector blocks of every k-point permuted
    (as Wannier90/pw2wannier90 may order them): the reader must return the same data and report the permutation.
  * npz: `to_npz` -> `from_npz` for every constructible class, full and sparse-k ("irreducible") objects:
    own `equals` (where the class has one) AND an exact attribute-by-attribute comparison (`vars()`), done by
    the harness.
  * container: WannierData (chk, bkvec, eig, amn, mmn + random extras) `to_npz` -> `from_npz`, `write` ->
    the three text readers; WannierDataSOC (up/down containers + SOC) `to_npz` -> `from_npz`.
"""
import os
import shutil
import sys
import tempfile
import warnings

sys.path.insert(0, os.path.dirname(os.path.dirname(os.path.abspath(__file__))))
from vlib import env, harness, gen_systems  # noqa: E402
import numpy as np  # noqa: E402

PROP = "C19"

MP_GRIDS = [(1, 1, 1), (2, 1, 1), (1, 1, 2), (1, 3, 1), (2, 2, 1), (2, 2, 2), (3, 2, 1), (1, 2, 3), (2, 3, 2),
            (3, 3, 1), (3, 3, 2), (2, 3, 3), (3, 3, 3), (4, 2, 1), (1, 1, 5), (4, 3, 2), (5, 5, 1)]


class SerialPool:
    """stand-in for multiprocessing.Pool: the AMN/MMN readers create a pool even for npar=1; forking from a
    process that holds numba/BLAS state costs seconds on a loaded machine.  Everything the readers do with the
    pool is `map`, `close`, `join`; the parsing functions and the chunking logic still run unchanged."""
    used = 0

    def __init__(self, processes=None, *a, **k):
        SerialPool.used += 1

    def map(self, func, iterable, chunksize=None):
        return [func(x) for x in iterable]

    def close(self):
        pass

    def join(self):
        pass

    def terminate(self):
        pass


def setup(ctx):
    import multiprocessing
    env.import_wb()
    os.makedirs(os.path.join(env.WORK, "c19"), exist_ok=True)
    return dict(real_pool=multiprocessing.Pool, mp=multiprocessing)


# ------------------------------------------------------------------ introspection

def all_savable():
    from wannierberri.w90files.io import SavableNPZ
    import wannierberri.w90files  # noqa: F401  (imports every file class)
    import wannierberri.w90files.bkvectors  # noqa: F401
    out = []

    def rec(c):
        for s in c.__subclasses__():
            if s not in out:
                out.append(s)
                rec(s)
    rec(SavableNPZ)
    return out


RECIPES = ("EIG", "AMN", "MMN", "BKVectors", "CheckPoint", "SPN", "UXU", "UIU", "UHU", "SXU", "SIU", "SHU", "UNK",
           "SOC", "WIN")
NOT_CONSTRUCTIBLE = {"W90_file": "abstract base class (abstract __init__)"}


# ------------------------------------------------------------------ generators

def cplx(rng, shape, scale=1.0):
    return (rng.normal(size=shape) + 1j * rng.normal(size=shape)) * scale


def kmesh(rng, mp):
    k = np.array([(i / mp[0], j / mp[1], l / mp[2]) for i in range(mp[0]) for j in range(mp[1]) for l in range(mp[2])])
    return k[rng.permutation(len(k))]


def as_data(arrs, sel):
    """full list, or dict with the selected k-points only"""
    if sel is None:
        return list(arrs)
    return {int(ik): arrs[ik] for ik in sel}


def build_objects(rng, mp, NB, NW, lattice, sel, scale, names):
    """name -> object; `sel` = None (all k) or a sorted list of k indices (sparse objects)"""
    from wannierberri.w90files import EIG, AMN, MMN, SPN, UIU, UHU, SIU, SHU, UNK, SOC, CheckPoint, WIN
    from wannierberri.w90files.xxu import UXU, SXU
    from wannierberri.w90files.bkvectors import BKVectors
    NK = int(np.prod(mp))
    recip = 2 * np.pi * np.linalg.inv(lattice).T
    kpts = kmesh(rng, mp)
    objs = {}
    try:
        bk = BKVectors.from_kpoints(recip, np.array(mp), kpts, kptirr=None if sel is None else list(sel))
    except RuntimeError as e:
        if "complete set" in str(e):
            raise harness.Skip("b-vector search failed (domain of C22)")
        raise
    NNB = bk.NNB
    objs["BKVectors"] = bk
    kw = {} if sel is None else dict(NK=NK)

    def mk(shape, sc=scale):
        return as_data([cplx(rng, shape, sc) for _ in range(NK)], sel)

    if "EIG" in names:
        objs["EIG"] = EIG(data=as_data([np.sort(rng.normal(size=NB)) * 5 * scale for _ in range(NK)], sel), **kw)
    if "AMN" in names:
        tags = {}
        if rng.random() < 0.5:
            orb = np.array(["s", "pz", "px", "py", "dz2", "sp3-1"])[rng.integers(6, size=NW)]
            tags = dict(positions=rng.uniform(0, 1, (NW, 3)), orbitals=orb, radial_nodes_list=rng.integers(0, 3, NW),
                        basis_list=rng.normal(size=(NW, 3, 3)), spread_list=list(rng.uniform(0.5, 2, NW)),
                        spinor=bool(rng.random() < 0.5))
        objs["AMN"] = AMN(data=mk((NB, NW)), **kw, **tags)
    if "MMN" in names:
        reorder = None
        if rng.random() < 0.5:
            keys = range(NK) if sel is None else sel
            reorder = {int(ik): rng.permutation(NNB) for ik in keys}
        objs["MMN"] = MMN(data=mk((NNB, NB, NB)), bk_reorder=reorder, **kw)
    if "SPN" in names:
        objs["SPN"] = SPN(data=mk((NB, NB, 3)), **kw)
    for nm, cl in (("UXU", UXU), ("UIU", UIU), ("UHU", UHU)):
        if nm in names:
            objs[nm] = cl(data=mk((NNB, NNB, NB, NB)), **kw)
    for nm, cl in (("SXU", SXU), ("SIU", SIU), ("SHU", SHU)):
        if nm in names:
            objs[nm] = cl(data=mk((NNB, NB, NB, 3)), **kw)
    if "UNK" in names:
        grid = tuple(int(x) for x in rng.integers(1, 4, 3))
        objs["UNK"] = UNK(data=mk((NB,) + grid + (int(rng.integers(1, 3)),)), **kw)
    if "SOC" in names:
        nspin = int(rng.integers(1, 3))
        with warnings.catch_warnings():
            warnings.simplefilter("ignore")
            objs["SOC"] = SOC(data=mk((nspin, nspin, 3, NB, NB)), overlap=mk((NB, NB)), **kw)
    if "CheckPoint" in names:
        par = dict(real_lattice=lattice, num_wann=NW, num_bands=NB, kpt_red=kpts, mp_grid=np.array(mp))
        flavour = int(rng.integers(3))
        if flavour > 0:
            par["v_matrix"] = mk((NB, NW), 1.0)
            if sel is None and rng.random() < 0.5:
                par["v_matrix"] = np.array(par["v_matrix"])
        if flavour == 2:
            par.update(wannier_centers_cart=rng.normal(size=(NW, 3)), wannier_spreads=rng.uniform(0.5, 3, NW))
            if rng.random() < 0.5:
                par["selected_bands"] = np.sort(rng.choice(NB + 3, NB, replace=False))
        objs["CheckPoint"] = CheckPoint(**par)
    if "WIN" in names:
        data = dict(num_wann=NW, num_bands=NB, mp_grid=list(mp), kpoints=kpts, unit_cell_cart=lattice,
                    dis_win_max=float(rng.normal()), projections=["Fe:s", "Te:p;sp3"][:int(rng.integers(1, 3))],
                    atoms_frac=rng.uniform(0, 1, (2, 3)), atoms_names=["Fe", "Te"])
        objs["WIN"] = WIN.from_w90_file(seedname=None, data=data)
        objs["WIN"]["seedname"] = "verif"
    return objs, bk, kpts


# ------------------------------------------------------------------ independent comparison

def same(x, y):
    """exact equality of two attribute values (binary format -> no tolerance)"""
    if x is None or y is None:
        return x is None and y is None
    if isinstance(x, dict):
        if not isinstance(y, dict) or set(x.keys()) != set(y.keys()):
            return False
        return all(same(x[k], y[k]) for k in x)
    if isinstance(x, str) or isinstance(y, str):
        return str(np.asarray(x)) == str(np.asarray(y))
    try:
        xa, ya = np.asarray(x), np.asarray(y)
    except Exception:
        return False
    if xa.dtype == object or ya.dtype == object:
        try:
            return len(x) == len(y) and all(same(a, b) for a, b in zip(x, y))
        except TypeError:
            return x == y
    if xa.shape != ya.shape:
        return False
    if xa.dtype.kind in "US" or ya.dtype.kind in "US":
        return bool(np.array_equal(xa.astype(str), ya.astype(str)))
    return bool(np.array_equal(xa, ya))


def compare_objects(ctx, tag, a, b, wit):
    """a = original, b = loaded.  own equals + attribute-by-attribute"""
    name = type(a).__name__
    ctx.ev()
    if type(b) is not type(a):
        ctx.violation(f"{tag}:type", f"{name} loaded as {type(b).__name__}", wit)
        return
    if hasattr(a, "equals"):
        ctx.ev()
        try:
            res = a.equals(b)
        except Exception as e:  # the comparison method itself fails
            ctx.violation(f"{name}.equals:raises", f"{name}.equals raised {type(e).__name__}: {e}", wit)
        else:
            ok, msg = res if isinstance(res, tuple) else (bool(res), "")
            ctx.count("own_equals_called")
            if not ok:
                ctx.violation(f"{tag}:own_equals", f"{name}.equals says: {msg}", wit)
    va, vb = vars(a), vars(b)
    for k, x in va.items():
        ctx.ev()
        if k not in vb:
            try:
                y = getattr(b, k)
            except AttributeError:
                if x is None:
                    continue
                ctx.violation(f"{tag}:attribute", f"{name}.{k} lost", wit)
                continue
        else:
            y = vb[k]
        if not same(x, y):
            ctx.violation(f"{tag}:attribute", f"{name}.{k} differs after the round trip: {str(x)[:150]} -> {str(y)[:150]}", wit)
    for k in ("NK", "NB", "NW", "NNB"):
        if hasattr(a, k):
            ctx.ev()
            if not hasattr(b, k) or getattr(a, k) != getattr(b, k):
                ctx.violation(f"{tag}:attribute", f"{name}.{k}: {getattr(a, k)} -> {getattr(b, k, None)}", wit)


def fixed_close(ctx, mech, da, db, decimals, what, wit):
    """dict-of-arrays compared to half a unit of the last digit of `%.{decimals}f`"""
    ctx.ev()
    if set(da.keys()) != set(db.keys()):
        ctx.violation(mech, f"{what}: k-point keys {sorted(da)} -> {sorted(db)}", wit)
        return
    worst = 0.0
    for ik in da:
        x, y = np.asarray(da[ik]), np.asarray(db[ik])
        if x.shape != y.shape:
            ctx.violation(mech, f"{what}: shape at ik={ik} {x.shape} -> {y.shape}", wit)
            return
        for o, n in ((x.real, y.real), (x.imag, y.imag)) if np.iscomplexobj(x) or np.iscomplexobj(y) else ((x, y),):
            if decimals is None:
                bound = np.zeros_like(o, dtype=float)
            else:
                bound = 0.5 * 10.0 ** (-decimals) * (1 + 1e-9) + 2 * np.spacing(np.abs(o))
            d = np.abs(o - n)
            if np.any(d > bound):
                i = np.unravel_index(np.argmax(d - bound), d.shape)
                ctx.dev(mech, float(d[i] / bound[i]) if bound[i] > 0 else np.inf)
                ctx.violation(mech, f"{what}: ik={ik} element {tuple(int(j) for j in i)} written {o[i]!r} read {n[i]!r} "
                                    f"|diff|={d[i]:.3e} > {bound[i]:.3e}", wit)
                return
            if decimals is not None and d.size:
                worst = max(worst, float((d / bound).max()))
    ctx.dev(mech, worst)


def permute_mmn_file(path_in, path_out, NB, NK, NNB, perms):
    lines = open(path_in).read().split("\n")
    blk = 1 + NB * NB
    out = lines[:2]
    pos = 2
    for ik in range(NK):
        blocks = [lines[pos + j * blk: pos + (j + 1) * blk] for j in range(NNB)]
        for j in perms[ik]:
            out += blocks[j]
        pos += NNB * blk
    out += lines[pos:]
    with open(path_out, "w") as f:
        f.write("\n".join(out))


# ------------------------------------------------------------------ the case

def text_roundtrip(ctx, tmp, objs, bk, wit, rng):
    from wannierberri.w90files import EIG, AMN, MMN
    seed = os.path.join(tmp, "txt")
    eig, amn, mmn = objs["EIG"], objs["AMN"], objs["MMN"]
    NK, NB, NNB = eig.NK, eig.NB, bk.NNB
    # EIG
    eig.to_w90_file(seed)
    e2 = EIG.from_w90_file(seed)
    ctx.count("text_eig")
    if NK * NB == 1:
        ctx.count("eig_single_line")
    ctx.ev()
    ok, msg = eig.equals(e2)
    if not ok:
        ctx.violation("EIG.to_w90_file/from_w90_file:own_equals", msg, wit)
    ctx.ev()
    if (e2.NK, e2.NB) != (NK, NB):
        ctx.violation("EIG.to_w90_file/from_w90_file:sizes", f"(NK,NB) {(NK, NB)} -> {(e2.NK, e2.NB)}", wit)
    fixed_close(ctx, "EIG.to_w90_file/from_w90_file:data", eig.data, e2.data, 12, "eig", wit)
    # AMN
    amn.to_w90_file(seed)
    a2 = AMN.from_w90_file(seed, npar=1)
    ctx.count("text_amn")
    ctx.ev()
    ok, msg = amn.equals(a2)
    if not ok:
        ctx.violation("AMN.to_w90_file/from_w90_file:own_equals", msg, wit)
    ctx.ev()
    if (a2.NK, a2.NB, a2.NW) != (amn.NK, amn.NB, amn.NW):
        ctx.violation("AMN.to_w90_file/from_w90_file:sizes", f"(NK,NB,NW) {(amn.NK, amn.NB, amn.NW)} -> {(a2.NK, a2.NB, a2.NW)}", wit)
    fixed_close(ctx, "AMN.to_w90_file/from_w90_file:data", amn.data, a2.data, 12, "amn", wit)
    # MMN
    try:
        mmn.to_w90_file(seed, bk)
    except TypeError as e:
        ctx.ev()
        ctx.violation("MMN.to_w90_file:signature", f"MMN.to_w90_file(seedname, bkvec) not accepted: {e}", wit)
        return
    m2 = MMN.from_w90_file(seed, bkvec=bk, npar=1)
    ctx.count("text_mmn")
    ctx.ev()
    ok, msg = mmn.equals(m2, check_reorder=False)
    if not ok:
        ctx.violation("MMN.to_w90_file/from_w90_file:own_equals", msg, wit)
    ctx.ev()
    if (m2.NK, m2.NB, m2.NNB) != (mmn.NK, mmn.NB, mmn.NNB):
        ctx.violation("MMN.to_w90_file/from_w90_file:sizes", f"(NK,NB,NNB) {(mmn.NK, mmn.NB, mmn.NNB)} -> {(m2.NK, m2.NB, m2.NNB)}", wit)
    fixed_close(ctx, "MMN.to_w90_file/from_w90_file:data", mmn.data, m2.data, None, "mmn (repr -> exact)", wit)
    ctx.ev()
    for ik in range(NK):
        if not np.array_equal(np.asarray(m2.bk_reorder[ik]), np.arange(NNB)):
            ctx.violation("MMN.to_w90_file/from_w90_file:bk_reorder", f"file written in bkvec order read with reorder {m2.bk_reorder[ik]} at ik={ik}", wit)
            break
    # the same file with the neighbour blocks permuted (harness-side rewrite)
    if rng.random() < 0.5:
        return
    perms = [rng.permutation(NNB) for _ in range(NK)]
    permute_mmn_file(seed + ".mmn", os.path.join(tmp, "perm.mmn"), NB, NK, NNB, perms)
    m3 = MMN.from_w90_file(os.path.join(tmp, "perm"), bkvec=bk, npar=1)
    ctx.count("mmn_permuted_file")
    fixed_close(ctx, "MMN.from_w90_file:permuted_neighbour_blocks", mmn.data, m3.data, None, "mmn read from a file with permuted b blocks", wit)
    ctx.ev()
    for ik in range(NK):
        if not np.array_equal(np.asarray(m3.bk_reorder[ik]), np.argsort(perms[ik])):
            ctx.violation("MMN.from_w90_file:permuted_neighbour_blocks", f"bk_reorder {m3.bk_reorder[ik]} expected {np.argsort(perms[ik])} at ik={ik}", wit)
            break


def npz_roundtrip(ctx, tmp, objs, wit, sparse):
    for name, obj in objs.items():
        path = os.path.join(tmp, f"obj_{name}_{int(sparse)}.npz")
        obj.to_npz(path)
        new = type(obj).from_npz(path)
        compare_objects(ctx, f"{name}.to_npz/from_npz", obj, new, wit)
        ctx.count(f"npz_{name}")
        if sparse:
            ctx.count("npz_sparse")


def make_container(objs, extras, irreducible):
    from wannierberri.w90files import WannierData
    wd = WannierData()
    wd.set_file("chk", objs["CheckPoint"])
    wd.set_file("bkvec", objs["BKVectors"])
    for key, name in (("eig", "EIG"), ("amn", "AMN"), ("mmn", "MMN")) + tuple(extras):
        wd.set_file(key, objs[name])
    wd.irreducible = irreducible
    return wd


def compare_containers(ctx, tag, wd, w2, wit, expect_keys):
    ctx.ev()
    if set(w2._files.keys()) != set(expect_keys):
        ctx.violation(f"{tag}:files", f"files {sorted(expect_keys)} expected, loaded {sorted(w2._files.keys())}", wit)
    for key in expect_keys:
        if key in w2._files:
            compare_objects(ctx, f"{tag}[{key}]", wd.get_file(key), w2.get_file(key), wit)
    for flag in ("irreducible", "wannierised"):
        ctx.ev()
        if bool(getattr(wd, flag)) != bool(getattr(w2, flag)):
            ctx.violation(f"{tag}:flags", f"{flag}: {getattr(wd, flag)} -> {getattr(w2, flag)}", wit)


EXTRA_FILES = (("spn", "SPN"), ("uiu", "UIU"), ("uhu", "UHU"), ("siu", "SIU"), ("shu", "SHU"), ("unk", "UNK"))


def container_roundtrip(ctx, tmp, rng, objs, bk, wit, sparse):
    from wannierberri.w90files import WannierData
    extras = [e for e in EXTRA_FILES if e[1] in objs and rng.random() < 0.5]
    wd = make_container(objs, extras, irreducible=sparse)
    keys = ["chk", "bkvec", "eig", "amn", "mmn"] + [e[0] for e in extras]
    seed = os.path.join(tmp, f"cont{int(sparse)}", "seed")
    with_win = (not sparse) and "WIN" in objs and rng.random() < 0.4
    if with_win:
        wd.set_file("win", objs["WIN"])
        keys.append("win")
    wd.to_npz(seed)
    with warnings.catch_warnings():
        warnings.simplefilter("ignore")
        if with_win or rng.random() < 0.5:
            w2 = WannierData.from_npz(seed, files=list(rng.permutation(keys)), ignore_missing_files=False)
        else:
            w2 = WannierData.from_npz(seed)
    compare_containers(ctx, "WannierData.to_npz/from_npz", wd, w2, wit, keys)
    ctx.count("wandata_npz")
    if sparse:
        ctx.count("wandata_sparse")
        return
    # write: the container must produce, byte for byte, the files of the three writers (which text_roundtrip has read
    # back); only the date line of the .amn header may differ
    seedw = os.path.join(tmp, "cont0", "written")
    wd.write(seedw, files=["eig", "amn", "mmn"])
    ctx.count("wandata_write")
    for ext in ("eig", "amn", "mmn"):
        ctx.ev()
        a = open(os.path.join(tmp, "txt." + ext)).read().split("\n")
        b = open(seedw + "." + ext).read().split("\n") if os.path.exists(seedw + "." + ext) else None
        if ext == "amn" and b is not None:
            a, b = a[1:], b[1:]
        if a != b:
            ctx.violation(f"WannierData.write:{ext}", f"the .{ext} file written by the container differs from the file "
                                                      f"written by {ext.upper()}.to_w90_file", wit)
    # the documented default files=None ("all files are written")
    only = WannierData()
    for key, name in (("bkvec", "BKVectors"), ("eig", "EIG"), ("amn", "AMN"), ("mmn", "MMN")):
        only.set_file(key, objs[name])
    # NOT JUDGED (outside the property statement, which speaks of the objects that offer writing): informational only
    try:
        only.write(os.path.join(tmp, "cont0", "default"))
    except AttributeError:
        ctx.count("info_not_judged:write(files=None)_raises_for_container_with_bkvec")
    else:
        ctx.count("info_not_judged:write(files=None)_ok")


def soc_container_roundtrip(ctx, tmp, rng, objs_up, objs_dw, wit):
    from wannierberri.w90files.wandata_soc import WannierDataSOC
    up = make_container(objs_up, [], False)
    dw = make_container(objs_dw, [], False) if objs_dw is not None else None
    soc = objs_up["SOC"] if rng.random() < 0.8 else None
    wd = WannierDataSOC(data_up=up, data_down=dw, soc=soc)
    seed = os.path.join(tmp, "soc", "seed")
    os.makedirs(os.path.dirname(seed), exist_ok=True)
    wd.to_npz(seed)
    with warnings.catch_warnings():
        warnings.simplefilter("ignore")
        w2 = WannierDataSOC.from_npz(seed, nspin=2 if dw is not None else 1)
    keys = ["chk", "bkvec", "eig", "amn", "mmn"]
    compare_containers(ctx, "WannierDataSOC.to_npz/from_npz[up]", up, w2.data_up, wit, keys)
    ctx.ev()
    if (dw is None) != (w2.data_down is None):
        ctx.violation("WannierDataSOC.to_npz/from_npz:files", "spin-down container lost/invented", wit)
    elif dw is not None:
        compare_containers(ctx, "WannierDataSOC.to_npz/from_npz[down]", dw, w2.data_down, wit, keys)
    ctx.ev()
    if (soc is None) != (not w2.has_file("soc")):
        ctx.violation("WannierDataSOC.to_npz/from_npz:files", f"soc present {soc is not None} -> {w2.has_file('soc')}", wit)
    elif soc is not None:
        compare_objects(ctx, "WannierDataSOC.to_npz/from_npz[soc]", soc, w2.get_file("soc"), wit)
    ctx.count("wandata_soc")


def case(ctx, rng, idx, state):
    # real process pools in one case out of ten, the serial stand-in otherwise
    if idx % 10 == 3:
        state["mp"].Pool = state["real_pool"]
        ctx.count("cases_with_real_multiprocessing_pool")
    else:
        state["mp"].Pool = SerialPool
        ctx.count("cases_with_serial_pool_standin")
    if idx % 8 == 5:
        mp, NB = (1, 1, 1), 1            # one-line .eig file
    else:
        mp = MP_GRIDS[int(rng.integers(len(MP_GRIDS)))]
        NB = int(rng.integers(1, 9))
    NK = int(np.prod(mp))
    NW = int(rng.integers(1, NB + 1))
    if rng.random() < 0.5:
        kind, lattice = gen_systems.bravais_lattice(rng, ["cubic", "tetragonal", "orthorhombic", "hexagonal", "fcc", "bcc",
                                                         "monoclinic"][int(rng.integers(7))])
    else:
        kind, lattice = "random", gen_systems.random_lattice(rng)
    scale = float(rng.choice([1.0, 1.0, 1e-3, 1e3, 1e-11]))
    big = NK * NB * NB > 600
    names = [n for n in RECIPES if not (big and n in ("UXU", "UIU", "UHU") and rng.random() < 0.7)]
    wit = dict(mp_grid=mp, NK=NK, NB=NB, NW=NW, lattice=kind, scale=scale)
    tmp = tempfile.mkdtemp(dir=os.path.join(env.WORK, "c19"))
    try:
        objs, bk, kpts = build_objects(rng, mp, NB, NW, lattice, None, scale, names)
        wit["NNB"] = bk.NNB
        text_roundtrip(ctx, tmp, objs, bk, wit, rng)
        npz_roundtrip(ctx, tmp, objs, wit, sparse=False)
        # (added after a seeded change was missed) two multi-step histories of the same objects:
        # (a) the per-k dictionaries are keyed by the k index - their insertion order must not matter to the writers;
        # (b) save to npz -> load -> write the text file -> read it: the chain must still reproduce the original data
        from wannierberri.w90files import EIG, AMN, MMN
        order = [int(i) for i in rng.permutation(NK)]
        pobjs = dict(objs)
        pobjs["EIG"] = EIG(data={k: objs["EIG"].data[k] for k in order}, NK=NK)
        pobjs["AMN"] = AMN(data={k: objs["AMN"].data[k] for k in order}, NK=NK)
        pobjs["MMN"] = MMN(data={k: objs["MMN"].data[k] for k in order}, NK=NK,
                           bk_reorder={k: objs["MMN"].bk_reorder[k] for k in order})
        text_roundtrip(ctx, tmp, pobjs, bk, dict(wit, variant="per-k dictionaries built in a permuted insertion order"), rng)
        robjs = dict(objs)
        for name in ("EIG", "AMN", "MMN"):
            path = os.path.join(tmp, f"chain_{name}.npz")
            objs[name].to_npz(path)
            robjs[name] = type(objs[name]).from_npz(path)
        text_roundtrip(ctx, tmp, robjs, bk, dict(wit, variant="objects reloaded from npz before writing the text files"), rng)
        for name in ("EIG", "AMN", "MMN"):   # ... and the chain ends where it started
            compare_objects(ctx, f"{name}.to_npz/from_npz", objs[name], robjs[name], wit)
        ctx.count("text_roundtrip_permuted_dict_order")
        ctx.count("text_roundtrip_after_npz_reload")
        container_roundtrip(ctx, tmp, rng, objs, bk, wit, sparse=False)
        if rng.random() < 0.35:
            objs_dw = build_objects(rng, mp, NB, NW, lattice, None, scale, ("EIG", "AMN", "MMN", "CheckPoint"))[0] \
                if rng.random() < 0.6 else None
            soc_container_roundtrip(ctx, tmp, rng, objs, objs_dw, wit)
        if NK > 1:
            nsel = int(rng.integers(1, NK))
            sel = sorted(int(i) for i in rng.choice(NK, nsel, replace=False))
            wit2 = dict(wit, selected_k=sel)
            names_s = [n for n in names if n != "WIN"]
            sobjs, sbk, _ = build_objects(rng, mp, NB, NW, lattice, sel, scale, names_s)
            cp = sobjs["CheckPoint"]
            if not cp.wannierised:      # a sparse container is only recognisable through a sparse v_matrix
                cp.v_matrix = {ik: cplx(rng, (NB, NW)) for ik in sel}
            npz_roundtrip(ctx, tmp, sobjs, wit2, sparse=True)
            container_roundtrip(ctx, tmp, rng, sobjs, sbk, wit2, sparse=True)
    finally:
        shutil.rmtree(tmp, ignore_errors=True)
    ctx.nontrivial((mp, NB, NW, bk.NNB, kind, scale))
    ctx.sample(wit)


if __name__ == "__main__":
    env.import_wb()
    with env.quiet():
        classes = all_savable()
    found = [c.__name__ for c in classes]
    not_constructible = {n: NOT_CONSTRUCTIBLE.get(n, "no recipe in checks/c19.py (class added after the check was written)")
                         for n in found if n not in RECIPES}
    harness.main(
        PROP, "exploration", case, setup_fn=setup,
        tiers=dict(quick=dict(cases=96, shards=8, time=900), thorough=dict(cases=4000, shards=16, time=3000)),
        rule="file objects built from random arrays: Gamma-centred meshes (1,1,1)...(3,3,3) incl. anisotropic ones in random "
             "k order, NB 1-8, NW 1-NB, NNB from the real b-vector search on random/Bravais lattices, data magnitudes "
             "1e-11...1e3, optional tags present/absent, random bk_reorder, full and sparse-k objects; every case holds random "
             "non-zero data, so each is non-trivial; distinct by (mp_grid, NB, NW, NNB, lattice kind, magnitude)",
        assumptions=["EIG/AMN documented format %17.12f -> |diff| <= 0.5e-12 (+2 ulp); MMN prints repr -> exact; npz exact",
                     "readers are called with npar=1; in 9 cases out of 10 multiprocessing.Pool is replaced by a serial stand-in (map/close/join) to avoid forking, the real pool is used in the remaining cases",
                     "the permuted-neighbour mmn file is produced by the harness from the written file",
                     "WannierData.write is called with files=['eig','amn','mmn'] for the deciding comparison; the default "
                     "files=None call is probed separately",
                     "classes without an own equals (CheckPoint, WIN) are compared attribute-by-attribute only"],
        required_counters=("text_eig", "text_amn", "text_mmn", "eig_single_line", "mmn_permuted_file", "npz_sparse",
                           "wandata_npz", "wandata_write", "wandata_sparse", "wandata_soc", "own_equals_called", "cases_with_real_multiprocessing_pool")
        + tuple(f"npz_{n}" for n in RECIPES),
        extra_coverage=dict(savable_classes_found=found, not_constructible=not_constructible),
    )
