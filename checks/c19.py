"""C19 - Wannier90 files written by the code can be read back (META).

Objects are built directly from random arrays (no physics needed for a persistence property):
EIG, AMN (with/without the optional projection tags), BKVectors from a *real* b-vector search
(`BKVectors.from_kpoints` on a Gamma-centred mesh in random order), MMN (NNB from that search, random
`bk_reorder`), and every other `SavableNPZ` subclass found by introspection that can be constructed from
arrays (SPN, UXU/UIU/UHU, SXU/SIU/SHU, UNK, SOC, CheckPoint, WIN).

Oracles
  * text: `X.to_w90_file` -> `X.from_w90_file(npar=1)` for EIG, AMN, MMN.  Compared with the class's own
    `equals` AND, independently, element-wise to the printed precision of the documented format
    (EIG/AMN `%17.12f`: |diff| <= 0.5e-12 + 2 ulp;  MMN prints `repr` -> exact), sizes, and `bk_reorder`.
    The mmn file is additionally rewritten by the harness with the b-vector blocks of every k-point permuted
    (as Wannier90/pw2wannier90 may order them): the reader must return the same data and report the permutation.
  * npz: `to_npz` -> `from_npz` for every constructible class, full and sparse-k ("irreducible") objects:
    own `equals` (where the class has one) AND an exact attribute-by-attribute comparison (`vars()`), done by
    the harness.
  * container: WannierData (chk, bkvec, eig, amn, mmn + random extras) `to_npz` -> `from_npz`, `write` ->
    the three text readers; WannierDataSOC (up/down containers + SOC) `to_npz` -> `from_npz`.

Widening review (classes added after the seeded rounds; every one is counted and required)
  * reader options: `EIG/MMN.from_w90_file(selected_kpoints=...)` (list/tuple/array, unsorted, one element), `npar` 1,2,3,5,
    omitted (MMN) / None (AMN), a `BKVectors` that was reloaded from npz or built for the selected k only, permuted b blocks;
  * constructor forms: per-k data as list / dict / ndarray / list with None entries, `bk_reorder` as list / array / dict;
  * `equals` must discriminate: changes within / beyond the tolerance (default and explicit), other NK, other k set, other bk_reorder;
  * histories: second generation (text -> object -> text -> object, npz -> object -> npz -> object, pathlib paths),
    `as_dict` -> `from_dict` in memory, `select_kpoints` / `select_bands` before saving, inputs unchanged at the end of the case;
  * container: `to_npz(files=subset)`, `from_npz` (upper-case / tuple `files`, missing files with both values of
    `ignore_missing_files`, `irreducible=True`), one container re-used after `set_file(overwrite=True)` / `unset_file`,
    relative seedname, `select_bands` (index list / index array / band_start-band_end) before saving and writing,
    `write` + `WIN.write` -> `WannierData.from_w90_files`;
  * ranges: NK >= 100, NB / NW >= 100, real-valued AMN / MMN data, exact zeros / -0.0 / half-a-digit values / an all-zero k-point,
    AMN with only some of the optional tags, magnitudes up to 1e5.
"""
import copy
import os
import pathlib
import shutil
import sys
import tempfile
import warnings

sys.path.insert(0, os.path.dirname(os.path.dirname(os.path.abspath(__file__))))
from vlib import env, harness, gen_systems  # noqa: E402
import numpy as np  # noqa: E402

PROP = "C19"

MP_GRIDS = [(1, 1, 1), (2, 1, 1), (1, 1, 2), (1, 3, 1), (2, 2, 1), (2, 2, 2), (3, 2, 1), (1, 2, 3), (2, 3, 2),
            (3, 3, 1), (3, 3, 2), (2, 3, 3), (3, 3, 3), (4, 2, 1), (1, 1, 5), (4, 3, 2), (5, 5, 1)]


class SerialPool:
    """stand-in for multiprocessing.Pool: the AMN/MMN readers create a pool even for npar=1; forking from a
    process that holds numba/BLAS state costs seconds on a loaded machine.  Everything the readers do with the
    pool is `map`, `close`, `join`; the parsing functions and the chunking logic still run unchanged."""
    used = 0

    def __init__(self, processes=None, *a, **k):
        # multiprocessing.Pool rejects anything but None or an integer >= 1; an exception raised here would count as a harness
        # error (this file is the deepest frame), so the refusal is reported as what it is
        if processes is not None and not (isinstance(processes, (int, np.integer)) and processes >= 1):
            raise harness.Violation("from_w90_file:argument_of_multiprocessing.Pool",
                                    f"the reader called multiprocessing.Pool({processes!r}), which the real Pool refuses")
        SerialPool.used += 1

    def map(self, func, iterable, chunksize=None):
        return [func(x) for x in iterable]

    def close(self):
        pass

    def join(self):
        pass

    def terminate(self):
        pass


def setup(ctx):
    import multiprocessing
    env.import_wb()
    os.makedirs(os.path.join(env.WORK, "c19"), exist_ok=True)
    return dict(real_pool=multiprocessing.Pool, mp=multiprocessing)


# ------------------------------------------------------------------ introspection

def all_savable():
    from wannierberri.w90files.io import SavableNPZ
    import wannierberri.w90files  # noqa: F401  (imports every file class)
    import wannierberri.w90files.bkvectors  # noqa: F401
    out = []

    def rec(c):
        for s in c.__subclasses__():
            if s not in out:
                out.append(s)
                rec(s)
    rec(SavableNPZ)
    return out


RECIPES = ("EIG", "AMN", "MMN", "BKVectors", "CheckPoint", "SPN", "UXU", "UIU", "UHU", "SXU", "SIU", "SHU", "UNK",
           "SOC", "WIN")
NOT_CONSTRUCTIBLE = {"W90_file": "abstract base class (abstract __init__)"}


# ------------------------------------------------------------------ generators

def cplx(rng, shape, scale=1.0):
    return (rng.normal(size=shape) + 1j * rng.normal(size=shape)) * scale


def kmesh(rng, mp):
    k = np.array([(i / mp[0], j / mp[1], l / mp[2]) for i in range(mp[0]) for j in range(mp[1]) for l in range(mp[2])])
    return k[rng.permutation(len(k))]


def as_data(arrs, sel):
    """full list, or dict with the selected k-points only"""
    if sel is None:
        return list(arrs)
    return {int(ik): arrs[ik] for ik in sel}


SPECIALS = (0.0, -0.0, 0.5e-12, -0.5e-12, 1.5e-12, 1e-13, -1e-13, 1.0, -1.0, 123456.789, -99999.9999999999995)
objs_counts = {}      # generator counters of build_objects, moved into ctx by case()


def build_objects(rng, mp, NB, NW, lattice, sel, scale, names):
    """name -> object; `sel` = None (all k) or a sorted list of k indices (sparse objects)"""
    from wannierberri.w90files import EIG, AMN, MMN, SPN, UIU, UHU, SIU, SHU, UNK, SOC, CheckPoint, WIN
    from wannierberri.w90files.xxu import UXU, SXU
    from wannierberri.w90files.bkvectors import BKVectors
    NK = int(np.prod(mp))
    recip = 2 * np.pi * np.linalg.inv(lattice).T
    kpts = kmesh(rng, mp)
    objs = {}
    try:
        bk = BKVectors.from_kpoints(recip, np.array(mp), kpts, kptirr=None if sel is None else list(sel))
    except RuntimeError as e:
        if "complete set" in str(e):
            raise harness.Skip("b-vector search failed (domain of C22)")
        raise
    NNB = bk.NNB
    objs["BKVectors"] = bk
    kw = {} if sel is None else dict(NK=NK)

    def mk(shape, sc=scale):
        return as_data([cplx(rng, shape, sc) for _ in range(NK)], sel)

    def special(arrs, real):
        """(widening) values a formatted writer / a sparse container may treat specially: exact zeros, -0.0, half a unit of the
        last printed digit, numbers with many integer digits, and one k-point whose block is entirely zero"""
        if rng.random() < 0.3:
            ctx_count("data_with_special_values")
            for a in arrs:
                flat = a.reshape(-1)
                for _ in range(int(rng.integers(1, 4))):
                    v = SPECIALS[int(rng.integers(len(SPECIALS)))]
                    flat[int(rng.integers(flat.size))] = v if real else v + 1j * SPECIALS[int(rng.integers(len(SPECIALS)))]
        if rng.random() < 0.12:
            ctx_count("data_with_all_zero_kpoint")
            arrs[int(rng.integers(len(arrs)))][...] = 0
        return arrs

    def ctx_count(name):
        counts[name] = counts.get(name, 0) + 1

    counts = {}
    if "EIG" in names:
        objs["EIG"] = EIG(data=as_data(special([np.sort(rng.normal(size=NB)) * 5 * scale for _ in range(NK)], True), sel), **kw)
    if "AMN" in names:
        tags = {}
        if rng.random() < 0.5:
            orb = np.array(["s", "pz", "px", "py", "dz2", "sp3-1"])[rng.integers(6, size=NW)]
            tags = dict(positions=rng.uniform(0, 1, (NW, 3)), orbitals=orb, radial_nodes_list=rng.integers(0, 3, NW),
                        basis_list=rng.normal(size=(NW, 3, 3)), spread_list=list(rng.uniform(0.5, 2, NW)),
                        spinor=bool(rng.random() < 0.5))
            if rng.random() < 0.4:      # (widening) only some of the optional tags given
                for t in rng.choice(sorted(tags), int(rng.integers(1, 6)), replace=False):
                    del tags[str(t)]
                ctx_count("amn_some_optional_tags")
        if rng.random() < 0.15:         # (widening) real-valued projections
            arrs = [rng.normal(size=(NB, NW)) * scale for _ in range(NK)]
            ctx_count("amn_real_dtype")
        else:
            arrs = [cplx(rng, (NB, NW), scale) for _ in range(NK)]
        objs["AMN"] = AMN(data=as_data(special(arrs, not np.iscomplexobj(arrs[0])), sel), **kw, **tags)
    if "MMN" in names:
        reorder = None
        if rng.random() < 0.5:
            keys = range(NK) if sel is None else sel
            reorder = {int(ik): rng.permutation(NNB) for ik in keys}
        if rng.random() < 0.15:
            arrs = [rng.normal(size=(NNB, NB, NB)) * scale for _ in range(NK)]
            ctx_count("mmn_real_dtype")
        else:
            arrs = [cplx(rng, (NNB, NB, NB), scale) for _ in range(NK)]
        objs["MMN"] = MMN(data=as_data(special(arrs, not np.iscomplexobj(arrs[0])), sel), bk_reorder=reorder, **kw)
    if "SPN" in names:
        objs["SPN"] = SPN(data=mk((NB, NB, 3)), **kw)
    for nm, cl in (("UXU", UXU), ("UIU", UIU), ("UHU", UHU)):
        if nm in names:
            objs[nm] = cl(data=mk((NNB, NNB, NB, NB)), **kw)
    for nm, cl in (("SXU", SXU), ("SIU", SIU), ("SHU", SHU)):
        if nm in names:
            objs[nm] = cl(data=mk((NNB, NB, NB, 3)), **kw)
    if "UNK" in names:
        grid = tuple(int(x) for x in rng.integers(1, 4, 3))
        objs["UNK"] = UNK(data=mk((NB,) + grid + (int(rng.integers(1, 3)),)), **kw)
    if "SOC" in names:
        nspin = int(rng.integers(1, 3))
        with warnings.catch_warnings():
            warnings.simplefilter("ignore")
            objs["SOC"] = SOC(data=mk((nspin, nspin, 3, NB, NB)), overlap=mk((NB, NB)), **kw)
    if "CheckPoint" in names:
        par = dict(real_lattice=lattice, num_wann=NW, num_bands=NB, kpt_red=kpts, mp_grid=np.array(mp))
        flavour = int(rng.integers(3))
        if flavour > 0:
            par["v_matrix"] = mk((NB, NW), 1.0)
            if sel is None and rng.random() < 0.5:
                par["v_matrix"] = np.array(par["v_matrix"])
        if flavour == 2:
            par.update(wannier_centers_cart=rng.normal(size=(NW, 3)), wannier_spreads=rng.uniform(0.5, 3, NW))
            if rng.random() < 0.5:
                par["selected_bands"] = np.sort(rng.choice(NB + 3, NB, replace=False))
        objs["CheckPoint"] = CheckPoint(**par)
    if "WIN" in names:
        data = dict(num_wann=NW, num_bands=NB, mp_grid=list(mp), kpoints=kpts, unit_cell_cart=lattice,
                    dis_win_max=float(rng.normal()), projections=["Fe:s", "Te:p;sp3"][:int(rng.integers(1, 3))],
                    atoms_frac=rng.uniform(0, 1, (2, 3)), atoms_names=["Fe", "Te"])
        objs["WIN"] = WIN.from_w90_file(seedname=None, data=data)
        objs["WIN"]["seedname"] = "verif"
    objs_counts.update({k: objs_counts.get(k, 0) + v for k, v in counts.items()})
    return objs, bk, kpts


# ------------------------------------------------------------------ independent comparison

def same(x, y):
    """exact equality of two attribute values (binary format -> no tolerance)"""
    if x is None or y is None:
        return x is None and y is None
    if isinstance(x, dict):
        if not isinstance(y, dict) or set(x.keys()) != set(y.keys()):
            return False
        return all(same(x[k], y[k]) for k in x)
    if isinstance(x, str) or isinstance(y, str):
        return str(np.asarray(x)) == str(np.asarray(y))
    try:
        xa, ya = np.asarray(x), np.asarray(y)
    except Exception:
        return False
    if xa.dtype == object or ya.dtype == object:
        try:
            return len(x) == len(y) and all(same(a, b) for a, b in zip(x, y))
        except TypeError:
            return x == y
    if xa.shape != ya.shape:
        return False
    if xa.dtype.kind in "US" or ya.dtype.kind in "US":
        return bool(np.array_equal(xa.astype(str), ya.astype(str)))
    return bool(np.array_equal(xa, ya))


def compare_objects(ctx, tag, a, b, wit):
    """a = original, b = loaded.  own equals + attribute-by-attribute"""
    name = type(a).__name__
    ctx.ev()
    if type(b) is not type(a):
        ctx.violation(f"{tag}:type", f"{name} loaded as {type(b).__name__}", wit)
        return
    if hasattr(a, "equals"):
        ctx.ev()
        try:
            res = a.equals(b)
        except Exception as e:  # the comparison method itself fails
            ctx.violation(f"{name}.equals:raises", f"{name}.equals raised {type(e).__name__}: {e}", wit)
        else:
            ok, msg = res if isinstance(res, tuple) else (bool(res), "")
            ctx.count("own_equals_called")
            if not ok:
                ctx.violation(f"{tag}:own_equals", f"{name}.equals says: {msg}", wit)
    va, vb = vars(a), vars(b)
    for k, x in va.items():
        ctx.ev()
        if k not in vb:
            try:
                y = getattr(b, k)
            except AttributeError:
                if x is None:
                    continue
                ctx.violation(f"{tag}:attribute", f"{name}.{k} lost", wit)
                continue
        else:
            y = vb[k]
        if not same(x, y):
            ctx.violation(f"{tag}:attribute", f"{name}.{k} differs after the round trip: {str(x)[:150]} -> {str(y)[:150]}", wit)
    for k in ("NK", "NB", "NW", "NNB"):
        if hasattr(a, k):
            ctx.ev()
            if not hasattr(b, k) or getattr(a, k) != getattr(b, k):
                ctx.violation(f"{tag}:attribute", f"{name}.{k}: {getattr(a, k)} -> {getattr(b, k, None)}", wit)


def fixed_close(ctx, mech, da, db, decimals, what, wit):
    """dict-of-arrays compared to half a unit of the last digit of `%.{decimals}f`"""
    ctx.ev()
    if set(da.keys()) != set(db.keys()):
        ctx.violation(mech, f"{what}: k-point keys {sorted(da)} -> {sorted(db)}", wit)
        return
    worst = 0.0
    for ik in da:
        x, y = np.asarray(da[ik]), np.asarray(db[ik])
        if x.shape != y.shape:
            ctx.violation(mech, f"{what}: shape at ik={ik} {x.shape} -> {y.shape}", wit)
            return
        for o, n in ((x.real, y.real), (x.imag, y.imag)) if np.iscomplexobj(x) or np.iscomplexobj(y) else ((x, y),):
            if decimals is None:
                bound = np.zeros_like(o, dtype=float)
            else:
                bound = 0.5 * 10.0 ** (-decimals) * (1 + 1e-9) + 2 * np.spacing(np.abs(o))
            d = np.abs(o - n)
            if np.any(d > bound):
                i = np.unravel_index(np.argmax(d - bound), d.shape)
                ctx.dev(mech, float(d[i] / bound[i]) if bound[i] > 0 else np.inf)
                ctx.violation(mech, f"{what}: ik={ik} element {tuple(int(j) for j in i)} written {o[i]!r} read {n[i]!r} "
                                    f"|diff|={d[i]:.3e} > {bound[i]:.3e}", wit)
                return
            if decimals is not None and d.size:
                worst = max(worst, float((d / bound).max()))
    ctx.dev(mech, worst)


def permute_mmn_file(path_in, path_out, NB, NK, NNB, perms):
    lines = open(path_in).read().split("\n")
    blk = 1 + NB * NB
    out = lines[:2]
    pos = 2
    for ik in range(NK):
        blocks = [lines[pos + j * blk: pos + (j + 1) * blk] for j in range(NNB)]
        for j in perms[ik]:
            out += blocks[j]
        pos += NNB * blk
    out += lines[pos:]
    with open(path_out, "w") as f:
        f.write("\n".join(out))


# ------------------------------------------------------------------ the case

def same_text(path_a, path_b, skip_first_line=False):
    """token by token; numbers are compared by value (the readers lose the sign of a zero: -0.0 + 0.0j*... -> 0.0)"""
    a, b = open(path_a).read().split("\n"), open(path_b).read().split("\n")
    if skip_first_line:     # the date line of the .amn header
        a, b = a[1:], b[1:]
    if a == b:
        return True
    if len(a) != len(b):
        return False
    for la, lb in zip(a, b):
        if la == lb:
            continue
        ta, tb = la.split(), lb.split()
        if len(ta) != len(tb):
            return False
        for x, y in zip(ta, tb):
            if x != y:
                try:
                    if float(x) != float(y):
                        return False
                except ValueError:
                    return False
    return True


def max_abs(data):
    return max((float(np.max(np.abs(v))) for v in data.values() if np.size(v)), default=0.0)


def text_roundtrip(ctx, tmp, objs, bk, wit, rng, stem="txt"):
    from wannierberri.w90files import EIG, AMN, MMN
    seed = os.path.join(tmp, stem)
    seed2 = seed + "_gen2"
    second = rng.random() < 0.5     # (widening) second generation: the object that was read is written and read again
    eig, amn, mmn = objs["EIG"], objs["AMN"], objs["MMN"]
    NK, NB, NNB = eig.NK, eig.NB, bk.NNB
    # EIG
    eig.to_w90_file(seed)
    e2 = EIG.from_w90_file(seed)
    ctx.count("text_eig")
    if NK * NB == 1:
        ctx.count("eig_single_line")
    ctx.ev()
    ok, msg = eig.equals(e2)
    if not ok:
        ctx.violation("EIG.to_w90_file/from_w90_file:own_equals", msg, wit)
    ctx.ev()
    if (e2.NK, e2.NB) != (NK, NB):
        ctx.violation("EIG.to_w90_file/from_w90_file:sizes", f"(NK,NB) {(NK, NB)} -> {(e2.NK, e2.NB)}", wit)
    fixed_close(ctx, "EIG.to_w90_file/from_w90_file:data", eig.data, e2.data, 12, "eig", wit)
    if second:
        e2.to_w90_file(seed2)
        e3 = EIG.from_w90_file(seed2)
        ctx.count("text_second_generation")
        fixed_close(ctx, "EIG.to_w90_file/from_w90_file:second_generation", e2.data, e3.data, 12, "eig written from the object that was read", wit)
        # <= 15 significant digits: the decimal string is a fixed point of read -> write
        if max_abs(eig.data) < 1000:
            ctx.ev()
            ctx.count("text_second_generation_bytes")
            if not same_text(seed + ".eig", seed2 + ".eig"):
                ctx.violation("EIG.to_w90_file/from_w90_file:second_generation", "the .eig file written from the object read from a .eig "
                              "file differs from that file", wit)
    # AMN
    amn.to_w90_file(seed)
    a2 = AMN.from_w90_file(seed, npar=1)
    ctx.count("text_amn")
    ctx.ev()
    ok, msg = amn.equals(a2)
    if not ok:
        ctx.violation("AMN.to_w90_file/from_w90_file:own_equals", msg, wit)
    ctx.ev()
    if (a2.NK, a2.NB, a2.NW) != (amn.NK, amn.NB, amn.NW):
        ctx.violation("AMN.to_w90_file/from_w90_file:sizes", f"(NK,NB,NW) {(amn.NK, amn.NB, amn.NW)} -> {(a2.NK, a2.NB, a2.NW)}", wit)
    fixed_close(ctx, "AMN.to_w90_file/from_w90_file:data", amn.data, a2.data, 12, "amn", wit)
    if second:
        a2.to_w90_file(seed2)
        a3 = AMN.from_w90_file(seed2, npar=1)
        fixed_close(ctx, "AMN.to_w90_file/from_w90_file:second_generation", a2.data, a3.data, 12, "amn written from the object that was read", wit)
        if max_abs(amn.data) < 1000:
            ctx.ev()
            if not same_text(seed + ".amn", seed2 + ".amn", skip_first_line=True):
                ctx.violation("AMN.to_w90_file/from_w90_file:second_generation", "the .amn file written from the object read from a .amn "
                              "file differs from that file", wit)
    # MMN
    try:
        mmn.to_w90_file(seed, bk)
    except TypeError as e:
        ctx.ev()
        ctx.violation("MMN.to_w90_file:signature", f"MMN.to_w90_file(seedname, bkvec) not accepted: {e}", wit)
        return
    m2 = MMN.from_w90_file(seed, bkvec=bk, npar=1)
    ctx.count("text_mmn")
    ctx.ev()
    ok, msg = mmn.equals(m2, check_reorder=False)
    if not ok:
        ctx.violation("MMN.to_w90_file/from_w90_file:own_equals", msg, wit)
    ctx.ev()
    if (m2.NK, m2.NB, m2.NNB) != (mmn.NK, mmn.NB, mmn.NNB):
        ctx.violation("MMN.to_w90_file/from_w90_file:sizes", f"(NK,NB,NNB) {(mmn.NK, mmn.NB, mmn.NNB)} -> {(m2.NK, m2.NB, m2.NNB)}", wit)
    fixed_close(ctx, "MMN.to_w90_file/from_w90_file:data", mmn.data, m2.data, None, "mmn (repr -> exact)", wit)
    ctx.ev()
    for ik in range(NK):
        if not np.array_equal(np.asarray(m2.bk_reorder[ik]), np.arange(NNB)):
            ctx.violation("MMN.to_w90_file/from_w90_file:bk_reorder", f"file written in bkvec order read with reorder {m2.bk_reorder[ik]} at ik={ik}", wit)
            break
    if second:      # repr round trip is exact: the second file is the first one
        m2.to_w90_file(seed2, bk)
        ctx.ev()
        if not same_text(seed + ".mmn", seed2 + ".mmn"):
            ctx.violation("MMN.to_w90_file/from_w90_file:second_generation", "the .mmn file written from the object read from a .mmn "
                          "file differs from that file", wit)
    # the same file with the neighbour blocks permuted (harness-side rewrite)
    if rng.random() < 0.5:
        return
    perms = [rng.permutation(NNB) for _ in range(NK)]
    permute_mmn_file(seed + ".mmn", os.path.join(tmp, "perm.mmn"), mmn.NB, NK, NNB, perms)
    m3 = MMN.from_w90_file(os.path.join(tmp, "perm"), bkvec=bk, npar=1)
    ctx.count("mmn_permuted_file")
    fixed_close(ctx, "MMN.from_w90_file:permuted_neighbour_blocks", mmn.data, m3.data, None, "mmn read from a file with permuted b blocks", wit)
    ctx.ev()
    for ik in range(NK):
        if not np.array_equal(np.asarray(m3.bk_reorder[ik]), np.argsort(perms[ik])):
            ctx.violation("MMN.from_w90_file:permuted_neighbour_blocks", f"bk_reorder {m3.bk_reorder[ik]} expected {np.argsort(perms[ik])} at ik={ik}", wit)
            break
    if second:      # the reader undoes the permutation: writing its result gives the file in bkvec order again
        m3.to_w90_file(seed2 + "p", bk)
        ctx.ev()
        ctx.count("mmn_permuted_file_written_again")
        if not same_text(seed + ".mmn", seed2 + "p.mmn"):
            ctx.violation("MMN.from_w90_file:permuted_neighbour_blocks", "the object read from the file with permuted b blocks, written "
                          "again, does not give the file in bkvec order", wit)


def npz_roundtrip(ctx, tmp, objs, wit, sparse, rng=None):
    for name, obj in objs.items():
        path = os.path.join(tmp, f"obj_{name}_{int(sparse)}.npz")
        obj.to_npz(path)
        new = type(obj).from_npz(path)
        compare_objects(ctx, f"{name}.to_npz/from_npz", obj, new, wit)
        ctx.count(f"npz_{name}")
        if sparse:
            ctx.count("npz_sparse")
        if rng is not None and rng.random() < 0.5:
            # (widening) second generation: the loaded object is saved again (half of the time to a pathlib.Path) and loaded
            path2 = os.path.join(tmp, f"obj2_{name}_{int(sparse)}.npz")
            if rng.random() < 0.5:
                path2 = pathlib.Path(path2)
                ctx.count("npz_pathlib")
            new.to_npz(path2)
            new2 = type(obj).from_npz(path2)
            compare_objects(ctx, f"{name}.to_npz/from_npz:second_generation", obj, new2, wit)
            ctx.count("npz_twice")


def make_container(objs, extras, irreducible):
    from wannierberri.w90files import WannierData
    wd = WannierData()
    wd.set_file("chk", objs["CheckPoint"])
    wd.set_file("bkvec", objs["BKVectors"])
    for key, name in (("eig", "EIG"), ("amn", "AMN"), ("mmn", "MMN")) + tuple(extras):
        wd.set_file(key, objs[name])
    wd.irreducible = irreducible
    return wd


def compare_containers(ctx, tag, wd, w2, wit, expect_keys):
    ctx.ev()
    if set(w2._files.keys()) != set(expect_keys):
        ctx.violation(f"{tag}:files", f"files {sorted(expect_keys)} expected, loaded {sorted(w2._files.keys())}", wit)
    for key in expect_keys:
        if key in w2._files:
            compare_objects(ctx, f"{tag}[{key}]", wd.get_file(key), w2.get_file(key), wit)
    for flag in ("irreducible", "wannierised"):
        ctx.ev()
        if bool(getattr(wd, flag)) != bool(getattr(w2, flag)):
            ctx.violation(f"{tag}:flags", f"{flag}: {getattr(wd, flag)} -> {getattr(w2, flag)}", wit)


EXTRA_FILES = (("spn", "SPN"), ("uiu", "UIU"), ("uhu", "UHU"), ("siu", "SIU"), ("shu", "SHU"), ("unk", "UNK"))


def container_roundtrip(ctx, tmp, rng, objs, bk, wit, sparse):
    from wannierberri.w90files import WannierData
    extras = [e for e in EXTRA_FILES if e[1] in objs and rng.random() < 0.5]
    wd = make_container(objs, extras, irreducible=sparse)
    keys = ["chk", "bkvec", "eig", "amn", "mmn"] + [e[0] for e in extras]
    seed = os.path.join(tmp, f"cont{int(sparse)}", "seed")
    with_win = (not sparse) and "WIN" in objs and rng.random() < 0.4
    if with_win:
        wd.set_file("win", objs["WIN"])
        keys.append("win")
    wd.to_npz(seed)
    with warnings.catch_warnings():
        warnings.simplefilter("ignore")
        if with_win or rng.random() < 0.5:
            w2 = WannierData.from_npz(seed, files=list(rng.permutation(keys)), ignore_missing_files=False)
        else:
            w2 = WannierData.from_npz(seed)
    compare_containers(ctx, "WannierData.to_npz/from_npz", wd, w2, wit, keys)
    ctx.count("wandata_npz")
    if sparse:
        ctx.count("wandata_sparse")
        return
    # write: the container must produce, byte for byte, the files of the three writers (which text_roundtrip has read
    # back); only the date line of the .amn header may differ
    seedw = os.path.join(tmp, "cont0", "written")
    wd.write(seedw, files=["eig", "amn", "mmn"])
    ctx.count("wandata_write")
    for ext in ("eig", "amn", "mmn"):
        ctx.ev()
        a = open(os.path.join(tmp, "txt." + ext)).read().split("\n")
        b = open(seedw + "." + ext).read().split("\n") if os.path.exists(seedw + "." + ext) else None
        if ext == "amn" and b is not None:
            a, b = a[1:], b[1:]
        if a != b:
            ctx.violation(f"WannierData.write:{ext}", f"the .{ext} file written by the container differs from the file "
                                                      f"written by {ext.upper()}.to_w90_file", wit)
    # the documented default files=None ("all files are written")
    only = WannierData()
    for key, name in (("bkvec", "BKVectors"), ("eig", "EIG"), ("amn", "AMN"), ("mmn", "MMN")):
        only.set_file(key, objs[name])
    # NOT JUDGED (outside the property statement, which speaks of the objects that offer writing): informational only
    try:
        only.write(os.path.join(tmp, "cont0", "default"))
    except AttributeError:
        ctx.count("info_not_judged:write(files=None)_raises_for_container_with_bkvec")
    else:
        ctx.count("info_not_judged:write(files=None)_ok")


def soc_container_roundtrip(ctx, tmp, rng, objs_up, objs_dw, wit):
    from wannierberri.w90files.wandata_soc import WannierDataSOC
    up = make_container(objs_up, [], False)
    dw = make_container(objs_dw, [], False) if objs_dw is not None else None
    soc = objs_up["SOC"] if rng.random() < 0.8 else None
    wd = WannierDataSOC(data_up=up, data_down=dw, soc=soc)
    seed = os.path.join(tmp, "soc", "seed")
    os.makedirs(os.path.dirname(seed), exist_ok=True)
    wd.to_npz(seed)
    with warnings.catch_warnings():
        warnings.simplefilter("ignore")
        w2 = WannierDataSOC.from_npz(seed, nspin=2 if dw is not None else 1)
    keys = ["chk", "bkvec", "eig", "amn", "mmn"]
    compare_containers(ctx, "WannierDataSOC.to_npz/from_npz[up]", up, w2.data_up, wit, keys)
    ctx.ev()
    if (dw is None) != (w2.data_down is None):
        ctx.violation("WannierDataSOC.to_npz/from_npz:files", "spin-down container lost/invented", wit)
    elif dw is not None:
        compare_containers(ctx, "WannierDataSOC.to_npz/from_npz[down]", dw, w2.data_down, wit, keys)
    ctx.ev()
    if (soc is None) != (not w2.has_file("soc")):
        ctx.violation("WannierDataSOC.to_npz/from_npz:files", f"soc present {soc is not None} -> {w2.has_file('soc')}", wit)
    elif soc is not None:
        compare_objects(ctx, "WannierDataSOC.to_npz/from_npz[soc]", soc, w2.get_file("soc"), wit)
    ctx.count("wandata_soc")


# ------------------------------------------------------------------ widening review: reader options

def sub(d, keys):
    return {int(k): d[int(k)] for k in keys}


def intkeys(d):
    return {int(k): v for k, v in d.items()}


def draw_selection(rng, NK):
    """a documented `selected_kpoints` argument: (indices, the form in which they are passed)"""
    kind = int(rng.integers(5))
    if kind == 0 or NK == 1:
        sel = [int(rng.integers(NK))]                                        # one element
    elif kind == 1:
        sel = [int(i) for i in rng.permutation(NK)]                          # all, unsorted
    elif kind == 2:
        sel = [NK - 1] + ([0] if NK > 1 and rng.random() < 0.5 else [])      # last (and first), descending
    else:
        sel = [int(i) for i in rng.choice(NK, int(rng.integers(1, NK)), replace=False)]   # unsorted proper subset
    form = int(rng.integers(4))
    arg = [list(sel), tuple(sel), np.array(sel), [np.int64(i) for i in sel]][form]
    return sel, arg, ("list", "tuple", "ndarray", "list of np.int64")[form]


def reader_options(ctx, tmp, objs, bk, kpts, lattice, mp, wit, rng, real_pool):
    """the files `txt.eig/.amn/.mmn` (written from `objs` by the first text round trip) read with the documented reader options"""
    from wannierberri.w90files import EIG, AMN, MMN
    from wannierberri.w90files.bkvectors import BKVectors
    seed = os.path.join(tmp, "txt")
    eig, amn, mmn = objs["EIG"], objs["AMN"], objs["MMN"]
    NK, NB, NNB = eig.NK, eig.NB, bk.NNB
    # ---- EIG: selected_kpoints
    sel, arg, form = draw_selection(rng, NK)
    w = dict(wit, selected_kpoints=sel, form=form)
    e = EIG.from_w90_file(seed, selected_kpoints=arg)
    ctx.count("eig_selected_kpoints")
    ctx.ev()
    if (e.NK, e.NB) != (NK, NB):
        ctx.violation("EIG.from_w90_file:selected_kpoints", f"(NK,NB) {(NK, NB)} -> {(e.NK, e.NB)}", w)
    fixed_close(ctx, "EIG.from_w90_file:selected_kpoints", sub(eig.data, sel), intkeys(e.data), 12, "eig read with selected_kpoints", w)
    # ---- AMN: npar
    npar = [2, 1][int(rng.integers(2))] if real_pool else [None, 2, 3, 7][int(rng.integers(4))]
    a = AMN.from_w90_file(seed, npar=npar)
    ctx.count("amn_npar_varied")
    ctx.ev()
    if (a.NK, a.NB, a.NW) != (amn.NK, amn.NB, amn.NW):
        ctx.violation("AMN.from_w90_file:npar", f"(NK,NB,NW) {(amn.NK, amn.NB, amn.NW)} -> {(a.NK, a.NB, a.NW)} with npar={npar}", wit)
    fixed_close(ctx, "AMN.from_w90_file:npar", amn.data, a.data, 12, f"amn read with npar={npar}", dict(wit, npar=npar))
    # ---- MMN: npar, selected_kpoints, history of the BKVectors object, permuted b blocks
    for rep in range(2):
        kw = {}
        if real_pool:
            npar = int(rng.integers(1, 3))
            kw["npar"] = npar
        else:
            npar = [None, 1, 2, 3, 5][int(rng.integers(5))]
            if npar is not None:
                kw["npar"] = npar       # None: the argument is omitted (documented default: all cores)
        chunk = 4 * (npar if npar is not None else state_cpu_count())
        ctx.count("mmn_chunk_exact" if (NK * NNB) % chunk == 0 else "mmn_chunk_partial")
        if npar != 1:
            ctx.count("mmn_npar_varied")
        if rep == 0:
            sel, arg, form = list(range(NK)), None, "None"
        else:
            sel, arg, form = draw_selection(rng, NK)
            kw["selected_kpoints"] = arg
            ctx.count("mmn_selected_kpoints")
        hist = int(rng.integers(3))
        if hist == 0:
            bkx, hname = bk, "the BKVectors object used for writing"
        elif hist == 1:
            path = os.path.join(tmp, "bk_for_reader.npz")
            bk.to_npz(path)
            bkx, hname = BKVectors.from_npz(path), "BKVectors reloaded from npz"
            ctx.count("mmn_reader_bkvec_reloaded")
        else:
            recip = 2 * np.pi * np.linalg.inv(lattice).T
            bkx = BKVectors.from_kpoints(recip, np.array(mp), kpts, kptirr=sorted(sel))
            hname = "BKVectors built for the selected k-points only (kptirr)"
            ctx.count("mmn_reader_sparse_bkvec")
        permuted = rng.random() < 0.5
        if permuted:
            perms = [rng.permutation(NNB) for _ in range(NK)]
            permute_mmn_file(seed + ".mmn", os.path.join(tmp, "perm2.mmn"), NB, NK, NNB, perms)
            fname = os.path.join(tmp, "perm2")
        else:
            perms = [np.arange(NNB) for _ in range(NK)]
            fname = seed
        w = dict(wit, npar="omitted" if npar is None else npar, selected_kpoints=sel, form=form, bkvec=hname, permuted_blocks=permuted)
        m = MMN.from_w90_file(fname, bkvec=bkx, **kw)
        mech = "MMN.from_w90_file:options"
        ctx.ev()
        if (m.NK, m.NB, m.NNB) != (NK, NB, NNB):
            ctx.violation(mech, f"(NK,NB,NNB) {(NK, NB, NNB)} -> {(m.NK, m.NB, m.NNB)}", w)
        fixed_close(ctx, mech, sub(mmn.data, sel), intkeys(m.data), None, "mmn read with reader options", w)
        ctx.ev()
        ro = intkeys(m.bk_reorder)
        if set(ro) != set(sel):
            ctx.violation(mech, f"bk_reorder has the k-points {sorted(ro)}, selected {sorted(sel)}", w)
        else:
            for ik in sel:
                if not np.array_equal(np.asarray(ro[ik]), np.argsort(perms[ik])):
                    ctx.violation(mech, f"bk_reorder {ro[ik]} expected {np.argsort(perms[ik])} at ik={ik}", w)
                    break
        if hist == 1:       # ... and the writer given the reloaded BKVectors writes the same file
            mmn.to_w90_file(os.path.join(tmp, "bkhist"), bkx)
            ctx.ev()
            if not same_text(seed + ".mmn", os.path.join(tmp, "bkhist.mmn")):
                ctx.violation("MMN.to_w90_file:bkvec_history", "the .mmn file written with a BKVectors object reloaded from npz differs", w)


def state_cpu_count():
    import multiprocessing
    return multiprocessing.cpu_count()


# ------------------------------------------------------------------ widening review: constructor argument forms

def ctor_forms(ctx, tmp, objs, bk, wit, rng):
    """the documented forms of the per-k data (`dict | list`, arrays as returned by the readers, lists with None) give one object"""
    from wannierberri.w90files import EIG, AMN, MMN
    eig, amn, mmn = objs["EIG"], objs["AMN"], objs["MMN"]
    NK = eig.NK
    tags = {t: getattr(amn, t) for t in AMN.npz_tags_optional if getattr(amn, t, None) is not None}
    miss = [bool(rng.random() < 0.3) for _ in range(NK)]
    if all(miss):
        miss[int(rng.integers(NK))] = False
    for name, cl, obj, extra in (("EIG", EIG, eig, {}), ("AMN", AMN, amn, tags), ("MMN", MMN, mmn, None)):
        arrs = [obj.data[k] for k in range(NK)]
        reo = [mmn.bk_reorder[k] for k in range(NK)]
        form = int(rng.integers(3))
        w = dict(wit, form=("ndarray", "dict", "list with None entries")[form])
        if form == 0:
            kw = dict(data=np.array(arrs))
            if name == "MMN":
                kw["bk_reorder"] = [reo, np.array(reo), {k: reo[k] for k in range(NK)}][int(rng.integers(3))]
            ref = obj
        elif form == 1:
            kw = dict(data={k: arrs[k] for k in reversed(range(NK))}, NK=NK)
            if name == "MMN":
                kw["bk_reorder"] = [reo, {k: reo[k] for k in range(NK)}][int(rng.integers(2))]
            ref = obj
        else:
            kw = dict(data=[None if miss[k] else arrs[k] for k in range(NK)])
            kr = dict(data={k: arrs[k] for k in range(NK) if not miss[k]}, NK=NK)
            if name == "MMN":
                kw["bk_reorder"] = [None if miss[k] else reo[k] for k in range(NK)]
                kr["bk_reorder"] = {k: reo[k] for k in range(NK) if not miss[k]}
            ref = cl(**kr, **(extra or {}))
        new = cl(**kw, **(extra or {}))
        compare_objects(ctx, f"{name}.__init__:data_forms", ref, new, w)
        ctx.count("ctor_forms")
        if form == 2:
            path = os.path.join(tmp, f"form_{name}.npz")
            new.to_npz(path)
            compare_objects(ctx, f"{name}.to_npz/from_npz", new, cl.from_npz(path), w)
        else:   # the text file does not depend on the form either
            stem = os.path.join(tmp, "form")
            if name == "MMN":
                new.to_w90_file(stem, bk)
            else:
                new.to_w90_file(stem)
            ctx.ev()
            if not same_text(os.path.join(tmp, "txt." + cl.extension), stem + "." + cl.extension, skip_first_line=(name == "AMN")):
                ctx.violation(f"{name}.__init__:data_forms", f"the .{cl.extension} file of an object built from another form of the same data differs", w)


# ------------------------------------------------------------------ widening review: `equals` must discriminate

def call_equals(ctx, name, a, b, wit, **kw):
    ctx.ev()
    try:
        res = a.equals(b, **kw)
    except Exception as e:
        ctx.violation(f"{name}.equals:raises", f"{name}.equals raised {type(e).__name__}: {e}", wit)
        return None
    return bool(res[0] if isinstance(res, tuple) else res)


def equals_controls(ctx, objs, wit, rng):
    """the class's own `equals` is one of the two oracles of the round trips: it has to say False for objects that differ
    (beyond the tolerance, in any k-point) and True within the tolerance, for the default and for an explicit tolerance"""
    others = [n for n in objs if n not in ("EIG", "AMN", "MMN", "BKVectors", "CheckPoint", "WIN") and hasattr(objs[n], "equals")]
    names = ["EIG", "AMN", "MMN"] + ([others[int(rng.integers(len(others)))]] if others else [])
    for name in names:
        a = objs[name]
        tol = [None, 1e-3, 1e-10][int(rng.integers(3))]
        kw = {} if tol is None else dict(tolerance=tol)
        t = 1e-8 if tol is None else tol
        keys = sorted(a.data)
        ik = keys[int(rng.integers(len(keys)))]
        pos = tuple(int(rng.integers(n)) for n in a.data[ik].shape)
        x = a.data[ik][pos]
        w = dict(wit, cls=name, tolerance=tol, ik=ik, element=pos)
        mech = f"{name}.equals:control"
        ctx.count("equals_controls")
        b = copy.deepcopy(a)
        if call_equals(ctx, name, a, b, w, **kw) is False:
            ctx.violation(mech, "an object is not equal to its deep copy", w)
        b.data[ik][pos] = x + 0.3 * t
        for p, q in ((a, b), (b, a)):
            if call_equals(ctx, name, p, q, w, **kw) is False:
                ctx.violation(mech, f"one element changed by 0.3*tolerance ({0.3 * t:.1e}): equals says False", w)
        delta = 10 * t + 1e-3 * abs(x)
        b.data[ik][pos] = x + delta
        for p, q in ((a, b), (b, a)):
            if call_equals(ctx, name, p, q, w, **kw) is True:
                ctx.violation(mech, f"one element (k-point {ik} of {keys}) changed by {delta:.1e} = 10*tolerance + 1e-3*|value|: equals says True", w)
        b = copy.deepcopy(a)
        b.NK = a.NK + 1
        if call_equals(ctx, name, a, b, w, **kw) is True:
            ctx.violation(mech, "objects with different NK: equals says True", w)
        if len(keys) > 1:
            b = copy.deepcopy(a)
            for tag in type(a).npz_keys_dict_int:
                del getattr(b, tag)[ik]
            for p, q in ((a, b), (b, a)):
                if call_equals(ctx, name, p, q, w, **kw) is True:
                    ctx.violation(mech, f"one object lacks the k-point {ik}: equals says True", w)
        if name == "MMN" and a.NNB > 1:
            b = copy.deepcopy(a)
            r = np.array(b.bk_reorder[ik])
            r[[0, 1]] = r[[1, 0]]
            b.bk_reorder[ik] = r
            if call_equals(ctx, name, a, b, w, **kw) is True:
                ctx.violation(mech, "bk_reorder differs at one k-point: equals (check_reorder default) says True", w)
            if call_equals(ctx, name, a, b, w, check_reorder=False, **kw) is False:
                ctx.violation(mech, "only bk_reorder differs: equals(check_reorder=False) says False", w)


# ------------------------------------------------------------------ widening review: histories of single objects

SELECTABLE = ("EIG", "AMN", "MMN", "SPN", "UXU", "UIU", "UHU", "SXU", "SIU", "SHU", "UNK")


def draw_bands(rng, NB):
    n = int(rng.integers(1, NB + 1))
    sb = sorted(int(i) for i in rng.choice(NB, n, replace=False))
    return sb, [sb, np.array(sb)][int(rng.integers(2))]


def object_histories(ctx, tmp, objs, bk, wit, rng):
    """objects that went through other public calls before they are saved / written"""
    NK, NB = objs["EIG"].NK, objs["EIG"].NB
    # in memory: as_dict -> from_dict (the two halves of the npz persistence without the file)
    for name, obj in objs.items():
        new = type(obj).from_dict(obj.as_dict())
        compare_objects(ctx, f"{name}.as_dict/from_dict", obj, new, wit)
        ctx.count("dict_roundtrip")
    # select_kpoints -> npz (the object must be the one built directly for those k-points)
    if NK > 1:
        sel = sorted(int(i) for i in rng.choice(NK, int(rng.integers(1, NK)), replace=False))
        w = dict(wit, select_kpoints=sel)
        for name in SELECTABLE:
            if name not in objs or rng.random() < 0.5:
                continue
            obj = copy.deepcopy(objs[name])
            obj.select_kpoints([sel, tuple(sel), np.array(sel)][int(rng.integers(3))])
            ctx.ev()
            for tag in type(obj).npz_keys_dict_int:
                if sorted(int(k) for k in getattr(obj, tag)) != sel:
                    ctx.violation(f"{name}.select_kpoints", f"{tag} holds the k-points {sorted(getattr(obj, tag))} after select_kpoints({sel})", w)
            path = os.path.join(tmp, f"selk_{name}.npz")
            obj.to_npz(path)
            new = type(obj).from_npz(path)
            compare_objects(ctx, f"{name}.to_npz/from_npz", obj, new, w)
            ctx.ev()
            if new.NK != NK or not all(same(objs[name].data[k], new.data[k]) for k in sel):
                ctx.violation(f"{name}.to_npz/from_npz", "object saved after select_kpoints: NK or the data of the kept k-points changed", w)
            ctx.count("npz_after_select_kpoints")
    # select_bands -> text and npz
    sb, arg = draw_bands(rng, NB)
    w = dict(wit, select_bands=sb)
    sobjs = {}
    for name in ("EIG", "AMN", "MMN"):
        sobjs[name] = copy.deepcopy(objs[name])
        sobjs[name].select_bands(arg)
    text_roundtrip(ctx, tmp, sobjs, bk, dict(w, variant="objects written after select_bands"), rng, stem="selb")
    for name in ("EIG", "AMN", "MMN"):
        path = os.path.join(tmp, f"selb_{name}.npz")
        sobjs[name].to_npz(path)
        compare_objects(ctx, f"{name}.to_npz/from_npz", sobjs[name], type(sobjs[name]).from_npz(path), w)
    ctx.count("text_after_select_bands")


def inputs_unchanged(ctx, snapshot, objs, wit):
    for name, old in snapshot.items():
        ctx.ev()
        now = vars(objs[name])
        for k, x in vars(old).items():
            if k not in now or not same(x, now[k]):
                ctx.violation(f"inputs_modified:{name}", f"{name}.{k} of the original object was changed by writing / saving / reading", wit)
    ctx.count("inputs_unchanged_checked")


# ------------------------------------------------------------------ widening review: container options and histories

def files_form(rng, keys):
    keys = [str(k) for k in keys]
    form = int(rng.integers(3))
    if form == 0:
        return list(keys)
    if form == 1:
        return tuple(keys)
    return [k.upper() if rng.random() < 0.5 else k for k in keys]


def load_container(ctx, mech, seed, wit, expect_error=None, **kw):
    """WannierData.from_npz; returns the container or None (after recording a violation / an expected exception)"""
    from wannierberri.w90files import WannierData
    ctx.ev()
    with warnings.catch_warnings():
        warnings.simplefilter("ignore")
        try:
            w2 = WannierData.from_npz(seed, **kw)
        except (FileNotFoundError, ValueError) as e:
            if expect_error is not None and isinstance(e, expect_error):
                return None
            ctx.violation(mech, f"from_npz({kw}) raised {type(e).__name__}: {e}", wit)
            return None
    if expect_error is not None:
        ctx.violation(mech, f"from_npz({kw}) did not raise {expect_error.__name__}", wit)
        return None
    return w2


def compare_subset(ctx, tag, wd, w2, wit, expect_keys, irreducible=False):
    ctx.ev()
    if set(w2._files.keys()) != set(expect_keys):
        ctx.violation(f"{tag}:files", f"files {sorted(expect_keys)} expected, loaded {sorted(w2._files.keys())}", wit)
    for key in expect_keys:
        if key in w2._files:
            compare_objects(ctx, f"{tag}[{key}]", wd.get_file(key), w2.get_file(key), wit)
    ctx.ev()
    if bool(w2.irreducible) != bool(irreducible):
        ctx.violation(f"{tag}:flags", f"irreducible: expected {irreducible}, loaded {w2.irreducible}", wit)


NEED_BKVEC = ("mmn", "uhu", "uiu", "shu", "siu")


def container_options(ctx, tmp, rng, objs, bk, wit):
    from wannierberri.w90files import EIG
    from wannierberri.w90files.wandata import FILES_CLASSES
    extras = [e for e in EXTRA_FILES if e[1] in objs and rng.random() < 0.5]
    wd = make_container(objs, extras, irreducible=False)
    keys = ["chk", "bkvec", "eig", "amn", "mmn"] + [e[0] for e in extras]
    cdir = os.path.join(tmp, "copt")
    seed = os.path.join(cdir, "seed")
    # ---- to_npz(files=subset [+ a file that is not set])
    subset = [k for k in keys if rng.random() < 0.6] or [keys[int(rng.integers(len(keys)))]]
    notset = [k for k in ("uiu", "uhu", "siu", "shu", "spn", "unk") if k not in keys]
    ask = list(subset) + ([notset[int(rng.integers(len(notset)))]] if notset and rng.random() < 0.5 else [])
    ask = [ask[i] for i in rng.permutation(len(ask))]
    w = dict(wit, files_set=keys, to_npz_files=ask)
    with warnings.catch_warnings():
        warnings.simplefilter("ignore")
        wd.to_npz(seed, files=tuple(ask) if rng.random() < 0.5 else list(ask))
    ctx.count("wandata_to_npz_subset")
    ctx.ev()
    on_disk = sorted(os.listdir(cdir)) if os.path.isdir(cdir) else []
    expected = sorted(f"seed.{FILES_CLASSES[k].extension}.npz" for k in subset)
    if on_disk != expected:
        ctx.violation("WannierData.to_npz:files", f"to_npz(files={ask}) wrote {on_disk}, expected {expected}", w)
        return
    # ---- from_npz: forms of `files`, missing files, irreducible
    variant = int(rng.integers(4))
    irr = bool(rng.random() < 0.3)
    kwi = dict(irreducible=True) if irr else {}
    auto_bk = ["bkvec"] if "bkvec" in subset else []
    if variant == 0:        # exactly the files that exist, in another form / case
        ask2 = files_form(rng, [subset[i] for i in rng.permutation(len(subset))])
        w2 = load_container(ctx, "WannierData.from_npz:options", seed, dict(w, from_npz_files=ask2), files=ask2, **kwi)
        expect = set(subset) | (set(auto_bk) if set(subset) & set(NEED_BKVEC) else set())
    elif variant == 1:      # all files asked for, missing ones ignored (documented default)
        ask2 = files_form(rng, keys)
        w2 = load_container(ctx, "WannierData.from_npz:options", seed, dict(w, from_npz_files=ask2), files=ask2, **kwi)
        expect = set(subset)
    elif variant == 2:      # all files asked for, missing ones are an error
        ask2 = files_form(rng, keys)
        missing = [k for k in keys if k not in subset]
        w2 = load_container(ctx, "WannierData.from_npz:options", seed, dict(w, from_npz_files=ask2, ignore_missing_files=False),
                            expect_error=FileNotFoundError if missing else None, files=ask2, ignore_missing_files=False, **kwi)
        expect = set(subset)
        ctx.count("wandata_from_npz_missing_is_error" if missing else "wandata_from_npz_nothing_missing")
    else:                   # default file list, missing ones are an error: documented ValueError
        ask2 = None
        w2 = load_container(ctx, "WannierData.from_npz:options", seed, dict(w, from_npz_files=None, ignore_missing_files=False),
                            expect_error=ValueError, ignore_missing_files=False)
    ctx.count("wandata_from_npz_options")
    if w2 is not None:
        compare_subset(ctx, "WannierData.from_npz:options", wd, w2, dict(w, from_npz_files=ask2, irreducible=irr), expect, irreducible=irr)
        if irr:
            ctx.count("wandata_from_npz_irreducible_given")
    # ---- the same container re-used: files replaced / removed, saved to the same seedname again
    NK, NB = objs["EIG"].NK, objs["EIG"].NB
    eig_new = EIG(data=[rng.normal(size=NB) for _ in range(NK)])
    with warnings.catch_warnings():
        warnings.simplefilter("ignore")
        wd.set_file("eig", eig_new, overwrite=True)
        keys2 = list(keys)
        if extras and rng.random() < 0.7:
            gone = extras[int(rng.integers(len(extras)))][0]
            wd.unset_file(gone)
            keys2.remove(gone)
        wd.to_npz(seed)
    w = dict(wit, history="set_file('eig', overwrite=True)" + (" and unset_file" if len(keys2) < len(keys) else "") + ", to_npz to the same seedname")
    w2 = load_container(ctx, "WannierData.to_npz/from_npz:reused", seed, w, files=list(keys2), ignore_missing_files=False)
    if w2 is not None:
        compare_subset(ctx, "WannierData.to_npz/from_npz:reused", wd, w2, w, keys2)
        ctx.ev()
        if w2.has_file("eig") and not same(w2.get_file("eig").data, eig_new.data):
            ctx.violation("WannierData.to_npz/from_npz:reused", "the eig file loaded is not the one set last", w)
    ctx.count("wandata_reused")
    # ---- relative seedname (no directory part)
    if rng.random() < 0.4:
        cwd = os.getcwd()
        rdir = os.path.join(tmp, "rel")
        os.makedirs(rdir, exist_ok=True)
        w = dict(wit, seedname="relseed (relative, no directory)")
        w2 = None
        try:
            os.chdir(rdir)
            ctx.ev()
            try:
                wd.to_npz("relseed")
            except OSError as e:
                # (recorded here: the harness attributes an exception raised inside a frozen stdlib module - `<frozen os>` resolves
                #  below the working directory /verif - to the harness, not to the repository code that called it)
                ctx.violation("WannierData.to_npz:relative_seedname:raises", f"to_npz('relseed') raised {type(e).__name__}: {e}", w)
            else:
                w2 = load_container(ctx, "WannierData.to_npz/from_npz:relative_seedname", "relseed", w, files=list(keys2),
                                    ignore_missing_files=False)
        finally:
            os.chdir(cwd)
        if w2 is not None:
            compare_subset(ctx, "WannierData.to_npz/from_npz:relative_seedname", wd, w2, w, keys2)
        ctx.count("wandata_relative_seedname")


def container_select_bands(ctx, tmp, rng, objs, bk, kpts, lattice, mp, wit):
    """container -> select_bands (documented argument forms) -> to_npz/from_npz and write -> readers"""
    from wannierberri.w90files import EIG, AMN, MMN, CheckPoint
    NK, NB, NW = objs["EIG"].NK, objs["EIG"].NB, objs["AMN"].NW
    extras = [e for e in EXTRA_FILES if e[1] in objs and rng.random() < 0.4]
    cobjs = {n: copy.deepcopy(objs[n]) for n in ["BKVectors", "EIG", "AMN", "MMN"] + [e[1] for e in extras]}
    cobjs["CheckPoint"] = CheckPoint(real_lattice=lattice, num_wann=NW, num_bands=NB, kpt_red=kpts, mp_grid=np.array(mp))
    wd = make_container(cobjs, extras, irreducible=False)
    keys = ["chk", "bkvec", "eig", "amn", "mmn"] + [e[0] for e in extras]
    # (the documented boolean-mask form of `selected_bands` raises an AssertionError in WannierData.select_bands on the unchanged
    #  tree unless every band is selected - a defect of select_bands, not of persistence: not drawn here, reported by the review)
    mode = int(rng.integers(3))
    if mode < 2:
        sb, arg = draw_bands(rng, NB)
        if mode == 1:
            arg = list(sb)
        kw = dict(selected_bands=arg)
    else:
        lo = int(rng.integers(0, NB))
        hi = int(rng.integers(lo + 1, NB + 1))
        sb = list(range(lo, hi))
        kw = {}
        if lo > 0 or rng.random() < 0.5:
            kw["band_start"] = lo
        if hi < NB or rng.random() < 0.5:
            kw["band_end"] = hi
    w = dict(wit, history=f"WannierData.select_bands({ {k: (v.tolist() if isinstance(v, np.ndarray) else v) for k, v in kw.items()} })")
    ret = wd.select_bands(**kw)
    if [int(i) for i in ret] != sb:     # which bands are kept is not the subject of C19; whatever was kept must persist
        ctx.count("info_not_judged:select_bands_kept_other_bands_than_requested")
    nsel = wd.eig.NB
    seed = os.path.join(tmp, "csel", "seed")
    wd.to_npz(seed)
    w2 = load_container(ctx, "WannierData.to_npz/from_npz:after_select_bands", seed, w, files=list(keys), ignore_missing_files=False)
    if w2 is not None:
        compare_containers(ctx, "WannierData.to_npz/from_npz:after_select_bands", wd, w2, w, keys)
    seedw = os.path.join(tmp, "csel", "written")
    wd.write(seedw, files=("eig", "amn", "mmn") if rng.random() < 0.5 else ["mmn", "amn", "eig"])
    e2, a2 = EIG.from_w90_file(seedw), AMN.from_w90_file(seedw, npar=1)
    m2 = MMN.from_w90_file(seedw, bkvec=bk, npar=1)
    mech = "WannierData.write:after_select_bands"
    ctx.ev()
    if (e2.NK, e2.NB, a2.NB, a2.NW, m2.NB, m2.NNB) != (NK, nsel, nsel, NW, nsel, bk.NNB):
        ctx.violation(mech, f"sizes read (NK, NB eig, NB amn, NW, NB mmn, NNB) = {(e2.NK, e2.NB, a2.NB, a2.NW, m2.NB, m2.NNB)}", w)
    else:
        fixed_close(ctx, mech, wd.eig.data, e2.data, 12, "eig", w)
        fixed_close(ctx, mech, wd.amn.data, a2.data, 12, "amn", w)
        fixed_close(ctx, mech, wd.mmn.data, m2.data, None, "mmn", w)
    ctx.count("wandata_after_select_bands")


def container_from_text(ctx, tmp, rng, objs, bk, wit):
    """WannierData.write + WIN.write -> WannierData.from_w90_files (the container's reader of the text files)"""
    from wannierberri.w90files import WannierData
    wd = make_container(objs, [], irreducible=False)
    seed = os.path.join(tmp, "w90", "seed")
    os.makedirs(os.path.dirname(seed), exist_ok=True)
    wd.write(seed, files=["eig", "amn", "mmn"])
    copy.deepcopy(objs["WIN"]).write(seed)
    files = files_form(rng, [("win", "eig", "amn", "mmn")[i] for i in rng.permutation(4)])
    w = dict(wit, from_w90_files=list(files))
    with warnings.catch_warnings():
        warnings.simplefilter("ignore")
        w2 = WannierData.from_w90_files(seed, files=files, bkvec=bk)
    ctx.count("wandata_from_w90_files")
    mech = "WannierData.write/from_w90_files"
    ctx.ev()
    if not all(w2.has_file(k) for k in ("eig", "amn", "mmn", "bkvec", "chk")):
        ctx.violation(mech, f"files loaded: {sorted(w2._files)}", w)
        return
    e, a, m = objs["EIG"], objs["AMN"], objs["MMN"]
    ctx.ev()
    got = (w2.eig.NK, w2.eig.NB, w2.amn.NB, w2.amn.NW, w2.mmn.NB, w2.mmn.NNB, w2.chk.num_kpts)
    if got != (e.NK, e.NB, a.NB, a.NW, m.NB, m.NNB, e.NK):
        ctx.violation(mech, f"sizes (NK, NB eig, NB amn, NW, NB mmn, NNB, chk.num_kpts) = {got}", w)
        return
    fixed_close(ctx, mech, e.data, w2.eig.data, 12, "eig", w)
    fixed_close(ctx, mech, a.data, w2.amn.data, 12, "amn", w)
    fixed_close(ctx, mech, m.data, w2.mmn.data, None, "mmn", w)


def wide_objects(ctx, tmp, rng, lattice, scale, wit):
    """three-digit numbers of bands and Wannier functions (text and npz); separate objects on a mesh of one or two k-points, so
    that the histories of the case, which write the .mmn file a dozen times, stay cheap"""
    from wannierberri.w90files import EIG, AMN, MMN
    from wannierberri.w90files.bkvectors import BKVectors
    mp = [(1, 1, 1), (2, 1, 1), (1, 1, 2)][int(rng.integers(3))]
    NK = int(np.prod(mp))
    bk = BKVectors.from_kpoints(2 * np.pi * np.linalg.inv(lattice).T, np.array(mp), kmesh(rng, mp))
    NB = int(rng.integers(100, 131))
    NW = int(rng.integers(100, NB + 1)) if rng.random() < 0.6 else int(rng.integers(1, 4))
    NBm = int(rng.integers(100, 104))
    wobjs = dict(EIG=EIG(data=[np.sort(rng.normal(size=NB)) * 5 * scale for _ in range(NK)]),
                 AMN=AMN(data=[cplx(rng, (NB, NW), scale) for _ in range(NK)]),
                 MMN=MMN(data=[cplx(rng, (bk.NNB, NBm, NBm), scale) for _ in range(NK)]))
    w = dict(wit, mp_grid=mp, NK=NK, NNB=bk.NNB, NB=NB, NW=NW, NB_of_mmn=NBm)
    text_roundtrip(ctx, tmp, wobjs, bk, dict(w, variant="three-digit NB / NW"), rng, stem="wide")
    npz_roundtrip(ctx, tmp, {"wide" + k: v for k, v in wobjs.items()}, w, sparse=False)
    ctx.count("size_wide")


MANY_K = [(5, 5, 4), (10, 10, 1), (1, 1, 64), (6, 6, 3), (4, 5, 5), (2, 50, 1)]


def case(ctx, rng, idx, state):
    # real process pools in one case out of ten, the serial stand-in otherwise
    real_pool = idx % 10 == 3
    if real_pool:
        state["mp"].Pool = state["real_pool"]
        ctx.count("cases_with_real_multiprocessing_pool")
    else:
        state["mp"].Pool = SerialPool
        ctx.count("cases_with_serial_pool_standin")
    names = None
    wide = idx % 16 == 1                 # (widening) additional objects with >= 100 bands / Wannier functions, see wide_objects
    if idx % 8 == 5:
        mp, NB = (1, 1, 1), 1            # one-line .eig file
        NW = 1
    elif idx % 16 == 9:                  # (widening) >= 100 k-points
        mp = MANY_K[int(rng.integers(len(MANY_K)))]
        NB = int(rng.integers(1, 3))
        NW = int(rng.integers(1, NB + 1))
        ctx.count("size_many_k")
    else:
        mp = MP_GRIDS[int(rng.integers(len(MP_GRIDS)))]
        NB = int(rng.integers(1, 9))
        NW = int(rng.integers(1, NB + 1))
    NK = int(np.prod(mp))
    if rng.random() < 0.5:
        kind, lattice = gen_systems.bravais_lattice(rng, ["cubic", "tetragonal", "orthorhombic", "hexagonal", "fcc", "bcc",
                                                         "monoclinic"][int(rng.integers(7))])
    else:
        kind, lattice = "random", gen_systems.random_lattice(rng)
    scale = float(rng.choice([1.0, 1.0, 1e-3, 1e3, 1e-11, 1e5]))
    big = NK * NB * NB > 600
    if names is None:
        names = [n for n in RECIPES if not (big and n in ("UXU", "UIU", "UHU") and rng.random() < 0.7)]
    wit = dict(mp_grid=mp, NK=NK, NB=NB, NW=NW, lattice=kind, scale=scale)
    tmp = tempfile.mkdtemp(dir=os.path.join(env.WORK, "c19"))
    objs_counts.clear()
    try:
        objs, bk, kpts = build_objects(rng, mp, NB, NW, lattice, None, scale, names)
        snapshot = copy.deepcopy(objs)
        wit["NNB"] = bk.NNB
        text_roundtrip(ctx, tmp, objs, bk, wit, rng)
        # (widening review) the same files read with the documented reader options; other forms of the constructor arguments
        reader_options(ctx, tmp, objs, bk, kpts, lattice, mp, wit, rng, real_pool)
        ctor_forms(ctx, tmp, objs, bk, wit, rng)
        equals_controls(ctx, objs, wit, rng)
        if wide:
            state["mp"].Pool = SerialPool       # (the pool is not what this class varies; forking is the main cost of a case)
            wide_objects(ctx, tmp, rng, lattice, scale, wit)
            state["mp"].Pool = state["real_pool"] if real_pool else SerialPool
        npz_roundtrip(ctx, tmp, objs, wit, sparse=False, rng=rng)
        # (added after a seeded change was missed) two multi-step histories of the same objects:
        # (a) the per-k dictionaries are keyed by the k index - their insertion order must not matter to the writers;
        # (b) save to npz -> load -> write the text file -> read it: the chain must still reproduce the original data
        from wannierberri.w90files import EIG, AMN, MMN
        order = [int(i) for i in rng.permutation(NK)]
        pobjs = dict(objs)
        pobjs["EIG"] = EIG(data={k: objs["EIG"].data[k] for k in order}, NK=NK)
        pobjs["AMN"] = AMN(data={k: objs["AMN"].data[k] for k in order}, NK=NK)
        pobjs["MMN"] = MMN(data={k: objs["MMN"].data[k] for k in order}, NK=NK,
                           bk_reorder={k: objs["MMN"].bk_reorder[k] for k in order})
        text_roundtrip(ctx, tmp, pobjs, bk, dict(wit, variant="per-k dictionaries built in a permuted insertion order"), rng)
        robjs = dict(objs)
        for name in ("EIG", "AMN", "MMN"):
            path = os.path.join(tmp, f"chain_{name}.npz")
            objs[name].to_npz(path)
            robjs[name] = type(objs[name]).from_npz(path)
        text_roundtrip(ctx, tmp, robjs, bk, dict(wit, variant="objects reloaded from npz before writing the text files"), rng)
        for name in ("EIG", "AMN", "MMN"):   # ... and the chain ends where it started
            compare_objects(ctx, f"{name}.to_npz/from_npz", objs[name], robjs[name], wit)
        ctx.count("text_roundtrip_permuted_dict_order")
        ctx.count("text_roundtrip_after_npz_reload")
        container_roundtrip(ctx, tmp, rng, objs, bk, wit, sparse=False)
        # (widening review) objects and containers with a history, container options (always with the serial stand-in: the real
        # pool has been used by every reader call above)
        state["mp"].Pool = SerialPool
        object_histories(ctx, tmp, objs, bk, wit, rng)
        container_options(ctx, tmp, rng, objs, bk, wit)
        container_select_bands(ctx, tmp, rng, objs, bk, kpts, lattice, mp, wit)
        if "WIN" in objs:     # (from_w90_files reads the .mmn file with the default npar = all cores: serial stand-in)
            container_from_text(ctx, tmp, rng, objs, bk, wit)
        if rng.random() < 0.35 and "SOC" in objs:
            objs_dw = build_objects(rng, mp, NB, NW, lattice, None, scale, ("EIG", "AMN", "MMN", "CheckPoint"))[0] \
                if rng.random() < 0.6 else None
            soc_container_roundtrip(ctx, tmp, rng, objs, objs_dw, wit)
        inputs_unchanged(ctx, snapshot, objs, wit)
        if NK > 1:
            nsel = int(rng.integers(1, NK))
            sel = sorted(int(i) for i in rng.choice(NK, nsel, replace=False))
            wit2 = dict(wit, selected_k=sel)
            names_s = [n for n in names if n != "WIN"]
            sobjs, sbk, _ = build_objects(rng, mp, NB, NW, lattice, sel, scale, names_s)
            cp = sobjs["CheckPoint"]
            if not cp.wannierised:      # a sparse container is only recognisable through a sparse v_matrix
                cp.v_matrix = {ik: cplx(rng, (NB, NW)) for ik in sel}
            npz_roundtrip(ctx, tmp, sobjs, wit2, sparse=True, rng=rng)
            container_roundtrip(ctx, tmp, rng, sobjs, sbk, wit2, sparse=True)
    finally:
        for k, v in objs_counts.items():
            ctx.count(k, v)
        shutil.rmtree(tmp, ignore_errors=True)
    ctx.nontrivial((mp, NB, NW, bk.NNB, kind, scale))
    ctx.sample(wit)


WIDENING_COUNTERS = (
    "eig_selected_kpoints", "mmn_selected_kpoints", "amn_npar_varied", "mmn_npar_varied", "mmn_chunk_exact", "mmn_chunk_partial",
    "mmn_reader_bkvec_reloaded", "mmn_reader_sparse_bkvec", "ctor_forms", "equals_controls", "dict_roundtrip",
    "npz_after_select_kpoints", "text_after_select_bands", "npz_twice", "npz_pathlib", "text_second_generation",
    "text_second_generation_bytes", "mmn_permuted_file_written_again", "inputs_unchanged_checked", "wandata_to_npz_subset",
    "wandata_from_npz_options", "wandata_from_npz_missing_is_error", "wandata_from_npz_irreducible_given", "wandata_reused",
    "wandata_relative_seedname", "wandata_after_select_bands", "wandata_from_w90_files", "size_many_k", "size_wide",
    "amn_real_dtype", "mmn_real_dtype", "amn_some_optional_tags", "data_with_special_values", "data_with_all_zero_kpoint")


if __name__ == "__main__":
    env.import_wb()
    with env.quiet():
        classes = all_savable()
    found = [c.__name__ for c in classes]
    not_constructible = {n: NOT_CONSTRUCTIBLE.get(n, "no recipe in checks/c19.py (class added after the check was written)")
                         for n in found if n not in RECIPES}
    harness.main(
        PROP, "exploration", case, setup_fn=setup,
        tiers=dict(quick=dict(cases=96, shards=8, time=900), thorough=dict(cases=4000, shards=16, time=3000)),
        rule="file objects built from random arrays: Gamma-centred meshes (1,1,1)...(3,3,3) incl. anisotropic ones in random "
             "k order, NB 1-8, NW 1-NB, NNB from the real b-vector search on random/Bravais lattices, data magnitudes "
             "1e-11...1e5, optional tags present/absent/partly present, random bk_reorder, full and sparse-k objects; one case in 16 with "
             "100-128 k-points, one in 16 with additional 100-130 band / Wannier-function objects; real-valued AMN/MMN data, exact "
             "zeros / -0.0 / half-digit values / an all-zero k-point sprinkled in; every object is also read with the documented reader "
             "options, rebuilt from other argument forms, saved after select_kpoints / select_bands / a first round trip, and the "
             "container saved with file subsets, re-used, after select_bands, and re-read from its text files; every case holds random "
             "non-zero data, so each is non-trivial; distinct by (mp_grid, NB, NW, NNB, lattice kind, magnitude)",
        assumptions=["EIG/AMN documented format %17.12f -> |diff| <= 0.5e-12 (+2 ulp); MMN prints repr -> exact; npz exact",
                     "the basic round trips call the readers with npar=1 (the reader-option class varies npar); in 9 cases out of 10 "
                     "multiprocessing.Pool is replaced by a serial stand-in (map/close/join, same argument check) to avoid forking; in the "
                     "remaining cases the real pool is used for the basic round trips, the seeded histories and the reader options "
                     "(npar 1-2), while the histories added by the widening review always use the stand-in",
                     "the permuted-neighbour mmn file is produced by the harness from the written file",
                     "WannierData.write is called with files=['eig','amn','mmn'] for the deciding comparison; the default "
                     "files=None call is probed separately",
                     "classes without an own equals (CheckPoint, WIN) are compared attribute-by-attribute only",
                     "equals controls: 'within tolerance' = one element changed by 0.3*tolerance (absolute), 'beyond' = by "
                     "10*tolerance + 1e-3*|value|; tolerance default (1e-8), 1e-3, 1e-10",
                     "second generation text files are compared token by token (numbers by value: the readers lose the sign of a "
                     "zero); byte identity of .eig/.amn is only demanded for |values| < 1000 (<= 15 significant digits)",
                     "BKVectors.select_kpoints (leaves kptirr stale, property C22) and the boolean-mask form of "
                     "WannierData.select_bands (AssertionError unless all bands are selected) are not drawn",
                     "WannierData.from_w90_files is only run with the serial pool stand-in (it reads .mmn with npar = all cores)"],
        required_counters=("text_eig", "text_amn", "text_mmn", "eig_single_line", "mmn_permuted_file", "npz_sparse",
                           "wandata_npz", "wandata_write", "wandata_sparse", "wandata_soc", "own_equals_called", "cases_with_real_multiprocessing_pool")
        + tuple(f"npz_{n}" for n in RECIPES) + WIDENING_COUNTERS,
        extra_coverage=dict(savable_classes_found=found, not_constructible=not_constructible),
    )
