"""C26 - system interpolation reproduces its endpoints and is affine in alpha (META + REF).

SystemInterpolator (idx % 3 != 2) / SystemInterpolatorSOC (idx % 3 == 2) for pairs of systems on the same
lattice whose R sets are equal / permuted / nested / overlapping, whose matrix sets are equal or differ
(the extra key must be dropped) and whose Wannier centres are equal or differ:
 * interpolate(0) and interpolate(1) evaluated with evaluate_k at random k give the energies, band gradients,
   Berry curvature (and spin, for SOC) of system0 / system1; energies additionally against the harness
   diagonalisation of the original real-space matrices;
 * real-space matrices matched by R: X(alpha)[R] = (1-alpha) X0[R] + alpha X1[R] (missing R = 0) computed from
   the *original* systems, and X(alpha) - X(0) = alpha (X(1) - X(0)) for alpha in [-1, 2];
 * centres (cartesian, reduced, and the shifts used by the Fourier transform) affine in alpha;
 * the input systems are not modified.
"""
import os
import sys
import warnings

sys.path.insert(0, os.path.dirname(os.path.dirname(os.path.abspath(__file__))))
from vlib import env, harness, gen_systems, gen_soc, monitors  # noqa: E402
import numpy as np  # noqa: E402

PROP = "C26"
RTOL = 1e-10


def setup(ctx):
    env.import_wb()
    return {}


def rdict(system, key):
    X = system.get_R_mat(key)
    return {tuple(R): X[i] for i, R in enumerate(system.rvec.iRvec.tolist())}


def snapshot(system):
    return (np.array(system.rvec.iRvec), {k: np.array(v) for k, v in system._XX_R.items()},
            np.array(system.wannier_centers_cart))


def unchanged(ctx, system, snap, wit, which):
    iR, mats, cc = snap
    ok = np.array_equal(iR, system.rvec.iRvec) and set(mats) == set(system._XX_R) and \
        all(np.array_equal(mats[k], system._XX_R[k]) for k in mats) and np.array_equal(cc, system.wannier_centers_cart)
    ctx.ev()
    if not ok:
        ctx.violation("interpolator_modified_its_input", f"{which} was modified by the interpolator", wit)


def tiny_displacement(rng, shape):
    """displacements of 1e-8 .. 1e-3 with random signs, a third of the components exactly zero, at least one non-zero"""
    d = 10.0 ** rng.uniform(-8, -3, shape) * rng.choice([-1, 1], shape) * (rng.random(shape) < 0.67)
    d.flat[int(rng.integers(d.size))] = 10.0 ** rng.uniform(-8, -3)
    return d


def check_real_space(ctx, interp_fn, s0, s1, common, excluded, alphas, wit, tag, centres_differ):
    """affinity + endpoint oracle on the real-space matrices, matched by R"""
    sysa = {a: interp_fn(a) for a in alphas}
    R0 = set(map(tuple, s0.rvec.iRvec.tolist()))
    R1 = set(map(tuple, s1.rvec.iRvec.tolist()))
    union = R0 | R1
    for a, sa in sysa.items():
        Ra = [tuple(R) for R in sa.rvec.iRvec.tolist()]
        ctx.ev()
        if len(Ra) != len(set(Ra)) or set(Ra) != union:
            ctx.violation(f"{tag}:R_set!=union", f"alpha={a}: {len(Ra)} R vectors ({len(set(Ra))} distinct), union has "
                          f"{len(union)}", wit)
            return sysa
        for key in excluded:
            ctx.ev()
            if sa.has_R_mat(key):
                ctx.violation(f"{tag}:key_of_one_system_not_dropped", f"{key} present at alpha={a}", wit)
        for key in common:
            ctx.ev()
            if not sa.has_R_mat(key):
                ctx.violation(f"{tag}:common_key_missing", f"{key} missing at alpha={a}", wit)
                return sysa
    for key in common:
        d0, d1 = rdict(s0, key), rdict(s1, key)
        shape = s0.get_R_mat(key).shape[1:]
        zero = np.zeros(shape, dtype=complex)
        Rl = sorted(union)
        X0 = np.array([d0.get(R, zero) for R in Rl])
        X1 = np.array([d1.get(R, zero) for R in Rl])
        scale = max(np.abs(X0).max(), np.abs(X1).max(), 1e-6)
        Xa = {}
        for a, sa in sysa.items():
            da = rdict(sa, key)
            Xa[a] = np.array([da[R] for R in Rl])
            ctx.close(f"{tag}:X(alpha)!=(1-alpha)X0+alpha*X1", Xa[a], (1 - a) * X0 + a * X1, rtol=RTOL,
                      scale=scale * max(1.0, abs(a), abs(1 - a)), what=f"{key}(R) at alpha={a:.3f}", witness=wit)
        for a in alphas:
            ctx.close(f"{tag}:not_affine_in_alpha", Xa[a] - Xa[0.0], a * (Xa[1.0] - Xa[0.0]), rtol=RTOL,
                      scale=scale * max(1.0, abs(a)), what=f"{key}(R) affinity alpha={a:.3f}", witness=wit)
    c0, c1 = s0.wannier_centers_cart, s1.wannier_centers_cart
    inv = np.linalg.inv(s0.real_lattice)
    stale = "interpolate:stale_centres_in_rvec" if centres_differ else None
    for a, sa in sysa.items():
        cexp = (1 - a) * c0 + a * c1
        ctx.close(f"{tag}:centres_not_affine", sa.wannier_centers_cart, cexp, rtol=1e-12, atol=1e-12,
                  what=f"wannier_centers_cart alpha={a:.3f}", witness=wit)
        ctx.close(stale or f"{tag}:wannier_centers_red!=centres_cart", sa.wannier_centers_red, cexp @ inv, rtol=1e-11, atol=1e-11,
                  what=f"wannier_centers_red alpha={a:.3f}", witness=wit)
        ctx.close(stale or f"{tag}:rvec_shifts!=centres", sa.rvec.shifts_left_red, cexp @ inv, rtol=1e-11, atol=1e-11,
                  what=f"rvec.shifts_left_red alpha={a:.3f}", witness=wit)
    return sysa


def compare_k(ctx, sa, sref, ks, quantities, wit, tag, Eref, lat_scale, centres_differ, gap_min):
    import wannierberri as wb
    for k, eref in zip(ks, Eref):
        ra = wb.evaluate_k(sa, k=k, quantities=quantities, return_single_as_dict=True)
        rr = wb.evaluate_k(sref, k=k, quantities=quantities, return_single_as_dict=True)
        escale = max(np.abs(eref).max(), 1.0)
        ctx.close(f"{tag}:energy!=harness_bands_of_endpoint", ra["energy"], eref, rtol=RTOL, scale=escale,
                  what="energies vs harness diagonalisation", witness=wit)
        gaps = np.diff(eref)
        nondeg = gaps.size == 0 or gaps.min() > gap_min * escale
        for q in quantities:
            if q == "energy":
                ctx.close(f"{tag}:energy!=endpoint", ra[q], rr[q], rtol=RTOL, scale=escale, what="energy", witness=wit)
                continue
            if not nondeg:
                ctx.count("skipped_tie_quantities")
                continue
            mech = "interpolate:stale_centres_in_rvec" if (centres_differ and q.startswith("berry")) else f"{tag}:{q}!=endpoint"
            if q.startswith("berry"):
                scale = max(np.abs(rr[q]).max(), lat_scale ** 2)
                rt = 1e-8
            elif q == "band_gradients":
                scale = max(np.abs(rr[q]).max(), lat_scale * escale)
                rt = 1e-9
            else:
                scale = 1.0
                rt = 1e-8
            ctx.close(mech, ra[q], rr[q], rtol=rt, scale=scale, what=f"{tag} {q}", witness=wit)


# --------------------------------------------------------------------------------------------------
def case_R(ctx, rng, idx):
    from wannierberri.system.interpolate import SystemInterpolator
    relation = gen_soc.RELATIONS[(idx // 3) % 4]
    nw = int(rng.integers(1, 5))
    lattice = gen_systems.random_lattice(rng)
    iR0, iR1 = gen_soc.rset_pair(rng, relation, radius=rng.uniform(1.0, 2.2))
    keyset = [("Ham",), ("Ham", "AA"), ("Ham", "AA", "BB"), ("Ham", "AA", "SS")][int(rng.integers(4))]
    extra = [None, None, "CC", "OO"][int(rng.integers(4))]
    which_extra = int(rng.integers(2))
    keys = [tuple(keyset), tuple(keyset)]
    if extra is not None:
        keys[which_extra] = keys[which_extra] + (extra,)
    centre_mode = ["same", "same", "different", "slightly_different"][int(rng.integers(4))]
    c0 = gen_systems.random_centers(rng, nw, ["random", "highsym", "outside"][int(rng.integers(3))])
    c1 = c0.copy() if centre_mode == "same" else c0 + rng.uniform(-0.3, 0.3, c0.shape)
    if centre_mode == "slightly_different":
        # centres that differ by 1e-8 .. 1e-3 only (relaxed structure, other pseudopotential): "the centres coincide" decided on a
        # tolerance leaves the shifts of system0 in place (seed C26_b)
        c1 = c0 + tiny_displacement(rng, c0.shape)
    centres_differ = centre_mode != "same"
    m0 = gen_systems.random_matrices(rng, iR0, lattice, nw, keys=keys[0])
    m1 = gen_systems.random_matrices(rng, iR1, lattice, nw, keys=keys[1])
    s0 = gen_systems.make_system(lattice, iR0, m0, c0, name="s0")
    s1 = gen_systems.make_system(lattice, iR1, m1, c1, name="s1")
    use_pg = int(rng.choice([1, 0, -1]))
    wit = dict(kind="System_R", relation=relation, nw=nw, nR0=len(iR0), nR1=len(iR1), keys0=keys[0], keys1=keys[1],
               centres=centre_mode, use_pointgroup=use_pg)
    snap0, snap1 = snapshot(s0), snapshot(s1)
    with warnings.catch_warnings():
        warnings.simplefilter("ignore")
        interp = SystemInterpolator(s0, s1, use_pointgroup=use_pg)
    alphas = [0.0, 1.0, 0.5] + [float(a) for a in rng.uniform(-1, 2, 3)]
    common = sorted(set(keys[0]) & set(keys[1]))
    excluded = sorted(set(keys[0]) ^ set(keys[1]))
    sysa = check_real_space(ctx, interp.interpolate, s0, s1, common, excluded, alphas, wit, "SystemInterpolator", centres_differ)
    for a_, s_ in sysa.items():
        monitors.assert_no_stale_caches(ctx, s_, "interpolate", dict(wit, alpha=a_))
    unchanged(ctx, s0, snap0, wit, "system0")
    unchanged(ctx, s1, snap1, wit, "system1")
    if 0.0 not in sysa or not all(sysa[a].has_R_mat("Ham") for a in (0.0, 1.0)):
        return
    # k-space endpoints
    ks = rng.uniform(-1, 1, (2, 3))
    quantities = ["energy", "band_gradients", "berry_curvature" if "AA" in common else "berry_curvature_internal_terms"]
    if "SS" in common:
        quantities.append("spin")
    lat_scale = np.mean(np.linalg.norm(lattice, axis=1))
    for a, sref in ((0.0, s0), (1.0, s1)):
        compare_k(ctx, sysa[a], sref, ks, quantities, wit, f"interpolate({int(a)})", gen_systems.bands(sref, ks), lat_scale,
                  centres_differ and a == 1.0, 1e-3)
        ctx.count(f"endpoint_alpha{int(a)}")
    # a second call at the same alpha gives the same system (no hidden state)
    sb = interp.interpolate(alphas[3])
    ctx.close("SystemInterpolator:interpolate_not_repeatable", sb.get_R_mat("Ham"), sysa[alphas[3]].get_R_mat("Ham"), rtol=0,
              atol=0, what="repeat call", witness=wit)
    ctx.count(f"R_relation_{relation}")
    ctx.count("centres_" + centre_mode)
    if excluded:
        ctx.count("matrix_sets_differ")
    ctx.nontrivial(("R", relation, nw, tuple(common), tuple(excluded), centre_mode, use_pg))
    ctx.sample(wit)


# --------------------------------------------------------------------------------------------------
def case_soc(ctx, rng, idx):
    from wannierberri.system.interpolate import SystemInterpolatorSOC
    relation = gen_soc.RELATIONS[(idx // 3) % 4]
    nspin = 2 if rng.random() < 0.8 else 1
    nw = int(rng.integers(1, 4))
    lattice = gen_systems.random_lattice(rng)
    centre_mode = ["same", "same", "different", "slightly_different"][int(rng.integers(4))]
    centres_differ = centre_mode != "same"
    # the two SOC systems: channel R sets of system A have `relation`; system B gets its own sets, so that the
    # up(A)/up(B) and down(A)/down(B) pairs are generally overlapping/nested too
    iRu0, iRd0 = gen_soc.rset_pair(rng, relation, radius=rng.uniform(1.0, 1.8))
    if rng.random() < 0.5:
        iRu1, iRd1 = iRd0[rng.permutation(len(iRd0))], iRu0[rng.permutation(len(iRu0))]
    else:
        iRu1, iRd1 = gen_soc.rset_pair(rng, gen_soc.RELATIONS[int(rng.integers(4))], radius=rng.uniform(1.0, 1.8))
    cu = gen_systems.random_centers(rng, nw, "random")
    cu1 = cu.copy() if not centres_differ else cu + rng.uniform(-0.2, 0.2, cu.shape)
    if centre_mode == "slightly_different":
        cu1 = cu + tiny_displacement(rng, cu.shape)
    theta, phi = rng.uniform(0, np.pi), rng.uniform(0, 2 * np.pi)

    def build(iRu, iRd, c, name):
        mu = gen_systems.random_matrices(rng, iRu, lattice, nw)
        md = gen_systems.random_matrices(rng, iRd, lattice, nw)
        su = gen_systems.make_system(lattice, iRu, mu, c, name=name + "_up")
        sd = gen_systems.make_system(lattice, iRd, md, c, name=name + "_dn") if nspin == 2 else None
        s, info = gen_soc.soc_system_direct(rng, su, sd, theta=theta, phi=phi, alpha_soc=rng.uniform(0.3, 1.5),
                                            rmode=["up", "union", "own"][int(rng.integers(3))])
        info.update(system_up=su, system_down=sd if sd is not None else su, num_wann_scalar=nw)
        return s, info

    s0, info0 = build(iRu0, iRd0, cu, "A")
    s1, info1 = build(iRu1, iRd1, cu1, "B")
    wit = dict(kind="SystemSOC", relation=relation, nspin=nspin, nw=nw, centres=centre_mode, theta=theta, phi=phi,
               nR=[len(iRu0), len(iRd0), len(iRu1), len(iRd1)], nR_soc=[len(info0["iRvec_soc"]), len(info1["iRvec_soc"])],
               rmode=[info0["rmode"], info1["rmode"]])
    snaps = [snapshot(s) for s in (s0, s1, info0["system_up"], info1["system_up"])]
    with warnings.catch_warnings():
        warnings.simplefilter("ignore")
        interp = SystemInterpolatorSOC(s0, s1, use_pointgroup=int(rng.choice([1, 0])))
    alphas = [0.0, 1.0, 0.5] + [float(a) for a in rng.uniform(-1, 2, 2)]
    common = sorted(s0._XX_R.keys())
    cache = {}

    def get(a):
        if a not in cache:
            cache[a] = interp.interpolate(a)
        return cache[a]

    sysa = check_real_space(ctx, get, s0, s1, common, [], alphas, wit, "SystemInterpolatorSOC", centres_differ)
    for a_, s_ in cache.items():
        monitors.assert_no_stale_caches(ctx, s_, "SOC.interpolate", dict(wit, alpha=a_))
    # the spin channels
    for ch, attr in ((0, "system_up"), (1, "system_down")):
        if ch == 1 and nspin == 1:
            continue
        check_real_space(ctx, lambda a: getattr(get(a), attr), info0[attr], info1[attr], ["Ham"], [], alphas, wit,
                         f"SystemInterpolatorSOC.{attr}", centres_differ)
    for s, sn, nm in zip((s0, s1, info0["system_up"], info1["system_up"]), snaps, ("soc0", "soc1", "up0", "up1")):
        unchanged(ctx, s, sn, wit, nm)
    for a in alphas:
        sa = get(a)
        ctx.ev()
        if sa.nspin != nspin or (nspin == 1 and sa.system_down is not sa.system_up):
            ctx.violation("SystemInterpolatorSOC:nspin", f"nspin={sa.nspin} expected {nspin}", wit)
    ks = rng.uniform(-1, 1, (2, 3))
    lat_scale = np.mean(np.linalg.norm(lattice, axis=1))
    quantities = ["energy", "band_gradients", "berry_curvature_internal_terms", "spin"]
    for a, sref, info in ((0.0, s0, info0), (1.0, s1, info1)):
        compare_k(ctx, get(a), sref, ks, quantities, wit, f"SOC.interpolate({int(a)})", gen_soc.soc_bands_ref(info, ks),
                  lat_scale, centres_differ and a == 1.0, 1e-3)
        ctx.count(f"soc_endpoint_alpha{int(a)}")
    # mid point: spectrum of the mixed system from the harness (H is affine in alpha)
    a = alphas[3]
    Hmix = (1 - a) * gen_soc.soc_H_ref(info0, ks) + a * gen_soc.soc_H_ref(info1, ks)
    Emix = np.linalg.eigvalsh(0.5 * (Hmix + np.conj(np.swapaxes(Hmix, 1, 2))))
    import wannierberri as wb
    for k, e in zip(ks, Emix):
        E = wb.evaluate_k(get(a), k=k, quantities=["energy"])
        ctx.close("SOC.interpolate(alpha):energy!=mixed_reference", E, e, rtol=RTOL, scale=max(np.abs(e).max(), 1.0),
                  what=f"spectrum at alpha={a:.3f}", witness=wit)
    ctx.count(f"soc_relation_{relation}")
    ctx.count("centres_" + centre_mode)
    ctx.nontrivial(("SOC", relation, nspin, nw, centre_mode, info0["rmode"], info1["rmode"]))
    ctx.sample(wit)


def case(ctx, rng, idx, state):
    if idx % 3 == 2:
        case_soc(ctx, rng, idx)
    else:
        case_R(ctx, rng, idx)


if __name__ == "__main__":
    harness.main(
        PROP, "exploration", case, setup_fn=setup,
        tiers=dict(quick=dict(cases=408, shards=8, time=900), thorough=dict(cases=8000, shards=16, time=3000)),
        rule="pairs of random Hermitian systems on one random lattice (1-4 WFs) with R sets equal / permuted / nested / "
             "overlapping (cycled), matrix sets {Ham},{Ham,AA},{Ham,AA,BB},{Ham,AA,SS} with an extra key in one of them "
             "in half of the cases, equal, different or slightly different (1e-8..1e-3) centres, use_pointgroup in {1,0,-1}; every third case a pair of "
             "SystemSOC (nspin 1/2, SOC matrices on up/union/own R sets); alpha in {0,1,0.5} + random in [-1,2]. "
             "A case is distinct by (kind, relation, num_wann, matrix sets, centre mode, pointgroup option / SOC R modes)",
        assumptions=["endpoints compared through evaluate_k of the interpolated and of the original system (metamorphic) "
                     "and against the harness diagonalisation of the original matrices",
                     "Berry curvature / gradients / spin compared only where the endpoint levels are separated by > 1e-3 "
                     "of the band scale (tie guard); Berry curvature scale floored by (lattice constant)^2",
                     "real-space oracle (1-alpha)X0[R]+alpha X1[R] from the original systems, matched by R"],
        required_counters=("endpoint_alpha0", "endpoint_alpha1", "soc_endpoint_alpha0", "soc_endpoint_alpha1",
                           "R_relation_equal", "R_relation_permuted", "R_relation_nested", "R_relation_overlapping",
                           "matrix_sets_differ", "centres_same", "centres_different", "centres_slightly_different"),
    )
