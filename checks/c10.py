"""C10 - adaptive refinement keeps the reported integral consistent (HIST + REF).

The real run() is driven with real calculators (and, in a third of the cases, additionally with the
pseudo-random stub so that the refinement history is adversarial).  After *every* iteration the result
that run() is about to save (captured at ResultDict.savedata) must equal  sum_K factor_K * result_K  with
result_K recomputed from scratch by the harness for the live K list; the saved npz files are reloaded
and compared; the returned value equals the last captured one.  Storage modes: memory, allow_restart,
dump_results, and adpt_num_iter=0 (results discarded).  In-situ monitors: exactly-once set_result,
weight conservation in divide/merge, never a set_result after a dump.
"""
import os
import shutil
import sys

sys.path.insert(0, os.path.dirname(os.path.dirname(os.path.abspath(__file__))))
from vlib import env, harness, gen_pg, monitors, runkit  # noqa: E402
import numpy as np  # noqa: E402

PROP = "C10"


def setup(ctx):
    env.import_wb()
    return {}


def case(ctx, rng, idx, state):
    import wannierberri as wb
    from wannierberri.grid import Grid
    from wannierberri.result import EnergyResult

    with_group = bool(rng.random() < 0.6)
    system, info = runkit.make_run_system(rng, with_group=with_group, sheared=bool(rng.random() < 0.2))
    pg = system.pointgroup
    if with_group:
        div = gen_pg.symmetric_sizes(pg, rng, nmax=3, mixed=info["mixed"] if rng.random() < 0.6 else ())
        fft = gen_pg.symmetric_sizes(pg, rng, nmax=3, mixed=info["mixed"] if rng.random() < 0.6 else ())
    else:
        div = np.array([int(x) for x in rng.integers(1, 4, size=3)])
        fft = np.array([int(x) for x in rng.integers(1, 4, size=3)])
    if np.prod(div) == 1:
        div = div + 1 if (not with_group or pg.symmetric_grid(div + 1)) else div
    if np.prod(div) > 12 or np.prod(fft) > 12:
        raise harness.Skip("grid too large for the budget")
    tetra_grid = (idx % 6 == 2) and not with_group
    if tetra_grid:
        # tetrahedral grid (refined through KpointBZtetra.divide): the bookkeeping identity is the same
        from wannierberri.grid import GridTetra
        fft = np.array([int(x) for x in rng.integers(1, 3, size=3)])
        with env.quiet():
            grid = GridTetra(system, length=float(rng.uniform(3, 8)), NKFFT=fft.copy())
        info = dict(info, grid="GridTetra")
        ctx.count("tetrahedral_grid_cases")
    else:
        grid = Grid(system, NKdiv=div, NKFFT=fft)
        if not (np.all(grid.div == div) and np.all(grid.FFT == fft)):
            raise harness.Skip("grid adjusted")
    use_irred = bool(with_group and rng.random() < 0.8)
    symmetrize = use_irred or bool(rng.random() < 0.3)
    if tetra_grid:
        symmetrize = False
    storage = ["memory", "allow_restart", "dump_results", "discard"][int(rng.integers(4))]
    niter = 0 if storage == "discard" else int(rng.integers(1, 6 if ctx.thorough else 4))
    adpt_mesh = int(rng.integers(2, 4))
    adpt_fac = int(rng.integers(1, 5))
    Ef = runkit.fermi_grid(rng, system)
    calcs = runkit.make_calculators(rng, system, Ef)
    adversarial = rng.random() < 0.35
    if adversarial:
        calcs["stub"] = monitors.make_stub_calculator(salt=int(rng.integers(1 << 30)))
    deep = (idx % 6 == 5) and not tetra_grid
    if deep:
        # deep history: only the stub, which makes deeper cells look more important, so that the same region is refined
        # again and again and K-point weights become tiny (1/(N*mesh^(3L)))
        calcs = {"stub_deep": monitors.make_stub_calculator(salt=int(rng.integers(1 << 30)), level_boost=100.0)}
        use_irred = False
        symmetrize = False
        storage = ["memory", "allow_restart", "dump_results"][int(rng.integers(3))]
        adpt_mesh = int(rng.integers(3, 5))
        adpt_fac = 1
        niter = int(rng.integers(6, 9))
    wit = dict(info, NKdiv=div, NKFFT=fft, use_irred_kpt=use_irred, symmetrize=symmetrize, storage=storage,
               adpt_num_iter=niter, adpt_mesh=adpt_mesh, adpt_fac=adpt_fac, calculators=sorted(calcs), Efermi=Ef)

    mon = monitors.RunMonitor()
    live = {}
    cache = {}
    captured = []
    hist = []

    def before(K_list, it):
        live["K_list"] = K_list

    def on_save(resdict, i_iter):
        K_list = live["K_list"]
        expected, scale, nalive = runkit.weighted_sum(system, grid, calcs, K_list, symmetrize, cache=cache)
        hist.append(dict(iteration=i_iter, nK=len(K_list), alive=nalive))
        for key in calcs:
            ctx.close("running_result!=sum_K_factor*result_K", resdict.results[key].data, expected.results[key].data,
                      rtol=1e-9, scale=scale[key], what=f"iteration {i_iter} key {key}", witness=dict(case=wit, history=list(hist)))
        captured.append((i_iter, {k: np.array(resdict.results[k].data) for k in calcs}, scale))

    mon.before_process.append(before)
    mon.on_savedata.append(on_save)
    tmp = os.path.join(env.WORK, f"c10-{os.getpid()}-{idx}")
    os.makedirs(tmp, exist_ok=True)
    try:
        with monitors.chdir(tmp), mon:
            kw = dict(allow_restart=(storage == "allow_restart"), dump_results=(storage == "dump_results"),
                      Klist_part=int(rng.choice([1, 2, 3, 7, 10, 1000])))
            res = wb.run(system, grid, calcs, adpt_num_iter=niter, adpt_mesh=adpt_mesh, adpt_fac=adpt_fac, use_irred_kpt=use_irred,
                         symmetrize=symmetrize, parallel=False, fout_name="c10", file_Klist_path=os.path.join(tmp, "klist"),
                         print_progress_step_time=1e9, **kw)
        mon.flush_to(ctx, witness=wit)
        # ---- continue from an earlier completed iteration (restart_iteration=j): the weights of stored points change while possibly
        # nothing new is evaluated (re-created children are absorbed by the stored ones) - the same identity must hold
        if storage in ("allow_restart", "dump_results") and niter >= 2 and not deep:
            j = int(rng.integers(0, niter))
            mon2 = monitors.RunMonitor()
            live2, cache2, hist2 = {}, {}, []
            mon2.before_process.append(lambda K_list, it: live2.__setitem__("K_list", K_list))

            def on_save2(resdict, i_iter):
                expected, scale, nalive = runkit.weighted_sum(system, grid, calcs, live2["K_list"], symmetrize, cache=cache2)
                hist2.append(dict(iteration=i_iter, nK=len(live2["K_list"]), alive=nalive))
                for key in calcs:
                    ctx.close("after_restart_from_earlier_iteration:running_result!=sum_K_factor*result_K", resdict.results[key].data,
                              expected.results[key].data, rtol=1e-9, scale=scale[key], what=f"restart_iteration={j} iteration {i_iter} key {key}",
                              witness=dict(case=wit, restart_iteration=j, history=list(hist2)))
            mon2.on_savedata.append(on_save2)
            with monitors.chdir(tmp), mon2:
                wb.run(system, grid, calcs, adpt_num_iter=niter - j, adpt_mesh=adpt_mesh, adpt_fac=adpt_fac, use_irred_kpt=use_irred,
                       symmetrize=symmetrize, parallel=False, fout_name="c10r", file_Klist_path=os.path.join(tmp, "klist"), restart=True,
                       restart_iteration=j, print_progress_step_time=1e9, **kw)
            for mech, msg, ww in mon2.violations:
                ctx.violation(mech, msg, dict(monitor_witness=ww, case=wit, restart_iteration=j))
            ctx.count("restart_from_earlier_iteration_histories")
        if len(captured) != niter + 1:
            ctx.violation("savedata_not_called_once_per_iteration", f"{len(captured)} captures for {niter + 1} iterations", wit)
        if captured:
            it_last, last, scale = captured[-1]
            for key in calcs:
                ctx.close("returned_result!=last_saved_result", res.results[key].data, last[key], rtol=1e-12, scale=scale[key],
                          what=f"key {key}", witness=wit)
        # saved files of every iteration
        for i_iter, data, scale in captured:
            for key, c in calcs.items():
                if "bin" not in getattr(c, "save_mode", ""):
                    continue
                f = os.path.join(tmp, f"c10-{key}_iter-{i_iter:04d}.npz")
                ctx.ev()
                if not os.path.exists(f):
                    ctx.violation("saved_file_missing", os.path.basename(f), wit)
                    continue
                r = EnergyResult.from_npz(f)
                ctx.close("saved_file!=reported_result", r.data, data[key], rtol=1e-12, scale=scale[key], what=f"{os.path.basename(f)}", witness=wit)
                ctx.count("saved_files_reloaded")
    finally:
        shutil.rmtree(tmp, ignore_errors=True)
    merged = mon.counters.get("points_merged[run]", 0) + mon.counters.get("points_merged[divide]", 0)
    ndiv = mon.counters.get("divide_calls", 0)
    if ndiv > 0 or storage == "discard":
        ctx.nontrivial((info["group"], info["tr"], tuple(div.tolist()), tuple(fft.tolist()), use_irred, symmetrize, storage, niter, adpt_mesh, adpt_fac,
                        tuple(sorted(calcs))))
    ctx.count(f"storage_{storage}")
    ctx.count("histories_with_merges", int(merged > 0))
    ctx.count("adversarial_histories", int(adversarial))
    ctx.count("deep_histories", int(deep))
    alive = [float(K.factor) for K in live.get("K_list", []) if K.factor > 0]
    if alive and min(alive) < 1e-8:
        ctx.count("histories_reaching_weights_below_1e-8")
    ctx.sample(dict(group=info["group"], tr=info["tr"], NKdiv=div, NKFFT=fft, use_irred_kpt=use_irred, storage=storage, adpt_mesh=adpt_mesh,
                    adpt_fac=adpt_fac, calculators=sorted(calcs), history=hist, divides=ndiv, merged=merged,
                    events_sample=mon.events[:6]))


if __name__ == "__main__":
    harness.main(
        PROP, "fault_enumeration", case, setup_fn=setup,
        tiers=dict(quick=dict(cases=48, shards=8, time=900), thorough=dict(cases=900, shards=16, time=3000)),
        rule="generic Hermitian systems (2-3 WFs, optional AA/SS) with or without a declared (magnetic) point group, random symmetric NKdiv/NKFFT, "
             "adpt_num_iter 1-5, adpt_mesh 2-3, adpt_fac 1-4, irreducible or full, storage in {memory, allow_restart, dump_results, discard}, "
             "1-4 real static calculators (tetra on/off) plus a pseudo-random stub in a third of the cases; non-trivial = at least one cell divided "
             "(or results discarded); distinct by the full parameter tuple",
        assumptions=["per-K results recomputed by the harness with the same calculators on fresh data objects",
                     "tolerance 1e-9 of sum_K |factor_K| max|result_K| (natural scale; never the judged value itself)"],
        required_counters=("mon:divide_calls", "storage_memory", "storage_allow_restart", "storage_dump_results", "storage_discard",
                           "saved_files_reloaded", "mon:dump_result_calls", "mon:clear_result_calls", "histories_reaching_weights_below_1e-8",
                           "restart_from_earlier_iteration_histories"),
    )
