"""C30 - grid tabulation covers every grid point with its own values (REF).

run(TabulatorAll(mode='grid')) on NKdiv x NKFFT factorisations of a grid N, with band subsets, with and
without irreducible k-points (systems that really have the symmetry: cubic O_h x T real isotropic
hoppings, real hoppings = time reversal only, H(R)=H(-R) = inversion only), must return Prod(N) points
in C order and get_data(q)[ix,iy,iz] must equal the evaluation of the point (ix/Nx,iy/Ny,iz/Nz) alone
(wannierberri.evaluate_k with freshly built tabulators; energies also against an independent
diagonalisation).  Component extraction (TABresult.get_data(component=...), K__Result.get_component,
kbandresult.get_component) for x,y,z / xy.. / xyz.. strings in any case, 'trace', 'norm', 'sq' and index
tuples is compared with plain numpy indexing on the stored tensor for ranks 0-3.
"""
import itertools
import os
import shutil
import sys
import tempfile
import warnings

sys.path.insert(0, os.path.dirname(os.path.dirname(os.path.abspath(__file__))))
from vlib import env, harness, gen_systems  # noqa: E402
import numpy as np  # noqa: E402

PROP = "C30"
GAP_GUARD = 1e-3
RANK = dict(Energy=0, vel=1, bc=1, bc_int=1, im=2, dbc=2, d3=3, spin=1, dspin=2)
NATURAL = dict(Energy=0, vel=1, bc=2, bc_int=2, im=2, dbc=3, d3=3, spin=0, dspin=1)  # powers of the lattice constant
XYZ = "xyz"
PENDING = os.environ.get("VERIF_C30_PENDING", "") == "1"  # classes that fire on the unchanged tree (reported findings)


def setup(ctx):
    wb = env.import_wb()
    os.makedirs(os.path.join(env.WORK, "c30"), exist_ok=True)
    return dict(wb=wb, pg={})


def fresh_tabulators(tab, names, ibands, has_AA, opts=None):
    ib = None if ibands is None else np.array(ibands)
    noext = {} if has_AA else {"external_terms": False}
    o = dict(opts or {})
    mk = dict(
        Energy=lambda: tab.Energy(ibands=ib, **o),
        vel=lambda: tab.Velocity(ibands=ib, **o),
        bc=lambda: tab.BerryCurvature(ibands=ib, kwargs_formula=dict(noext), **o),
        bc_int=lambda: tab.BerryCurvature(ibands=ib, kwargs_formula={"external_terms": False}, **o),
        im=lambda: tab.InvMass(ibands=ib, **o),
        dbc=lambda: tab.DerBerryCurvature(ibands=ib, kwargs_formula=dict(noext), **o),
        d3=lambda: tab.Der3E(ibands=ib, **o),
        spin=lambda: tab.Spin(ibands=ib, **o),
        dspin=lambda: tab.DerSpin(ibands=ib, **o),
    )
    return {n: mk[n]() for n in names}


def divisor_pairs(n):
    return [(d, n // d) for d in range(1, n + 1) if n % d == 0]


# ------------------------------------------------------------------ systems with a real symmetry ---------

def cubic_system(rng, cache):
    """simple cubic, 1-2 s-like orbitals on O_h sites, real hoppings depending only on the distance"""
    a = float([2.7, 3.4, 4.3, 5.1][int(rng.integers(4))])  # few values: the 96-element group is built once per value
    nw = int(rng.integers(1, 3))
    cent = np.zeros((nw, 3))
    if nw == 2 and rng.random() < 0.6:
        cent[1] = 0.5
    decay = float(rng.uniform(0.5, 0.9))
    Rs = np.array(list(itertools.product(range(-2, 3), repeat=3)))
    amp = {}
    Ham = np.zeros((len(Rs), nw, nw))
    for iR, R in enumerate(Rs):
        for i in range(nw):
            for j in range(nw):
                d2 = float(np.sum((R + cent[j] - cent[i]) ** 2))
                if d2 > 1.5 ** 2 + 1e-9:
                    continue
                key = (min(i, j), max(i, j), round(d2, 6))
                if key not in amp:
                    amp[key] = float(rng.normal()) * np.exp(-np.sqrt(d2) / decay) + (
                        float(rng.normal()) * 1.0 if d2 < 1e-12 and i == j else 0.0)
                Ham[iR, i, j] = amp[key]
    keep = np.any(Ham != 0, axis=(1, 2)) | np.all(Rs == 0, axis=1)
    s = gen_systems.make_system(np.eye(3) * a, Rs[keep], dict(Ham=Ham[keep]), cent)
    if a not in cache:
        s.set_pointgroup(symmetry_gen=["C4z", "C4x", "Inversion", "TimeReversal"])
        cache[a] = s.pointgroup
    else:
        s.set_pointgroup(pointgroup=cache[a])
    return s


def tr_system(rng):
    """generic lattice and centres, real hoppings: time reversal is the only symmetry"""
    nw = int(rng.integers(1, 5))
    lattice = gen_systems.random_lattice(rng)
    iR = gen_systems.symmetric_R_set(rng, radius=rng.uniform(1.0, 2.0))
    mats = gen_systems.random_matrices(rng, iR, lattice, nw, keys=("Ham",))
    mats["Ham"] = mats["Ham"].real.astype(complex)
    s = gen_systems.make_system(lattice, iR, mats, gen_systems.random_centers(rng, nw, "random"))
    s.set_pointgroup(symmetry_gen=["TimeReversal"])
    return s


def inv_system(rng):
    """generic lattice, all centres on one inversion centre, H(R)=H(-R) complex: inversion is the only symmetry"""
    nw = int(rng.integers(1, 5))
    lattice = gen_systems.random_lattice(rng)
    iR = gen_systems.symmetric_R_set(rng, radius=rng.uniform(1.0, 2.0))
    mats = gen_systems.random_matrices(rng, iR, lattice, nw, keys=("Ham",))
    X = mats["Ham"]
    index = {tuple(R): i for i, R in enumerate(iR.tolist())}
    minus = np.array([index[tuple(-x for x in R)] for R in iR.tolist()])
    X = 0.5 * (X + X[minus])
    X = gen_systems.hermitize(iR, X)
    c0 = np.array([0.0, 0.5])[rng.integers(2, size=3)]
    s = gen_systems.make_system(lattice, iR, dict(Ham=X), np.tile(c0, (nw, 1)))
    s.set_pointgroup(symmetry_gen=["Inversion"])
    return s


# ------------------------------------------------------------------ components ---------------------------

def numpy_component(T, rank, comp):
    """the algebraic operation on a tensor whose last `rank` axes are cartesian"""
    if comp is None:
        return T
    if isinstance(comp, tuple):
        return T[(Ellipsis,) + tuple(comp)] if rank > 0 else T
    c = comp.lower()
    if c == "trace":
        return sum(T[(Ellipsis,) + (i,) * rank] for i in range(3))
    if c == "norm":
        return np.sqrt(np.sum(T ** 2, axis=-1))
    if c == "sq":
        return np.sum(T ** 2, axis=-1)
    return T[(Ellipsis,) + tuple(XYZ.index(x) for x in c)]


def gen_components(rng, rank, n=5):
    """component specifications valid for a tensor of this rank"""
    out = []
    if rank == 0:
        return [None]
    for _ in range(n):
        idx = tuple(int(x) for x in rng.integers(3, size=rank))
        u = rng.random()
        if u < 0.4:
            out.append(idx)
        else:
            s = "".join(XYZ[i] for i in idx)
            out.append(s.upper() if rng.random() < 0.3 else s)
    if rank == 1:
        out += ["norm", "sq", "x", "y", "z"]
    if rank >= 2:
        out += ["trace", "TRACE" if rng.random() < 0.3 else "trace"]
        # an off-diagonal pair in both orders (tuple and string)
        i, j = (int(x) for x in rng.choice(3, 2, replace=False))
        rest = tuple(int(x) for x in rng.integers(3, size=rank - 2))
        out += [(i, j) + rest, (j, i) + rest, XYZ[i] + XYZ[j] + "".join(XYZ[k] for k in rest)]
    return out


def direct_component_tests(ctx, rng):
    from wannierberri.result.kbandresult import get_component, KBandResult
    for rank in (0, 1, 2, 3):
        lead = tuple(int(x) for x in rng.integers(1, 5, size=int(rng.integers(2, 5))))
        T = rng.normal(size=lead + (3,) * rank)
        for comp in gen_components(rng, rank, n=4):
            exp = numpy_component(T, rank, comp)
            got = get_component(T, rank, comp)
            exact = not (isinstance(comp, str) and comp.lower() in ("norm", "sq", "trace"))
            ctx.close("kbandresult.get_component!=numpy_on_tensor", got, exp, rtol=0 if exact else 1e-13,
                      what=f"rank {rank} component {comp!r}", witness=dict(rank=rank, component=comp, shape=T.shape))
            ctx.count(f"component_direct_rank{rank}")
            if isinstance(comp, tuple) and rank >= 2 and len(set(comp[:2])) == 2:
                ctx.count("tuple_component_offdiagonal")
        # through the result class (k, band, cartesian...)
        T2 = rng.normal(size=(int(rng.integers(1, 6)), int(rng.integers(1, 5))) + (3,) * rank)
        kb = KBandResult(T2.copy())
        for comp in gen_components(rng, rank, n=2):
            exp = numpy_component(T2, rank, comp)
            exact = not (isinstance(comp, str) and comp.lower() in ("norm", "sq", "trace"))
            ctx.close("KBandResult.get_component!=numpy_on_tensor", kb.get_component(comp), exp,
                      rtol=0 if exact else 1e-13, what=f"rank {rank} component {comp!r}",
                      witness=dict(rank=rank, component=comp, shape=T2.shape))
        ctx.ev()
        cl = kb.get_component_list()
        expl = ["".join(s) for s in itertools.product(XYZ, repeat=rank)] if rank > 0 else [None]
        if rank >= 2:
            expl.append("trace")
        if cl != expl:
            ctx.violation("KBandResult.get_component_list", f"rank {rank}: {cl} expected {expl}", dict(rank=rank))


def component_tests_on_result(ctx, rng, res, names, nb, wit):
    """TABresult.get_data(quantity, iband, component) vs numpy on the stored tensor"""
    N = tuple(int(x) for x in res.grid)
    for q in names:
        rank = RANK[q]
        stored = np.asarray(res.results[q].data)  # (nk, nb, 3,...)
        full = stored.reshape(N + stored.shape[1:])  # C order over the grid
        ibsel = [None, int(rng.integers(nb)), [int(x) for x in rng.integers(nb, size=int(rng.integers(1, nb + 2)))]]
        for comp in gen_components(rng, rank, n=3):
            ib = ibsel[int(rng.integers(3))]
            got = res.get_data(q, iband=ib, component=comp)
            sel = np.arange(nb) if ib is None else ib
            exp = numpy_component(full[:, :, :, sel], rank, comp)
            exact = not (isinstance(comp, str) and comp.lower() in ("norm", "sq", "trace"))
            ctx.close("TABresult.get_data(component)!=numpy_on_stored_tensor", got, exp, rtol=0 if exact else 1e-13,
                      what=f"{q} rank {rank} component {comp!r} iband {ib}", witness=dict(wit, quantity=q, component=comp,
                                                                                        iband=ib))
            ctx.count(f"component_rank{rank}")
            if isinstance(comp, tuple) and rank >= 2 and len(set(comp[:2])) == 2:
                ctx.count("tuple_component_offdiagonal")


# ------------------------------------------------------------------ m-fold degenerate models ------------

def copies_system(rng):
    """m = 2 or 3 decoupled identical copies of a generic model (H x 1_m, copies interlaced): every level is exactly m-fold
    degenerate, and the group-averaged value a tabulator must return for band b is the value of band b // m of the single model"""
    nw1 = int(rng.integers(1, 3))
    m = int(rng.integers(2, 4))
    single = gen_systems.herm_system(rng, num_wann=nw1, radius=rng.uniform(1.0, 2.0),
                                     centers=["random", "outside", "zero"][int(rng.integers(3))])
    iR = single.rvec.iRvec
    H = single.get_R_mat("Ham")
    Hm = np.einsum("rab,ij->raibj", H, np.eye(m)).reshape(len(iR), nw1 * m, nw1 * m)
    cm = np.repeat(single.wannier_centers_red, m, axis=0)
    return gen_systems.make_system(single.real_lattice, iR, dict(Ham=Hm), cm), single, m


# ------------------------------------------------------------------ collection of hand-made results ------

def handmade_collection_tests(ctx, rng):
    """TABresult.find_grid / to_grid / self_to_grid / __add__ / get_data on results assembled by hand: the grid points arrive in
    random order, in several chunks that are added, shifted by reciprocal lattice vectors, with rounding noise, some of them twice;
    the slot (ix,iy,iz) must hold the values given for the point (ix/Nx,iy/Ny,iz/Nz)."""
    from wannierberri.result import KBandResult, TABresult
    cls = int(rng.integers(5))
    if cls == 0:  # one long direction (>= 100 points, incl. sizes with fl(j/N)*N = j - eps)
        n = int(rng.choice([100, 101, 107, 128, 22 * 5, 23 * 5, 49 * 3, 150]))
        N = [1, 1, 1]
        N[int(rng.integers(3))] = n
        if rng.random() < 0.5:
            N[int(rng.integers(3))] = max(N[int(rng.integers(3))], int(rng.integers(1, 4)))
        ctx.count("handmade_size_ge100")
    elif cls == 1:  # directions of size one
        N = [int(x) for x in rng.integers(1, 9, size=3)]
        N[int(rng.integers(3))] = 1
        if rng.random() < 0.3:
            N[int(rng.integers(3))] = 1
    else:  # anisotropic, primes, 22/23/26/49
        N = [int(x) for x in rng.choice([1, 2, 3, 4, 5, 6, 7, 8, 9, 11, 13, 22, 23, 26, 49], size=3)]
        while np.prod(N) > 3000:
            N[int(np.argmax(N))] = int(rng.integers(1, 5))
    N = tuple(N)
    n = int(np.prod(N))
    nb = int(rng.integers(1, 4))
    pts = np.array(list(itertools.product(*[np.arange(x) for x in N])), dtype=float) / np.array(N)[None, :]
    data = dict(Energy=rng.normal(size=(n, nb)), V=rng.normal(size=(n, nb, 3)), T=rng.normal(size=(n, nb, 3, 3)))
    order = rng.permutation(n)
    ndup = int(rng.integers(0, 4)) if n > 1 else 0
    if ndup:
        order = np.concatenate([order, rng.integers(n, size=ndup)])[rng.permutation(n + ndup)]
        ctx.count("handmade_duplicates")
    noise = float(rng.choice([0.0, 1e-12, 1e-9, 1e-7]))
    shifts = rng.integers(-2, 3, size=(len(order), 3)) if rng.random() < 0.7 else np.zeros((len(order), 3), dtype=int)
    dk = noise * rng.uniform(-1, 1, size=(len(order), 3))
    if not PENDING:
        # finding 3 (pending): in a direction with a single point (N_i = 1) a coordinate of -1e-12 is stored as 1 - 1e-12 and
        # find_grid returns 1/1e-12 for that direction; until decided, directions of size one get no negative noise
        dk = np.where(np.array(N)[None, :] == 1, np.abs(dk), dk)
    k = pts[order] + shifts + dk
    if noise > 0:
        ctx.count("handmade_noisy_kpoints")
    ncut = int(rng.integers(0, min(4, len(order))))
    cuts = sorted(int(x) for x in rng.choice(np.arange(1, len(order)), size=ncut, replace=False)) if ncut else []
    B = rng.normal(size=(3, 3))
    tot = None
    for part in np.split(np.arange(len(order)), cuts):
        r = TABresult(k[part], recip_lattice=B,
                      results={q: KBandResult(np.array(v[order[part]])) for q, v in data.items()})
        tot = r if tot is None else tot + r
    wit = dict(N=N, nband=nb, noise=noise, duplicates=ndup, chunks=len(cuts) + 1, shifted=bool(np.any(shifts)))
    ctx.ev()
    g = tuple(int(x) for x in tot.find_grid)
    if g != N:
        ctx.violation("TABresult.find_grid!=N(handmade)", f"find_grid {g} expected {N}", wit)
        return
    with warnings.catch_warnings():
        warnings.simplefilter("ignore")
        tot.self_to_grid()
    ctx.close("TABresult.kpoints!=grid_in_C_order(handmade)", tot.kpoints, pts, rtol=0, atol=1e-12, witness=wit)
    for q, v in data.items():
        ctx.close("to_grid(handmade)[slot]!=values_given_for_that_point", tot.results[q].data, v, rtol=0, atol=1e-13,
                  what=f"quantity {q}", witness=wit)
    ctx.count("handmade_collection")
    # get_data on the grid: forms of iband
    ibl = [int(x) for x in rng.integers(nb, size=int(rng.integers(1, nb + 2)))]
    ib = [None, int(rng.integers(nb)), ibl, tuple(ibl), np.array(ibl)][int(rng.integers(5))]
    sel = np.arange(nb) if ib is None else (list(ib) if isinstance(ib, tuple) else ib)
    ctx.count(f"iband_form_{type(ib).__name__}")
    comp = [(0, 1), "yx", "trace", (2, 2)][int(rng.integers(4))]
    ctx.close("TABresult.get_data(handmade)!=numpy_on_given_values", tot.get_data("T", iband=ib, component=comp),
              numpy_component(data["T"].reshape(N + (nb, 3, 3))[:, :, :, sel], 2, comp), rtol=0, atol=1e-13,
              what=f"T component {comp!r} iband {ib!r}", witness=wit)
    ctx.close("TABresult.get_data(handmade)!=numpy_on_given_values", tot.get_data("Energy", iband=ib),
              data["Energy"].reshape(N + (nb,))[:, :, :, sel], rtol=0, atol=1e-13, what=f"Energy iband {ib!r}", witness=wit)
    # a second collection of the collected object changes nothing
    before = {q: np.array(tot.results[q].data) for q in data}
    with warnings.catch_warnings():
        warnings.simplefilter("ignore")
        tot.self_to_grid()
    ok = tuple(int(x) for x in tot.grid) == N and all(np.array_equal(before[q], tot.results[q].data) for q in data) \
        and np.allclose(tot.kpoints, pts, rtol=0, atol=1e-12)
    ctx.ev()
    ctx.count("idempotent_regrid")
    if not ok:
        ctx.violation("self_to_grid_twice!=once", "the second self_to_grid changed the collected result", wit)
    # collection on a coarser grid (documented: points that are not on the requested grid are skipped)
    divs = [[d for d in range(1, x + 1) if x % d == 0] for x in N]
    M = tuple(int(d[int(rng.integers(len(d)))]) for d in divs)
    if M != N:
        with warnings.catch_warnings():
            warnings.simplefilter("ignore")
            sub = tot.to_grid(np.array(M), order="C")
        step = tuple(a // b for a, b in zip(N, M))
        for q, v in data.items():
            full = v.reshape(N + v.shape[1:])[::step[0], ::step[1], ::step[2]]
            ctx.close("to_grid(coarser)[slot]!=values_given_for_that_point", np.asarray(sub.get_data(q)), full, rtol=0,
                      atol=1e-13, what=f"quantity {q} grid {M} from {N}", witness=dict(wit, M=M))
        ctx.count("handmade_coarser_grid")
    if PENDING:
        # finding 2: order='F' lists the k-points in Fortran order but keeps the values in C order
        with warnings.catch_warnings():
            warnings.simplefilter("ignore")
            rF = tot.to_grid(np.array(N), order="F")
        slot = np.rint(rF.kpoints * np.array(N)).astype(int) % np.array(N)
        exp = data["Energy"].reshape(N + (nb,))[slot[:, 0], slot[:, 1], slot[:, 2]]
        ctx.close("to_grid(order=F):row_i!=values_of_kpoints_i", rF.results["Energy"].data, exp, rtol=0, atol=1e-13, witness=wit)
        ctx.count("pending_order_F")


# ------------------------------------------------------------------ written files ------------------------

def parse_frmsf(txt):
    lines = txt.split("\n")
    N = tuple(int(x) for x in lines[0].split())
    nb = int(lines[2])
    B = np.array([[float(x) for x in ln.split()] for ln in lines[3:6]])
    vals = np.array([float(x) for x in lines[6:] if x.strip() != ""])
    blocks = vals.reshape((-1, nb) + N)  # block, band, grid in C order
    return N, lines[1].strip(), nb, B, [np.moveaxis(b, 0, -1) for b in blocks]


def check_frmsf_text(ctx, txt, N, E, X, B, wit, what):
    """text of a FermiSurfer file vs the arrays E[ix,iy,iz,ib] (already shifted by efermi) and X[ix,iy,iz,ib] (or None)"""
    ctx.ev()
    try:
        N2, one, nb2, B2, blocks = parse_frmsf(txt)
    except Exception as err:  # malformed text
        ctx.violation("frmsf_text_malformed", f"{what}: {type(err).__name__} {err}", wit)
        return
    if N2 != tuple(N) or one != "1" or nb2 != E.shape[3] or len(blocks) != (1 if X is None else 2):
        ctx.violation("frmsf_header!=grid_nband", f"{what}: header {N2},{one},{nb2}, {len(blocks)} blocks; expected {N}, 1, "
                                                  f"{E.shape[3]}", wit)
        return
    ctx.close("frmsf_recip_lattice!=system", B2, B, rtol=0, atol=0.6e-8, what=what, witness=wit)
    ctx.close("frmsf_energies!=get_data_C_order_band_major", blocks[0], E, rtol=0, atol=0.6e-8, what=what, witness=wit)
    if X is not None:
        ctx.close("frmsf_values!=get_data_C_order_band_major", blocks[1], X, rtol=0, atol=0.6e-8, what=what, witness=wit)


def written_files_tests(ctx, rng, res, names, fout, suffix, save_mode, wit):
    """files written by run() (npz / FermiSurfer text) vs the oracle-checked arrays of get_data"""
    sfx = ("-" + suffix) if suffix else ""
    N = tuple(int(x) for x in res.grid)
    E = np.asarray(res.get_data("Energy"))
    B = np.asarray(res.recip_lattice)
    fnpz = f"{fout}-tabulate{sfx}.npz"
    if "bin" in save_mode:
        ctx.ev()
        if not os.path.exists(fnpz):
            ctx.violation("npz_file_missing", f"save_mode {save_mode!r}: {os.path.basename(fnpz)} not written", wit)
        else:
            with np.load(fnpz) as d:
                if sorted(d.files) != sorted(list(names) + ["recip_lattice"]):
                    ctx.violation("npz_file_keys", f"{sorted(d.files)} expected {sorted(names)} + recip_lattice", wit)
                else:
                    for q in names:
                        ctx.close("npz_file[q]!=get_data(q)", d[q], np.asarray(res.get_data(q)), rtol=0, atol=0,
                                  what=f"quantity {q}", witness=wit)
                    ctx.close("npz_file[recip_lattice]!=system", d["recip_lattice"], B, rtol=0, atol=0, witness=wit)
            ctx.count("npz_file_checked")
    elif os.path.exists(fnpz):
        ctx.ev()
        ctx.violation("npz_file_unrequested", f"save_mode {save_mode!r} wrote {os.path.basename(fnpz)}", wit)
    if "frmsf" in save_mode or "txt" in save_mode:
        for q in names:
            full = np.asarray(res.get_data(q))
            comps = ["".join(c) for c in itertools.product(XYZ, repeat=RANK[q])] + (["trace"] if RANK[q] >= 2 else [])
            if RANK[q] == 0:
                comps = [None]
            if len(comps) > 6:
                comps = [comps[int(i)] for i in rng.choice(len(comps), 6, replace=False)]
            for c in comps:
                f = f"{fout}-tabulate_{q}-{c}{sfx}.frmsf"
                if not os.path.exists(f):
                    ctx.ev()
                    ctx.violation("frmsf_file_missing", f"save_mode {save_mode!r}: {os.path.basename(f)} not written", wit)
                    continue
                with open(f) as fh:
                    txt = fh.read()
                check_frmsf_text(ctx, txt, N, E, numpy_component(full, RANK[q], c), B, dict(wit, quantity=q, component=c),
                                 f"file of {q}-{c}")
                ctx.count("frmsf_file_checked")
    # direct calls: fermiSurfer text with a Fermi level, a band selection and a component; npz -> frmsf converter
    from wannierberri.result.tabresult import npz_to_fermisurfer
    q = names[int(rng.integers(len(names)))]
    rank = RANK[q]
    comp = gen_components(rng, rank, n=1)[0]
    nb = E.shape[3]
    ib = [None, int(rng.integers(nb)), sorted(int(x) for x in rng.choice(nb, int(rng.integers(1, nb + 1)), replace=False))][
        int(rng.integers(3))]
    sel = np.arange(nb) if ib is None else ([ib] if isinstance(ib, int) else ib)
    ef = float(rng.normal())
    txt = res.fermiSurfer(quantity=q, component=comp, efermi=ef, npar=0, iband=ib)
    X = numpy_component(np.asarray(res.get_data(q)), rank, comp)
    check_frmsf_text(ctx, txt, N, E[:, :, :, sel] - ef, X[:, :, :, sel], B, dict(wit, quantity=q, component=comp, iband=ib,
                                                                                  efermi=ef), "fermiSurfer()")
    ctx.count("fermiSurfer_direct")
    txt = res.fermiSurfer(quantity=None, efermi=ef, npar=0, iband=ib)
    check_frmsf_text(ctx, txt, N, E[:, :, :, sel] - ef, None, B, dict(wit, iband=ib, efermi=ef), "fermiSurfer(quantity=None)")
    if "bin" in save_mode and os.path.exists(fnpz):
        comp2 = None if rank == 0 else comp
        txt = npz_to_fermisurfer(fnpz, quantity=q, component=comp2)
        check_frmsf_text(ctx, txt, N, E, X, B, dict(wit, quantity=q, component=comp2), "npz_to_fermisurfer()")
        ctx.count("npz_to_fermisurfer")


# ------------------------------------------------------------------ the case -----------------------------

def case(ctx, rng, idx, state):
    wb = state["wb"]
    from wannierberri.calculators import tabulate as tab
    from wannierberri.grid import Grid

    direct_component_tests(ctx, rng)

    handmade_collection_tests(ctx, rng)

    kind = ["generic", "generic", "generic", "generic", "generic", "cubic", "TR", "inv", "copies"][idx % 9]
    has_AA = False
    single, mult, opts = None, 1, {}
    periodic = (True, True, True)
    if kind == "generic":
        nw = int(rng.integers(1, 5))
        has_AA = bool(rng.random() < 0.4)
        has_SS = bool(rng.random() < 0.25)
        if has_SS:
            nw = 2 * int(rng.integers(1, 3))
        if rng.random() < 0.2:
            periodic = (True, True, False)
            ctx.count("system_2D")
        system = gen_systems.herm_system(rng, num_wann=nw, radius=rng.uniform(1.0, 2.2),
                                         keys=("Ham",) + (("AA",) if has_AA else ()) + (("SS",) if has_SS else ()),
                                         centers=["random", "outside", "zero"][int(rng.integers(3))],
                                         spinor=True if has_SS else None, periodic=periodic)
        system, hist = gen_systems.history_variant(rng, system, which=gen_systems.HISTORIES_NO_DISK[int(rng.integers(4))])
        ctx.count(f"history_{hist}")
        pool = ["vel", "bc", "im", "dbc", "d3"] + (["spin", "dspin"] if has_SS else [])
    elif kind == "cubic":
        system = cubic_system(rng, state["pg"])
        pool = ["vel", "im", "d3"]
    elif kind == "TR":
        system = tr_system(rng)
        pool = ["vel", "bc_int", "im", "dbc"]
    elif kind == "inv":
        system = inv_system(rng)
        pool = ["vel", "bc_int", "im", "dbc"]
    else:
        system, single, mult = copies_system(rng)
        pool = ["vel", "bc_int", "im", "dbc", "d3"]
        # documented grouping options of a calculator; 'all bands Kramers degenerate' is only true for two copies
        u = int(rng.integers(3))
        if u == 1:
            opts = dict(degen_thresh=float(10 ** rng.uniform(-7, -4)))
        elif u == 2 and mult == 2:
            opts = dict(degen_Kramers=True)
        ctx.count("grouping_option_" + ("default" if not opts else list(opts)[0]))
    nw = system.num_wann
    a0 = float(np.mean(np.linalg.norm(system.real_lattice, axis=1)))
    maxpts = 150 if ctx.thorough else 64
    if kind == "cubic":
        n = int(rng.choice([2, 3, 4, 5] + ([6] if ctx.thorough else [])))
        N = (n, n, n)
        facts = [((d,) * 3, (f,) * 3) for d, f in divisor_pairs(n)]
    else:
        while True:
            N = tuple(int(x) for x in rng.integers(1, 7, size=3))
            if not periodic[2]:
                N = (N[0], N[1], 1)
            if 2 <= int(np.prod(N)) <= maxpts:
                break
        facts = [tuple(zip(*c)) for c in itertools.product(*[divisor_pairs(n) for n in N])]
    nfmax = 6 if ctx.thorough else 3
    if len(facts) > nfmax:
        mixed = [f for f in facts if max(f[0]) > 1 and max(f[1]) > 1]
        chosen = [facts[int(i)] for i in rng.choice(len(facts), nfmax - 1, replace=False)]
        if mixed:
            chosen.append(mixed[int(rng.integers(len(mixed)))])
        facts = list(dict.fromkeys(chosen))
    names = ["Energy"] + [q for q in pool if rng.random() < 0.55]
    if len(names) == 1:
        names.append(pool[int(rng.integers(len(pool)))])
    ibands = None
    if nw > 1 and rng.random() < (0.6 if kind == "copies" else 0.4):
        nbs = int(rng.integers(1, nw))
        ibands = sorted(int(x) for x in rng.choice(nw, nbs, replace=False))
        u = rng.random()
        if u < 0.3 and nbs > 1:  # the same set in another order
            ibands = [ibands[int(i)] for i in rng.permutation(nbs)]
        elif u < 0.5:  # bands listed twice
            ibands = [ibands[int(i)] for i in rng.integers(nbs, size=nbs + int(rng.integers(1, 3)))]
    nb = nw if ibands is None else len(ibands)
    wit0 = dict(kind=kind, num_wann=nw, N=N, quantities=names, ibands=ibands, has_AA=has_AA, periodic=periodic, copies=mult,
                options=opts, real_lattice=system.real_lattice, nR=len(system.rvec.iRvec))

    # ---- the oracle: every grid point alone, in C order, ALL bands (a band selection is a selection of these columns); for the
    # m-fold degenerate models the point is evaluated on the single (non-degenerate) model: band b <-> band b // m
    pts = np.array([(i / N[0], j / N[1], k / N[2]) for i in range(N[0]) for j in range(N[1]) for k in range(N[2])])
    osys = system if single is None else single
    oracle = {q: [] for q in names}
    for k in pts:
        r = wb.evaluate_k(osys, k=tuple(float(x) for x in k), calculators=fresh_tabulators(tab, names, None, has_AA),
                          return_single_as_dict=True)
        for q in names:
            oracle[q].append(np.array(r[q].data[0]))
    bsel = np.arange(nw) if ibands is None else np.array(ibands)
    oracle = {q: np.array(v)[:, bsel // mult].reshape(N + (nb,) + (3,) * RANK[q]) for q, v in oracle.items()}
    if ibands is not None or single is not None:
        # evaluate_k of the system itself with the band selection and the options, at a few points
        for ip in rng.choice(len(pts), min(3, len(pts)), replace=False):
            r = wb.evaluate_k(system, k=tuple(float(x) for x in pts[ip]), return_single_as_dict=True,
                              calculators=fresh_tabulators(tab, names, ibands, has_AA, opts))
            i3 = np.unravel_index(int(ip), N)
            for q in names:
                if RANK[q] > 0 and nw // mult > 1 and np.diff(gen_systems.bands(osys, pts[ip:ip + 1])[0]).min() <= GAP_GUARD:
                    continue
                ref = oracle[q][i3]
                ctx.close("evaluate_k(ibands,options)!=evaluate_k(all bands)[ibands]", np.array(r[q].data[0]), ref,
                          rtol=1e-9 if RANK[q] < 2 else 1e-8, scale=float(np.abs(oracle[q]).max()), atol=1e-9 * a0 ** NATURAL[q],
                          what=f"quantity {q}", witness=dict(wit0, k=pts[ip]))
            ctx.count("point_with_ibands_vs_all_bands")
    Eall = gen_systems.bands(system, pts)
    Egap = gen_systems.bands(osys, pts)
    good = (np.ones(len(pts), dtype=bool) if Egap.shape[1] == 1 else (np.diff(Egap, axis=1).min(axis=1) > GAP_GUARD)).reshape(N)
    nbad = int((~good).sum())
    if nbad:
        ctx.count("points_excluded_small_gap", nbad)
    Eexp = (Eall if ibands is None else Eall[:, ibands]).reshape(N + (nb,))

    tmp = tempfile.mkdtemp(dir=os.path.join(env.WORK, "c30"))
    try:
        res = None
        tall = None
        for ifact, (div, fft) in enumerate(facts):
            if kind in ("generic", "copies"):
                irr = bool(rng.random() < 0.5)
            else:
                irr = bool(rng.random() < 0.8)
            # documented-equivalent flag sets: symmetrize is implied by use_irred_kpt; the generic models have no symmetry
            symm = bool(rng.random() < 0.7)
            if kind not in ("generic", "copies") and not irr:
                symm = True
            # only 'bin': with 'frmsf'/'txt' run() writes the text files through a multiprocessing pool of cpu_count processes per
            # band and file (numproc=None), which must not be started inside a shard; the text is judged through fermiSurfer(npar=0)
            save_mode = "bin"
            suffix = ["", "", "s1"][int(rng.integers(3))]
            fout = os.path.join(tmp, f"r{ifact}")
            wit = dict(wit0, NKdiv=div, NKFFT=fft, use_irred_kpt=irr, symmetrize=symm, save_mode=save_mode, suffix=suffix)
            grid = Grid(system, NKdiv=list(div), NKFFT=list(fft))
            if tall is not None and rng.random() < 0.35:
                ctx.count("tabulator_object_reused")  # the pack of tabulators of the previous factorisation, used once more
                tall.save_mode = save_mode
            else:
                form = int(rng.integers(3))
                ib_all = None if ibands is None else [list(ibands), tuple(ibands), np.array(ibands)][int(rng.integers(3))]
                if form == 0:
                    tabs = fresh_tabulators(tab, names, None, has_AA, opts)
                elif form == 1:  # the selection given to every tabulator and to the pack
                    tabs = fresh_tabulators(tab, names, ibands, has_AA, opts)
                    ctx.count("ibands_on_both_levels")
                else:  # 'Energy' is added by the pack
                    tabs = fresh_tabulators(tab, [q for q in names if q != "Energy"], None, has_AA, opts)
                    if opts:  # the automatically added Energy tabulator has default options: give the options through the others only when harmless
                        tabs = fresh_tabulators(tab, names, None, has_AA, opts)
                    else:
                        ctx.count("energy_added_by_pack")
                tall = tab.TabulatorAll(tabs, ibands=ib_all, mode=["grid", "GRID", "Grid"][int(rng.integers(3))],
                                        save_mode=save_mode)
            kw = {}
            if PENDING and rng.random() < 0.3:
                # finding 1: tabulation together with adaptive refinement
                kw = dict(adpt_num_iter=int(rng.integers(1, 3)), file_Klist_path=os.path.join(tmp, f"kl{ifact}"))
                ctx.count("pending_refinement")
            out = wb.run(system, grid, calculators={"tabulate": tall}, parallel=False, use_irred_kpt=irr, symmetrize=symm,
                         fout_name=fout, suffix=suffix, k_batch=int(rng.integers(1, 51)), **kw)
            res = out.results["tabulate"]
            ctx.count("use_irred_kpt" if irr else "no_irred_kpt")
            ctx.count("symmetrize_flag_on" if symm else "symmetrize_flag_off")
            ctx.count("factorisation_mixed" if (max(div) > 1 and max(fft) > 1) else (
                "factorisation_fft_only" if max(div) == 1 else "factorisation_div_only"))
            if ibands is not None:
                ctx.count("ibands_subset")
                if list(ibands) != sorted(ibands):
                    ctx.count("ibands_unsorted")
                if len(set(ibands)) < len(ibands):
                    ctx.count("ibands_repeated")
                if mult > 1 and len(set(b // mult for b in ibands)) * mult != len(set(ibands)):
                    ctx.count("ibands_cut_a_multiplet")
            ctx.count(f"kind_{kind}")
            if kind not in ("generic", "copies") and irr:
                ctx.count("symmetric_irreducible_run")
            # every point once, C order
            ctx.ev()
            if res.grid is None or tuple(int(x) for x in res.grid) != N:
                ctx.violation("TABresult.find_grid!=N", f"grid {res.grid} expected {N}", wit)
                continue
            ctx.close("TABresult.kpoints!=grid_in_C_order", np.asarray(res.kpoints), pts, rtol=0, atol=1e-12,
                      what="k-points of the tabulation", witness=wit)
            E = res.get_data("Energy")
            ctx.close("get_data(Energy)!=independent_diagonalisation", E, Eexp, rtol=1e-10, scale=np.abs(Eexp).max(),
                      atol=1e-12, what="Energy on the grid", witness=wit)
            ctx.count("energy_vs_diag")
            for q in names:
                got = np.asarray(res.get_data(q))
                ref = oracle[q]
                if got.shape != ref.shape:
                    ctx.ev()
                    ctx.violation("get_data[ix,iy,iz]!=evaluate_k(point)", f"{q}: shape {got.shape} expected {ref.shape}",
                                  wit)
                    continue
                sel = np.ones(N, dtype=bool) if RANK[q] == 0 else good
                if not np.any(sel):
                    continue
                sc = float(np.abs(ref[sel]).max())
                # derivative quantities carry 1/gap^n rounding amplification: one more decade of head room
                ctx.close("get_data[ix,iy,iz]!=evaluate_k(point)", got[sel], ref[sel], rtol=1e-9 if RANK[q] < 2 else 1e-8, scale=sc,
                          atol=1e-9 * a0 ** NATURAL[q], what=f"quantity {q}", witness=wit)
                ctx.count("grid_points_vs_evaluate_k", int(sel.sum()))
                ctx.count(f"quantity_rank{RANK[q]}")
                if mult > 1:
                    ctx.count("multiplet_vs_single_model", int(sel.sum()))
            written_files_tests(ctx, rng, res, names, fout, suffix, save_mode, wit)
            ctx.nontrivial((kind, nw, N, div, fft, ibands is None, irr, tuple(names)))
        if res is not None and res.grid is not None:
            component_tests_on_result(ctx, rng, res, names, nb, wit0)
    finally:
        shutil.rmtree(tmp, ignore_errors=True)
    ctx.sample(dict(wit0, factorisations=facts))


if __name__ == "__main__":
    harness.main(
        PROP, "exploration", case, setup_fn=setup,
        tiers=dict(quick=dict(cases=96, shards=8, time=900), thorough=dict(cases=1200, shards=16, time=3000)),
        rule="generic random Hermitian models (1-4 WFs, with/without AA/SS, centres random/outside/zero), and models with a "
             "real symmetry (simple cubic O_h x T with isotropic real hoppings; real hoppings = T only; H(R)=H(-R) = "
             "inversion only); grids N_i in 1..6 with 2<=Prod(N)<=64 (150 thorough), up to 3 (6) factorisations "
             "NKdiv x NKFFT per case incl. a mixed one, band subsets, use_irred_kpt on/off, tabulators of rank 0-3 "
             "(Energy, Velocity, BerryCurvature, InvMass, DerBerryCurvature, Der3E, Spin, DerSpin with random SS), random k_batch; component "
             "specifications: strings (any case), index tuples, trace, norm, sq, iband None/int/list; a run is "
             "non-trivial when Prod(N)>=2, distinct by (kind, num_wann, N, NKdiv, NKFFT, band subset, irreducible, "
             "quantities); widening: 2D models (Nz=1), m=2,3 decoupled copies (every level m-fold degenerate, default / random "
             "degen_thresh / degen_Kramers) judged against the single model, band lists unsorted / with repeats / cutting a "
             "multiplet / given on both levels / as list, tuple, array, Energy added by the pack, mode spelled GRID/Grid, one "
             "TabulatorAll re-used for the next factorisation, symmetrize flag, suffix; the npz written by run(), "
             "fermiSurfer(efermi, iband, component) text and npz_to_fermisurfer vs the checked arrays; hand-made TABresult "
             "objects (sizes up to 150 in one direction, size-one directions, 22/23/26/49, permuted, chunked and added, shifted by "
             "G, noise <= 1e-7, duplicates) through find_grid / self_to_grid (twice) / to_grid on a coarser grid / get_data with "
             "iband None/int/list/tuple/array",
        assumptions=["single-point oracle = wannierberri.evaluate_k with freshly built tabulators (the property is stated "
                     "against the evaluation of the point alone); energies also vs numpy eigvalsh of the explicit "
                     "Fourier sum",
                     "band-resolved non-scalar quantities are compared only at grid points whose minimal gap exceeds "
                     "1e-3 eV",
                     "symmetric runs use models that have the declared point group exactly (by construction)",
                     "the oracle evaluates all bands at a point and selects the requested columns (a band selection is defined as a "
                     "selection of columns); evaluate_k with the selection itself is compared at 3 points per case",
                     "save_mode with 'frmsf'/'txt' is not drawn through run(): it starts multiprocessing pools inside the case",
                     "VERIF_C30_PENDING=1 adds three classes that fire on the unchanged tree (refinement with a tabulator, "
                     "to_grid(order='F'), negative rounding noise in a size-one direction)"],
        required_counters=("grid_points_vs_evaluate_k", "energy_vs_diag", "factorisation_mixed", "factorisation_fft_only",
                           "factorisation_div_only", "ibands_subset", "use_irred_kpt", "no_irred_kpt", "kind_generic",
                           "kind_cubic", "kind_TR", "kind_inv", "symmetric_irreducible_run", "component_rank0",
                           "component_rank1", "component_rank2", "component_rank3", "component_direct_rank2",
                           "component_direct_rank3", "tuple_component_offdiagonal", "quantity_rank1", "quantity_rank2",
                           "quantity_rank3", "handmade_collection", "handmade_size_ge100", "handmade_duplicates",
                           "handmade_noisy_kpoints", "handmade_coarser_grid", "idempotent_regrid", "kind_copies",
                           "multiplet_vs_single_model", "ibands_cut_a_multiplet", "ibands_unsorted", "ibands_repeated",
                           "ibands_on_both_levels", "energy_added_by_pack", "point_with_ibands_vs_all_bands",
                           "tabulator_object_reused", "symmetrize_flag_off", "system_2D", "npz_file_checked",
                           "fermiSurfer_direct", "npz_to_fermisurfer", "iband_form_tuple", "iband_form_ndarray"),
    )
