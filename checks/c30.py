"""C30 - grid tabulation covers every grid point with its own values (REF).

run(TabulatorAll(mode='grid')) on NKdiv x NKFFT factorisations of a grid N, with band subsets, with and
without irreducible k-points (systems that really have the symmetry: cubic O_h x T real isotropic
hoppings, real hoppings = time reversal only, H(R)=H(-R) = inversion only), must return Prod(N) points
in C order and get_data(q)[ix,iy,iz] must equal the evaluation of the point (ix/Nx,iy/Ny,iz/Nz) alone
(wannierberri.evaluate_k with freshly built tabulators; energies also against an independent
diagonalisation).  Component extraction (TABresult.get_data(component=...), K__Result.get_component,
kbandresult.get_component) for x,y,z / xy.. / xyz.. strings in any case, 'trace', 'norm', 'sq' and index
tuples is compared with plain numpy indexing on the stored tensor for ranks 0-3.
"""
import itertools
import os
import shutil
import sys
import tempfile

sys.path.insert(0, os.path.dirname(os.path.dirname(os.path.abspath(__file__))))
from vlib import env, harness, gen_systems  # noqa: E402
import numpy as np  # noqa: E402

PROP = "C30"
GAP_GUARD = 1e-3
RANK = dict(Energy=0, vel=1, bc=1, bc_int=1, im=2, dbc=2, d3=3, spin=1, dspin=2)
NATURAL = dict(Energy=0, vel=1, bc=2, bc_int=2, im=2, dbc=3, d3=3, spin=0, dspin=1)  # powers of the lattice constant
XYZ = "xyz"


def setup(ctx):
    wb = env.import_wb()
    os.makedirs(os.path.join(env.WORK, "c30"), exist_ok=True)
    return dict(wb=wb, pg={})


def fresh_tabulators(tab, names, ibands, has_AA):
    ib = None if ibands is None else np.array(ibands)
    noext = {} if has_AA else {"external_terms": False}
    mk = dict(
        Energy=lambda: tab.Energy(ibands=ib),
        vel=lambda: tab.Velocity(ibands=ib),
        bc=lambda: tab.BerryCurvature(ibands=ib, kwargs_formula=dict(noext)),
        bc_int=lambda: tab.BerryCurvature(ibands=ib, kwargs_formula={"external_terms": False}),
        im=lambda: tab.InvMass(ibands=ib),
        dbc=lambda: tab.DerBerryCurvature(ibands=ib, kwargs_formula=dict(noext)),
        d3=lambda: tab.Der3E(ibands=ib),
        spin=lambda: tab.Spin(ibands=ib),
        dspin=lambda: tab.DerSpin(ibands=ib),
    )
    return {n: mk[n]() for n in names}


def divisor_pairs(n):
    return [(d, n // d) for d in range(1, n + 1) if n % d == 0]


# ------------------------------------------------------------------ systems with a real symmetry ---------

def cubic_system(rng, cache):
    """simple cubic, 1-2 s-like orbitals on O_h sites, real hoppings depending only on the distance"""
    a = float([2.7, 3.4, 4.3, 5.1][int(rng.integers(4))])  # few values: the 96-element group is built once per value
    nw = int(rng.integers(1, 3))
    cent = np.zeros((nw, 3))
    if nw == 2 and rng.random() < 0.6:
        cent[1] = 0.5
    decay = float(rng.uniform(0.5, 0.9))
    Rs = np.array(list(itertools.product(range(-2, 3), repeat=3)))
    amp = {}
    Ham = np.zeros((len(Rs), nw, nw))
    for iR, R in enumerate(Rs):
        for i in range(nw):
            for j in range(nw):
                d2 = float(np.sum((R + cent[j] - cent[i]) ** 2))
                if d2 > 1.5 ** 2 + 1e-9:
                    continue
                key = (min(i, j), max(i, j), round(d2, 6))
                if key not in amp:
                    amp[key] = float(rng.normal()) * np.exp(-np.sqrt(d2) / decay) + (
                        float(rng.normal()) * 1.0 if d2 < 1e-12 and i == j else 0.0)
                Ham[iR, i, j] = amp[key]
    keep = np.any(Ham != 0, axis=(1, 2)) | np.all(Rs == 0, axis=1)
    s = gen_systems.make_system(np.eye(3) * a, Rs[keep], dict(Ham=Ham[keep]), cent)
    if a not in cache:
        s.set_pointgroup(symmetry_gen=["C4z", "C4x", "Inversion", "TimeReversal"])
        cache[a] = s.pointgroup
    else:
        s.set_pointgroup(pointgroup=cache[a])
    return s


def tr_system(rng):
    """generic lattice and centres, real hoppings: time reversal is the only symmetry"""
    nw = int(rng.integers(1, 5))
    lattice = gen_systems.random_lattice(rng)
    iR = gen_systems.symmetric_R_set(rng, radius=rng.uniform(1.0, 2.0))
    mats = gen_systems.random_matrices(rng, iR, lattice, nw, keys=("Ham",))
    mats["Ham"] = mats["Ham"].real.astype(complex)
    s = gen_systems.make_system(lattice, iR, mats, gen_systems.random_centers(rng, nw, "random"))
    s.set_pointgroup(symmetry_gen=["TimeReversal"])
    return s


def inv_system(rng):
    """generic lattice, all centres on one inversion centre, H(R)=H(-R) complex: inversion is the only symmetry"""
    nw = int(rng.integers(1, 5))
    lattice = gen_systems.random_lattice(rng)
    iR = gen_systems.symmetric_R_set(rng, radius=rng.uniform(1.0, 2.0))
    mats = gen_systems.random_matrices(rng, iR, lattice, nw, keys=("Ham",))
    X = mats["Ham"]
    index = {tuple(R): i for i, R in enumerate(iR.tolist())}
    minus = np.array([index[tuple(-x for x in R)] for R in iR.tolist()])
    X = 0.5 * (X + X[minus])
    X = gen_systems.hermitize(iR, X)
    c0 = np.array([0.0, 0.5])[rng.integers(2, size=3)]
    s = gen_systems.make_system(lattice, iR, dict(Ham=X), np.tile(c0, (nw, 1)))
    s.set_pointgroup(symmetry_gen=["Inversion"])
    return s


# ------------------------------------------------------------------ components ---------------------------

def numpy_component(T, rank, comp):
    """the algebraic operation on a tensor whose last `rank` axes are cartesian"""
    if comp is None:
        return T
    if isinstance(comp, tuple):
        return T[(Ellipsis,) + tuple(comp)] if rank > 0 else T
    c = comp.lower()
    if c == "trace":
        return sum(T[(Ellipsis,) + (i,) * rank] for i in range(3))
    if c == "norm":
        return np.sqrt(np.sum(T ** 2, axis=-1))
    if c == "sq":
        return np.sum(T ** 2, axis=-1)
    return T[(Ellipsis,) + tuple(XYZ.index(x) for x in c)]


def gen_components(rng, rank, n=5):
    """component specifications valid for a tensor of this rank"""
    out = []
    if rank == 0:
        return [None]
    for _ in range(n):
        idx = tuple(int(x) for x in rng.integers(3, size=rank))
        u = rng.random()
        if u < 0.4:
            out.append(idx)
        else:
            s = "".join(XYZ[i] for i in idx)
            out.append(s.upper() if rng.random() < 0.3 else s)
    if rank == 1:
        out += ["norm", "sq", "x", "y", "z"]
    if rank >= 2:
        out += ["trace", "TRACE" if rng.random() < 0.3 else "trace"]
        # an off-diagonal pair in both orders (tuple and string)
        i, j = (int(x) for x in rng.choice(3, 2, replace=False))
        rest = tuple(int(x) for x in rng.integers(3, size=rank - 2))
        out += [(i, j) + rest, (j, i) + rest, XYZ[i] + XYZ[j] + "".join(XYZ[k] for k in rest)]
    return out


def direct_component_tests(ctx, rng):
    from wannierberri.result.kbandresult import get_component, KBandResult
    for rank in (0, 1, 2, 3):
        lead = tuple(int(x) for x in rng.integers(1, 5, size=int(rng.integers(2, 5))))
        T = rng.normal(size=lead + (3,) * rank)
        for comp in gen_components(rng, rank, n=4):
            exp = numpy_component(T, rank, comp)
            got = get_component(T, rank, comp)
            exact = not (isinstance(comp, str) and comp.lower() in ("norm", "sq", "trace"))
            ctx.close("kbandresult.get_component!=numpy_on_tensor", got, exp, rtol=0 if exact else 1e-13,
                      what=f"rank {rank} component {comp!r}", witness=dict(rank=rank, component=comp, shape=T.shape))
            ctx.count(f"component_direct_rank{rank}")
            if isinstance(comp, tuple) and rank >= 2 and len(set(comp[:2])) == 2:
                ctx.count("tuple_component_offdiagonal")
        # through the result class (k, band, cartesian...)
        T2 = rng.normal(size=(int(rng.integers(1, 6)), int(rng.integers(1, 5))) + (3,) * rank)
        kb = KBandResult(T2.copy())
        for comp in gen_components(rng, rank, n=2):
            exp = numpy_component(T2, rank, comp)
            exact = not (isinstance(comp, str) and comp.lower() in ("norm", "sq", "trace"))
            ctx.close("KBandResult.get_component!=numpy_on_tensor", kb.get_component(comp), exp,
                      rtol=0 if exact else 1e-13, what=f"rank {rank} component {comp!r}",
                      witness=dict(rank=rank, component=comp, shape=T2.shape))
        ctx.ev()
        cl = kb.get_component_list()
        expl = ["".join(s) for s in itertools.product(XYZ, repeat=rank)] if rank > 0 else [None]
        if rank >= 2:
            expl.append("trace")
        if cl != expl:
            ctx.violation("KBandResult.get_component_list", f"rank {rank}: {cl} expected {expl}", dict(rank=rank))


def component_tests_on_result(ctx, rng, res, names, nb, wit):
    """TABresult.get_data(quantity, iband, component) vs numpy on the stored tensor"""
    N = tuple(int(x) for x in res.grid)
    for q in names:
        rank = RANK[q]
        stored = np.asarray(res.results[q].data)  # (nk, nb, 3,...)
        full = stored.reshape(N + stored.shape[1:])  # C order over the grid
        ibsel = [None, int(rng.integers(nb)), [int(x) for x in rng.integers(nb, size=int(rng.integers(1, nb + 2)))]]
        for comp in gen_components(rng, rank, n=3):
            ib = ibsel[int(rng.integers(3))]
            got = res.get_data(q, iband=ib, component=comp)
            sel = np.arange(nb) if ib is None else ib
            exp = numpy_component(full[:, :, :, sel], rank, comp)
            exact = not (isinstance(comp, str) and comp.lower() in ("norm", "sq", "trace"))
            ctx.close("TABresult.get_data(component)!=numpy_on_stored_tensor", got, exp, rtol=0 if exact else 1e-13,
                      what=f"{q} rank {rank} component {comp!r} iband {ib}", witness=dict(wit, quantity=q, component=comp,
                                                                                        iband=ib))
            ctx.count(f"component_rank{rank}")
            if isinstance(comp, tuple) and rank >= 2 and len(set(comp[:2])) == 2:
                ctx.count("tuple_component_offdiagonal")


# ------------------------------------------------------------------ the case -----------------------------

def case(ctx, rng, idx, state):
    wb = state["wb"]
    from wannierberri.calculators import tabulate as tab
    from wannierberri.grid import Grid

    direct_component_tests(ctx, rng)

    kind = ["generic", "generic", "generic", "generic", "generic", "cubic", "TR", "inv"][idx % 8]
    has_AA = False
    if kind == "generic":
        nw = int(rng.integers(1, 5))
        has_AA = bool(rng.random() < 0.4)
        has_SS = bool(rng.random() < 0.25)
        if has_SS:
            nw = 2 * int(rng.integers(1, 3))
        system = gen_systems.herm_system(rng, num_wann=nw, radius=rng.uniform(1.0, 2.2),
                                         keys=("Ham",) + (("AA",) if has_AA else ()) + (("SS",) if has_SS else ()),
                                         centers=["random", "outside", "zero"][int(rng.integers(3))],
                                         spinor=True if has_SS else None)
        system, hist = gen_systems.history_variant(rng, system, which=gen_systems.HISTORIES_NO_DISK[int(rng.integers(4))])
        ctx.count(f"history_{hist}")
        pool = ["vel", "bc", "im", "dbc", "d3"] + (["spin", "dspin"] if has_SS else [])
    elif kind == "cubic":
        system = cubic_system(rng, state["pg"])
        pool = ["vel", "im", "d3"]
    elif kind == "TR":
        system = tr_system(rng)
        pool = ["vel", "bc_int", "im", "dbc"]
    else:
        system = inv_system(rng)
        pool = ["vel", "bc_int", "im", "dbc"]
    nw = system.num_wann
    a0 = float(np.mean(np.linalg.norm(system.real_lattice, axis=1)))
    maxpts = 150 if ctx.thorough else 64
    if kind == "cubic":
        n = int(rng.choice([2, 3, 4, 5] + ([6] if ctx.thorough else [])))
        N = (n, n, n)
        facts = [((d,) * 3, (f,) * 3) for d, f in divisor_pairs(n)]
    else:
        while True:
            N = tuple(int(x) for x in rng.integers(1, 7, size=3))
            if 2 <= int(np.prod(N)) <= maxpts:
                break
        facts = [tuple(zip(*c)) for c in itertools.product(*[divisor_pairs(n) for n in N])]
    nfmax = 6 if ctx.thorough else 3
    if len(facts) > nfmax:
        mixed = [f for f in facts if max(f[0]) > 1 and max(f[1]) > 1]
        chosen = [facts[int(i)] for i in rng.choice(len(facts), nfmax - 1, replace=False)]
        if mixed:
            chosen.append(mixed[int(rng.integers(len(mixed)))])
        facts = list(dict.fromkeys(chosen))
    names = ["Energy"] + [q for q in pool if rng.random() < 0.55]
    if len(names) == 1:
        names.append(pool[int(rng.integers(len(pool)))])
    ibands = None
    if nw > 1 and rng.random() < 0.4:
        nbs = int(rng.integers(1, nw))
        ibands = sorted(int(x) for x in rng.choice(nw, nbs, replace=False))
    nb = nw if ibands is None else len(ibands)
    wit0 = dict(kind=kind, num_wann=nw, N=N, quantities=names, ibands=ibands, has_AA=has_AA,
                real_lattice=system.real_lattice, nR=len(system.rvec.iRvec))

    # ---- the oracle: every grid point alone, in C order
    pts = np.array([(i / N[0], j / N[1], k / N[2]) for i in range(N[0]) for j in range(N[1]) for k in range(N[2])])
    oracle = {q: [] for q in names}
    for k in pts:
        r = wb.evaluate_k(system, k=tuple(float(x) for x in k), calculators=fresh_tabulators(tab, names, ibands, has_AA),
                          return_single_as_dict=True)
        for q in names:
            oracle[q].append(np.array(r[q].data[0]))
    oracle = {q: np.array(v).reshape(N + np.shape(v)[1:]) for q, v in oracle.items()}
    Eall = gen_systems.bands(system, pts)
    good = (np.ones(len(pts), dtype=bool) if nw == 1 else (np.diff(Eall, axis=1).min(axis=1) > GAP_GUARD)).reshape(N)
    nbad = int((~good).sum())
    if nbad:
        ctx.count("points_excluded_small_gap", nbad)
    Eexp = (Eall if ibands is None else Eall[:, ibands]).reshape(N + (nb,))

    tmp = tempfile.mkdtemp(dir=os.path.join(env.WORK, "c30"))
    try:
        res = None
        for div, fft in facts:
            if kind == "generic":
                irr = bool(rng.random() < 0.5)
            else:
                irr = bool(rng.random() < 0.8)
            wit = dict(wit0, NKdiv=div, NKFFT=fft, use_irred_kpt=irr)
            grid = Grid(system, NKdiv=list(div), NKFFT=list(fft))
            tall = tab.TabulatorAll(fresh_tabulators(tab, names, None, has_AA), ibands=ibands, mode="grid")
            out = wb.run(system, grid, calculators={"tabulate": tall}, parallel=False, use_irred_kpt=irr,
                         fout_name=os.path.join(tmp, "r"), k_batch=int(rng.integers(1, 51)))
            res = out.results["tabulate"]
            ctx.count("use_irred_kpt" if irr else "no_irred_kpt")
            ctx.count("factorisation_mixed" if (max(div) > 1 and max(fft) > 1) else (
                "factorisation_fft_only" if max(div) == 1 else "factorisation_div_only"))
            if ibands is not None:
                ctx.count("ibands_subset")
            ctx.count(f"kind_{kind}")
            if kind != "generic" and irr:
                ctx.count("symmetric_irreducible_run")
            # every point once, C order
            ctx.ev()
            if res.grid is None or tuple(int(x) for x in res.grid) != N:
                ctx.violation("TABresult.find_grid!=N", f"grid {res.grid} expected {N}", wit)
                continue
            ctx.close("TABresult.kpoints!=grid_in_C_order", np.asarray(res.kpoints), pts, rtol=0, atol=1e-12,
                      what="k-points of the tabulation", witness=wit)
            E = res.get_data("Energy")
            ctx.close("get_data(Energy)!=independent_diagonalisation", E, Eexp, rtol=1e-10, scale=np.abs(Eexp).max(),
                      atol=1e-12, what="Energy on the grid", witness=wit)
            ctx.count("energy_vs_diag")
            for q in names:
                got = np.asarray(res.get_data(q))
                ref = oracle[q]
                if got.shape != ref.shape:
                    ctx.ev()
                    ctx.violation("get_data[ix,iy,iz]!=evaluate_k(point)", f"{q}: shape {got.shape} expected {ref.shape}",
                                  wit)
                    continue
                sel = np.ones(N, dtype=bool) if RANK[q] == 0 else good
                if not np.any(sel):
                    continue
                sc = float(np.abs(ref[sel]).max())
                # derivative quantities carry 1/gap^n rounding amplification: one more decade of head room
                ctx.close("get_data[ix,iy,iz]!=evaluate_k(point)", got[sel], ref[sel], rtol=1e-9 if RANK[q] < 2 else 1e-8, scale=sc,
                          atol=1e-9 * a0 ** NATURAL[q], what=f"quantity {q}", witness=wit)
                ctx.count("grid_points_vs_evaluate_k", int(sel.sum()))
                ctx.count(f"quantity_rank{RANK[q]}")
            ctx.nontrivial((kind, nw, N, div, fft, ibands is None, irr, tuple(names)))
        if res is not None and res.grid is not None:
            component_tests_on_result(ctx, rng, res, names, nb, wit0)
    finally:
        shutil.rmtree(tmp, ignore_errors=True)
    ctx.sample(dict(wit0, factorisations=facts))


if __name__ == "__main__":
    harness.main(
        PROP, "exploration", case, setup_fn=setup,
        tiers=dict(quick=dict(cases=96, shards=8, time=900), thorough=dict(cases=1200, shards=16, time=3000)),
        rule="generic random Hermitian models (1-4 WFs, with/without AA/SS, centres random/outside/zero), and models with a "
             "real symmetry (simple cubic O_h x T with isotropic real hoppings; real hoppings = T only; H(R)=H(-R) = "
             "inversion only); grids N_i in 1..6 with 2<=Prod(N)<=64 (150 thorough), up to 3 (6) factorisations "
             "NKdiv x NKFFT per case incl. a mixed one, band subsets, use_irred_kpt on/off, tabulators of rank 0-3 "
             "(Energy, Velocity, BerryCurvature, InvMass, DerBerryCurvature, Der3E, Spin, DerSpin with random SS), random k_batch; component "
             "specifications: strings (any case), index tuples, trace, norm, sq, iband None/int/list; a run is "
             "non-trivial when Prod(N)>=2, distinct by (kind, num_wann, N, NKdiv, NKFFT, band subset, irreducible, "
             "quantities)",
        assumptions=["single-point oracle = wannierberri.evaluate_k with freshly built tabulators (the property is stated "
                     "against the evaluation of the point alone); energies also vs numpy eigvalsh of the explicit "
                     "Fourier sum",
                     "band-resolved non-scalar quantities are compared only at grid points whose minimal gap exceeds "
                     "1e-3 eV",
                     "symmetric runs use models that have the declared point group exactly (by construction)"],
        required_counters=("grid_points_vs_evaluate_k", "energy_vs_diag", "factorisation_mixed", "factorisation_fft_only",
                           "factorisation_div_only", "ibands_subset", "use_irred_kpt", "no_irred_kpt", "kind_generic",
                           "kind_cubic", "kind_TR", "kind_inv", "symmetric_irreducible_run", "component_rank0",
                           "component_rank1", "component_rank2", "component_rank3", "component_direct_rank2",
                           "component_direct_rank3", "tuple_component_offdiagonal", "quantity_rank1", "quantity_rank2",
                           "quantity_rank3"),
    )
