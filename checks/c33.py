"""C33 - tetrahedron / parallelepiped corner energies are the band energies at the corners (REF).

For every kind of system
  R       random Hermitian System_R (3D and 2D)                      -> Data_K_R
  phonon  the same with system.is_phonon = True (sign(E) sqrt|E|)     -> Data_K_R
  soc     SystemSOC, up/down R sets equal / permuted / nested / overlapping (cycled), nspin 1/2,
          with SOC (direct or through set_soc_R), alpha_soc = 0, or without SOC matrices -> Data_K_soc
  kp      random polynomial k.p Hamiltonian (vlib.gen_kp)             -> Data_K_k
and for K-points of `Grid` (KpointBZparallel, anisotropic NKdiv/NKFFT, cells refined 0-2 times by
`divide`) and of `GridTetra` (KpointBZtetra, split by the grid and refined by `divide`), the arrays returned by
`E_K_corners_parallel()` / `E_K_corners_tetra()` (objects built exactly like run() builds them) are compared with
  (1) the eigenvalues of H(k_corner) computed in the harness from the real-space matrices / SOC blocks /
      polynomial coefficients at corner k-points computed from the K-point geometry (K, dK, NKFFT / vertices),
  (2) `wannierberri.evaluate_k(system, k=corner, quantities=['energy'])` at a sample of corners,
  (3) the repository's own `E_K_corners_*_test()` (cases without band selection).
With Emin/Emax the returned arrays must be the (select_K, select_B) sub-arrays, consistent with E_K, and the
selection must keep every (k, band) that lies inside the window at the centre and at all corners and drop
bands that lie outside on one side everywhere.
"""
import os
import sys

sys.path.insert(0, os.path.dirname(os.path.dirname(os.path.abspath(__file__))))
from vlib import env, harness, gen_systems, gen_soc, gen_kp  # noqa: E402
import numpy as np  # noqa: E402

PROP = "C33"
RTOL = 1e-10
KINDS = ("R", "soc", "kp", "soc", "phonon", "soc", "R", "soc")  # idx % 8


def setup(ctx):
    env.import_wb()
    return {}


def phonon_map(E):
    return np.sign(E) * np.sqrt(np.abs(E))


# ------------------------------------------------------------------------------------------------
#   systems + harness-side band function
# ------------------------------------------------------------------------------------------------
def make_case_system(rng, kind, idx):
    """returns (system, bands_fn(klist)->(nk,nb), description, mask_fn(klist)->bool[nk] (True = comparable))"""
    nomask = lambda ks: np.ones(len(ks), dtype=bool)  # noqa: E731
    if kind in ("R", "phonon"):
        nw = int(rng.integers(1, 6))
        periodic = (True, True, False) if (kind == "R" and rng.random() < 0.2) else (True, True, True)
        s = gen_systems.herm_system(rng, num_wann=nw, radius=rng.uniform(1.0, 2.4), periodic=periodic,
                                    centers=["random", "outside", "zero"][int(rng.integers(3))],
                                    thin=rng.choice([0.0, 0.3]))
        s, hist = gen_systems.history_variant(rng, s, which=gen_systems.HISTORIES_NO_DISK[int(rng.integers(4))])   # state reached through the API first
        desc = dict(kind=kind, history=hist, nw=nw, nR=s.rvec.nRvec, periodic=periodic)
        if kind == "phonon":
            if rng.random() < 0.5:
                # mostly positive "dynamical matrix": shift the spectrum up (a few negative modes remain possible)
                emin = gen_systems.bandwidth(s, nk=3)[0]
                H = s.get_R_mat("Ham")
                H[s.rvec.iR0][np.arange(nw), np.arange(nw)] += -emin + rng.uniform(-0.2, 0.5)
            s.is_phonon = True
            return s, (lambda ks: phonon_map(gen_systems.bands(s, ks))), desc, nomask
        return s, (lambda ks: gen_systems.bands(s, ks)), desc, nomask
    if kind == "soc":
        relation = gen_soc.RELATIONS[(idx // 2) % 4]
        variant = ["soc", "soc", "soc", "alpha0", "nosoc"][int(rng.integers(5))]
        kw = dict(relation=relation, nspin=2 if rng.random() < 0.85 else 1, num_wann=int(rng.integers(1, 4)))
        if variant == "alpha0":
            kw["alpha_soc"] = 0.0
        if variant == "nosoc":
            kw["with_soc"] = False
        s, info = gen_soc.soc_system(rng, **kw)
        rel = gen_soc.rset_relation(info["system_up"].rvec.iRvec, info["system_down"].rvec.iRvec)
        desc = dict(kind="soc", relation=rel, variant=variant, nspin=info["nspin"], nw=info["num_wann_scalar"],
                    path=info["path"], rmode=info["rmode"], nR_up=info["system_up"].rvec.nRvec,
                    nR_down=info["system_down"].rvec.nRvec, nR_soc=len(info["iRvec_soc"]), theta=info["theta"],
                    phi=info["phi"], alpha_soc=info["alpha_soc"])
        return s, (lambda ks: gen_soc.soc_bands_ref(info, ks)), desc, nomask
    if kind == "kp":
        m = gen_kp.random_kp(rng, box=["kmax", "ortho", "recip", "real"][int(rng.integers(4))])
        s = m.make_system(0)
        desc = dict(kind="kp", **{k: v for k, v in m.describe().items() if k != "recip_lattice"})

        def bands_fn(ks):
            return np.array([np.linalg.eigvalsh(m.H_red(k)) for k in ks])

        def mask_fn(ks):
            # the box wrap is discontinuous at half-integer reduced coordinates: tie guard
            f = np.abs((np.asarray(ks) % 1.0) - 0.5)
            return np.all(f > 1e-7, axis=1)

        return s, bands_fn, desc, mask_fn
    raise ValueError(kind)


# ------------------------------------------------------------------------------------------------
#   K-points and their geometry
# ------------------------------------------------------------------------------------------------
def parallel_kpoints(ctx, rng, system, wit):
    """Grid K-points (some refined).  yields (grid, Kpoint, centre_red(3), cell_red(3), level)"""
    from wannierberri.grid import Grid
    per = np.array(system.periodic, dtype=bool)
    NKdiv = np.where(per, rng.integers(1, 4, size=3), 1)
    NKFFT = np.where(per, rng.integers(1, 5, size=3), 1)
    if rng.random() < 0.2:
        NKFFT = np.where(per, NKFFT[0], 1)
    if wit["kind"] == "kp" and rng.random() < 0.5:
        # the recommended odd grids of k.p systems
        NKdiv = 2 * (NKdiv // 2) + 1
        NKFFT = 2 * (NKFFT // 2) + 1
    grid = Grid(system, NKdiv=NKdiv.copy(), NKFFT=NKFFT.copy(), use_symmetry=False)
    Klist = grid.get_K_list(use_symmetry=False)
    wit.update(NKdiv=NKdiv.tolist(), NKFFT=NKFFT.tolist())
    ctx.ev()
    if len(Klist) != int(np.prod(NKdiv)):
        ctx.violation("Grid.get_K_list:number_of_K_points", f"{len(Klist)} K-points for NKdiv={NKdiv}", wit)
        return
    NK = NKdiv * NKFFT
    nsel = min(len(Klist), 3)
    for iK in rng.choice(len(Klist), nsel, replace=False):
        x, rem = divmod(int(iK), int(NKdiv[1] * NKdiv[2]))
        y, z = divmod(rem, int(NKdiv[2]))
        centre = np.array([x, y, z]) / NK
        cell = 1.0 / NK
        Kp = Klist[iK]
        level = 0
        nref = int(rng.integers(0, 3))
        for _ in range(nref):
            ndiv = np.where(per, rng.integers(1, 4, size=3), 1)
            if np.all(ndiv == 1):
                ndiv = np.where(per, 2, 1)
            sub = Kp.divide(ndiv.copy(), system.periodic, use_symmetry=False)
            ctx.ev()
            if len(sub) != int(np.prod(ndiv)):
                ctx.violation("KpointBZparallel.divide:number_of_subcells", f"{len(sub)} for ndiv={ndiv}", wit)
                return
            j = int(rng.integers(len(sub)))
            a, rem = divmod(j, int(ndiv[1] * ndiv[2]))
            b, c = divmod(rem, int(ndiv[2]))
            centre = centre - cell / 2 + (np.array([a, b, c]) + 0.5) * cell / ndiv
            cell = cell / ndiv
            Kp = sub[j]
            level += 1
        # geometry of the K-point object against the tiling computed here
        ctx.close("KpointBZparallel:centre!=tiling", Kp.K / Kp.NKFFT, centre, rtol=1e-12, atol=1e-13, what="K/NKFFT", witness=wit)
        ctx.close("KpointBZparallel:cell!=tiling", Kp.dK / Kp.NKFFT, cell, rtol=1e-12, atol=1e-13, what="dK/NKFFT", witness=wit)
        yield grid, Kp, centre, cell, level


def tetra_volume(v):
    return abs(np.linalg.det(v[1:] - v[0][None, :])) / 6.0


def tetra_kpoints(ctx, rng, system, wit):
    """GridTetra K-points (some refined).  yields (grid, Kpoint, centre_red(3), vertices_red(4,3) relative, level)"""
    from wannierberri.grid import GridTetra
    NKFFT = rng.integers(1, 4, size=3)
    if rng.random() < 0.2:
        NKFFT[:] = NKFFT[0]
    a0 = np.mean(np.linalg.norm(system.real_lattice, axis=1))
    length = a0 * NKFFT.mean() * rng.uniform(0.8, 2.6)
    kw = {}
    if rng.random() < 0.3:
        kw["refine_by_size"] = False
    grid = GridTetra(system, length=length, NKFFT=NKFFT.copy(), **kw)
    Klist = grid.get_K_list()
    wit.update(NKFFT=NKFFT.tolist(), length=float(length), ntetra=len(Klist), **kw)
    vols = np.array([tetra_volume(K.vertices) for K in Klist])
    absv = np.array([K.K[None, :] + K.vertices for K in Klist])
    ctx.close("GridTetra:tetrahedra_do_not_tile_cell", vols.sum(), 1.0, rtol=1e-10, what="sum of volumes", witness=wit)
    ctx.close("GridTetra:tetrahedra_do_not_tile_cell", np.maximum(np.abs(absv).max(), 0.5), 0.5, rtol=1e-10,
              what="vertices inside the FFT cell", witness=wit)
    ctx.close("GridTetra:factors_do_not_sum_to_one", sum(K.factor for K in Klist), 1.0, rtol=1e-10, what="weights", witness=wit)
    nsel = min(len(Klist), 3)
    for iK in rng.choice(len(Klist), nsel, replace=False):
        Kp = Klist[iK]
        level = 0
        for _ in range(int(rng.integers(0, 3))):
            parent_abs = Kp.K[None, :] + Kp.vertices
            sub = Kp.divide(ndiv=2, periodic=system.periodic)
            vsub = sum(tetra_volume(s.vertices) for s in sub)
            ctx.close("KpointBZtetra.divide:children_do_not_tile_parent", vsub, tetra_volume(Kp.vertices), rtol=1e-10,
                      what="volume of children", witness=wit)
            # every child vertex is a convex combination of the parent's vertices
            A = np.vstack([parent_abs.T, np.ones(4)])
            for s in sub:
                for v in s.K[None, :] + s.vertices:
                    lam = np.linalg.solve(A, np.append(v, 1.0))
                    ctx.ev()
                    if lam.min() < -1e-9:
                        ctx.violation("KpointBZtetra.divide:children_do_not_tile_parent", f"vertex {v} outside the parent", wit)
            Kp = sub[int(rng.integers(len(sub)))]
            level += 1
        centre = Kp.K / NKFFT
        vert = Kp.vertices / NKFFT
        ctx.close("KpointBZtetra:K!=centroid", np.mean(Kp.vertices, axis=0), np.zeros(3), atol=1e-13, what="centroid", witness=wit)
        yield grid, Kp, centre, vert, level


# ------------------------------------------------------------------------------------------------
def choose_window(rng, Eall, mode):
    """Emin/Emax at least 1e-6 away from every reference energy; at least one centre energy inside"""
    lo, hi = Eall.min(), Eall.max()
    for _ in range(50):
        if mode == "lower":
            Emin, Emax = -np.inf, rng.uniform(lo, hi)
        elif mode == "upper":
            Emin, Emax = rng.uniform(lo, hi), np.inf
        else:
            c = rng.uniform(lo, hi)
            w = (hi - lo) * rng.uniform(0.02, 0.4)
            Emin, Emax = c - w, c + w
        d = min(np.abs(Eall - Emin).min() if np.isfinite(Emin) else 1.0, np.abs(Eall - Emax).min() if np.isfinite(Emax) else 1.0)
        if d > 1e-6 * max(1.0, abs(lo), abs(hi)):
            return Emin, Emax
    return None


def check_one(ctx, rng, system, bands_fn, mask_fn, grid, Kp, corners_rel, shape_mid, method, wit, state):
    """corners_rel: (nc,3) corner offsets (reduced) relative to the K-point centre, in the order of the output"""
    import wannierberri as wb
    from wannierberri.data_K import get_data_k_class_from_system
    NKFFT = np.array(grid.FFT)
    kfft = np.array([(i / NKFFT[0], j / NKFFT[1], k / NKFFT[2]) for i in range(NKFFT[0]) for j in range(NKFFT[1])
                     for k in range(NKFFT[2])])
    centre = state["centre"]
    kc = kfft + centre[None, :]                               # (nk,3)
    kcorn = kc[:, None, :] + corners_rel[None, :, :]          # (nk,nc,3)
    nk, nc = kcorn.shape[:2]
    Ec_ref = bands_fn(kc)                                      # (nk,nb)
    Ecorn_ref = bands_fn(kcorn.reshape(-1, 3)).reshape(nk, nc, -1)
    ok_c = mask_fn(kc)
    ok_corn = mask_fn(kcorn.reshape(-1, 3)).reshape(nk, nc)
    nb = Ec_ref.shape[1]
    scale = max(np.abs(Ec_ref).max(), np.abs(Ecorn_ref).max(), 1.0)
    par = {}
    wmode = state["wmode"]
    if wmode != "none":
        win = choose_window(rng, np.concatenate([Ec_ref.ravel(), Ecorn_ref.ravel()]), wmode)
        if win is None or not np.any((Ec_ref > win[0]) & (Ec_ref < win[1])):
            wmode = "none"
        else:
            par.update(Emin=win[0], Emax=win[1])
    if rng.random() < 0.5:
        par["fftlib"] = str(rng.choice(["fftw", "numpy"]))
    cls = get_data_k_class_from_system(system)
    data = cls(system, dK=Kp.Kp_fullBZ, grid=grid, Kpoint=Kp, **par)
    first = state["E_K_first"]
    w = dict(wit, method=method, K=Kp.K, dK=getattr(Kp, "dK", None), level=state["level"], window=wmode,
             E_K_first=first, **{k: v for k, v in par.items()})
    if first:
        _ = data.E_K
    out = getattr(data, method)()
    EK = data.E_K
    selK = np.array(data.select_K, dtype=bool)
    selB = np.array(data.select_B, dtype=bool)
    ctx.ev()
    if selK.shape != (nk,) or selB.shape != (nb,):
        ctx.violation(f"{cls.__name__}.{method}:selection_shape", f"select_K {selK.shape}, select_B {selB.shape}", w)
        return
    exp_shape = (int(selK.sum()),) + shape_mid + (int(selB.sum()),)
    if out.shape != exp_shape or EK.shape != (int(selK.sum()), int(selB.sum())):
        ctx.violation(f"{cls.__name__}.{method}:shape", f"corners {out.shape} expected {exp_shape}; E_K {EK.shape}", w)
        return
    got = out.reshape(int(selK.sum()), nc, int(selB.sum()))
    ref = Ecorn_ref[selK][:, :, selB]
    okm = ok_corn[selK]
    if okm.any():
        ctx.close(f"{cls.__name__}.{method}!=bands_at_corners", got[okm], ref[okm], rtol=RTOL, scale=scale,
                  what="corner energies vs harness bands at the corner k-points", witness=w)
        ctx.count(f"{cls.__name__}.{method}")
    if not okm.all():
        ctx.count("corners_masked_box_edge")
    okc = ok_c[selK]
    if okc.any():
        ctx.close(f"{cls.__name__}.E_K!=bands_at_centre", EK[okc], Ec_ref[selK][:, selB][okc], rtol=RTOL, scale=scale,
                  what="centre energies", witness=w)
    # selection soundness
    if wmode != "none":
        Emin, Emax = par["Emin"], par["Emax"]
        allE = np.concatenate([Ec_ref[:, None, :], Ecorn_ref], axis=1)          # (nk, 1+nc, nb)
        okall = np.concatenate([ok_c[:, None], ok_corn], axis=1).all(axis=1)  # (nk,)
        inside = np.all((allE > Emin) & (allE < Emax), axis=1) & okall[:, None]  # (nk, nb)
        mustK = inside.any(axis=1)
        mustB = inside.any(axis=0)
        ctx.ev()
        if np.any(mustK & ~selK) or np.any(mustB & ~selB):
            ctx.violation(f"{cls.__name__}.{method}:band_inside_window_dropped",
                          f"select_K={selK.tolist()} select_B={selB.tolist()} must K={mustK.tolist()} B={mustB.tolist()}", w)
        if okall.all():
            below = np.all(allE < Emin, axis=(0, 1))
            above = np.all(allE > Emax, axis=(0, 1))
            ctx.ev()
            if np.any((below | above) & selB):
                ctx.violation(f"{cls.__name__}.{method}:band_outside_window_kept",
                              f"select_B={selB.tolist()} below={below.tolist()} above={above.tolist()}", w)
        ctx.count("band_selection")
        if (~selK).any() or (~selB).any():
            ctx.count("band_selection_nontrivial")
    # (2) evaluate_k at sampled corners
    cand = [(ik, ic) for ik in np.where(selK)[0] for ic in range(nc) if ok_corn[ik, ic]]
    ksel = np.cumsum(selK) - 1
    for j in rng.permutation(len(cand))[:state["n_evalk"]]:
        ik, ic = cand[j]
        E = np.asarray(wb.evaluate_k(system, k=kcorn[ik, ic], quantities=["energy"]))
        ctx.close(f"{cls.__name__}.{method}!=evaluate_k_at_corner", got[ksel[ik], ic], E[selB], rtol=RTOL, scale=scale,
                  what="corner energies vs evaluate_k", witness=w)
        ctx.count("evaluate_k_at_corner")
    # (3) the repository's own reference implementation
    if wmode == "none" and state["own_test"]:
        own = np.asarray(getattr(data, method + "_test")())
        ctx.ev()
        if own.shape != out.shape:
            ctx.violation(f"{cls.__name__}.{method}!={method}_test", f"shapes {out.shape} vs {own.shape}", w)
        elif okm.any():
            # (the same tie guard: corners on the edge of the k.p box are not comparable)
            ctx.close(f"{cls.__name__}.{method}!={method}_test", got[okm], own.reshape(got.shape)[okm], rtol=RTOL, scale=scale,
                      what="vs *_test", witness=w)
            ctx.count("own_test_method")
    return wmode


def case(ctx, rng, idx, state):
    kind = KINDS[idx % 8]
    system, bands_fn, desc, mask_fn = make_case_system(rng, kind, idx)
    gridkind = "tetra" if (idx // 8) % 2 == 1 else "parallel"
    if not all(system.periodic):
        gridkind = "parallel"  # tetrahedron grids are defined for 3D periodic systems only
    wit = dict(desc, grid=gridkind)
    levels, wmodes = set(), set()
    if gridkind == "parallel":
        off = np.array([(ix, iy, iz) for ix in (0, 1) for iy in (0, 1) for iz in (0, 1)]) - 0.5
        for grid, Kp, centre, cell, level in parallel_kpoints(ctx, rng, system, wit):
            st = dict(centre=centre, level=level, wmode=["none", "none", "lower", "upper", "narrow"][int(rng.integers(5))],
                      E_K_first=bool(rng.random() < 0.5), n_evalk=3, own_test=bool(rng.random() < 0.4))
            wm = check_one(ctx, rng, system, bands_fn, mask_fn, grid, Kp, off * cell[None, :], (2, 2, 2),
                           "E_K_corners_parallel", wit, st)
            levels.add(level)
            wmodes.add(wm)
            ctx.count("parallel_refined" if level else "parallel_unrefined")
    else:
        for grid, Kp, centre, vert, level in tetra_kpoints(ctx, rng, system, wit):
            st = dict(centre=centre, level=level, wmode=["none", "none", "lower", "upper", "narrow"][int(rng.integers(5))],
                      E_K_first=bool(rng.random() < 0.5), n_evalk=3, own_test=bool(rng.random() < 0.4))
            wm = check_one(ctx, rng, system, bands_fn, mask_fn, grid, Kp, vert, (4,), "E_K_corners_tetra", wit, st)
            levels.add(level)
            wmodes.add(wm)
            ctx.count("tetra_refined" if level else "tetra_unrefined")
    ctx.count("kind_" + kind)
    if kind == "soc":
        ctx.count("soc_" + desc["relation"])
        ctx.count("soc_variant_" + desc["variant"])
        if desc["nR_up"] != desc["nR_down"]:
            ctx.count("soc_updown_sizes_differ")
    if levels:
        key = tuple(sorted((k, str(v)) for k, v in desc.items() if k in ("kind", "nw", "nb", "relation", "variant", "nspin",
                                                                         "path", "rmode", "degree", "convention", "box",
                                                                         "periodic")))
        ctx.nontrivial((key, gridkind, tuple(wit.get("NKFFT", ())), tuple(sorted(levels))))
        ctx.sample(wit)


if __name__ == "__main__":
    harness.main(
        PROP, "exploration", case, setup_fn=setup,
        tiers=dict(quick=dict(cases=800, shards=8, time=900), thorough=dict(cases=6400, shards=16, time=3000)),
        rule="system kind cycled over idx%8 (R, soc, kp, soc, phonon, soc, R, soc), SOC R-set relation cycled "
             "(equal/permuted/nested/overlapping) with variants soc/alpha0/nosoc, nspin 1/2, direct or set_soc_R path; "
             "grid kind alternates every 8 cases between Grid (NKdiv 1-3, NKFFT 1-4 per direction, anisotropic, 3 K-points "
             "each refined 0-2 times by divide with ndiv 1-3) and GridTetra (NKFFT 1-3, random length, 3 tetrahedra each "
             "refined 0-2 times); Emin/Emax windows none/lower/upper/narrow; E_K evaluated before or after the corners. "
             "A case is distinct by (system descriptor, grid kind, NKFFT, refinement levels)",
        assumptions=["corner k-points computed in the harness from the tiling (Grid: cells of size 1/(NKdiv*NKFFT), refined "
                     "cells by subdivision; GridTetra: (K+vertices)/NKFFT, tiling verified by volumes)",
                     "reference energies: numpy eigvalsh of H(k) assembled in the harness (gen_systems.bands, "
                     "gen_soc.soc_bands_ref, gen_kp.KPModel.H_red); phonon: sign(E) sqrt|E|",
                     "k.p: corners within 1e-7 of the box edge (discontinuous wrap) are not compared (tie guard)",
                     "Emin/Emax drawn at least 1e-6 away from every reference energy (tie guard)"],
        required_counters=("Data_K_R.E_K_corners_parallel", "Data_K_R.E_K_corners_tetra", "Data_K_soc.E_K_corners_parallel",
                           "Data_K_soc.E_K_corners_tetra", "Data_K_k.E_K_corners_parallel", "Data_K_k.E_K_corners_tetra",
                           "kind_phonon", "soc_permuted", "soc_nested", "soc_overlapping", "soc_equal",
                           "soc_updown_sizes_differ", "parallel_refined", "tetra_refined", "band_selection_nontrivial",
                           "evaluate_k_at_corner", "own_test_method"),
    )
