"""C22 - finite-difference b-vectors: completeness (B1), +-b closure, whole shells, neighbour relation (REF).

Real code: BKVectors.from_kpoints (-> find_bk_vectors, k_to_shells, is_parallel_shell, get_shell_weights,
find_G_and_neighbours) of wannierberri/w90files/bkvectors.py, observed through the attributes
wk, bk_cart, bk_grid, neighbours, G, kpt_grid of the returned object - and of the objects reached from it through
the other public entry points of that file (to_npz/from_npz, from_nnkp of a file listing the same neighbours,
reorder_mmn, the constructor) - see "Histories".

Oracles (none of them uses the shell search or the weight solver of the library), all in `judge`:
  (B1)     sum_b w_b b_i b_j = delta_ij, with b recomputed by the harness from bk_grid and the mesh basis
           recip_lattice/mp_grid (and bk_cart == that product).  The library accepts a shell set when the Frobenius
           residual is below its documented parameter bk_complete_tol (default 1e-5): 55 % of the cases pass
           bk_complete_tol=1e-9 and require 1.1e-8 (rounding is ~1e-12), 25 % use the default and are judged at
           1e-5 (how often the default lets a residual > 1e-8 through is only counted), 20 % pass a random value
           t in [1e-9, 1e-4] and are judged at t + 1e-9;
  (+-)     the set {(b, w)} is closed under b -> -b with equal weights, no repeated and no zero vector;
  (shells) brute force in the harness: every vector n.basis of the mesh lattice inside a box that provably
           contains the ball of radius max|b| is enumerated; every one whose length equals that of a selected
           b must be selected too, with the same weight.  "Equal" follows the documented parameter kmesh_tol (shells
           are separated where consecutive lengths differ by more than kmesh_tol, default 1e-7): lengths closer than
           len_eq are one shell, a mesh vector whose length differs from a selected one by more than len_eq but less
           than len_tie makes the case a skipped tie; (len_eq, len_tie) = (kmesh_tol/100, 100*kmesh_tol) = (1e-9, 1e-5)
           for kmesh_tol <= 1e-7 and (kmesh_tol/10, 10*kmesh_tol) for larger values;
  (nb)     exact integer arithmetic: kint[k] + bk_grid[b] == kint[neighbours[k][b]] + G[k][b]*mp_grid for every
           k of kptirr and every b, for shuffled k lists given as i/N floats (optionally rounded to 8..12 digits).
A RuntimeError("Could not find a complete set") on a lattice with cond <= 50 is a violation (witness = lattice
and mesh) when the documented defaults of kmesh_tol (or a smaller value) and search_supercell (or a larger value)
are used and the cell is not one of the nearly symmetric ones; with an enlarged kmesh_tol, search_supercell=1 or a nearly
symmetric cell it is counted and the case skipped (the property only speaks about returned sets); lattices with
cond > 50 would be skipped (the generator never produces them).
Pending (VERIF_C22_PENDING=1 reports them): a shell that is one shell only within an enlarged kmesh_tol and straddles the
radius of the library's search ball is selected in part (.work/review_c22_finding_2.py).

Input classes added by the widening review (each with a counter):
  * documented parameters: kmesh_tol (1e-9 .. 1e-3, together with nearly symmetric cells whose shells split by less than
    kmesh_tol - "merged" - or by more than the tie zone - "split"), search_supercell 1 / 3 (result = that of the default
    as a set), random bk_complete_tol; argument forms (mp_grid tuple / list / int32, kptirr tuple / array / range,
    Fortran-ordered and non-contiguous recip_lattice / kpoints_red, positional call); the inputs must come back unchanged;
  * generator ranges: left-handed lattices, cells scaled by 0.25 .. 20, strongly sheared settings (cond <= 50),
    nearly symmetric cells (distortion 1e-7 .. 3e-3), meshes with one direction 9 .. 120 (incl. 22, 23, 26, 49);
  * direct call of the public classmethod find_bk_vectors (the returned triple against the object and bk_grid@basis);
  * Histories: object -> to_npz -> from_npz (once or twice, `equals`), a .nnkp file written by the harness (neighbours
    from exact integer arithmetic, b order permuted, lattice with 7 or 16 digits, real_lattice= / recip_lattice=
    overrides) -> from_nnkp -> judged by the same four oracles + b order = file order; reorder_mmn of that object
    onto the first one; -> npz; select_kpoints (fewer k-points) on the last object of the history; at the end the first
    object must be unchanged by all later calls.
"""
import copy
import os
import shutil
import sys
import tempfile

sys.path.insert(0, os.path.dirname(os.path.dirname(os.path.abspath(__file__))))
from vlib import env, harness, gen_systems  # noqa: E402
import numpy as np  # noqa: E402

PROP = "C22"

KINDS = ["cubic", "fcc", "bcc", "tetragonal", "bct", "orthorhombic", "ortho_fc", "ortho_bc", "ortho_c",
         "hexagonal", "rhombohedral", "monoclinic", "mono_c", "triclinic"]
# axis ratios that create accidental coincidences of shell radii or hidden higher symmetry
SPECIAL = [0.5, 2.0 / 3.0, 1.0 / np.sqrt(2.0), 1.5, 2.0, 3.0, np.sqrt(2.0), np.sqrt(3.0), np.sqrt(8.0 / 3.0), 1.0]
RHOMBO_X = [0.1, 0.2, 0.25, -0.2, -0.1, 0.4, 0.05, 0.3]  # rows (1,x,x): .25 = fcc, -.2 = bcc, .1/.2 = finding F12
LEN_EQ = 1e-9    # two lengths closer than this are "equal" (rounding noise is 1e-15)           [kmesh_tol = 1e-7]
LEN_TIE = 1e-5   # closer than this but not equal: tie zone of the library's kmesh_tol=1e-7 -> skipped
B1_TOL = 1e-8
BK_TOL_TIGHT = 1e-9     # bk_complete_tol passed explicitly in most cases; B1 is then required to 10*tol + 1e-9
BK_COMPLETE_TOL = 1e-5  # documented default of from_kpoints: Frobenius residual below which a shell set is accepted
SEARCH_SUPERCELL = 2  # documented default of from_kpoints / find_bk_vectors (index box +-2*mp_grid)
KMESH_TOL = 1e-7      # documented default of from_kpoints / find_bk_vectors
KMESH_TOL_NNKP = 1e-5  # documented default of from_nnkp
BIG_SIZES = [22, 23, 26, 49, 64, 81, 100, 120]
PENDING = os.environ.get("VERIF_C22_PENDING", "0") == "1"   # classes waiting for a decision of the coordinator
LIB_BOX_MAX = 1.5e5   # cost guard for the new classes: number of index triples the library enumerates (~5 us each)


def len_zone(kmesh_tol):
    """(len_eq, len_tie) of the whole-shell oracle for a given kmesh_tol; (1e-9, 1e-5) at the default"""
    if kmesh_tol <= KMESH_TOL * (1 + 1e-12):
        return kmesh_tol / 100.0, kmesh_tol * 100.0
    return kmesh_tol / 10.0, kmesh_tol * 10.0


def make_lattice(rng, kind, mp, mode):
    """rows = lattice vectors.  mode in random / special / meshcomp"""
    if kind == "triclinic":
        return gen_systems.random_lattice(rng, maxcond=20.0)
    a = rng.uniform(2.5, 4.0)
    if mode == "random":
        return gen_systems.bravais_lattice(rng, kind)[1]
    if mode == "special":
        b = a * SPECIAL[int(rng.integers(len(SPECIAL)))]
        c = a * SPECIAL[int(rng.integers(len(SPECIAL)))]
    else:  # mesh-compensated: the mesh basis vectors of an orthogonal cell get equal lengths
        b = a * mp[0] / mp[1]
        c = a * mp[0] / mp[2]
    if kind == "rhombohedral":
        x = RHOMBO_X[int(rng.integers(len(RHOMBO_X)))] if mode == "special" else rng.uniform(-0.3, 0.45)
        return a * (np.eye(3) + x * (np.ones((3, 3)) - np.eye(3)))
    if kind in ("orthorhombic", "ortho_fc", "ortho_bc", "ortho_c", "monoclinic", "mono_c") and mode == "special":
        # keep the three axes different
        if abs(b - a) < 1e-9 * a:
            b = a * 1.25
        if abs(c - a) < 1e-9 * a or abs(c - b) < 1e-9 * a:
            c = a * 1.75
    return np.array(gen_systems.BRAVAIS[kind](a, b, c), dtype=float)


def random_unimodular(rng):
    """another primitive setting of the same lattice: product of elementary integer shears and a signed permutation"""
    U = np.eye(3, dtype=int)
    for _ in range(int(rng.integers(1, 3))):
        i, j = rng.choice(3, 2, replace=False)
        E = np.eye(3, dtype=int)
        E[i, j] = int(rng.choice([-1, 1]))
        U = E @ U
    P = np.eye(3, dtype=int)[rng.permutation(3)]
    U = P @ U
    if round(np.linalg.det(U)) < 0:
        U[0] *= -1
    return U


def random_shear(rng):
    """a strongly non-reduced setting: 1-3 elementary shears a_i -> a_i + n a_j with |n| = 2..4"""
    U = np.eye(3, dtype=int)
    for _ in range(int(rng.integers(1, 4))):
        i, j = rng.choice(3, 2, replace=False)
        E = np.eye(3, dtype=int)
        E[i, j] = int(rng.choice([-4, -3, -2, 2, 3, 4]))
        U = E @ U
    return U


def make_mesh(rng, thorough):
    m = int(rng.integers(6))
    hi = 9
    if m == 0:
        n = int(rng.integers(1, hi))
        mp = (n, n, n)
    elif m == 1:
        n = int(rng.integers(2, hi))
        mp = [1, 1, 1]
        mp[int(rng.integers(3))] = n
        mp = tuple(mp)
    elif m == 2:
        mp = [int(rng.integers(2, hi)), int(rng.integers(2, hi)), 1]
        mp = tuple(int(x) for x in rng.permutation(mp))
    else:
        mp = tuple(int(x) for x in rng.integers(1, hi, size=3))
    return mp


def make_big_mesh(rng):
    """one direction 9..120 (with the sizes for which fl(j/N)*N falls below j), at most 1000 k-points"""
    nb = int(BIG_SIZES[int(rng.integers(len(BIG_SIZES)))]) if rng.random() < 0.5 else int(rng.integers(9, 101))
    n2 = int(rng.integers(1, max(1, min(8, 1000 // nb)) + 1))
    n3 = int(rng.integers(1, max(1, min(8, 1000 // (nb * n2))) + 1))
    return tuple(int(x) for x in rng.permutation([nb, n2, n3]))


def mesh_vectors_in_ball(basis, radius, maxbox=4_000_000):
    """all integer n with |n.basis| <= radius, by brute force over a box that contains the ball:
    n = v.inv(basis)  =>  |n_i| <= |v| * |column i of inv(basis)|"""
    inv = np.linalg.inv(basis)
    bound = np.floor(radius * np.linalg.norm(inv, axis=0) * (1 + 1e-9) + 1e-9).astype(int) + 1
    if np.prod(2.0 * bound + 1) > maxbox:
        raise harness.Skip("brute-force box too large")
    ax = [np.arange(-b, b + 1) for b in bound]
    n = np.stack(np.meshgrid(*ax, indexing="ij"), axis=-1).reshape(-1, 3)
    length = np.linalg.norm(n @ basis, axis=1)
    sel = length <= radius
    return n[sel], length[sel], bound


def library_box(recip, mpa, ssc):
    """number of index triples find_bk_vectors enumerates (cost estimate only, never used by an oracle)"""
    basis = recip / mpa[:, None]
    rad = ssc * np.linalg.norm(recip, axis=1).max()
    lim = np.ceil(rad * np.linalg.norm(np.linalg.inv(basis), axis=0))
    return float(np.prod(2.0 * lim + 1))


def shrink_mesh(mp, recip, ssc, keep=None):
    """halve the largest mesh sizes (not the one at index `keep`) until the library's index box is affordable"""
    mp = list(mp)
    while library_box(recip, np.array(mp), ssc) > LIB_BOX_MAX:
        cand = [i for i in range(3) if i != keep and mp[i] > 1]
        if not cand:
            return None
        i = max(cand, key=lambda j: mp[j])
        mp[i] = max(1, mp[i] // 2)
    return tuple(mp)


def setup(ctx):
    env.import_wb()
    return {}


# ---------------------------------------------------------------------------------------------------------------
#  the four oracles, applied to any BKVectors object that claims to describe mesh S
# ---------------------------------------------------------------------------------------------------------------
def judge(ctx, bk, S, pre=""):
    """S: basis, mpa, mp, kint, kred, NK, kirr, b1_atol, bk_tol_label, len_eq, len_tie, ssc, sphere, kt_enlarged, wit.
    Returns None after a structural violation, else a dict (bad, NNB, nshell, nG, index, nlen, blen, wscale)."""
    basis, mpa, mp, kint, kred, NK = S["basis"], S["mpa"], S["mp"], S["kint"], S["kred"], S["NK"]
    len_eq, len_tie, ssc, wit = S["len_eq"], S["len_tie"], S["ssc"], S["wit"]
    b1_atol, bk_lab = S["b1_atol"], S["bk_tol_label"]
    wk = np.array(bk.wk, dtype=float)
    bg = np.array(bk.bk_grid)
    bc = np.array(bk.bk_cart, dtype=float)
    NNB = len(wk)
    if not (bg.shape == (NNB, 3) and bc.shape == (NNB, 3) and NNB > 0 and np.issubdtype(bg.dtype, np.integer)):
        ctx.ev()
        ctx.violation(pre + "from_kpoints:malformed_output", f"shapes wk={wk.shape} bk_grid={bg.shape} {bg.dtype} "
                                                            f"bk_cart={bc.shape}", wit)
        return None
    bscale = float(np.abs(basis).max())
    b_h = bg @ basis                       # harness-side cartesian b vectors
    blen = np.linalg.norm(b_h, axis=1)
    wscale = 1.0 / float(np.min(np.linalg.norm(basis, axis=1))) ** 2
    wit2 = dict(wit, bk_grid=bg, wk=wk)

    # ---- bk_cart consistent with bk_grid
    ctx.close(pre + "bk_cart!=bk_grid@(recip/mp_grid)", bc, b_h, rtol=1e-12, scale=bscale * max(1, np.abs(bg).max()),
              what="bk_cart", witness=wit2)
    # ---- (B1)
    B = np.einsum("b,bi,bj->ij", wk, b_h, b_h)
    res_max = float(np.abs(B - np.eye(3)).max())
    if S["bk_tol"] is None and res_max > B1_TOL:
        ctx.count("default_bk_complete_tol_accepted_residual_gt_1e-8")   # informational: by design of the parameter
    bad_b1 = not ctx.close(pre + "B1:sum_w_b_b!=identity", B, np.eye(3), rtol=0.0, atol=b1_atol,
                           what=f"completeness relation (bk_complete_tol={bk_lab})", witness=wit2)
    B2 = np.einsum("b,bi,bj->ij", wk, bc, bc)
    ctx.close(pre + "B1:sum_w_b_b!=identity", B2, np.eye(3), rtol=0.0, atol=b1_atol,
              what=f"completeness relation (bk_cart, bk_complete_tol={bk_lab})", witness=wit2)

    # ---- (+-) closure, no repeated / zero vectors
    index = {}
    bad = bad_b1
    for ib, b in enumerate(bg.tolist()):
        t = tuple(b)
        if t in index or t == (0, 0, 0):
            ctx.violation(pre + "bk_grid:repeated_or_zero_vector", f"vector {t} repeated or zero", wit2)
            bad = True
        index[t] = ib
    ctx.ev()
    for t, ib in index.items():
        ctx.ev()
        jb = index.get(tuple(-x for x in t))
        if jb is None:
            ctx.violation(pre + "pm_closure:-b_missing", f"b={t} selected but -b is not", wit2)
            bad = True
            break
        if abs(wk[ib] - wk[jb]) > 1e-9 * wscale:
            ctx.violation(pre + "pm_closure:weights_differ", f"w(b)={wk[ib]} w(-b)={wk[jb]} for b={t}", wit2)
            bad = True
            break
        ctx.dev(pre + "pm_closure:weights_differ", abs(wk[ib] - wk[jb]) / (1e-9 * wscale))

    # ---- whole shells (brute force over the mesh lattice)
    rmax = float(blen.max())
    nvec, nlen, bound = mesh_vectors_in_ball(basis, rmax + 2 * len_tie)
    keep = np.any(nvec != 0, axis=1)
    nvec, nlen = nvec[keep], nlen[keep]
    d = np.abs(nlen[:, None] - blen[None, :])          # (mesh vectors, selected b)
    if np.any((d > len_eq) & (d < len_tie)):
        raise harness.Skip(f"tie: mesh vector within {len_tie:g} of a selected shell radius")
    # distinct radii of the selection
    order = np.argsort(blen)
    radii = []
    for ib in order:
        if not radii or blen[ib] - radii[-1][0] > len_eq:
            radii.append([blen[ib], [ib]])
        else:
            radii[-1][1].append(ib)
    nshell = len(radii)
    for r, members in radii:
        ctx.ev()
        ctx.count("shells_checked")
        same = np.where(np.abs(nlen - r) <= len_eq)[0]
        w0 = wk[members[0]]
        missing = [tuple(nvec[i].tolist()) for i in same if tuple(nvec[i].tolist()) not in index]
        if missing:
            # separate the truncation of a shell by the library's finite search box (index box
            # +-search_supercell*mp_grid, default 2) from every other way of losing a vector
            outside = all(bool(np.any(np.abs(np.array(m)) > ssc * mpa)) for m in missing)
            mech = ("shell_incomplete:missing_vector_outside_search_supercell_box" if outside else
                    "shell_incomplete:missing_vector_inside_search_box")
            if S["kt_enlarged"] and S.get("searched", True):
                # finding 2 of the widening review (.work/review_c22_finding_2.py): the library searches the ball
                # |k| < search_supercell*max|G_i|*(1-1e-6); a shell whose lengths are equal only within an enlarged
                # kmesh_tol can straddle that radius and is then selected in part
                mlen = np.array([np.linalg.norm(np.array(m) @ basis) for m in missing])
                if np.all(mlen >= S["sphere"] * (1 - 1e-6) * (1 - 1e-12)):
                    mech = "shell_incomplete:shell_straddles_search_sphere"
                    # fired on the unchanged tree, repaired in ccf769b3: judged like every other incomplete shell
                    ctx.count("shell_at_the_search_sphere_judged")
            ctx.violation(pre + mech,
                          f"shell |b|={r:.9f}: {len(members)} selected, {len(same)} mesh vectors of that length; "
                          f"missing {missing[:6]} (library search box +-{(ssc * mpa).tolist()})",
                          dict(wit2, brute_force_box=bound))
            bad = True
            break
        wsh = np.array([wk[index[tuple(nvec[i].tolist())]] for i in same])
        dw = float(np.max(np.abs(wsh - w0))) if len(wsh) else 0.0
        ctx.dev(pre + "shell_weights_differ", dw / (1e-9 * wscale))
        if dw > 1e-9 * wscale:
            ctx.violation(pre + "shell_weights_differ", f"shell |b|={r:.9f} has weights {sorted(set(wsh.tolist()))}",
                          wit2)
            bad = True
            break
        if len(same) != len(members):
            # a selected vector that the brute force did not find at that radius: harness inconsistency
            raise RuntimeError(f"harness: brute force found {len(same)} vectors, selection has {len(members)}")
        if len(same) and float(np.ptp(nlen[same])) > LEN_EQ:
            # members of one shell whose lengths differ by more than rounding: decided by the kmesh_tol passed
            ctx.count("kmesh_tol_merged_shells_decided")
    if nshell >= 2:
        ctx.count("multi_shell_sets")
    if np.any(np.abs(bg).max(axis=0) >= SEARCH_SUPERCELL * mpa):
        ctx.count("b_beyond_2mp_index_box")

    # ---- neighbours: k + b = k_nb + G, exact integers
    kirr = S["kirr"]
    G, nb = bk.G, bk.neighbours
    if set(G.keys()) != set(kirr) or set(nb.keys()) != set(kirr):
        ctx.ev()
        ctx.violation(pre + "neighbours:keys!=kptirr", f"keys {sorted(G.keys())[:10]} vs kptirr {sorted(kirr)[:10]}",
                      wit)
        return None
    ctx.close(pre + "kpt_grid!=round(k*mp_grid)", np.array(bk.kpt_grid), kint, rtol=0, atol=0, what="kpt_grid",
              witness=wit)
    nG = 0
    for ik in kirr:
        g = np.array(G[ik])
        n = np.array(nb[ik])
        ctx.ev()
        ctx.count("neighbour_relations_checked", NNB)
        if g.shape != (NNB, 3) or n.shape != (NNB,) or n.min() < 0 or n.max() >= NK or \
                not (np.issubdtype(g.dtype, np.integer) and np.issubdtype(n.dtype, np.integer)):
            ctx.violation(pre + "neighbours:malformed", f"ik={ik} G{g.shape}{g.dtype} nb{n.shape}{n.dtype} {n}", wit2)
            bad = True
            break
        lhs = kint[ik][None, :] + bg
        rhs = kint[n] + g * mpa[None, :]
        if not np.array_equal(lhs, rhs):
            ib = int(np.where(np.any(lhs != rhs, axis=1))[0][0])
            ctx.violation(pre + "neighbours:k+b!=k_nb+G",
                          f"ik={ik} k={kint[ik].tolist()}/{mp} b={bg[ib].tolist()} neighbour={int(n[ib])} "
                          f"k_nb={kint[n[ib]].tolist()} G={g[ib].tolist()}", wit2)
            bad = True
            break
        # the same relation in reduced float coordinates, as stated in the property
        kr = kred[ik][None, :] + bg / mpa[None, :] - kred[n] - g
        if np.abs(kr).max() > 1e-7:
            ctx.violation(pre + "neighbours:k+b!=k_nb+G", f"ik={ik}: reduced coordinates differ by {np.abs(kr).max()}",
                          wit2)
            bad = True
            break
        nG += int(np.count_nonzero(np.any(g != 0, axis=1)))
    if nG:
        ctx.count("G_nonzero", nG)
    return dict(bad=bad, NNB=NNB, nshell=nshell, nG=nG, index=index, nlen=nlen, blen=blen, wscale=wscale,
                wk=wk, bg=bg)


# ---------------------------------------------------------------------------------------------------------------
#  helpers of the histories
# ---------------------------------------------------------------------------------------------------------------
def snapshot(bk):
    return dict(wk=np.array(bk.wk, dtype=float).copy(), bk_grid=np.array(bk.bk_grid).copy(),
                bk_cart=np.array(bk.bk_cart, dtype=float).copy(), kpt_grid=np.array(bk.kpt_grid).copy(),
                mp_grid=np.array(bk.mp_grid).copy(), recip_lattice=np.array(bk.recip_lattice, dtype=float).copy(),
                neighbours={int(k): np.array(v).copy() for k, v in bk.neighbours.items()},
                G={int(k): np.array(v).copy() for k, v in bk.G.items()})


def same_as_snapshot(bk, snap, float_atol=None):
    """comparison of the attributes of bk with a snapshot (exact; the float attributes wk, bk_cart, recip_lattice within
    float_atol[key] when given); returns the name of the first differing one"""
    for key in ("wk", "bk_grid", "bk_cart", "kpt_grid", "mp_grid", "recip_lattice"):
        a = np.asarray(getattr(bk, key))
        if a.shape != snap[key].shape:
            return key
        if float_atol is not None and key in float_atol:
            if not np.all(np.abs(a - snap[key]) <= float_atol[key]):
                return key
        elif not np.array_equal(a, snap[key]):
            return key
    for key in ("neighbours", "G"):
        dic = getattr(bk, key)
        if set(int(k) for k in dic.keys()) != set(snap[key].keys()):
            return key + ".keys"
        for k, v in dic.items():
            v = np.asarray(v)
            if v.shape != snap[key][int(k)].shape or not np.array_equal(v, snap[key][int(k)]):
                return f"{key}[{int(k)}]"
    return None


def fmt_rows(a, fmt):
    return "\n".join(" ".join(fmt % x for x in row) for row in a)


def write_nnkp(path, L, recip, kred, kint, mpa, bg_file, lat_digits, k_digits):
    """a Wannier90 .nnkp file for the b vectors bg_file (in that order for every k-point); the neighbour of every
    k-point and its G come from exact integer arithmetic in the harness (not from the library)"""
    NK = len(kint)
    where = {tuple(k): i for i, k in enumerate((kint % mpa[None, :]).tolist())}
    rows = []
    for ik in range(NK):
        kb = kint[ik][None, :] + bg_file                       # (NNB, 3)
        inb = np.array([where[tuple(x)] for x in (kb % mpa[None, :]).tolist()], dtype=int)
        Gk = (kb - kint[inb]) // mpa[None, :]
        for j in range(len(bg_file)):
            rows.append((ik + 1, int(inb[j]) + 1, int(Gk[j, 0]), int(Gk[j, 1]), int(Gk[j, 2])))
    lat_fmt = f"%{lat_digits + 6}.{lat_digits}f"
    k_fmt = f"%{k_digits + 6}.{k_digits}f"
    txt = ["File written on 22Sep2026 at 00:00:00 ", "", "calc_only_A  :  F", "",
           "begin real_lattice", fmt_rows(L, lat_fmt), "end real_lattice", "",
           "begin recip_lattice", fmt_rows(recip, lat_fmt), "end recip_lattice", "",
           "begin kpoints", f"{NK:6d}", fmt_rows(kred, k_fmt), "end kpoints", "",
           "begin projections", "     0", "end projections", "",
           "begin nnkpts", f"{len(bg_file):4d}",
           "\n".join("%6d%6d   %4d%4d%4d" % r for r in rows), "end nnkpts", "",
           "begin exclude_bands", "   0", "end exclude_bands", ""]
    with open(path, "w") as f:
        f.write("\n".join(txt))


class FakeMMN:
    """the only thing reorder_mmn reads from an MMN object: .data[ik] with the b index on the first axis"""

    def __init__(self, data):
        self.data = data


def as_form(rng, a, forms):
    return forms[int(rng.integers(len(forms)))](a)


def non_contiguous(a):
    big = np.zeros((a.shape[0], 2 * a.shape[1]), dtype=a.dtype)
    big[:, ::2] = a
    return big[:, ::2]


def case(ctx, rng, idx, state):
    from wannierberri.w90files.bkvectors import BKVectors

    kind = KINDS[idx % len(KINDS)] if rng.random() < 0.7 else KINDS[int(rng.integers(len(KINDS)))]
    big = bool(rng.random() < 0.06)
    mp = make_big_mesh(rng) if big else make_mesh(rng, ctx.thorough)
    mode = ["random", "special", "meshcomp"][int(rng.choice(3, p=[0.45, 0.4, 0.15]))]
    if kind == "triclinic":
        mode = "random"
    if mode == "meshcomp" and kind in ("cubic", "fcc", "bcc"):
        mode = "random"
    L = make_lattice(rng, kind, mp, mode)

    # ---- documented parameter kmesh_tol, and nearly symmetric cells that make it matter
    r = rng.random()
    near, eps, kt = "exact", 0.0, None
    sphere_class = (idx % 25 == 7)
    if sphere_class:
        # a shell exactly on the library's search sphere (radius = search_supercell x longest reciprocal vector): orthorhombic cells
        # a : b : c = 1 : 1.5 : sqrt(3) have 20 mesh vectors of that length ((4,0,0), (0,6,0), (3,3,3), (0,3,6), (2,0,6), ...); slightly
        # distorted and with an enlarged kmesh_tol they are one shell, which the cut at the sphere must not split
        n = int(rng.choice([1, 2, 2, 3]))
        mp, big = (n, n, n), False
        a0 = float(rng.uniform(2.0, 5.0))
        L = np.diag([a0, 1.5 * a0, np.sqrt(3.0) * a0])
        near, kt = "merged", float(rng.choice([1e-4, 1e-3]))
        r = 1.0
        ctx.count("shell_on_the_search_sphere_cases")
    if r < 0.10:       # shells of the symmetric cell split by more than the tie zone of the default kmesh_tol
        near, eps = "split", 10 ** rng.uniform(-4.0, -2.5)
    elif r < 0.20:     # split by less than kmesh_tol/10 of an enlarged kmesh_tol: still one shell
        near, kt = "merged", float(rng.choice([1e-4, 1e-4, 1e-3]))
    elif r < 0.26:     # split, with bk_complete_tol deciding how many shells are needed (distortion 1e-7..1e-4)
        near, eps = "tiny", 10 ** rng.uniform(-7.0, -4.0)
    elif r < 0.40:     # other values of kmesh_tol on ordinary cells (incl. the default written out)
        kt = float(rng.choice([1e-9, 1e-8, 1e-7, 1e-6, 1e-5]))

    setting = "catalogue"
    r = rng.random()
    if r < 0.3:
        U = random_unimodular(rng)
        L2 = U @ L
        if np.linalg.cond(L2) <= 20.0:
            L, setting = L2, "resetting"
    elif r < 0.42:
        for _ in range(6):
            L2 = random_shear(rng) @ L
            if np.linalg.cond(L2) <= 50.0:
                L, setting = L2, "sheared"
                break
    rotated = bool(rng.random() < 0.8)
    if rotated:
        L = L @ gen_systems.random_rotation(rng).T
    lefthanded = bool(rng.random() < 0.15)
    if lefthanded:
        if rng.random() < 0.5:
            L = L.copy()
            L[int(rng.integers(3))] *= -1
        else:
            L = L @ np.diag([1.0, 1.0, -1.0])
    cellscale = 1.0
    if rng.random() < 0.2:
        cellscale = float(10 ** rng.uniform(-0.6, 1.3))
        L = L * cellscale
    if near == "merged":
        # lengths of the mesh vectors up to ~3 basis lengths then differ by at most kmesh_tol/10
        bs = float(np.abs(2 * np.pi * np.linalg.inv(L).T / np.array(mp)[:, None]).max())
        eps = 10 ** rng.uniform(-2.0, -1.0) * kt / max(bs, 1e-3) / 10.0
    if eps:
        L = L @ (np.eye(3) + eps * rng.uniform(-1, 1, (3, 3)))
    cond = float(np.linalg.cond(L))
    if cond > 50:
        raise harness.Skip("ill-conditioned lattice (cond>50)")
    recip = 2 * np.pi * np.linalg.inv(L).T      # rows = reciprocal lattice vectors
    # ---- documented parameter search_supercell
    ssc = SEARCH_SUPERCELL
    if rng.random() < 0.08 and not big:
        ssc = int(rng.choice([1, 3]))
    if big or setting == "sheared" or ssc != SEARCH_SUPERCELL:
        # cost guard of the added classes: the library enumerates an index box in pure Python
        mp = shrink_mesh(mp, recip, ssc, keep=int(np.argmax(mp)) if big else None)
        if mp is None:
            raise harness.Skip("library search box too large (cost guard of the added classes)")
    mpa = np.array(mp, dtype=int)
    basis = recip / mpa[:, None]

    # k-point list: every mesh point once, shuffled, as floats in [0,1)
    kint = np.array([(i, j, k) for i in range(mp[0]) for j in range(mp[1]) for k in range(mp[2])], dtype=int)
    kint = kint[rng.permutation(len(kint))]
    NK = len(kint)
    kred = kint / mpa[None, :]
    rounded = bool(rng.random() < 0.3)
    digits = None
    if rounded:
        digits = int(rng.choice([8, 8, 9, 10, 12]))
        kred = np.round(kred, digits)
    if NK > 125 or rng.random() < 0.2:
        nirr = int(min(NK, rng.integers(1, 17 if NK <= 400 else 7)))
        kptirr = [int(x) for x in rng.choice(NK, nirr, replace=False)]
        ctx.count("kptirr_subset")
    else:
        kptirr = None

    wit = dict(kind=kind, mode=mode, setting=setting, rotated=rotated, real_lattice=L, mp_grid=mp, cond=cond,
               NK=NK, kptirr=kptirr, rounded=digits, near_symmetric=near, distortion=eps, kmesh_tol=kt,
               search_supercell=ssc, lefthanded=lefthanded, cellscale=cellscale)

    # completeness tolerance: the documented parameter bk_complete_tol (Frobenius residual below which a shell set is
    # accepted).  Mostly passed tight, so that B1 is decided at ~1e-8; the default (1e-5) is judged at 1e-5.
    kw = {}
    r = rng.random()
    if sphere_class:
        r = 0.9       # a random tolerance: the search has to go on to the outer shells
    if r < 0.55:
        bk_tol = BK_TOL_TIGHT
        kw["bk_complete_tol"] = bk_tol
        b1_atol = 10 * BK_TOL_TIGHT + 1e-9
        ctx.count("tight_bk_complete_tol_calls")
    elif r < 0.80:
        bk_tol = None
        b1_atol = BK_COMPLETE_TOL * (1 + 1e-6)
        ctx.count("default_bk_complete_tol_calls")
    else:
        bk_tol = float(10 ** rng.uniform(-9, -4))
        kw["bk_complete_tol"] = bk_tol
        b1_atol = bk_tol + 1e-9
        ctx.count("random_bk_complete_tol_calls")
    wit["bk_complete_tol"] = bk_tol
    if kt is not None:
        kw["kmesh_tol"] = kt
        ctx.count("kmesh_tol_explicit_calls")
    if ssc != SEARCH_SUPERCELL:
        kw["search_supercell"] = ssc
        ctx.count("search_supercell_nondefault_calls")
    kt_eff = KMESH_TOL if kt is None else kt
    len_eq, len_tie = len_zone(kt_eff)

    # ---- argument forms
    forms = "array"
    recip_in, mp_in, kred_in, kptirr_in = recip.copy(), mpa.copy(), kred.copy(), kptirr
    if rng.random() < 0.3:
        forms = "varied"
        mp_in = as_form(rng, mp, [tuple, list, lambda a: np.array(a, dtype=np.int32), lambda a: np.array(a, dtype=int)])
        recip_in = as_form(rng, recip, [np.asfortranarray, non_contiguous, np.array])
        kred_in = as_form(rng, kred, [np.asfortranarray, non_contiguous, np.array])
        if kptirr is not None:
            kptirr_in = as_form(rng, kptirr, [tuple, np.array, list, lambda a: np.array(a, dtype=np.int32)])
        elif rng.random() < 0.3 and NK <= 125:
            kptirr_in = range(NK)          # the documented meaning of None, written out
        if not isinstance(mp_in, np.ndarray):
            ctx.count("argform_mp_grid_not_array")
        ctx.count("argform_varied_calls")
    keep_in = (np.array(recip_in, copy=True), np.array(mp_in, copy=True), np.array(kred_in, copy=True),
               None if kptirr_in is None else np.array(list(kptirr_in), copy=True))
    positional = bool(rng.random() < 0.3)
    ctx.count("from_kpoints_calls")
    try:
        if positional:
            bk = BKVectors.from_kpoints(recip_in, mp_in, kred_in, kptirr=kptirr_in, **kw)
        else:
            bk = BKVectors.from_kpoints(recip_lattice=recip_in, mp_grid=mp_in, kpoints_red=kred_in,
                                        kptirr=kptirr_in, **kw)
    except RuntimeError as e:
        if "Could not find a complete set" in str(e):
            if kt_eff > KMESH_TOL * (1 + 1e-12):
                ctx.count("no_complete_set_with_enlarged_kmesh_tol")
                raise harness.Skip("no complete set with enlarged kmesh_tol (not judged)")
            if ssc < SEARCH_SUPERCELL:
                ctx.count("no_complete_set_with_search_supercell_1")
                raise harness.Skip("no complete set with search_supercell=1 (not judged)")
            if near != "exact":
                # whether a nearly symmetric cell has a set that is complete to bk_complete_tol depends on how kmesh_tol
                # (absolute) groups its almost equal lengths; the documentation promises nothing there
                ctx.count("no_complete_set_on_nearly_symmetric_cell")
                raise harness.Skip("no complete set on a nearly symmetric cell (not judged)")
            ctx.ev()
            ctx.violation("find_bk_vectors:no_complete_set_on_well_conditioned_lattice",
                          f"{kind} lattice (cond={cond:.2f}) mesh {mp}: {e}", wit)
            return
        raise

    # ---- the call must not modify what it was given
    ctx.ev()
    ctx.count("inputs_unchanged_checked")
    now_in = (np.array(recip_in), np.array(mp_in), np.array(kred_in),
              None if kptirr_in is None else np.array(list(kptirr_in)))
    for name, a, b in zip(("recip_lattice", "mp_grid", "kpoints_red", "kptirr"), keep_in, now_in):
        if (a is None) != (b is None) or (a is not None and not np.array_equal(a, b)):
            ctx.violation("from_kpoints:input_modified", f"argument {name} was changed by the call", wit)
            return
    if not np.array_equal(keep_in[0], recip) or not np.array_equal(keep_in[2], kred):
        raise RuntimeError("harness: argument forms changed the values")

    kirr = list(range(NK)) if kptirr is None else kptirr
    S = dict(basis=basis, mpa=mpa, mp=mp, kint=kint, kred=kred, NK=NK, kirr=kirr, b1_atol=b1_atol, bk_tol=bk_tol,
             bk_tol_label=("default 1e-5" if bk_tol is None else f"{bk_tol:g}"), len_eq=len_eq, len_tie=len_tie,
             ssc=ssc, wit=wit, kt_enlarged=bool(kt_eff > KMESH_TOL * (1 + 1e-12)),
             sphere=float(ssc * np.linalg.norm(recip, axis=1).max()))
    snap = snapshot(bk)
    J = judge(ctx, bk, S)
    if J is None:
        return
    bad, NNB, nshell, nG = J["bad"], J["NNB"], J["nshell"], J["nG"]
    wscale = J["wscale"]
    wit2 = dict(wit, bk_grid=J["bg"], wk=J["wk"])

    ctx.count(f"kind_{kind}")
    ctx.count(f"mode_{mode}")
    if setting == "resetting":
        ctx.count("setting_resetting")
    if setting == "sheared":
        ctx.count("setting_sheared")
        if cond > 20:
            ctx.count("setting_sheared_cond_gt_20")
    if lefthanded:
        ctx.count("lefthanded_lattices")
    if cellscale != 1.0:
        ctx.count("scaled_cells")
    if big:
        ctx.count("big_anisotropic_meshes")
    if near != "exact":
        ctx.count(f"near_symmetric_{near}_judged")
    if kt is not None and kt != KMESH_TOL:
        ctx.count("kmesh_tol_nondefault_judged")

    hist = "none"
    if not bad:
        tmp = None
        try:
            # ---- search_supercell: the set found must be that of the default (shells are tried by increasing radius)
            if ssc != SEARCH_SUPERCELL:
                kw0 = {k: v for k, v in kw.items() if k != "search_supercell"}
                try:
                    bk0 = BKVectors.from_kpoints(recip_lattice=recip.copy(), mp_grid=mpa.copy(),
                                                 kpoints_red=kred.copy(), kptirr=[kirr[0]], **kw0)
                except RuntimeError as e:
                    if "Could not find a complete set" not in str(e):
                        raise
                    bk0 = None
                    ctx.count("search_supercell_default_finds_nothing")
                if bk0 is not None:
                    ctx.ev()
                    ctx.count("search_supercell_compared_with_default")
                    s0 = {tuple(b): w for b, w in zip(np.array(bk0.bk_grid).tolist(), np.array(bk0.wk, dtype=float))}
                    s1 = {tuple(b): w for b, w in zip(J["bg"].tolist(), J["wk"])}
                    if set(s0) != set(s1) or max(abs(s0[b] - s1[b]) for b in s0) > 1e-9 * wscale:
                        ctx.violation("search_supercell:b_set_differs_from_default",
                                      f"search_supercell={ssc}: {len(s1)} vectors, default: {len(s0)} vectors; "
                                      f"only in one: {sorted(set(s0) ^ set(s1))[:6]}", wit2)
                        bad = True

            # ---- the public classmethod find_bk_vectors called directly: the triple it returns
            if rng.random() < 0.15:
                kwf = {k: v for k, v in kw.items()}
                wk_f, bc_f, bg_f = BKVectors.find_bk_vectors(recip.copy(), tuple(mp) if rng.random() < 0.5 else
                                                             mpa.copy(), **kwf)
                ctx.count("find_bk_vectors_direct_calls")
                ctx.ev()
                if not (np.array_equal(np.array(bg_f), J["bg"]) and np.array_equal(np.array(wk_f, dtype=float), J["wk"])):
                    ctx.violation("find_bk_vectors:triple!=from_kpoints_object",
                                  "bk_grid / wk returned by find_bk_vectors differ from those of the object", wit2)
                    bad = True
                else:
                    bgf = np.array(bg_f)
                    ctx.close("find_bk_vectors:bk_cart!=bk_grid@(recip/mp_grid)", np.array(bc_f, dtype=float),
                              bgf @ basis, rtol=1e-12, scale=float(np.abs(basis).max()) * max(1, np.abs(bgf).max()),
                              what="bk_cart returned by find_bk_vectors", witness=wit2)

            # ---- histories through the other public entry points
            hist = str(rng.choice(["none", "npz", "npz2", "nnkp", "nnkp+reorder", "nnkp+npz"],
                                  p=[0.25, 0.15, 0.10, 0.2, 0.15, 0.15]))
            if hist.startswith("nnkp") and max(mp) > 100:
                hist = "npz"          # the mesh detection of from_nnkp is documented for denominators <= 100
            if hist.startswith("nnkp") and kptirr is None and NK > 64:
                hist = "npz"          # cost: the neighbour search of the library is O(NK^2) in pure Python
            if hist != "none":
                os.makedirs(os.path.join(env.WORK, "c22"), exist_ok=True)
                tmp = tempfile.mkdtemp(dir=os.path.join(env.WORK, "c22"))
            cur, curS, curpre = bk, S, ""
            if hist.startswith("nnkp"):
                perm = rng.permutation(NNB) if rng.random() < 0.8 else np.arange(NNB)
                bg_file = J["bg"][perm]
                latvar = str(rng.choice(["digits16", "digits7+real_lattice", "digits7+recip_lattice",
                                         "digits16+real_lattice"]))
                # the file lists the exact mesh points i/N with 8 (Wannier90), 10 or 12 decimals: one rounding only
                # (the mesh detection used by from_nnkp rounds to 8 decimals itself and then tolerates 5e-7/N)
                k_digits = int(rng.choice([8, 10, 12]))
                path = os.path.join(tmp, "x.nnkp")
                write_nnkp(path, L, recip, kint / mpa[None, :], kint, mpa, bg_file, 16 if "digits16" in latvar else 7,
                           k_digits)
                kwn = {}
                if "real_lattice" in latvar:
                    kwn["real_lattice"] = L.copy()
                if "recip_lattice" in latvar:
                    kwn["recip_lattice"] = recip.copy()
                if bk_tol is not None:
                    kwn["bk_complete_tol"] = bk_tol
                # kmesh_tol of from_nnkp defaults to 1e-5: left out only when no length is closer than 1e-4 to a
                # selected radius without being equal to it
                dd = np.abs(J["nlen"][:, None] - J["blen"][None, :])
                ktn = kt_eff
                if kt is None and rng.random() < 0.5 and not np.any((dd > LEN_EQ) & (dd < 10 * KMESH_TOL_NNKP)):
                    ktn = KMESH_TOL_NNKP
                    ctx.count("from_nnkp_default_kmesh_tol")
                else:
                    kwn["kmesh_tol"] = kt_eff
                if kptirr is not None:
                    kwn["kptirr"] = kptirr_in
                ctx.count("from_nnkp_calls")
                bkn = BKVectors.from_nnkp(path, **kwn)
                le, lt = len_zone(ktn)
                kred_file = np.round(kint / mpa[None, :], k_digits)
                Sn = dict(S, kred=kred_file, len_eq=max(le, len_eq) if ktn == kt_eff else le,
                          len_tie=lt, searched=False, wit=dict(wit, history=hist, nnkp_lattice=latvar, nnkp_kmesh_tol=ktn,
                                               nnkp_order=perm))
                ctx.ev()
                if not np.array_equal(np.array(bkn.bk_grid), bg_file):
                    ctx.violation("from_nnkp:bk_grid_order!=nnkp_order",
                                  f"bk_grid {np.array(bkn.bk_grid).tolist()[:6]}.. file {bg_file.tolist()[:6]}..",
                                  Sn["wit"])
                    bad = True
                Jn = judge(ctx, bkn, Sn, pre="from_nnkp:")
                if Jn is None or Jn["bad"]:
                    bad = True
                else:
                    ctx.count("hist_nnkp_judged")
                    if "real_lattice" in latvar or "recip_lattice" in latvar:
                        ctx.count("hist_nnkp_lattice_override_judged")
                    # weights of the same vectors as in the first object
                    ctx.close("from_nnkp:wk!=from_kpoints", np.array(bkn.wk, dtype=float), J["wk"][perm], rtol=0,
                              atol=1e-9 * wscale, what="weights", witness=Sn["wit"])
                    cur, curS, curpre = bkn, Sn, "from_nnkp:"
                if not bad and hist == "nnkp+reorder":
                    # bring the nnkp-ordered object (and data stored per b vector) into the order of the first one
                    data = {ik: np.stack([perm, np.full(NNB, ik)], axis=1).astype(float) for ik in kirr}
                    fake = FakeMMN(data)
                    ctx.count("reorder_mmn_calls")
                    bk.reorder_mmn(bkn, fake)
                    ctx.ev()
                    left = same_as_snapshot(bkn, snap, float_atol=dict(
                        wk=1e-9 * wscale, bk_cart=1e-12 * float(np.abs(snap["bk_cart"]).max()),
                        recip_lattice=1e-12 * float(np.abs(recip).max())))
                    if left is not None:
                        ctx.violation("reorder_mmn:object_not_in_reference_order",
                                      f"attribute {left} differs from the reference object after reorder_mmn", Sn["wit"])
                        bad = True
                    for ik in kirr:
                        if not np.array_equal(fake.data[ik][:, 0], np.arange(NNB)) or \
                                not np.all(fake.data[ik][:, 1] == ik):
                            ctx.violation("reorder_mmn:data_rows_not_in_reference_order",
                                          f"ik={ik}: rows carry b indices {fake.data[ik][:, 0].tolist()}", Sn["wit"])
                            bad = True
                            break
                    Jr = judge(ctx, bkn, dict(Sn, wit=dict(Sn["wit"], after="reorder_mmn")), pre="reorder_mmn:")
                    if Jr is None or Jr["bad"]:
                        bad = True
                    else:
                        ctx.count("hist_reorder_mmn_judged")
            if not bad and hist in ("npz", "npz2", "nnkp+npz"):
                for rep in range(2 if hist == "npz2" else 1):
                    path = os.path.join(tmp, f"x{rep}.npz")
                    before = snapshot(cur)
                    cur.to_npz(path)
                    ctx.count("npz_round_trips")
                    new = BKVectors.from_npz(path)
                    ctx.ev(2)
                    left = same_as_snapshot(new, before)
                    if left is not None:
                        ctx.violation("npz:attribute_changed", f"attribute {left} differs after to_npz -> from_npz",
                                      curS["wit"])
                        bad = True
                        break
                    eq = new.equals(cur)
                    if not (isinstance(eq, tuple) and eq[0] is True):
                        ctx.violation("npz:equals_false", f"reloaded.equals(original) = {eq}", curS["wit"])
                        bad = True
                        break
                    Jz = judge(ctx, new, dict(curS, wit=dict(curS["wit"], history=hist)), pre=curpre + "npz:")
                    if Jz is None or Jz["bad"]:
                        bad = True
                        break
                    ctx.count("hist_npz_judged")
                    cur = new
            # ---- restriction to fewer k-points (inherited public method, modifies neighbours / G in place)
            if not bad and rng.random() < 0.25:
                obj = cur if cur is not bk else copy.deepcopy(bk)
                sel = [int(x) for x in rng.choice(kirr, int(rng.integers(1, len(kirr) + 1)), replace=False)]
                ctx.count("select_kpoints_calls")
                obj.select_kpoints(tuple(sel) if rng.random() < 0.5 else list(sel))
                Js = judge(ctx, obj, dict(curS, kirr=sel, wit=dict(curS["wit"], history=hist, selected_kpoints=sel)),
                           pre=curpre + "select_kpoints:")
                if Js is None or Js["bad"]:
                    bad = True
                else:
                    ctx.count("hist_select_kpoints_judged")
                if not bad and PENDING:
                    # outside the statement of C22 (a file round trip): the object restricted by select_kpoints keeps
                    # its old kptirr, and from_npz of what it saves raises (see .work/review_c22_finding_1.py)
                    path = os.path.join(tmp or tempfile.gettempdir(), "sel.npz")
                    if tmp is None:
                        os.makedirs(os.path.join(env.WORK, "c22"), exist_ok=True)
                        tmp = tempfile.mkdtemp(dir=os.path.join(env.WORK, "c22"))
                        path = os.path.join(tmp, "sel.npz")
                    obj.to_npz(path)
                    new = BKVectors.from_npz(path)
                    judge(ctx, new, dict(curS, kirr=sel, wit=dict(curS["wit"], history=hist, selected_kpoints=sel)),
                          pre=curpre + "select_kpoints:npz:")
            # ---- values returned earlier stay valid
            ctx.ev()
            ctx.count("first_object_unchanged_checked")
            left = same_as_snapshot(bk, snap)
            if left is not None:
                ctx.violation("from_kpoints:object_changed_by_later_calls",
                              f"attribute {left} of the first object changed (history {hist})", wit2)
                bad = True
        finally:
            if tmp is not None:
                shutil.rmtree(tmp, ignore_errors=True)

    if not bad and nG > 0:
        ctx.nontrivial((kind, mode, setting, mp, rotated, NNB, nshell, near, kt, ssc, lefthanded, hist, forms))
    ctx.sample(dict(kind=kind, mode=mode, setting=setting, mp_grid=mp, cond=round(cond, 2), NNB=NNB, nshell=nshell,
                    real_lattice=L, near_symmetric=near, kmesh_tol=kt, search_supercell=ssc, history=hist))


if __name__ == "__main__":
    harness.main(
        PROP, "exploration", case, setup_fn=setup,
        tiers=dict(quick=dict(cases=1000, shards=8, time=900), thorough=dict(cases=16000, shards=16, time=3000)),
        rule="all 14 Bravais types (primitive cells of the centred ones and the simple = conventional ones) with random "
             "axis ratios, special ratios (accidental shell coincidences, hidden fcc/bcc/cubic symmetry, the "
             "rhombohedral/bct/face-centred lattices of finding F12) and mesh-compensated ratios, other primitive "
             "settings by unimodular integer matrices (cond<=20) and strongly sheared ones (cond<=50), random O(3) "
             "orientation, both handednesses, cells scaled by 0.25..20, nearly symmetric cells, random triclinic "
             "(cond<=20); meshes 1..8 isotropic / one / two / three non-trivial directions and one direction up to 120; "
             "shuffled k lists (exact or rounded to 8..12 digits), optional kptirr subsets; documented parameters "
             "bk_complete_tol / kmesh_tol / search_supercell varied, argument forms varied; histories through npz, "
             "from_nnkp, reorder_mmn.  A case is non-trivial when a b-set was returned, every sub-oracle ran on every "
             "object of the history and at least one neighbour relation has G != 0; distinct by (type, ratio mode, "
             "setting, mesh, rotated, number of b vectors, number of shells, parameter and history class)",
        assumptions=["b vectors are recomputed by the harness as bk_grid @ (recip_lattice/mp_grid)",
                     "whole-shell oracle = brute-force enumeration of the mesh lattice in a box containing the ball "
                     "of radius max|b|; lengths equal within 1e-9, tie zone (1e-9,1e-5) skipped (scaled with kmesh_tol "
                     "when that documented parameter is passed)",
                     "B1 tolerance 10*bk_complete_tol+1e-9 = 1.1e-8 absolute when bk_complete_tol=1e-9 is passed, 1e-5 (the documented "
                     "default acceptance threshold) by default, t+1e-9 for a random t; neighbour relation in exact integers",
                     "the .nnkp files are written by the harness from exact integer arithmetic (Wannier90 layout)",
                     "'Could not find a complete set' is judged only for kmesh_tol <= 1e-7, search_supercell >= 2 and cells that "
                     "are not nearly symmetric"],
        required_counters=("from_kpoints_calls", "tight_bk_complete_tol_calls", "default_bk_complete_tol_calls",
                           "random_bk_complete_tol_calls", "shells_checked", "multi_shell_sets",
                           "neighbour_relations_checked", "G_nonzero", "kptirr_subset", "setting_resetting",
                           "setting_sheared", "setting_sheared_cond_gt_20", "lefthanded_lattices", "scaled_cells",
                           "big_anisotropic_meshes", "near_symmetric_split_judged", "near_symmetric_merged_judged",
                           "near_symmetric_tiny_judged", "kmesh_tol_nondefault_judged", "shell_on_the_search_sphere_cases",
                           "kmesh_tol_merged_shells_decided", "search_supercell_compared_with_default",
                           "argform_varied_calls", "argform_mp_grid_not_array", "inputs_unchanged_checked",
                           "find_bk_vectors_direct_calls", "hist_nnkp_judged", "hist_nnkp_lattice_override_judged",
                           "from_nnkp_default_kmesh_tol", "hist_reorder_mmn_judged", "hist_npz_judged", "hist_select_kpoints_judged",
                           "first_object_unchanged_checked") + tuple(f"kind_{k}" for k in KINDS),
        min_nontrivial=50,
    )
