"""C22 - finite-difference b-vectors: completeness (B1), +-b closure, whole shells, neighbour relation (REF).

Real code: BKVectors.from_kpoints (-> find_bk_vectors, k_to_shells, is_parallel_shell, get_shell_weights,
find_G_and_neighbours) of wannierberri/w90files/bkvectors.py, observed through the attributes
wk, bk_cart, bk_grid, neighbours, G, kpt_grid of the returned object.

Oracles (none of them uses the shell search or the weight solver of the library):
  (B1)     sum_b w_b b_i b_j = delta_ij, with b recomputed by the harness from bk_grid and the mesh basis
           recip_lattice/mp_grid (and bk_cart == that product).  The library accepts a shell set when the Frobenius
           residual is below its documented parameter bk_complete_tol (default 1e-5): 75 % of the cases pass
           bk_complete_tol=1e-9 and require 1.1e-8 (rounding is ~1e-12), the others use the default and are judged at
           1e-5 (how often the default lets a residual > 1e-8 through is only counted);
  (+-)     the set {(b, w)} is closed under b -> -b with equal weights, no repeated and no zero vector;
  (shells) brute force in the harness: every vector n.basis of the mesh lattice inside a box that provably
           contains the ball of radius max|b| is enumerated; every one whose length equals that of a selected
           b must be selected too, with the same weight.  Tie guard: a mesh vector whose length differs from a
           selected one by more than rounding (1e-9) but less than 1e-5 makes the case a skipped tie
           (the library separates shells at kmesh_tol = 1e-7);
  (nb)     exact integer arithmetic: kint[k] + bk_grid[b] == kint[neighbours[k][b]] + G[k][b]*mp_grid for every
           k of kptirr and every b, for shuffled k lists given as i/N floats (optionally 8-digit rounded).
A RuntimeError("Could not find a complete set") on a lattice with cond <= 20 is a violation (witness = lattice
and mesh); lattices with cond > 50 would be skipped (the generator never produces them).
"""
import os
import sys

sys.path.insert(0, os.path.dirname(os.path.dirname(os.path.abspath(__file__))))
from vlib import env, harness, gen_systems  # noqa: E402
import numpy as np  # noqa: E402

PROP = "C22"

KINDS = ["cubic", "fcc", "bcc", "tetragonal", "bct", "orthorhombic", "ortho_fc", "ortho_bc", "ortho_c",
         "hexagonal", "rhombohedral", "monoclinic", "mono_c", "triclinic"]
# axis ratios that create accidental coincidences of shell radii or hidden higher symmetry
SPECIAL = [0.5, 2.0 / 3.0, 1.0 / np.sqrt(2.0), 1.5, 2.0, 3.0, np.sqrt(2.0), np.sqrt(3.0), np.sqrt(8.0 / 3.0), 1.0]
RHOMBO_X = [0.1, 0.2, 0.25, -0.2, -0.1, 0.4, 0.05, 0.3]  # rows (1,x,x): .25 = fcc, -.2 = bcc, .1/.2 = finding F12
LEN_EQ = 1e-9    # two lengths closer than this are "equal" (rounding noise is 1e-15)
LEN_TIE = 1e-5   # closer than this but not equal: tie zone of the library's kmesh_tol=1e-7 -> skipped
B1_TOL = 1e-8
BK_TOL_TIGHT = 1e-9     # bk_complete_tol passed explicitly in most cases; B1 is then required to 10*tol + 1e-9
BK_COMPLETE_TOL = 1e-5  # documented default of from_kpoints: Frobenius residual below which a shell set is accepted
SEARCH_SUPERCELL = 2  # documented default of from_kpoints / find_bk_vectors (index box +-2*mp_grid)


def make_lattice(rng, kind, mp, mode):
    """rows = lattice vectors.  mode in random / special / meshcomp"""
    if kind == "triclinic":
        return gen_systems.random_lattice(rng, maxcond=20.0)
    a = rng.uniform(2.5, 4.0)
    if mode == "random":
        return gen_systems.bravais_lattice(rng, kind)[1]
    if mode == "special":
        b = a * SPECIAL[int(rng.integers(len(SPECIAL)))]
        c = a * SPECIAL[int(rng.integers(len(SPECIAL)))]
    else:  # mesh-compensated: the mesh basis vectors of an orthogonal cell get equal lengths
        b = a * mp[0] / mp[1]
        c = a * mp[0] / mp[2]
    if kind == "rhombohedral":
        x = RHOMBO_X[int(rng.integers(len(RHOMBO_X)))] if mode == "special" else rng.uniform(-0.3, 0.45)
        return a * (np.eye(3) + x * (np.ones((3, 3)) - np.eye(3)))
    if kind in ("orthorhombic", "ortho_fc", "ortho_bc", "ortho_c", "monoclinic", "mono_c") and mode == "special":
        # keep the three axes different
        if abs(b - a) < 1e-9 * a:
            b = a * 1.25
        if abs(c - a) < 1e-9 * a or abs(c - b) < 1e-9 * a:
            c = a * 1.75
    return np.array(gen_systems.BRAVAIS[kind](a, b, c), dtype=float)


def random_unimodular(rng):
    """another primitive setting of the same lattice: product of elementary integer shears and a signed permutation"""
    U = np.eye(3, dtype=int)
    for _ in range(int(rng.integers(1, 3))):
        i, j = rng.choice(3, 2, replace=False)
        E = np.eye(3, dtype=int)
        E[i, j] = int(rng.choice([-1, 1]))
        U = E @ U
    P = np.eye(3, dtype=int)[rng.permutation(3)]
    U = P @ U
    if round(np.linalg.det(U)) < 0:
        U[0] *= -1
    return U


def make_mesh(rng, thorough):
    m = int(rng.integers(6))
    hi = 9
    if m == 0:
        n = int(rng.integers(1, hi))
        mp = (n, n, n)
    elif m == 1:
        n = int(rng.integers(2, hi))
        mp = [1, 1, 1]
        mp[int(rng.integers(3))] = n
        mp = tuple(mp)
    elif m == 2:
        mp = [int(rng.integers(2, hi)), int(rng.integers(2, hi)), 1]
        mp = tuple(int(x) for x in rng.permutation(mp))
    else:
        mp = tuple(int(x) for x in rng.integers(1, hi, size=3))
    return mp


def mesh_vectors_in_ball(basis, radius, maxbox=4_000_000):
    """all integer n with |n.basis| <= radius, by brute force over a box that contains the ball:
    n = v.inv(basis)  =>  |n_i| <= |v| * |column i of inv(basis)|"""
    inv = np.linalg.inv(basis)
    bound = np.floor(radius * np.linalg.norm(inv, axis=0) * (1 + 1e-9) + 1e-9).astype(int) + 1
    if np.prod(2 * bound + 1) > maxbox:
        raise harness.Skip("brute-force box too large")
    ax = [np.arange(-b, b + 1) for b in bound]
    n = np.stack(np.meshgrid(*ax, indexing="ij"), axis=-1).reshape(-1, 3)
    length = np.linalg.norm(n @ basis, axis=1)
    sel = length <= radius
    return n[sel], length[sel], bound


def setup(ctx):
    env.import_wb()
    return {}


def case(ctx, rng, idx, state):
    from wannierberri.w90files.bkvectors import BKVectors

    kind = KINDS[idx % len(KINDS)] if rng.random() < 0.7 else KINDS[int(rng.integers(len(KINDS)))]
    mp = make_mesh(rng, ctx.thorough)
    mode = ["random", "special", "meshcomp"][int(rng.choice(3, p=[0.45, 0.4, 0.15]))]
    if kind == "triclinic":
        mode = "random"
    if mode == "meshcomp" and kind in ("cubic", "fcc", "bcc"):
        mode = "random"
    L = make_lattice(rng, kind, mp, mode)
    setting = "catalogue"
    if rng.random() < 0.3:
        U = random_unimodular(rng)
        L2 = U @ L
        if np.linalg.cond(L2) <= 20.0:
            L, setting = L2, "resetting"
    rotated = bool(rng.random() < 0.8)
    if rotated:
        L = L @ gen_systems.random_rotation(rng).T
    cond = float(np.linalg.cond(L))
    if cond > 50:
        raise harness.Skip("ill-conditioned lattice (cond>50)")
    recip = 2 * np.pi * np.linalg.inv(L).T      # rows = reciprocal lattice vectors
    mpa = np.array(mp, dtype=int)
    basis = recip / mpa[:, None]

    # k-point list: every mesh point once, shuffled, as floats in [0,1)
    kint = np.array([(i, j, k) for i in range(mp[0]) for j in range(mp[1]) for k in range(mp[2])], dtype=int)
    kint = kint[rng.permutation(len(kint))]
    NK = len(kint)
    kred = kint / mpa[None, :]
    rounded = bool(rng.random() < 0.3)
    if rounded:
        kred = np.round(kred, 8)
    if NK > 125 or rng.random() < 0.2:
        nirr = int(min(NK, rng.integers(1, 17)))
        kptirr = [int(x) for x in rng.choice(NK, nirr, replace=False)]
        ctx.count("kptirr_subset")
    else:
        kptirr = None
    wit = dict(kind=kind, mode=mode, setting=setting, rotated=rotated, real_lattice=L, mp_grid=mp, cond=cond,
               NK=NK, kptirr=kptirr, rounded=rounded)

    # completeness tolerance: the documented parameter bk_complete_tol (Frobenius residual below which a shell set is
    # accepted).  Mostly passed tight, so that B1 is decided at ~1e-8; the default (1e-5) is judged at 1e-5.
    if rng.random() < 0.75:
        bk_tol, kw = BK_TOL_TIGHT, dict(bk_complete_tol=BK_TOL_TIGHT)
        b1_atol = 10 * BK_TOL_TIGHT + 1e-9
        ctx.count("tight_bk_complete_tol_calls")
    else:
        bk_tol, kw = None, {}
        b1_atol = BK_COMPLETE_TOL * (1 + 1e-6)
        ctx.count("default_bk_complete_tol_calls")
    wit["bk_complete_tol"] = bk_tol
    ctx.count("from_kpoints_calls")
    try:
        bk = BKVectors.from_kpoints(recip_lattice=recip.copy(), mp_grid=mpa.copy(), kpoints_red=kred.copy(),
                                    kptirr=kptirr, **kw)
    except RuntimeError as e:
        if "Could not find a complete set" in str(e):
            ctx.ev()
            ctx.violation("find_bk_vectors:no_complete_set_on_well_conditioned_lattice",
                          f"{kind} lattice (cond={cond:.2f}) mesh {mp}: {e}", wit)
            return
        raise

    wk = np.array(bk.wk, dtype=float)
    bg = np.array(bk.bk_grid)
    bc = np.array(bk.bk_cart, dtype=float)
    NNB = len(wk)
    if not (bg.shape == (NNB, 3) and bc.shape == (NNB, 3) and NNB > 0 and np.issubdtype(bg.dtype, np.integer)):
        ctx.ev()
        ctx.violation("from_kpoints:malformed_output", f"shapes wk={wk.shape} bk_grid={bg.shape} {bg.dtype} "
                                                      f"bk_cart={bc.shape}", wit)
        return
    bscale = float(np.abs(basis).max())
    b_h = bg @ basis                       # harness-side cartesian b vectors
    blen = np.linalg.norm(b_h, axis=1)
    wscale = 1.0 / float(np.min(np.linalg.norm(basis, axis=1))) ** 2
    wit2 = dict(wit, bk_grid=bg, wk=wk)

    # ---- bk_cart consistent with bk_grid
    ctx.close("bk_cart!=bk_grid@(recip/mp_grid)", bc, b_h, rtol=1e-12, scale=bscale * max(1, np.abs(bg).max()),
              what="bk_cart", witness=wit2)
    # ---- (B1)
    B = np.einsum("b,bi,bj->ij", wk, b_h, b_h)
    res_max = float(np.abs(B - np.eye(3)).max())
    if bk_tol is None and res_max > B1_TOL:
        ctx.count("default_bk_complete_tol_accepted_residual_gt_1e-8")   # informational: by design of the parameter
    bad_b1 = not ctx.close("B1:sum_w_b_b!=identity", B, np.eye(3), rtol=0.0, atol=b1_atol,
                           what=f"completeness relation (bk_complete_tol={bk_tol or 'default 1e-5'})", witness=wit2)
    B2 = np.einsum("b,bi,bj->ij", wk, bc, bc)
    ctx.close("B1:sum_w_b_b!=identity", B2, np.eye(3), rtol=0.0, atol=b1_atol,
              what=f"completeness relation (bk_cart, bk_complete_tol={bk_tol or 'default 1e-5'})", witness=wit2)

    # ---- (+-) closure, no repeated / zero vectors
    index = {}
    bad = bad_b1
    for ib, b in enumerate(bg.tolist()):
        t = tuple(b)
        if t in index or t == (0, 0, 0):
            ctx.violation("bk_grid:repeated_or_zero_vector", f"vector {t} repeated or zero", wit2)
            bad = True
        index[t] = ib
    ctx.ev()
    for t, ib in index.items():
        ctx.ev()
        jb = index.get(tuple(-x for x in t))
        if jb is None:
            ctx.violation("pm_closure:-b_missing", f"b={t} selected but -b is not", wit2)
            bad = True
            break
        if abs(wk[ib] - wk[jb]) > 1e-9 * wscale:
            ctx.violation("pm_closure:weights_differ", f"w(b)={wk[ib]} w(-b)={wk[jb]} for b={t}", wit2)
            bad = True
            break
        ctx.dev("pm_closure:weights_differ", abs(wk[ib] - wk[jb]) / (1e-9 * wscale))

    # ---- whole shells (brute force over the mesh lattice)
    rmax = float(blen.max())
    nvec, nlen, bound = mesh_vectors_in_ball(basis, rmax + 2 * LEN_TIE)
    keep = np.any(nvec != 0, axis=1)
    nvec, nlen = nvec[keep], nlen[keep]
    d = np.abs(nlen[:, None] - blen[None, :])          # (mesh vectors, selected b)
    if np.any((d > LEN_EQ) & (d < LEN_TIE)):
        raise harness.Skip("tie: mesh vector within 1e-5 of a selected shell radius")
    # distinct radii of the selection
    order = np.argsort(blen)
    radii = []
    for ib in order:
        if not radii or blen[ib] - radii[-1][0] > LEN_EQ:
            radii.append([blen[ib], [ib]])
        else:
            radii[-1][1].append(ib)
    nshell = len(radii)
    for r, members in radii:
        ctx.ev()
        ctx.count("shells_checked")
        same = np.where(np.abs(nlen - r) <= LEN_EQ)[0]
        w0 = wk[members[0]]
        missing = [tuple(nvec[i].tolist()) for i in same if tuple(nvec[i].tolist()) not in index]
        if missing:
            # separate the truncation of a shell by the library's finite search box (index box
            # +-search_supercell*mp_grid, default 2) from every other way of losing a vector
            outside = all(bool(np.any(np.abs(np.array(m)) > SEARCH_SUPERCELL * mpa)) for m in missing)
            mech = ("shell_incomplete:missing_vector_outside_search_supercell_box" if outside else
                    "shell_incomplete:missing_vector_inside_search_box")
            ctx.violation(mech,
                          f"shell |b|={r:.9f}: {len(members)} selected, {len(same)} mesh vectors of that length; "
                          f"missing {missing[:6]} (library search box +-{(SEARCH_SUPERCELL * mpa).tolist()})",
                          dict(wit2, brute_force_box=bound))
            bad = True
            break
        wsh = np.array([wk[index[tuple(nvec[i].tolist())]] for i in same])
        dw = float(np.max(np.abs(wsh - w0))) if len(wsh) else 0.0
        ctx.dev("shell_weights_differ", dw / (1e-9 * wscale))
        if dw > 1e-9 * wscale:
            ctx.violation("shell_weights_differ", f"shell |b|={r:.9f} has weights {sorted(set(wsh.tolist()))}", wit2)
            bad = True
            break
        if len(same) != len(members):
            # a selected vector that the brute force did not find at that radius: harness inconsistency
            raise RuntimeError(f"harness: brute force found {len(same)} vectors, selection has {len(members)}")
    if nshell >= 2:
        ctx.count("multi_shell_sets")
    if np.any(np.abs(bg).max(axis=0) >= SEARCH_SUPERCELL * mpa):
        ctx.count("b_beyond_2mp_index_box")

    # ---- neighbours: k + b = k_nb + G, exact integers
    kirr = list(range(NK)) if kptirr is None else kptirr
    G, nb = bk.G, bk.neighbours
    if set(G.keys()) != set(kirr) or set(nb.keys()) != set(kirr):
        ctx.ev()
        ctx.violation("neighbours:keys!=kptirr", f"keys {sorted(G.keys())[:10]} vs kptirr {sorted(kirr)[:10]}", wit)
        return
    ctx.close("kpt_grid!=round(k*mp_grid)", np.array(bk.kpt_grid), kint, rtol=0, atol=0, what="kpt_grid", witness=wit)
    nG = 0
    for ik in kirr:
        g = np.array(G[ik])
        n = np.array(nb[ik])
        ctx.ev()
        ctx.count("neighbour_relations_checked", NNB)
        if g.shape != (NNB, 3) or n.shape != (NNB,) or n.min() < 0 or n.max() >= NK or \
                not (np.issubdtype(g.dtype, np.integer) and np.issubdtype(n.dtype, np.integer)):
            ctx.violation("neighbours:malformed", f"ik={ik} G{g.shape}{g.dtype} nb{n.shape}{n.dtype} {n}", wit2)
            bad = True
            break
        lhs = kint[ik][None, :] + bg
        rhs = kint[n] + g * mpa[None, :]
        if not np.array_equal(lhs, rhs):
            ib = int(np.where(np.any(lhs != rhs, axis=1))[0][0])
            ctx.violation("neighbours:k+b!=k_nb+G",
                          f"ik={ik} k={kint[ik].tolist()}/{mp} b={bg[ib].tolist()} neighbour={int(n[ib])} "
                          f"k_nb={kint[n[ib]].tolist()} G={g[ib].tolist()}", wit2)
            bad = True
            break
        # the same relation in reduced float coordinates, as stated in the property
        kr = kred[ik][None, :] + bg / mpa[None, :] - kred[n] - g
        if np.abs(kr).max() > 1e-7:
            ctx.violation("neighbours:k+b!=k_nb+G", f"ik={ik}: reduced coordinates differ by {np.abs(kr).max()}", wit2)
            bad = True
            break
        nG += int(np.count_nonzero(np.any(g != 0, axis=1)))
    if nG:
        ctx.count("G_nonzero", nG)
    ctx.count(f"kind_{kind}")
    ctx.count(f"mode_{mode}")
    if setting == "resetting":
        ctx.count("setting_resetting")
    if not bad and nG > 0:
        ctx.nontrivial((kind, mode, setting, mp, rotated, NNB, nshell))
    ctx.sample(dict(kind=kind, mode=mode, setting=setting, mp_grid=mp, cond=round(cond, 2), NNB=NNB, nshell=nshell,
                    real_lattice=L))


if __name__ == "__main__":
    harness.main(
        PROP, "exploration", case, setup_fn=setup,
        tiers=dict(quick=dict(cases=800, shards=8, time=900), thorough=dict(cases=12000, shards=16, time=3000)),
        rule="all 14 Bravais types (primitive cells of the centred ones and the simple = conventional ones) with random "
             "axis ratios, special ratios (accidental shell coincidences, hidden fcc/bcc/cubic symmetry, the "
             "rhombohedral/bct/face-centred lattices of finding F12) and mesh-compensated ratios, other primitive "
             "settings by unimodular integer matrices (cond<=20), random SO(3) orientation, random triclinic "
             "(cond<=20); meshes 1..8 isotropic / one / two / three non-trivial directions; shuffled k lists (exact or "
             "8-digit rounded), optional kptirr subsets.  A case is non-trivial when a b-set was returned, every "
             "sub-oracle ran and at least one neighbour relation has G != 0; distinct by (type, ratio mode, setting, "
             "mesh, rotated, number of b vectors, number of shells)",
        assumptions=["b vectors are recomputed by the harness as bk_grid @ (recip_lattice/mp_grid)",
                     "whole-shell oracle = brute-force enumeration of the mesh lattice in a box containing the ball "
                     "of radius max|b|; lengths equal within 1e-9, tie zone (1e-9,1e-5) skipped",
                     "B1 tolerance 10*bk_complete_tol+1e-9 = 1.1e-8 absolute when bk_complete_tol=1e-9 is passed, 1e-5 (the documented "
                     "default acceptance threshold) otherwise; neighbour relation in exact integers"],
        required_counters=("from_kpoints_calls", "tight_bk_complete_tol_calls", "default_bk_complete_tol_calls", "shells_checked", "multi_shell_sets", "neighbour_relations_checked",
                           "G_nonzero", "kptirr_subset", "setting_resetting") + tuple(f"kind_{k}" for k in KINDS),
        min_nontrivial=50,
    )
