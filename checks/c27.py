"""C27 - Berry curvature sum rule and Chern quantisation (REF).

Sum-rule cases (odd idx):
  * evaluate_k('berry_curvature_internal_terms') at random k of random Hermitian models (2D/3D, incl. models with
    exact two-fold degeneracy everywhere): sum_n Omega_n = 0 relative to max|Omega_n|, and every band value equals
    the Kubo sum written in the harness (vlib/kspace.py) - this pins sign and index order of formula.covariant.Omega.
  * AHC(internal) from run() on a random grid: zero for every Fermi level above all bands, relative to the scale
    of AHC at mid-band Fermi levels of the same run (and to the harness Kubo scale).
Chern cases (even idx): gapped 2D models - Haldane_ptb / Haldane_tbm over the phase diagram (incl. trivial phase)
  and random 2-3-band models (randomly rotated/perturbed/embedded lattice Chern insulators with winding 0,1,2 in a
  random planar lattice, minimum gap >= 0.3 found by scanning 96^2 k-points).  AHC with E_F in the gap on 48^2 and
  96^2 grids (192^2 when still converging); C = sigma_xy * c / (e^2/h) with SI constants written out in the harness
  (AHC is documented in S/m): convergence-based verdict - |C - round(C)| < 1e-3 on the finest grid, not growing, same
  integer on the last two grids (under-resolved models are replaced and counted); round(C) == -Chern_FHS, where Chern_FHS is the
  Fukui-Hatsugai-Suzuki lattice Chern number (convention Omega = curl A, A = i<u|grad u>) computed by the harness
  from the model's own real-space Hamiltonian.  The documented relation  O = -e^2/hbar int[dk] Omega f  fixes the
  sign:  sigma_xy c/(e^2/h) = -Chern;  setup() verifies it once on Haldane with known phase (phi=pi/2 and -pi/2),
  and validates the FHS sign convention against the harness' own Kubo integral.
"""
import os
import sys

sys.path.insert(0, os.path.dirname(os.path.dirname(os.path.abspath(__file__))))
from vlib import env, harness, gen_systems, kspace, runner  # noqa: E402
import numpy as np  # noqa: E402

PROP = "C27"
E_CHARGE = 1.602176634e-19  # C   (exact SI)
PLANCK = 6.62607015e-34  # J s (exact SI)
E2_OVER_H = E_CHARGE ** 2 / PLANCK  # S
E2_OVER_HBAR_ANGSTROM = E_CHARGE ** 2 / (PLANCK / (2 * np.pi)) / 1e-10  # S/m : |prefactor| of int[dk] Omega (Omega in A^2, [dk] in A^-3)
MINGAP = 0.3


# ----------------------------------------------------------------------------------------------
def hk_periodic(system, ks):
    H = kspace.mat_k(system, "Ham", ks)
    return 0.5 * (H + np.conj(np.swapaxes(H, 1, 2)))


def fhs_chern(system, nocc, N):
    """Fukui-Hatsugai-Suzuki: Chern number of the lowest nocc bands, C = (1/2pi) int (d1 A2 - d2 A1), A = i<u|du>"""
    ks = np.array([(i / N, j / N, 0.0) for i in range(N) for j in range(N)])
    E, U = np.linalg.eigh(hk_periodic(system, ks))
    U = U[:, :, :nocc].reshape(N, N, U.shape[1], nocc)

    def link(A, B):
        d = np.linalg.det(np.einsum("xyia,xyib->xyab", A.conj(), B))
        return d / np.abs(d)

    U1 = link(U, np.roll(U, -1, axis=0))
    U2 = link(U, np.roll(U, -1, axis=1))
    F = np.angle(U1 * np.roll(U2, -1, axis=0) / np.roll(U1, -1, axis=1) / U2)
    # <u(k)|u(k+d)> ~ exp(-i A d)  =>  plaquette phase = -(d1 A2 - d2 A1) d^2
    return -F.sum() / (2 * np.pi), E


def kubo_chern(system, nocc, N):
    """(1/2pi) int Omega_z d^2k from the harness Kubo sum (approximate; used only to validate the FHS sign)"""
    ks = kspace.grid_points((N, N, 1))
    E, U, V, _ = kspace.eig_data(system, ks)
    w = kspace.omega_pairs(E, V)
    om = w[:, :nocc, nocc:, 2].sum(axis=(1, 2)).mean()
    a1, a2 = system.real_lattice[0], system.real_lattice[1]
    area_bz = (2 * np.pi) ** 2 / abs(np.cross(a1, a2)[2])
    return om * area_bz / (2 * np.pi)


def planar_lattice(rng):
    L = gen_systems.random_lattice(rng)
    L[0, 2] = L[1, 2] = 0.0
    L[2, :2] = 0.0
    if abs(np.linalg.det(L)) < 0.5:
        L[0, :2], L[1, :2] = (L[0, 0] + 1.0, 0.0), (L[1, 0], L[1, 1] + 1.0)
    if np.linalg.det(L) < 0:
        L[2] *= -1
    return L


def random_unitary(rng, n):
    q, r = np.linalg.qr(rng.normal(size=(n, n)) + 1j * rng.normal(size=(n, n)))
    return q * (np.diag(r) / np.abs(np.diag(r)))[None, :]


def chern_insulator_system(rng):
    """randomly rotated / perturbed / embedded lattice Chern insulator
       h(k) = sin(n1 k1) sx + sin(n2 k2) sy + (m + cos(n1 k1) + cos(n2 k2)) sz  (winding n1*n2*{0,+-1})"""
    nw = int(rng.integers(2, 4))
    n1, n2 = [(1, 1), (1, 1), (2, 1), (1, 2)][int(rng.integers(4))]
    m = rng.choice([-1, 1]) * rng.uniform(0.3, 1.8) if rng.random() < 0.7 else rng.uniform(-3.2, 3.2)
    L = planar_lattice(rng)
    need = [(n1, 0, 0), (-n1, 0, 0), (0, n2, 0), (0, -n2, 0)]
    iR = gen_systems.symmetric_R_set(rng, radius=rng.uniform(1.0, 1.6), periodic=(True, True, False))
    have = set(map(tuple, iR.tolist()))
    iR = np.array(iR.tolist() + [list(r) for r in need if r not in have])
    idx = {tuple(r): i for i, r in enumerate(iR.tolist())}
    sx = np.array([[0, 1], [1, 0]], dtype=complex)
    sy = np.array([[0, -1j], [1j, 0]])
    sz = np.diag([1.0 + 0j, -1.0])
    H2 = np.zeros((len(iR), 2, 2), dtype=complex)
    H2[idx[(0, 0, 0)]] += m * sz
    s1 = rng.choice([-1.0, 1.0])  # sin(-k1) = -sin(k1): opposite winding
    H2[idx[(n1, 0, 0)]] += s1 * sx / 2j + sz / 2
    H2[idx[(-n1, 0, 0)]] += -s1 * sx / 2j + sz / 2
    H2[idx[(0, n2, 0)]] += sy / 2j + sz / 2
    H2[idx[(0, -n2, 0)]] += -sy / 2j + sz / 2
    Ham = np.zeros((len(iR), nw, nw), dtype=complex)
    Ham[:, :2, :2] = H2
    if nw == 3:
        Ham[idx[(0, 0, 0)], 2, 2] = rng.choice([-1, 1]) * rng.uniform(3.5, 5.0)
    W = random_unitary(rng, nw)
    Ham = np.einsum("ab,rbc,dc->rad", W, Ham, W.conj())
    pert = gen_systems.random_matrices(rng, iR, L, nw, keys=("Ham",), onsite_spread=0.3)["Ham"]
    Ham = (Ham + rng.uniform(0.0, 0.25) * pert) * rng.uniform(0.6, 1.5)
    s = gen_systems.make_system(L, iR, dict(Ham=Ham), rng.uniform(0, 1, (nw, 3)), periodic=(True, True, False))
    return s, dict(family="random_chern", nw=nw, winding=(n1, n2), m=m)


def haldane_system(rng, params=None, kind=None):
    from wannierberri import models
    from wannierberri.system import System_R
    if kind is None:
        kind = "ptb" if rng.random() < 0.5 else "tbm"
    if params is None:
        hop2 = rng.uniform(0.05, 0.3) * rng.choice([-1, 1])
        phi = rng.uniform(-np.pi, np.pi)
        crit = 3 * np.sqrt(3) * abs(hop2 * np.sin(phi))
        # half of the models inside the topological lobe, half outside
        delta = rng.uniform(-1, 1) * crit * 0.8 if rng.random() < 0.55 else rng.choice([-1, 1]) * (crit + rng.uniform(0.2, 1.0))
        params = dict(delta=float(delta), hop1=float(rng.uniform(0.7, 1.3) * rng.choice([-1, 1])), hop2=float(hop2), phi=float(phi))
    if kind == "ptb":
        s = System_R.from_pythtb(models.Haldane_ptb(**params))
    else:
        s = System_R.from_tbmodels(models.Haldane_tbm(**params))
    return s, dict(family="Haldane_" + kind, **params)


def chern_from_ahc(system, Ef, N):
    from wannierberri import calculators as calc
    from wannierberri.grid import Grid
    res = runner.run(system, Grid(system, NK=(N, N, 1)),
                     {"ahc": calc.static.AHC(Efermi=np.array([Ef, Ef + 1e-3]), kwargs_formula={"external_terms": False},
                                             save_mode="")})
    sigma = res.results["ahc"].data[0]  # S/m ; sigma_xy = O_z
    c_m = abs(system.real_lattice[2, 2]) * 1e-10
    return sigma[2] * c_m / E2_OVER_H, sigma


def setup(ctx):
    env.import_wb()
    rng = np.random.default_rng(12345)
    out = {}
    for phi in (np.pi / 2, -np.pi / 2):
        s, _ = haldane_system(rng, params=dict(delta=0.2, hop1=-1.0, hop2=0.15, phi=phi), kind="ptb")
        cf, _ = fhs_chern(s, 1, 48)
        ck = kubo_chern(s, 1, 60)
        if abs(cf - ck) > 0.05 or abs(abs(cf) - 1) > 1e-6:
            raise RuntimeError(f"harness self-check failed: FHS {cf} vs Kubo integral {ck}")
        out[phi] = int(round(cf))
    if out[np.pi / 2] != -out[-np.pi / 2]:
        raise RuntimeError("harness self-check failed: Chern number does not flip with phi")
    return dict(haldane_fhs=out)


# ----------------------------------------------------------------------------------------------
def make_chern_model(ctx, rng, idx):
    """a gapped model, the band gap to fill and the harness Chern number; None if the candidate is unusable"""
    if idx % 4 == 0:
        system, desc = haldane_system(rng)
    else:
        system, desc = chern_insulator_system(rng)
    nw = system.num_wann
    L = system.real_lattice
    if abs(L[0, 2]) + abs(L[1, 2]) + abs(L[2, 0]) + abs(L[2, 1]) > 1e-12:
        return None
    Ec = np.linalg.eigvalsh(hk_periodic(system, kspace.grid_points((24, 24, 1))))
    if (Ec[:, 1:].min(axis=0) - Ec[:, :-1].max(axis=0)).max() < MINGAP + 0.05:
        ctx.count("models_replaced_small_gap")
        return None
    # the gap is measured on the finest grid that can be used below (192^2)
    E = np.linalg.eigvalsh(hk_periodic(system, kspace.grid_points((192, 192, 1))))
    gaps = E[:, 1:].min(axis=0) - E[:, :-1].max(axis=0)
    ok = [i for i in range(nw - 1) if gaps[i] >= MINGAP]
    if not ok:
        ctx.count("models_replaced_small_gap")
        return None
    ib = int(ok[rng.integers(len(ok))])
    nocc = ib + 1
    Ef = 0.5 * (E[:, ib].max() + E[:, ib + 1].min())
    C96, _ = fhs_chern(system, nocc, 96)
    C48, _ = fhs_chern(system, nocc, 48)
    if abs(C96 - round(C96)) > 1e-6 or round(C96) != round(C48):
        ctx.count("models_replaced_harness_chern_not_converged")
        return None
    return system, desc, nocc, float(gaps[ib]), float(Ef), int(round(C96))


def chern_case(ctx, rng, idx, state):
    """convergence-based verdict (DESIGN 3.4): grids N, 2N (, 4N).  Quantised = |C-round(C)| < 1e-3 on the finest grid
    used; a model whose error is >= 1e-3 but still shrinking by >= 2x per doubling is under-resolved -> on 192^2 it must
    be < 1e-3, otherwise the case is inconclusive and replaced.  Refuted: error >= 1e-3 that does not shrink, an error
    that grows under refinement, different integers on the last two grids, or integer != -Chern(FHS)."""
    for attempt in range(40):
        model = make_chern_model(ctx, rng, idx)
        if model is None:
            continue
        system, desc, nocc, gap, Ef, chern = model
        nw = system.num_wann
        wit = dict(desc, nocc=nocc, gap=gap, Ef=Ef, chern_FHS=chern, lattice=system.real_lattice)
        vals = {N: chern_from_ahc(system, Ef, N)[0] for N in (48, 96)}
        dev = {N: abs(vals[N] - round(vals[N])) for N in vals}
        grids = [48, 96]
        if dev[96] >= 1e-3 and dev[96] <= 0.5 * dev[48]:
            vals[192] = chern_from_ahc(system, Ef, 192)[0]
            dev[192] = abs(vals[192] - round(vals[192]))
            grids.append(192)
            ctx.count("chern_third_grid_192")
        coarse, fine = grids[-2], grids[-1]
        wit.update({f"C_ahc_{N}": vals[N] for N in grids})
        if dev[fine] >= 1e-3 and dev[fine] <= 0.5 * dev[coarse]:
            ctx.count("chern_inconclusive_not_converged_replaced")
            continue
        ctx.ev()
        ctx.dev("AHC_gap_not_quantised", dev[fine] / 1e-3)
        if dev[fine] >= 1e-3:
            ctx.violation("AHC_gap_not_quantised", f"sigma_xy*c/(e^2/h) = {vals[coarse]!r} on {coarse}^2 and {vals[fine]!r} on "
                          f"{fine}^2: not an integer within 1e-3 and not converging to one", wit)
        ctx.ev()
        if dev[fine] > max(1.5 * dev[coarse], 1e-8):
            ctx.violation("AHC_quantisation_error_grows_with_grid",
                          f"|C-round(C)| = {dev[coarse]:.3e} on {coarse}^2 but {dev[fine]:.3e} on {fine}^2", wit)
        ctx.ev()
        if int(round(vals[fine])) != int(round(vals[coarse])):
            ctx.violation("AHC_chern_differs_between_grids", f"{vals[coarse]!r} on {coarse}^2 vs {vals[fine]!r} on {fine}^2", wit)
        ctx.ev()
        if int(round(vals[fine])) != -chern:
            ctx.violation("AHC_chern!=-FHS_chern", f"sigma_xy*c/(e^2/h) = {vals[fine]:.6f} but the lattice Chern number of the "
                          f"occupied bands is {chern} (documented: O = -e^2/hbar int[dk] Omega f)", wit)
        # the same integral through adaptive refinement on the full grid (use_irred_kpt=False): a locally refined partition of the BZ is
        # still a partition, so the result stays at the integer; only the spectral accuracy of the uniform grid is lost (deviations up to
        # 7e-3 were observed on well-resolved models, threshold 5e-2; judged only when the uniform 48^2 grid is within 1e-3)
        if abs(vals[48] - round(vals[48])) < 1e-3 and idx % 2 == 0:
            from wannierberri import calculators as calc
            from wannierberri.grid import Grid
            res = runner.run(system, Grid(system, NK=(48, 48, 1)),
                             {"ahc": calc.static.AHC(Efermi=np.array([Ef, Ef + 1e-3]), kwargs_formula={"external_terms": False}, save_mode="")},
                             adpt_num_iter=3, adpt_fac=4, adpt_mesh=2)
            vr = res.results["ahc"].data[0][2] * abs(system.real_lattice[2, 2]) * 1e-10 / E2_OVER_H
            ctx.ev()
            ctx.dev("AHC_gap_not_quantised_after_adaptive_refinement", abs(vr - round(vals[48])) / 5e-2)
            if abs(vr - round(vals[48])) >= 5e-2:
                ctx.violation("AHC_gap_not_quantised_after_adaptive_refinement", f"sigma_xy*c/(e^2/h) = {vr!r} after 3 refinement iterations of the "
                              f"48^2 grid ({vals[48]!r} without refinement)", wit)
            ctx.count("chern_refined_runs")
        ctx.count("chern_models")
        ctx.count("chern_nonzero" if chern != 0 else "chern_trivial")
        ctx.count(("haldane_" if desc["family"].startswith("Haldane") else "random_") + ("topological" if chern else "trivial"))
        if abs(chern) >= 2:
            ctx.count("chern_abs_ge_2")
        ctx.nontrivial((desc["family"], nw, nocc, chern, round(gap, 3)))
        ctx.sample(wit)
        return
    raise harness.Skip("no usable gapped model found in 40 attempts")


def sumrule_case(ctx, rng, idx, state):
    import wannierberri as wb
    from wannierberri import calculators as calc
    from wannierberri.grid import Grid
    dim = 3 if rng.random() < 0.55 else 2
    periodic = (True, True, True) if dim == 3 else (True, True, False)
    doubled = rng.random() < 0.4
    radius = rng.uniform(1.0, 2.0)
    if not doubled:
        nw = int(rng.integers(2, 7))
        system = gen_systems.herm_system(rng, num_wann=nw, periodic=periodic, radius=radius,
                                         centers=["random", "outside", "groups"][int(rng.integers(3))])
    else:
        nw0 = int(rng.integers(2, 4))
        lattice = gen_systems.random_lattice(rng)
        iR = gen_systems.symmetric_R_set(rng, radius=radius, periodic=periodic)
        m0 = gen_systems.random_matrices(rng, iR, lattice, nw0)["Ham"]
        ncopy = 2 if nw0 > 2 or rng.random() < 0.6 else 3
        Ham = np.zeros((len(iR), ncopy * nw0, ncopy * nw0), dtype=complex)
        for i in range(ncopy):
            Ham[:, i::ncopy, i::ncopy] = m0
        cred = np.repeat(gen_systems.random_centers(rng, nw0), ncopy, axis=0)
        system = gen_systems.make_system(lattice, iR, dict(Ham=Ham), cred, periodic=periodic)
        nw = system.num_wann
    vol = abs(np.linalg.det(system.real_lattice))
    if len(system.rvec.iRvec) < 3:
        raise harness.Skip("model without hopping (flat bands)")
    a0sq = float(np.mean(np.linalg.norm(system.real_lattice, axis=1)) ** 2)  # floor of the Berry-curvature scale (A^2)
    wit = dict(dim=dim, nw=nw, doubled=doubled, nR=len(system.rvec.iRvec))
    thresh = 1e-4  # default degen_thresh of the tabulators / calculators
    # ---- (1) sum rule and band-resolved Kubo values at random k ---------------------------------------
    kpts = [rng.uniform(-1, 2, 3) for _ in range(3)] + [np.zeros(3), np.array([0.5, 0.0, 0.5])]
    for k in kpts:
        k = k * np.array(periodic, dtype=float)
        E, U, V, _ = kspace.eig_data(system, k[None, :])
        gaps = E[0, 1:] - E[0, :-1]
        if np.min(np.abs(gaps - thresh)) < 1e-7 or np.any((gaps > thresh) & (gaps < 1e-3)):
            ctx.skip("k-point with a near-degeneracy")
            continue
        groups = kspace.groups_of(E[0], thresh)
        same = np.zeros((1, nw, nw), dtype=bool)
        for b1, b2 in groups:
            same[0, b1:b2, b1:b2] = True
        w = kspace.omega_pairs(E, V, same_group=same)[0]
        ref = np.zeros((nw, 3))
        for b1, b2 in groups:
            ref[b1:b2] = w[b1:b2].sum(axis=(0, 1)) / (b2 - b1)
        sabs = float(np.abs(w).sum(axis=1).max()) + a0sq
        om = wb.evaluate_k(system, k=tuple(k), quantities=["berry_curvature_internal_terms"])
        om = np.asarray(om)
        ctx.close("Omega_band!=harness_Kubo", om, ref, rtol=1e-7, scale=sabs,
                  what="band-resolved internal Berry curvature vs Kubo sum", witness=dict(wit, k=k))
        tot = om.sum(axis=0)
        ctx.close("sum_n_Omega_n!=0", tot, np.zeros(3), rtol=1e-9, scale=max(float(np.abs(om).max()), sabs),
                  what="sum over all bands of the internal Berry curvature", witness=dict(wit, k=k, omega=om))
        ctx.count("sum_rule_k_points")
        if len(groups) < nw:
            ctx.count("sum_rule_degenerate")
    # ---- (2) AHC(internal) above all bands ----------------------------------------------------------------
    if dim == 3:
        NK = tuple(int(x) for x in rng.integers(2, 7, size=3))
    else:
        NK = tuple(int(x) for x in rng.integers(3, 13, size=2)) + (1,)
    div, fft = [], []
    for n in NK:
        ds = [d for d in range(1, n + 1) if n % d == 0]
        d = int(ds[rng.integers(len(ds))])
        div.append(d)
        fft.append(n // d)
    ks = kspace.grid_points(NK)
    E, U, V, _ = kspace.eig_data(system, ks)
    lo, hi = float(E.min()), float(E.max())
    nin, nab = int(rng.integers(4, 12)), int(rng.integers(1, 5))
    dE = (hi - lo) / nin
    Ef = lo + dE * (0.5 + np.arange(nin + nab))  # the last nab levels lie above all bands
    above = Ef > hi + 1e-6
    res = runner.run(system, Grid(system, NKdiv=tuple(div), NKFFT=tuple(fft)),
                     {"ahc": calc.static.AHC(Efermi=Ef, kwargs_formula={"external_terms": False}, save_mode="")})
    ahc = res.results["ahc"].data
    same = np.abs(E[:, :, None] - E[:, None, :]) < thresh
    w = kspace.omega_pairs(E, V, same_group=same)
    kubo_scale = (float(np.abs(w).sum(axis=(1, 2)).mean(axis=0).max()) + a0sq) / vol * E2_OVER_HBAR_ANGSTROM
    mid = float(np.abs(ahc[~above]).max())
    ctx.close("AHC_internal_above_all_bands!=0", ahc[above], 0 * ahc[above], rtol=1e-9, scale=max(mid, kubo_scale),
              what="AHC(internal) at Fermi levels above all bands", witness=dict(wit, NK=NK, NKdiv=div, Ef=Ef, ahc=ahc))
    ctx.count("ahc_above_bands")
    if mid > 1e-6 * kubo_scale:
        ctx.count("ahc_midband_nonzero")
        ctx.nontrivial(("sumrule", dim, nw, doubled, NK))
    ctx.sample(dict(wit, NK=NK, ahc_mid=mid, kubo_scale=kubo_scale))


def case(ctx, rng, idx, state):
    if idx % 2 == 0:
        chern_case(ctx, rng, idx, state)
    else:
        sumrule_case(ctx, rng, idx, state)


if __name__ == "__main__":
    harness.main(
        PROP, "exploration", case, setup_fn=setup,
        tiers=dict(quick=dict(cases=96, shards=8, time=900), thorough=dict(cases=1200, shards=16, time=3000)),
        rule="even cases: gapped 2D models (Haldane_ptb/tbm with random delta/hop1/hop2/phi in and outside the topological "
             "lobe; randomly rotated, perturbed and embedded 2-3-band lattice Chern insulators with winding 0,+-1,+-2 on random "
             "planar lattices), min gap >= 0.3 on a 96^2 scan, E_F mid-gap, grids 48^2 and 96^2; odd cases: random Hermitian models "
             "(2-6 bands, 2D/3D, 40% with exact 2-3-fold degeneracy everywhere), 5 k-points each, AHC on random grids with 1-4 Fermi "
             "levels above all bands; distinct by (family, num_wann, occupied bands, Chern number, gap) / (dim, num_wann, degenerate, grid)",
        assumptions=["SI constants e, h written out in the harness; AHC documented unit S/m (factors.py read only for the unit)",
                     "sign relation sigma_xy c/(e^2/h) = -Chern(FHS, Omega = curl A) from the documented formula O = -e^2/hbar int[dk] Omega f; "
                     "FHS convention validated against the harness Kubo integral in setup()",
                     "Chern cases whose harness FHS number is not converged between 48^2 and 96^2 are skipped"],
        required_counters=("sum_rule_k_points", "sum_rule_degenerate", "ahc_above_bands", "ahc_midband_nonzero",
                           "chern_models", "chern_nonzero", "chern_trivial"),
    )
