"""C31 - k.p models: numerical and analytic derivatives agree (REF + DIFF).

REF  : SystemKP built from `Ham` only (and from Ham + the first 1 or 2 analytic derivatives) must return
       derHam/der2Ham/der3Ham that agree with the analytic derivatives of the generated model (vlib/gen_kp.py,
       explicit differentiation of monomials / cosines - no finite differences) within an *a-priori*
       finite-difference bound, and every derivative matrix must be Hermitian.
DIFF : run() with every calculator that works on k.p systems, numerical derivatives vs supplied analytic
       derivatives, within the propagated bound, on grids with an odd number of points per direction.

A-priori bound.  The code differentiates with D f = sum_b w_b b f(k+b) over shells closed under b -> -b that
satisfy sum_b w_b b b^T = 1 (second-order central scheme, step h = |recip|*finite_diff_dk) and nests D for
higher derivatives.  With E = D - grad :  |E g| <= (S/6) sup|grad^3 g|,  S = max_c sum_b |w_b||b_c||b|^3  (~h^2),
and D^L - grad^L = sum_j C(L,j) E^j grad^(L-j), so for the n-th derivative obtained by L nested differences of
the analytic (n-L)-th derivative
    trunc <= sum_{j=1..L} C(L,j) (S/6)^j M_{n+2j}
    round <= eps (8 + N_b L) (M_{n-L} + |k|_max M_{n-L+1}) W^L ,   W = max_c sum_b |w_b||b_c|  (~1/h)
M_p = rigorous sup over the box of the Frobenius norm of the p-th derivative tensor (from the coefficient table).
S and W are taken from the stencil the system reports but never above the a-priori caps 10 h_max^2 and 5/h_min
(observed on lattices of every Bravais type: S <= 1.9 h_max^2, W <= 2.2/h_min, 6-12 vectors).
The stencil itself is checked against (B1): sum_b w_b b_i b_j = delta_ij, sum_b w_b b = 0.
"""
import math
import os
import sys

sys.path.insert(0, os.path.dirname(os.path.dirname(os.path.abspath(__file__))))
from vlib import env, harness, gen_kp  # noqa: E402
import numpy as np  # noqa: E402

PROP = "C31"
EPS = 2.3e-16
STATIC_BAND = ["CumDOS", "DOS", "Ohmic_FermiSea", "Ohmic_FermiSurf", "Hall_classic_FermiSea",
               "Hall_classic_FermiSurf", "NLDrude_FermiSea", "NLDrude_FermiSurf", "NLDrude_Fermider2"]
STATIC_GEOM = ["AHC", "AHC_test", "AHC_Zeeman_orb", "BerryDipole_FermiSea", "BerryDipole_FermiSea_test",
               "BerryDipole_FermiSurf", "GME_orb_FermiSea", "GME_orb_FermiSea_test", "GME_orb_FermiSurf", "Morb",
               "Morb_test", "NLAHC_FermiSea", "NLAHC_FermiSurf", "NLDrude_Zeeman_orb", "NLDrude_Zeeman_orb_Omega",
               "OmegaOmega", "QuantumMetric_FermiSea", "QuantumMetric_Vel_DQ", "eMChA_FermiSurf"]
TAB_BAND = ["Energy", "Velocity", "InvMass", "Der3E"]
TAB_GEOM = ["BerryCurvature", "DerBerryCurvature", "Der2BerryCurvature", "OrbitalMoment", "DerOrbitalMoment",
            "Der2OrbitalMoment"]
DYN_BAND = ["JDOS"]
DYN_GEOM = ["OpticalConductivity", "ShiftCurrent", "InjectionCurrent"]


def setup(ctx):
    env.import_wb()
    return dict(orders={})


# ------------------------------------------------------------------------------------------
class Counting:
    """wraps the analytic callables of a model and counts calls per derivative order"""

    def __init__(self, model):
        self.model = model
        self.calls = [0, 0, 0, 0]

    def fun(self, n):
        def f(x):
            self.calls[n] += 1
            return self.model.der_x(x, n)
        return f

    def system(self, nder, **extra):
        from wannierberri.system import SystemKP
        kw = self.model.system_kwargs(0)
        kw["Ham"] = self.fun(0)
        for n, key in ((1, "derHam"), (2, "der2Ham"), (3, "der3Ham")):
            if nder >= n:
                kw[key] = self.fun(n)
        kw.update(extra)
        return SystemKP(**kw)


def stencil_constants(system, model):
    wk = np.asarray(system.wk, dtype=float)
    b = np.asarray(system.bk_cart, dtype=float).reshape(-1, 3)
    nrm = np.linalg.norm(b, axis=1)
    h = np.linalg.norm(model.recip_lattice, axis=1) * model.finite_diff_dk
    S = float((np.abs(wk)[:, None] * np.abs(b) * nrm[:, None] ** 3).sum(axis=0).max())
    W = float((np.abs(wk)[:, None] * np.abs(b)).sum(axis=0).max())
    Scap, Wcap = 10 * h.max() ** 2, 5.0 / h.min()
    return min(S, Scap), min(W, Wcap), len(wk), (S / Scap, W / Wcap)


def fd_bound(model, n, L, S, W, nb_vec, maxshift=1):
    """a-priori bound of |numerical - analytic| for the n-th derivative from L nested differences"""
    trunc = sum(math.comb(L, j) * (S / 6) ** j * model.bound(n + 2 * j) for j in range(1, L + 1))
    kmx = float(np.max(model.kcart_max)) * (1 + 2 * maxshift)
    rnd = EPS * (8 + nb_vec * L) * (model.bound(n - L) + kmx * model.bound(n - L + 1)) * W ** L
    return 2 * trunc + 4 * rnd, trunc, rnd


# ------------------------------------------------------------------------------------------
def make_calculators(wb, names, Efermi, omega, tetra, kBT):
    calc = wb.calculators
    out = {}
    tabs = {}
    for n in names:
        if n in STATIC_BAND + STATIC_GEOM:
            out[n] = getattr(calc.static, n)(Efermi=Efermi, tetra=tetra)
        elif n in TAB_BAND + TAB_GEOM:
            tabs[n] = getattr(calc.tabulate, n)()
        else:
            kw = dict(omega=omega, Efermi=Efermi[::3], smr_fixed_width=0.2, kBT=kBT)
            if n == "ShiftCurrent":
                kw["sc_eta"] = 0.1
            out[n] = getattr(calc.dynamic, n)(**kw)
    if tabs:
        out["tabulate"] = calc.TabulatorAll(tabs, ibands=None, mode="grid")
    return out


def extract(result, names):
    out = {}
    for n in names:
        if n in TAB_BAND + TAB_GEOM:
            out[n] = np.array(result.results["tabulate"].results[n].data)
        else:
            out[n] = np.array(result.results[n].data)
    return out


def do_run(wb, system, names, NKdiv, NKFFT, Efermi, omega, tetra, kBT):
    grid = wb.Grid(system, NKdiv=NKdiv, NKFFT=NKFFT, use_symmetry=False)
    calcs = make_calculators(wb, names, Efermi, omega, tetra, kBT)
    res = wb.run(system, grid=grid, calculators=calcs, parallel=False, adpt_num_iter=0, use_irred_kpt=False,
                 symmetrize=False, print_progress_step_time=1e9)
    return extract(res, names)


# ------------------------------------------------------------------------------------------
def case(ctx, rng, idx, state):
    wb = env.import_wb()

    nb = int(rng.integers(1, 5))
    model = gen_kp.random_kp(rng, nb=nb)
    wit = model.describe()
    wit["small_box"] = model.small_box
    if model.small_box:
        # domain on which the shell search raised TypeError before 62efcc4b (absolute thresholds)
        ctx.count("small_or_noncubic_box_cases")
    a_part = int(rng.integers(1, 3))

    sys0 = model.make_system(0)
    sysa = model.make_system(a_part)
    sys3 = model.make_system(3)
    S, W, nvec, capratio = stencil_constants(sys0, model)
    wit.update(stencil_vectors=nvec, S_over_cap=capratio[0], W_over_cap=capratio[1], nder_partial=a_part)
    ctx.count(f"stencil_{nvec}_vectors")
    bc = np.asarray(sys0.bk_cart, dtype=float).reshape(-1, 3)
    wk = np.asarray(sys0.wk, dtype=float)
    ctx.close("find_shells.B1_not_satisfied", np.einsum("b,bi,bj->ij", wk, bc, bc), np.eye(3), atol=1e-10, rtol=0,
              what="sum_b w_b b_i b_j = delta_ij", witness=wit)
    ctx.close("find_shells.stencil_not_symmetric", np.einsum("b,bi->i", wk, bc) * np.linalg.norm(bc, axis=1).max(),
              np.zeros(3), atol=1e-10, rtol=0, what="sum_b w_b b = 0", witness=wit)
    ctx.close("SystemKP.bk_cart!=bk_red@recip", np.asarray(sys0.bk_red) @ model.recip_lattice, bc,
              atol=1e-12 * np.abs(bc).max(), rtol=0, what="bk_cart = bk_red @ recip_lattice", witness=wit)

    # ---------------- REF: derivatives at random k in the box (some translated by reciprocal vectors)
    nk = 4 if nvec > 12 else 6
    ks = gen_kp.random_k_in_box(rng, nk, margin=0.08, shifts=True)
    ks[0] = gen_kp.random_k_in_box(rng, 1, margin=0.08, shifts=False)[0]
    actual = [max(np.abs(model.der_red(k, n)).max() for k in ks) for n in range(4)]
    tols = {}
    for n in range(1, 4):
        tols[n, 0] = fd_bound(model, n, n, S, W, nvec)
        if n > a_part:
            tols[n, a_part] = fd_bound(model, n, n - a_part, S, W, nvec)
    rel0 = {n: tols[n, 0][0] / actual[n] if actual[n] > 0 else np.inf for n in (1, 2, 3)}
    wit["rel_bound_der123"] = [rel0[1], rel0[2], rel0[3]]
    names_f = ("Ham", "derHam", "der2Ham", "der3Ham")
    checked_orders = set()
    for k in ks:
        for n in range(4):
            ref = model.der_red(k, n)
            exact_tol = 64 * EPS * (model.bound(n) + float(np.max(model.kcart_max)) * 3 * model.bound(n + 1))
            for tag, s, a in (("num", sys0, 0), ("partial", sysa, a_part), ("analytic", sys3, 3)):
                if tag != "num" and nvec > 12 and n == 3 and a < 2:
                    continue  # cost
                val = getattr(s, names_f[n])(k)
                if n <= a:
                    # the supplied function (or Ham itself) evaluated at the translated k in the right convention
                    ctx.close(f"SystemKP.{names_f[n]}(supplied)!=model", val, ref, atol=exact_tol, rtol=0,
                              what=f"{names_f[n]} supplied ({tag}) at k={k}", witness=wit)
                    herm_tol = exact_tol
                else:
                    tol, tr, rd = tols[n, a]
                    if tol > 0.05 * max(actual[n], 1e-300) and actual[n] > 0:
                        ctx.count("bound_too_loose_not_compared")
                        continue
                    ctx.close(f"SystemKP.{names_f[n]}(numerical,from_der{a})!=analytic", val, ref, atol=tol, rtol=0,
                              what=f"{names_f[n]} numerical from analytic order {a} at k={k} "
                                   f"(bound: trunc {tr:.2e} round {rd:.2e}, |analytic| {actual[n]:.2e})",
                              witness=wit)
                    ctx.count(f"num_der{n}_compared")
                    checked_orders.add(n)
                    herm_tol = 4 * tols[n, a][2] + exact_tol
                ctx.close(f"SystemKP.{names_f[n]}_not_hermitian", val, np.conj(np.swapaxes(val, 0, 1)),
                          atol=herm_tol, rtol=0, what=f"Hermiticity of {names_f[n]} ({tag})", witness=wit)
    # cartesian wrappers
    k = gen_kp.wrap_k(ks[0])
    kc = k @ model.recip_lattice
    for n, nm in ((0, "Ham_cart"), (1, "derHam_cart")):
        tol = 64 * EPS * (model.bound(n) + float(np.max(model.kcart_max)) * 3 * model.bound(n + 1))
        if n == 1:
            tol += tols[1, 0][0]
        ctx.close(f"SystemKP.{nm}!=model", getattr(sys0, nm)(kc), model.der_red(k, n), atol=tol, rtol=0,
                  what=f"{nm} at cartesian k", witness=wit)

    # ---------------- DIFF: run() with numerical vs analytic derivatives
    ctx.count(f"convention_{model.convention}")
    if model.box != "kmax":
        ctx.count("noncubic_boxes")
    if model.sparse or model.degree < 3:
        # the scale of a run() comparison is the result with analytic derivatives, which is only safe for a generic
        # model: a model with dropped monomials or of degree < 3 has structurally vanishing results (H depending on
        # one k-component: zero Berry curvature; linear + one cosine: rank-1 inverse mass, zero classical Hall
        # term - both observed as 1e-25 vs 1e-32 "differences").  Only full cubic polynomials (+ cosines) are run.
        ctx.count("nongeneric_model_run_part_skipped")
        if checked_orders:
            ctx.nontrivial(("sparse", nb, model.degree, model.convention, model.box, nvec))
        return
    geom_ok = nb >= 2
    pool_s = STATIC_BAND + (STATIC_GEOM if geom_ok else [])
    pool_t = TAB_BAND + (TAB_GEOM if geom_ok else [])
    pool_d = DYN_BAND + (DYN_GEOM if geom_ok else [])
    nsel = 10 if ctx.thorough else 7
    names = list(rng.choice(pool_s, size=min(len(pool_s), nsel), replace=False))
    names += list(rng.choice(pool_t, size=min(len(pool_t), 3), replace=False))
    names += list(rng.choice(pool_d, size=min(len(pool_d), 2), replace=False))
    names = [str(n) for n in names]
    # odd number of grid points per direction; cost of the nested differences limits the grid
    budget = 6.0e4 if not ctx.thorough else 2.5e5
    while True:
        NK = rng.choice([1, 3, 5], size=3, p=[0.15, 0.6, 0.25])
        if np.prod(NK) == 1:
            continue
        if np.prod(NK) * nvec ** 3 <= budget or np.prod(NK) <= 9:
            break
    split = rng.random(3) < 0.5
    NKdiv = np.where(split, NK, 1)
    NKFFT = np.where(split, 1, NK)
    if np.prod(NK) * nvec ** 3 > budget:
        # far-shell stencils (24-48 vectors): third derivatives are too expensive, drop what needs them
        names = [n for n in names if state["orders"].get(n, 3) < 3 and n not in
                 ("Der3E", "Der2BerryCurvature", "Der2OrbitalMoment", "NLDrude_FermiSea", "NLDrude_FermiSurf",
                  "NLDrude_Fermider2", "eMChA_FermiSurf", "NLDrude_Zeeman_orb", "NLDrude_Zeeman_orb_Omega",
                  "Hall_classic_FermiSea", "QuantumMetric_Vel_DQ", "ShiftCurrent")]
        ctx.count("run_without_der3_calculators")
    # band range from the model itself
    kk = gen_kp.random_k_in_box(rng, 30, margin=0.0, shifts=False)
    E = np.array([np.linalg.eigvalsh(model.H_red(q)) for q in kk])
    Efermi = np.linspace(E.min() + 0.05 * np.ptp(E), E.max() - 0.05 * np.ptp(E), 7) + rng.uniform(-1e-3, 1e-3)
    omega = np.linspace(0.05, 1.0, 4) * max(np.ptp(E), 0.1)
    tetra = bool(rng.random() < 0.4)
    kBT = float(rng.choice([0.0, 0.05]))
    wit.update(NKdiv=NKdiv, NKFFT=NKFFT, tetra=tetra, calculators=names)

    # derivative orders each calculator asks for: measured in situ on the analytic system, once per shard
    for n in names:
        if n not in state["orders"]:
            cnt = Counting(model)
            s = cnt.system(3)
            cnt.calls = [0, 0, 0, 0]
            do_run(wb, s, [n], [1, 1, 1], [3, 1, 1], Efermi, omega, tetra, kBT)
            state["orders"][n] = max([o for o in (1, 2, 3) if cnt.calls[o] > 0], default=0)
            if cnt.calls[0] == 0:
                raise RuntimeError("Ham was never called: the counting wrapper is not in the path")
    cnt_num = Counting(model)
    s_num = cnt_num.system(0)
    s_par = model.make_system(a_part)
    cnt_num.calls = [0, 0, 0, 0]
    r_an = do_run(wb, sys3, names, NKdiv, NKFFT, Efermi, omega, tetra, kBT)
    r_num = do_run(wb, s_num, names, NKdiv, NKFFT, Efermi, omega, tetra, kBT)
    r_par = do_run(wb, s_par, names, NKdiv, NKFFT, Efermi, omega, tetra, kBT)
    if cnt_num.calls[0] == 0 or any(cnt_num.calls[1:]):
        raise RuntimeError("numerical system did not go through Ham only")
    ctx.count("run_pairs")
    K = 30.0
    for n in names:
        order = state["orders"][n]
        a, b, c = r_an[n], r_num[n], r_par[n]
        scale = float(np.abs(a).max())
        for tag, other, base in (("Ham_only", b, 0), (f"Ham+{a_part}der", c, a_part)):
            used = [o for o in range(base + 1, order + 1)]
            if not used:
                rt = 1e-11
            else:
                rt = K * sum(tols[o, base][0] / actual[o] if actual[o] > 0 else np.inf for o in used) + 1e-11
            if not np.isfinite(rt) or rt > 0.03:
                ctx.count("run_bound_too_loose_not_compared")
                continue
            if scale == 0 and float(np.abs(other).max()) == 0:
                ctx.count("run_result_identically_zero")
                continue
            ctx.close(f"run({tag})!=run(analytic)", other, a, atol=rt * scale, rtol=0,
                      what=f"calculator {n} (uses derivatives up to {order}) {tag} vs all analytic, "
                           f"relative bound {rt:.2e}, max|result| {scale:.3e}", witness=wit)
            ctx.count(f"run_compared_order{order}")
            ctx.count(f"calc_{n}")
    if checked_orders >= {1, 2, 3}:
        ctx.nontrivial((nb, model.degree, model.convention, model.box, model.ntrig > 0, nvec,
                        tuple(int(x) for x in NK), tetra, round(math.log10(model.finite_diff_dk))))
    ctx.sample(wit)


if __name__ == "__main__":
    harness.main(
        PROP, "exploration", case, setup_fn=setup,
        tiers=dict(quick=dict(cases=24, shards=8, time=900), thorough=dict(cases=640, shards=16, time=3000)),
        rule="random k.p models H(x)=sum C_a x^a (+ A cos(q.x+phi)), Hermitian complex coefficients, degree 1-3, 1-4 "
             "bands, box given by kmax (0.02-5) / diagonal, tetragonal, hexagonal, fcc, bcc, triclinic recip_lattice / "
             "triclinic real_lattice (reciprocal vectors 0.2-8 1/A), "
             "cartesian or reduced argument convention, finite_diff_dk 3e-5..2e-3; SystemKP with 0, 1-2 and 3 analytic "
             "derivatives; a case counts as non-trivial when all of der1, der2, der3 were compared with a bound below "
             "5% of the analytic magnitude; distinct by (bands, degree, convention, box, trig, stencil size, grid, "
             "tetra, log10 dk)",
        assumptions=["analytic derivatives from explicit differentiation of the coefficient table (vlib/gen_kp.py)",
                     "finite-difference bound a priori from the model's sup-norm bounds and the stencil step; "
                     "stencil constants capped by 10 h^2 and 5/h",
                     "run() part only for generic models (full cubic polynomial, optional cosines); relative bound = 30 x sum of relative derivative bounds of the orders the calculator "
                     "was observed to request; scale = max |result with analytic derivatives| (generic coefficients)",
                     "grids with an odd number of points per direction only; k-points for the derivative comparison "
                     "at least 0.08 (reduced) away from the box boundary"],
        required_counters=("small_or_noncubic_box_cases", "num_der1_compared", "num_der2_compared", "num_der3_compared", "run_pairs",
                           "run_compared_order1", "run_compared_order2", "run_compared_order3",
                           "noncubic_boxes", "convention_cart", "convention_red"),
    )
