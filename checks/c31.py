"""C31 - k.p models: numerical and analytic derivatives agree (REF + DIFF).

REF  : SystemKP built from `Ham` only (and from Ham + the first 1 or 2 analytic derivatives) must return
       derHam/der2Ham/der3Ham that agree with the analytic derivatives of the generated model (vlib/gen_kp.py,
       explicit differentiation of monomials / cosines - no finite differences) within an *a-priori*
       finite-difference bound, and every derivative matrix must be Hermitian.
DIFF : run() with every calculator that works on k.p systems, numerical derivatives vs supplied analytic
       derivatives, within the propagated bound, on grids with an odd number of points per direction.

A-priori bound.  The code differentiates with D f = sum_b w_b b f(k+b) over shells closed under b -> -b that
satisfy sum_b w_b b b^T = 1 (second-order central scheme, step h = |recip|*finite_diff_dk) and nests D for
higher derivatives.  With E = D - grad :  |E g| <= (S/6) sup|grad^3 g|,  S = max_c sum_b |w_b||b_c||b|^3  (~h^2),
and D^L - grad^L = sum_j C(L,j) E^j grad^(L-j), so for the n-th derivative obtained by L nested differences of
the analytic (n-L)-th derivative
    trunc <= sum_{j=1..L} C(L,j) (S/6)^j M_{n+2j}
    round <= eps (8 + N_b L) (M_{n-L} + |k|_max M_{n-L+1}) W^L ,   W = max_c sum_b |w_b||b_c|  (~1/h)
M_p = rigorous sup over the box of the Frobenius norm of the p-th derivative tensor (from the coefficient table).
S and W are taken from the stencil the system reports but never above the a-priori caps 10 h_max^2 and 5/h_min
(observed on lattices of every Bravais type: S <= 1.9 h_max^2, W <= 2.2/h_min, 6-12 vectors).
The stencil itself is checked against (B1): sum_b w_b b_i b_j = delta_ij, sum_b w_b b = 0.
"""
import math
import os
import sys

sys.path.insert(0, os.path.dirname(os.path.dirname(os.path.abspath(__file__))))
from vlib import env, harness, gen_kp  # noqa: E402
import numpy as np  # noqa: E402

PROP = "C31"
EPS = 2.3e-16
STATIC_BAND = ["CumDOS", "DOS", "Ohmic_FermiSea", "Ohmic_FermiSurf", "Hall_classic_FermiSea",
               "Hall_classic_FermiSurf", "NLDrude_FermiSea", "NLDrude_FermiSurf", "NLDrude_Fermider2"]
STATIC_GEOM = ["AHC", "AHC_test", "AHC_Zeeman_orb", "BerryDipole_FermiSea", "BerryDipole_FermiSea_test",
               "BerryDipole_FermiSurf", "GME_orb_FermiSea", "GME_orb_FermiSea_test", "GME_orb_FermiSurf", "Morb",
               "Morb_test", "NLAHC_FermiSea", "NLAHC_FermiSurf", "NLDrude_Zeeman_orb", "NLDrude_Zeeman_orb_Omega",
               "OmegaOmega", "QuantumMetric_FermiSea", "QuantumMetric_Vel_DQ", "eMChA_FermiSurf"]
TAB_BAND = ["Energy", "Velocity", "InvMass", "Der3E"]
TAB_GEOM = ["BerryCurvature", "DerBerryCurvature", "Der2BerryCurvature", "OrbitalMoment", "DerOrbitalMoment",
            "Der2OrbitalMoment"]
DYN_BAND = ["JDOS"]
DYN_GEOM = ["OpticalConductivity", "ShiftCurrent", "InjectionCurrent"]


def setup(ctx):
    env.import_wb()
    return dict(orders={})


# ------------------------------------------------------------------------------------------
class Counting:
    """wraps the analytic callables of a model and counts calls per derivative order"""

    def __init__(self, model):
        self.model = model
        self.calls = [0, 0, 0, 0]

    def fun(self, n):
        def f(x):
            self.calls[n] += 1
            return self.model.der_x(x, n)
        return f

    def system(self, nder, **extra):
        from wannierberri.system import SystemKP
        kw = self.model.system_kwargs(0)
        kw["Ham"] = self.fun(0)
        for n, key in ((1, "derHam"), (2, "der2Ham"), (3, "der3Ham")):
            if nder >= n:
                kw[key] = self.fun(n)
        kw.update(extra)
        return SystemKP(**kw)


class RealKP(gen_kp.KPModel):
    """k.p model with real symmetric coefficients whose callables return *float* arrays (widening: dtype of Ham)"""

    def der_x(self, x, n=0):
        return np.ascontiguousarray(super().der_x(x, n).real)


def real_twin(m0):
    m = RealKP(m0.coefs.real, m0.exponents, convention=m0.convention, box=m0.box, kmax=m0.kmax,
               real_lattice=m0.real_lattice_in, recip_lattice=m0.recip_lattice_in,
               trig=[(A.real, q, phi) for A, q, phi in m0.trig], finite_diff_dk=m0.finite_diff_dk)
    m.sparse = m0.sparse
    return m


def sheared_model(rng, nb, lefthanded):
    """non-reduced (unimodular integer combination of a generic cell) and/or left-handed reciprocal cell, given either
    as recip_lattice or through the equivalent real_lattice"""
    base = gen_kp.random_box(rng, "recip")["recip_lattice"]
    M = np.eye(3, dtype=int)
    for _ in range(int(rng.integers(1, 3))):
        i, j = rng.choice(3, 2, replace=False)
        E = np.eye(3, dtype=int)
        E[i, j] = int(rng.choice([-3, -2, -1, 1, 2, 3]))
        M = E @ M
    R = M @ base
    if lefthanded:
        R[int(rng.integers(3))] *= -1
    if rng.random() < 0.4:
        return gen_kp.random_kp(rng, nb=nb, box="real", boxpar=dict(kmax=None, real_lattice=2 * np.pi * np.linalg.inv(R).T))
    return gen_kp.random_kp(rng, nb=nb, box="recip", boxpar=dict(kmax=None, recip_lattice=R))


def make_set(model, sup, **extra):
    """SystemKP with exactly the analytic derivatives of the orders in `sup` supplied (need not be a prefix)"""
    from wannierberri.system import SystemKP
    kw = model.system_kwargs(0)
    for n, key in ((1, "derHam"), (2, "der2Ham"), (3, "der3Ham")):
        if n in sup:
            kw[key] = getattr(model, key)
    kw.update(extra)
    return SystemKP(**kw)


def base_of(n, sup):
    """order of the analytic function from which the n-th derivative is differenced (documented nesting)"""
    return max([m for m in sup if m < n] + [0])


def stencil_constants(system, model):
    wk = np.asarray(system.wk, dtype=float)
    b = np.asarray(system.bk_cart, dtype=float).reshape(-1, 3)
    nrm = np.linalg.norm(b, axis=1)
    h = np.linalg.norm(model.recip_lattice, axis=1) * model.finite_diff_dk
    S = float((np.abs(wk)[:, None] * np.abs(b) * nrm[:, None] ** 3).sum(axis=0).max())
    W = float((np.abs(wk)[:, None] * np.abs(b)).sum(axis=0).max())
    Scap, Wcap = 10 * h.max() ** 2, 5.0 / h.min()
    return min(S, Scap), min(W, Wcap), len(wk), (S / Scap, W / Wcap)


def fd_bound(model, n, L, S, W, nb_vec, maxshift=1):
    """a-priori bound of |numerical - analytic| for the n-th derivative from L nested differences"""
    trunc = sum(math.comb(L, j) * (S / 6) ** j * model.bound(n + 2 * j) for j in range(1, L + 1))
    kmx = float(np.max(model.kcart_max)) * (1 + 2 * maxshift)
    rnd = EPS * (8 + nb_vec * L) * (model.bound(n - L) + kmx * model.bound(n - L + 1)) * W ** L
    return 2 * trunc + 4 * rnd, trunc, rnd


# ------------------------------------------------------------------------------------------
def make_calculators(wb, names, Efermi, omega, tetra, kBT, opts=None):
    calc = wb.calculators
    opts = opts or {}
    out = {}
    tabs = {}
    for n in names:
        if n in STATIC_BAND + STATIC_GEOM:
            out[n] = getattr(calc.static, n)(Efermi=Efermi, tetra=tetra, **opts.get("static", {}))
        elif n in TAB_BAND + TAB_GEOM:
            tabs[n] = getattr(calc.tabulate, n)()
        else:
            kw = dict(omega=omega, Efermi=Efermi[::3], smr_fixed_width=0.2, kBT=kBT)
            if n == "ShiftCurrent":
                kw["sc_eta"] = 0.1
            out[n] = getattr(calc.dynamic, n)(**kw)
    if tabs:
        out["tabulate"] = calc.TabulatorAll(tabs, ibands=opts.get("ibands"), mode=opts.get("tabmode", "grid"))
    return out


def extract(result, names):
    out = {}
    for n in names:
        if n in TAB_BAND + TAB_GEOM:
            out[n] = np.array(result.results["tabulate"].results[n].data)
        else:
            out[n] = np.array(result.results[n].data)
    return out


def do_run(wb, system, names, NKdiv, NKFFT, Efermi, omega, tetra, kBT, gspec=None):
    gspec = gspec or dict(kind="grid")
    kind = gspec["kind"]
    sym = bool(gspec.get("symflags", False))
    if kind == "gridtetra":
        grid = wb.grid.GridTetra(system, length=gspec["length"], NKFFT=[1, 1, 1], refine_by_volume=False,
                                 refine_by_size=False)
    elif kind == "path_klist":
        grid = wb.Path(system, k_list=gspec["k_list"])
    elif kind == "path_nodes":
        grid = wb.Path.from_nodes(system, nodes=gspec["nodes"], nk=gspec["nk"], labels=gspec["labels"])
    else:
        grid = wb.Grid(system, NKdiv=NKdiv, NKFFT=NKFFT, use_symmetry=sym)
    calcs = make_calculators(wb, names, Efermi, omega, tetra, kBT, gspec.get("opts"))
    res = wb.run(system, grid=grid, calculators=calcs, parallel=False, adpt_num_iter=int(gspec.get("adpt", 0)),
                 use_irred_kpt=sym, symmetrize=sym, print_progress_step_time=1e9)
    return extract(res, names)


# ------------------------------------------------------------------------------------------
def case(ctx, rng, idx, state):
    wb = env.import_wb()

    nb = int(rng.integers(1, 5))
    # widening classes drawn by idx (every class occurs in every tier); "default" is the original generator
    mclass = ("default", "sheared", "default", "lefthanded", "argforms", "default", "real_dtype", "param_2d")[idx % 8]
    extra = {}
    if mclass in ("sheared", "lefthanded"):
        model = sheared_model(rng, nb, mclass == "lefthanded")
    elif mclass == "argforms" and rng.random() < 0.5:
        # kmax given as a python int
        model = gen_kp.random_kp(rng, nb=nb, box="kmax", boxpar=dict(kmax=int(rng.integers(1, 4))))
    else:
        model = gen_kp.random_kp(rng, nb=nb)
    if mclass == "real_dtype":
        model = real_twin(model)
    if mclass == "argforms":
        # lattices as nested lists / tuples instead of arrays
        conv = (lambda a: a.tolist()) if rng.random() < 0.5 else (lambda a: tuple(tuple(float(x) for x in r) for r in a))
        if model.box == "real":
            extra["real_lattice"] = conv(model.real_lattice_in)
        elif model.box != "kmax":
            extra["recip_lattice"] = conv(model.recip_lattice_in)
    if mclass == "param_2d":
        # documented **parameters of System: periodic / name (the derivatives stay three-dimensional)
        extra.update(periodic=(True, True, False), name="c31kp")
    ctx.count(f"class_{mclass}")
    wit = model.describe()
    wit["small_box"] = model.small_box
    wit["model_class"] = mclass
    if model.small_box:
        # domain on which the shell search raised TypeError before 62efcc4b (absolute thresholds)
        ctx.count("small_or_noncubic_box_cases")
    a_part = int(rng.integers(1, 3))
    sup_a = tuple(range(1, a_part + 1))
    SUPX = ((2,), (3,), (1, 3), (2, 3))
    sup_x = SUPX[int(rng.integers(len(SUPX)))]

    sys0 = model.make_system(0, **extra)
    sysa = model.make_system(a_part, **extra)
    sys3 = model.make_system(3, **extra)
    sysx = make_set(model, sup_x, **extra)
    S, W, nvec, capratio = stencil_constants(sys0, model)
    wit.update(stencil_vectors=nvec, S_over_cap=capratio[0], W_over_cap=capratio[1], nder_partial=a_part,
               nonprefix_set=sup_x)
    if mclass in ("sheared", "lefthanded") and max(capratio) > 1:
        # the a-priori caps were derived for reduced cells; a non-reduced cell whose stencil is legitimately wider
        # than the caps is not judged (counted)
        ctx.count("sheared_stencil_above_cap_not_judged")
        raise harness.Skip("stencil of a non-reduced cell above the a-priori caps")
    ctx.count(f"stencil_{nvec}_vectors")
    bc = np.asarray(sys0.bk_cart, dtype=float).reshape(-1, 3)
    wk = np.asarray(sys0.wk, dtype=float)
    ctx.close("find_shells.B1_not_satisfied", np.einsum("b,bi,bj->ij", wk, bc, bc), np.eye(3), atol=1e-10, rtol=0,
              what="sum_b w_b b_i b_j = delta_ij", witness=wit)
    ctx.close("find_shells.stencil_not_symmetric", np.einsum("b,bi->i", wk, bc) * np.linalg.norm(bc, axis=1).max(),
              np.zeros(3), atol=1e-10, rtol=0, what="sum_b w_b b = 0", witness=wit)
    ctx.close("SystemKP.bk_cart!=bk_red@recip", np.asarray(sys0.bk_red) @ model.recip_lattice, bc,
              atol=1e-12 * np.abs(bc).max(), rtol=0, what="bk_cart = bk_red @ recip_lattice", witness=wit)

    # ---------------- REF: derivatives at random k in the box (some translated by reciprocal vectors)
    nk = 4 if nvec > 12 else 6
    ks = gen_kp.random_k_in_box(rng, nk, margin=0.08, shifts=True)
    ks[0] = gen_kp.random_k_in_box(rng, 1, margin=0.08, shifts=False)[0]
    # widening: a point close to the box boundary (all points of the three times nested stencil still inside),
    # a translation by several reciprocal vectors, and the centre of the box given as a list of python ints
    reach = 3 * float(np.abs(np.asarray(sys0.bk_red)).max())
    edge = gen_kp.random_k_in_box(rng, 1, margin=0.08, shifts=False)[0]
    edge[int(rng.integers(3))] = float(rng.choice([-1, 1])) * (0.5 - 1.5 * reach - 1e-9)
    far = gen_kp.random_k_in_box(rng, 1, margin=0.08, shifts=False)[0] + rng.integers(-4, 5, 3)
    kforms = [("array", k) for k in ks] + [("edge", edge), ("far", far)]
    if reach < 0.1:
        ctx.count("k_near_box_boundary")
    else:
        kforms.pop(-2)
    kforms.append(("gamma_intlist", [0, 0, 0]))
    form = int(rng.integers(3))
    kforms[1] = (("array", "list", "tuple")[form], (kforms[1][1], list(map(float, kforms[1][1])),
                                                    tuple(map(float, kforms[1][1])))[form])
    ctx.count(f"k_given_as_{kforms[1][0]}")
    actual = [max(np.abs(model.der_red(np.asarray(k, dtype=float), n)).max() for _, k in kforms) for n in range(4)]
    tols, tols_far = {}, {}
    for n in range(1, 4):
        for base in range(n):
            tols[n, base] = fd_bound(model, n, n - base, S, W, nvec)
            tols_far[n, base] = fd_bound(model, n, n - base, S, W, nvec, maxshift=4)   # only for the far translation
    rel0 = {n: tols[n, 0][0] / actual[n] if actual[n] > 0 else np.inf for n in (1, 2, 3)}
    wit["rel_bound_der123"] = [rel0[1], rel0[2], rel0[3]]
    names_f = ("Ham", "derHam", "der2Ham", "der3Ham")
    checked_orders = set()
    first_values = {}
    for kf, k in kforms:
        kref = np.asarray(k, dtype=float)
        T = tols_far if kf == "far" else tols
        kmx3 = float(np.max(model.kcart_max)) * (9 if kf == "far" else 3)
        for n in range(4):
            ref = model.der_red(kref, n)
            exact_tol = 64 * EPS * (model.bound(n) + kmx3 * model.bound(n + 1))
            for tag, s, sup in (("num", sys0, ()), ("partial", sysa, sup_a), ("analytic", sys3, (1, 2, 3)),
                                ("nonprefix", sysx, sup_x)):
                a = base_of(n, sup)
                supplied = (n == 0 or n in sup)
                if tag != "num" and nvec > 12 and n == 3 and not supplied and a < 2:
                    continue  # cost
                if tag == "nonprefix" and kf not in ("array", "list", "tuple", "edge") and nvec > 8:
                    continue  # cost
                val = getattr(s, names_f[n])(k)
                if mclass == "real_dtype":
                    if np.iscomplexobj(val) and float(np.abs(np.imag(val)).max()) > 0:
                        ctx.violation("SystemKP.real_Ham_gives_complex_derivative",
                                      f"{names_f[n]} of a real Hamiltonian has an imaginary part", wit)
                    ctx.ev(1)
                if tag == "num" and kf == "array" and n in (1, 2):
                    first_values.setdefault(n, (k, np.array(val)))
                if supplied:
                    # the supplied function (or Ham itself) evaluated at the translated k in the right convention
                    ctx.close(f"SystemKP.{names_f[n]}(supplied)!=model", val, ref, atol=exact_tol, rtol=0,
                              what=f"{names_f[n]} supplied ({tag}, supplied orders {sup}) at k={k}", witness=wit)
                    herm_tol = exact_tol
                    if tag == "nonprefix":
                        ctx.count("nonprefix_supplied_compared")
                else:
                    tol, tr, rd = T[n, a]
                    if tol > 0.05 * max(actual[n], 1e-300) and actual[n] > 0:
                        ctx.count("bound_too_loose_not_compared")
                        continue
                    ctx.close(f"SystemKP.{names_f[n]}(numerical,from_der{a})!=analytic", val, ref, atol=tol, rtol=0,
                              what=f"{names_f[n]} numerical from analytic order {a} ({tag}, supplied orders {sup}) "
                                   f"at k={k} (bound: trunc {tr:.2e} round {rd:.2e}, |analytic| {actual[n]:.2e})",
                              witness=wit)
                    ctx.count(f"num_der{n}_compared")
                    if tag == "nonprefix":
                        ctx.count("nonprefix_numerical_compared")
                    if kf in ("edge", "far", "gamma_intlist"):
                        ctx.count(f"num_compared_at_{kf}")
                    checked_orders.add(n)
                    herm_tol = 4 * T[n, a][2] + exact_tol
                ctx.close(f"SystemKP.{names_f[n]}_not_hermitian", val, np.conj(np.swapaxes(val, 0, 1)),
                          atol=herm_tol, rtol=0, what=f"Hermiticity of {names_f[n]} ({tag})", witness=wit)
    # cartesian wrappers
    k = gen_kp.wrap_k(ks[0])
    kc = k @ model.recip_lattice
    for n, nm in ((0, "Ham_cart"), (1, "derHam_cart")):
        tol = 64 * EPS * (model.bound(n) + float(np.max(model.kcart_max)) * 3 * model.bound(n + 1))
        if n == 1:
            tol += tols[1, 0][0]
        ctx.close(f"SystemKP.{nm}!=model", getattr(sys0, nm)(kc), model.der_red(k, n), atol=tol, rtol=0,
                  what=f"{nm} at cartesian k", witness=wit)
    # widening: all four cartesian wrappers, on every kind of system, at a cartesian k outside the box
    kq = ks[1 + int(rng.integers(len(ks) - 1))]
    kqc = kq @ model.recip_lattice
    kmx3 = float(np.max(model.kcart_max)) * 3
    for tag, s, sup in (("num", sys0, ()), ("partial", sysa, sup_a), ("analytic", sys3, (1, 2, 3)),
                        ("nonprefix", sysx, sup_x)):
        for n, nm in enumerate(("Ham_cart", "derHam_cart", "der2Ham_cart", "der3Ham_cart")):
            supplied = (n == 0 or n in sup)
            if nvec > 12 and n == 3 and not supplied:
                continue  # cost
            tol = 64 * EPS * (model.bound(n) + kmx3 * model.bound(n + 1))
            if not supplied:
                t = tols[n, base_of(n, sup)][0]
                if t > 0.05 * max(actual[n], 1e-300):
                    continue
                tol += t
            ctx.close(f"SystemKP.{nm}!=model", getattr(s, nm)(kqc), model.der_red(kq, n), atol=tol, rtol=0,
                      what=f"{nm} ({tag}) at cartesian k = {kqc} (reduced {kq})", witness=wit)
            ctx.count("cart_wrapper_all_orders")

    # ---------------- DIFF: run() with numerical vs analytic derivatives
    ctx.count(f"convention_{model.convention}")
    if model.box != "kmax":
        ctx.count("noncubic_boxes")
    if model.sparse or model.degree < 3:
        # the scale of a run() comparison is the result with analytic derivatives, which is only safe for a generic
        # model: a model with dropped monomials or of degree < 3 has structurally vanishing results (H depending on
        # one k-component: zero Berry curvature; linear + one cosine: rank-1 inverse mass, zero classical Hall
        # term - both observed as 1e-25 vs 1e-32 "differences").  Only full cubic polynomials (+ cosines) are run.
        ctx.count("nongeneric_model_run_part_skipped")
        if checked_orders:
            ctx.nontrivial(("sparse", nb, model.degree, model.convention, model.box, nvec))
        return
    geom_ok = nb >= 2 and mclass != "real_dtype"   # a real H(k) has vanishing Berry curvature / orbital moment
    pool_s = STATIC_BAND + (STATIC_GEOM if geom_ok else [])
    pool_t = TAB_BAND + (TAB_GEOM if geom_ok else [])
    pool_d = DYN_BAND + (DYN_GEOM if geom_ok else [])
    nsel = 10 if ctx.thorough else 7
    names = list(rng.choice(pool_s, size=min(len(pool_s), nsel), replace=False))
    names += list(rng.choice(pool_t, size=min(len(pool_t), 3), replace=False))
    names += list(rng.choice(pool_d, size=min(len(pool_d), 2), replace=False))
    names = [str(n) for n in names]
    # widening: kind of k-point set handed to run()
    # (adaptive refinement is not drawn: which K-points get refined is an argmax over results that differ by the
    #  finite-difference error, a discontinuous stage without an accessible tie guard - observed to flip for nb=1)
    gkind = str(rng.choice(["grid", "grid_aniso", "gridtetra", "path_klist", "path_nodes"],
                           p=[0.4, 0.18, 0.14, 0.14, 0.14]))
    ctx.count(f"gridkind_{gkind}")
    # odd number of grid points per direction; cost of the nested differences limits the grid
    budget = 6.0e4 if not ctx.thorough else 2.5e5
    while True:
        if gkind == "grid_aniso":
            NK = rng.permutation([[15, 1, 1], [9, 1, 1], [7, 3, 1], [5, 3, 1], [11, 1, 1], [21, 1, 1]][int(rng.integers(6))])
        else:
            NK = rng.choice([1, 3, 5], size=3, p=[0.15, 0.6, 0.25])
        if mclass == "param_2d":
            NK[2] = 1
        if np.prod(NK) == 1:
            continue
        if np.prod(NK) * nvec ** 3 <= budget or np.prod(NK) <= 9:
            break
    split = rng.random(3) < 0.5
    NKdiv = np.where(split, NK, 1)
    NKFFT = np.where(split, 1, NK)
    gspec = dict(kind=gkind, symflags=bool(rng.random() < 0.3), opts={})
    npts = int(np.prod(NK))
    if gkind == "refine":
        NKdiv, NKFFT = np.array(NK), np.array([1, 1, 1])
        gspec["adpt"] = int(rng.integers(1, 3))
        npts = npts + 8 * 2 * gspec["adpt"]
    elif gkind == "gridtetra":
        gspec["length"] = float(rng.uniform(0.5, 3.0))
        gspec["adpt"] = 0
        npts = 5
    elif gkind == "path_klist":
        npts = int(rng.integers(1, 8))
        kl = gen_kp.random_k_in_box(rng, npts, margin=0.05, shifts=True)
        gspec["k_list"] = kl if rng.random() < 0.5 else kl.tolist()
    elif gkind == "path_nodes":
        nd = gen_kp.random_k_in_box(rng, 4, margin=0.05, shifts=False)
        nd[1] += rng.integers(-1, 2, 3)      # a segment that leaves the box (its points are translated back)
        gspec["nodes"] = [list(nd[0]), list(nd[1]), None, list(nd[2]), list(nd[3])]
        gspec["nk"] = [int(rng.integers(2, 5)), int(rng.integers(2, 5))]
        gspec["labels"] = ["A", "B", "C", "D"]
        npts = sum(gspec["nk"]) + 2
        # no point of a segment may fall on a box boundary (discontinuity of a k.p model): generic nodes, checked below
    if gkind.startswith("path"):
        names = [n for n in names if n in TAB_BAND + TAB_GEOM]
        gspec["opts"]["tabmode"] = "path"
    elif gkind in ("gridtetra", "refine"):
        names = [n for n in names if n in STATIC_BAND + STATIC_GEOM]
    if gkind in ("grid", "grid_aniso", "path_klist", "path_nodes") and nb >= 2 and rng.random() < 0.4:
        gspec["opts"]["ibands"] = sorted(int(i) for i in rng.choice(nb, size=int(rng.integers(1, nb)), replace=False))
        ctx.count("tabulator_ibands_subset")
    if rng.random() < 0.3:
        gspec["opts"]["static"] = dict(degen_thresh=float(rng.choice([1e-3, 0.05, 0.3])))
        ctx.count("static_degen_thresh_option")
    if npts * nvec ** 3 > budget:
        # far-shell stencils (24-48 vectors): third derivatives are too expensive, drop what needs them
        names = [n for n in names if state["orders"].get(n, 3) < 3 and n not in
                 ("Der3E", "Der2BerryCurvature", "Der2OrbitalMoment", "NLDrude_FermiSea", "NLDrude_FermiSurf",
                  "NLDrude_Fermider2", "eMChA_FermiSurf", "NLDrude_Zeeman_orb", "NLDrude_Zeeman_orb_Omega",
                  "Hall_classic_FermiSea", "QuantumMetric_Vel_DQ", "ShiftCurrent")]
        ctx.count("run_without_der3_calculators")
    # band range from the model itself
    kk = gen_kp.random_k_in_box(rng, 30, margin=0.0, shifts=False)
    E = np.array([np.linalg.eigvalsh(model.H_red(q)) for q in kk])
    Efermi = np.linspace(E.min() + 0.05 * np.ptp(E), E.max() - 0.05 * np.ptp(E), 7) + rng.uniform(-1e-3, 1e-3)
    omega = np.linspace(0.05, 1.0, 4) * max(np.ptp(E), 0.1)
    tetra = bool(rng.random() < 0.4) or gkind == "gridtetra"
    kBT = float(rng.choice([0.0, 0.05]))
    wit.update(NKdiv=NKdiv, NKFFT=NKFFT, tetra=tetra, calculators=names, gridspec=gspec)
    if not names:
        ctx.count("run_part_no_calculator_left")
        if checked_orders:
            ctx.nontrivial(("norun", nb, model.degree, model.convention, model.box, nvec, mclass))
        return

    # derivative orders each calculator asks for: measured in situ on the analytic system, once per shard
    for n in names:
        if n not in state["orders"]:
            cnt = Counting(model)
            s = cnt.system(3)
            cnt.calls = [0, 0, 0, 0]
            do_run(wb, s, [n], [1, 1, 1], [3, 1, 1], Efermi, omega, tetra and gkind != "gridtetra", kBT)
            state["orders"][n] = max([o for o in (1, 2, 3) if cnt.calls[o] > 0], default=0)
            if cnt.calls[0] == 0:
                raise RuntimeError("Ham was never called: the counting wrapper is not in the path")
    cnt_num = Counting(model)
    s_num = cnt_num.system(0, **extra)
    # third configuration: a prefix of analytic derivatives, or (widening) a non-prefix set
    sup_run = sup_a if rng.random() < 0.5 else sup_x
    s_par = make_set(model, sup_run, **extra)
    cnt_num.calls = [0, 0, 0, 0]
    r_an = do_run(wb, sys3, names, NKdiv, NKFFT, Efermi, omega, tetra, kBT, gspec)
    r_num = do_run(wb, s_num, names, NKdiv, NKFFT, Efermi, omega, tetra, kBT, gspec)
    r_par = do_run(wb, s_par, names, NKdiv, NKFFT, Efermi, omega, tetra, kBT, gspec)
    if cnt_num.calls[0] == 0 or any(cnt_num.calls[1:]):
        raise RuntimeError("numerical system did not go through Ham only")
    ctx.count("run_pairs")
    K = 30.0

    def judge(r_ref, r_other, tag, sup, nms, label=""):
        for n in nms:
            order = state["orders"][n]
            a, other = r_ref[n], r_other[n]
            scale = float(np.abs(a).max())
            if label:
                # the second request uses a one-line grid on which a result can vanish by structure (observed: Morb
                # 5e-16): the scale is the larger of this result and the result of the generic first request
                scale = max(scale, float(np.abs(r_an[n]).max()))
            used = [o for o in range(1, order + 1) if o not in sup]
            if not used:
                rt = 1e-11
            else:
                rt = K * sum(tols[o, base_of(o, sup)][0] / actual[o] if actual[o] > 0 else np.inf for o in used) + 1e-11
            if not np.isfinite(rt) or rt > 0.03:
                ctx.count("run_bound_too_loose_not_compared")
                continue
            if scale == 0 and float(np.abs(other).max()) == 0:
                ctx.count("run_result_identically_zero")
                continue
            if a.shape != other.shape:
                ctx.violation(f"run({tag})!=run(analytic)", f"calculator {n}: shapes {other.shape} vs {a.shape}", wit)
                continue
            ctx.close(f"run({tag})!=run(analytic)", other, a, atol=rt * scale, rtol=0,
                      what=f"calculator {n} (uses derivatives up to {order}) {tag}{label} vs all analytic, "
                           f"relative bound {rt:.2e}, max|result| {scale:.3e}", witness=wit)
            ctx.count(f"run_compared_order{order}")
            ctx.count(f"calc_{n}")
            ctx.count(f"run_compared_{gkind}" if not label else "run_compared_reused_system")
            if tag.startswith("Ham+set"):
                ctx.count("run_compared_nonprefix_set")

    judge(r_an, r_num, "Ham_only", (), names)
    if sup_run == sup_a:
        judge(r_an, r_par, f"Ham+{a_part}der", sup_run, names)
    else:
        judge(r_an, r_par, "Ham+set" + "".join(str(o) for o in sup_run), sup_run, names)

    # widening: the systems are used again - a second request with another Fermi array / grid on the *same* objects,
    # and the derivative functions evaluated after run() must return what they returned before
    names2 = [n for n in names if n in STATIC_BAND + STATIC_GEOM + TAB_BAND + TAB_GEOM][:3]
    if names2 and nvec <= 12:
        Ef2 = Efermi[1:-1] + 0.013 * np.ptp(E)
        NK2 = np.array([3, 1, 1])[rng.permutation(3)]
        if mclass == "param_2d":
            NK2 = np.array([3, 1, 1])
        r_an2 = do_run(wb, sys3, names2, NK2, [1, 1, 1], Ef2, omega, False, kBT)
        r_num2 = do_run(wb, s_num, names2, NK2, [1, 1, 1], Ef2, omega, False, kBT)
        judge(r_an2, r_num2, "Ham_only", (), names2, label=" (second request on the same system)")
    for n, (k1, v1) in first_values.items():
        v2 = getattr(sys0, names_f[n])(k1)
        ctx.close(f"SystemKP.{names_f[n]}_changed_on_second_call", v2, v1, atol=0, rtol=0,
                  what=f"{names_f[n]} at the same k after run() and other requests", witness=wit)
        ctx.count("derivative_reevaluated_after_use")
    if checked_orders >= {1, 2, 3}:
        ctx.nontrivial((nb, model.degree, model.convention, model.box, model.ntrig > 0, nvec,
                        tuple(int(x) for x in NK), tetra, round(math.log10(model.finite_diff_dk)), mclass, gkind))
    ctx.sample(wit)


if __name__ == "__main__":
    harness.main(
        PROP, "exploration", case, setup_fn=setup,
        tiers=dict(quick=dict(cases=24, shards=8, time=900), thorough=dict(cases=640, shards=16, time=3000)),
        rule="random k.p models H(x)=sum C_a x^a (+ A cos(q.x+phi)), Hermitian complex coefficients, degree 1-3, 1-4 "
             "bands, box given by kmax (0.02-5) / diagonal, tetragonal, hexagonal, fcc, bcc, triclinic recip_lattice / "
             "triclinic real_lattice (reciprocal vectors 0.2-8 1/A), "
             "cartesian or reduced argument convention, finite_diff_dk 3e-5..2e-3; SystemKP with 0, 1-2 and 3 analytic "
             "derivatives and with a non-prefix set of them (der2 / der3 / der1+3 / der2+3); classes by case index: "
             "non-reduced (unimodular combination, entries up to 3) and left-handed cells, lattices as lists / tuples and "
             "integer kmax, real-dtype Hamiltonians, periodic=(T,T,F)+name; k-points as array / list / tuple, next to the "
             "box boundary, translated by up to 4 reciprocal vectors, Gamma as integer list; all four *_cart wrappers; "
             "run() on Grid (also 21x1x1-like anisotropic, use_symmetry / use_irred_kpt / symmetrize on), GridTetra, Path "
             "(k_list and from_nodes), TabulatorAll with ibands subsets, degen_thresh option, second request on the same "
             "system objects; a case counts as non-trivial when all of der1, der2, der3 were compared with a bound below "
             "5% of the analytic magnitude; distinct by (bands, degree, convention, box, trig, stencil size, grid, "
             "tetra, log10 dk)",
        assumptions=["analytic derivatives from explicit differentiation of the coefficient table (vlib/gen_kp.py)",
                     "finite-difference bound a priori from the model's sup-norm bounds and the stencil step; "
                     "stencil constants capped by 10 h^2 and 5/h",
                     "run() part only for generic models (full cubic polynomial, optional cosines); relative bound = 30 x sum of relative derivative bounds of the orders the calculator "
                     "was observed to request; scale = max |result with analytic derivatives| (generic coefficients)",
                     "grids with an odd number of points per direction only; k-points for the derivative comparison "
                     "at least 0.08 (reduced) away from the box boundary"],
        required_counters=("small_or_noncubic_box_cases", "num_der1_compared", "num_der2_compared", "num_der3_compared", "run_pairs",
                           "run_compared_order1", "run_compared_order2", "run_compared_order3",
                           "noncubic_boxes", "convention_cart", "convention_red",
                           # widening review: classes that decide something
                           "nonprefix_supplied_compared", "nonprefix_numerical_compared", "cart_wrapper_all_orders",
                           "num_compared_at_edge", "num_compared_at_far", "num_compared_at_gamma_intlist",
                           "class_sheared", "class_lefthanded", "class_argforms", "class_real_dtype", "class_param_2d",
                           "run_compared_reused_system", "derivative_reevaluated_after_use",
                           "run_compared_nonprefix_set"),
    )
