"""C28 - Fermi-sea and Fermi-surface formulations agree (DIFF, convergence-based verdict, DESIGN 3.4).

Pairs documented in calculators/static.py as two forms of the same tensor (integration by parts in k):
    Ohmic_FermiSea / Ohmic_FermiSurf,  BerryDipole_FermiSea / BerryDipole_FermiSurf,
    GME_spin_FermiSea / GME_spin_FermiSurf,  GME_orb_FermiSea / GME_orb_FermiSurf  (internal terms),
    NLDrude_FermiSea / NLDrude_FermiSurf / NLDrude_Fermider2.
Each case = one random low-symmetry 2D model (periodic (T,T,F), 2-4 bands, generic lattice/centres/complex hoppings
and generic Hermitian SS, so that every tensor has non-zero, non-symmetric components) and one pair group
(idx % 4).  Fermi-Dirac smoother kT = 0.10-0.15 eV, dE = kT/40, Fermi levels inside the band range and >= 8 kT
inside the scanned window; grids N^2 and (2N)^2.
Verdict per pair, d = ||sea - surf|| / max(||sea||, ||surf||) over all selected Fermi levels and components:
    refuted if  d(2N) > 5 %   or   ( d(2N) > 1 %  and  d(2N) > 1.5 d(N) );
    if either form changes by more than 1 % between the two grids the case is inconclusive -> replaced and counted.
Calibration on the unchanged tree: see the tier description printed in evidence (max d / 5 % in `max deviation/tolerance`).
"""
import os
import sys

sys.path.insert(0, os.path.dirname(os.path.dirname(os.path.abspath(__file__))))
from vlib import env, harness, gen_systems, kspace, runner  # noqa: E402
import numpy as np  # noqa: E402

PROP = "C28"
KB = 8.617333262e-5  # eV/K
THRESH = 0.05
SELFCONV = 0.01
MIN_DIRECT_GAP = 0.4
GROUPS = ("ohmic+gme_spin", "berry_dipole", "gme_orb", "nldrude")


def setup(ctx):
    env.import_wb()
    return {}


def make_calculators(group, Ef, smoother):
    from wannierberri.calculators import static as S
    c = dict(Efermi=Ef, smoother=smoother, save_mode="")
    internal = {"external_terms": False}
    if group == "ohmic+gme_spin":
        calcs = {"Ohmic_FermiSea": S.Ohmic_FermiSea(**c), "Ohmic_FermiSurf": S.Ohmic_FermiSurf(**c),
                 "GME_spin_FermiSea": S.GME_spin_FermiSea(**c), "GME_spin_FermiSurf": S.GME_spin_FermiSurf(**c)}
        pairs = [("Ohmic_FermiSea", "Ohmic_FermiSurf"), ("GME_spin_FermiSea", "GME_spin_FermiSurf")]
    elif group == "berry_dipole":
        calcs = {"BerryDipole_FermiSea": S.BerryDipole_FermiSea(kwargs_formula=internal, **c),
                 "BerryDipole_FermiSurf": S.BerryDipole_FermiSurf(kwargs_formula=internal, **c)}
        pairs = [("BerryDipole_FermiSea", "BerryDipole_FermiSurf")]
    elif group == "gme_orb":
        calcs = {"GME_orb_FermiSea": S.GME_orb_FermiSea(kwargs_formula=internal, **c),
                 "GME_orb_FermiSurf": S.GME_orb_FermiSurf(kwargs_formula=internal, **c)}
        pairs = [("GME_orb_FermiSea", "GME_orb_FermiSurf")]
    elif group == "nldrude":
        calcs = {"NLDrude_FermiSea": S.NLDrude_FermiSea(**c), "NLDrude_FermiSurf": S.NLDrude_FermiSurf(**c),
                 "NLDrude_Fermider2": S.NLDrude_Fermider2(**c)}
        pairs = [("NLDrude_FermiSea", "NLDrude_FermiSurf"), ("NLDrude_FermiSea", "NLDrude_Fermider2"),
                 ("NLDrude_FermiSurf", "NLDrude_Fermider2")]
    else:
        raise ValueError(group)
    return calcs, pairs


def rel(a, b):
    den = max(np.linalg.norm(a), np.linalg.norm(b))
    return float(np.linalg.norm(a - b) / den) if den > 0 else 0.0


def case(ctx, rng, idx, state):
    from wannierberri.grid import Grid
    from wannierberri.smoother import FermiDiracSmoother
    group = GROUPS[idx % 4]
    N = 48
    converged_attempts = 0
    for attempt in range(60):
        if converged_attempts >= 3:
            break
        nw = int(rng.integers(2, 5))
        system = gen_systems.herm_system(rng, num_wann=nw, keys=("Ham", "SS"), periodic=(True, True, False),
                                         radius=rng.uniform(1.3, 2.0), bandwidth=rng.uniform(0.25, 0.45),
                                         centers=["random", "outside"][int(rng.integers(2))])
        if len(system.rvec.iRvec) < 5:
            ctx.count("models_replaced_too_few_hoppings")
            continue
        E = gen_systems.bands(system, kspace.grid_points((48, 48, 1)))
        lo, hi = float(E.min()), float(E.max())
        if hi - lo < 1.5:
            ctx.count("models_replaced_narrow_bands")
            continue
        if float((E[:, 1:] - E[:, :-1]).min()) < MIN_DIRECT_GAP:
            # near-degeneracies make the Berry-type integrands vary on a k-scale gap/velocity that 96^2 points do not resolve
            ctx.count("models_replaced_small_direct_gap")
            continue
        kT = rng.uniform(0.10, 0.15)
        dE = kT / 40
        margin = 0.2
        Ef = np.arange(lo + margin - 8 * kT - 2 * dE, hi - margin + 8 * kT + 3 * dE, dE)
        smoother = FermiDiracSmoother(Ef, T_Kelvin=kT / KB, maxdE=8)
        sel = (Ef >= lo + margin) & (Ef <= hi - margin) & (Ef >= Ef[0] + 8 * kT + dE) & (Ef <= Ef[-1] - 8 * kT - dE)
        wit = dict(group=group, nw=nw, nR=len(system.rvec.iRvec), band_range=(lo, hi), kT=kT, dE=dE, nEf=len(Ef),
                   n_selected=int(sel.sum()), N=N, lattice=system.real_lattice)
        converged_attempts += 1
        data = {}
        for n in (N, 2 * N):
            calcs, pairs = make_calculators(group, Ef, smoother)
            res = runner.run(system, Grid(system, NKdiv=(2, 2, 1), NKFFT=(n // 2, n // 2, 1)), calcs)
            data[n] = {k: np.array(v.dataSmooth)[sel] for k, v in res.results.items()}
            ctx.count("runs")
        selfc = {k: rel(data[N][k], data[2 * N][k]) for k in data[N]}
        wit["self_convergence"] = selfc
        if max(selfc.values()) > SELFCONV:
            ctx.count("inconclusive_not_self_converged_replaced")
            ctx.count("inconclusive:" + group)
            ctx.sample(dict(wit, note="inconclusive: not self-converged, replaced"))
            continue
        for a, b in pairs:
            dc, df = rel(data[N][a], data[N][b]), rel(data[2 * N][a], data[2 * N][b])
            w = dict(wit, pair=(a, b), d_coarse=dc, d_fine=df,
                     norm_sea=float(np.linalg.norm(data[2 * N][a])), norm_surf=float(np.linalg.norm(data[2 * N][b])))
            ctx.ev()
            ctx.dev(f"{a}!={b}", df / THRESH)
            if max(np.linalg.norm(data[2 * N][a]), np.linalg.norm(data[2 * N][b])) == 0:
                ctx.count("pair_vanishes")
                continue
            if df > THRESH:
                ctx.violation(f"{a}!={b}", f"relative difference {df:.3%} on {2 * N}^2 ({dc:.3%} on {N}^2), threshold 5 %", w)
            elif df > 0.01 and df > 1.5 * dc:
                ctx.violation(f"{a}!={b}[grows_with_grid]", f"relative difference {dc:.3%} on {N}^2 -> {df:.3%} on {2 * N}^2", w)
            ctx.count("pair:" + a.split("_Fermi")[0])
            # sensitivity of this very case: how different would a transposed / sign-flipped surface form be?
            if data[2 * N][b].ndim == 3 and not a.startswith("Ohmic"):
                t = rel(data[2 * N][a], np.swapaxes(data[2 * N][b], 1, 2))
                ctx.dev("info:1/(rel_diff_if_surface_form_were_transposed)", 1.0 / max(t, 1e-12))
        ctx.count("group:" + group)
        ctx.nontrivial((group, nw, len(system.rvec.iRvec), round(kT, 4), round(lo, 3)))
        ctx.sample(wit)
        return
    raise harness.Skip("no self-converged model in 3 attempts")


if __name__ == "__main__":
    harness.main(
        PROP, "exploration", case, setup_fn=setup,
        tiers=dict(quick=dict(cases=8, shards=8, time=900), thorough=dict(cases=96, shards=16, time=3000)),
        rule="one random low-symmetry 2D model (2-4 bands, band width 1.5-6 eV, generic Hermitian SS) per case and one pair group "
             "(idx % 4: Ohmic+GME_spin | BerryDipole | GME_orb(internal) | NLDrude sea/surf/fder2); Fermi-Dirac kT 0.10-0.15 eV, "
             "dE = kT/40, all Fermi levels inside the bands and >= 8 kT inside the window; grids 48^2 and 96^2 "
             "(NKdiv 2x2, NKFFT N/2); distinct by (group, num_wann, nR, kT, band bottom)",
        assumptions=["verdict: d(96^2) <= 5 % and not (d > 1 % and d(96^2) > 1.5 d(48^2)); cases where a form changes by > 1 % "
                     "between the grids are inconclusive and replaced (counted)",
                     "GME_orb and BerryDipole with kwargs_formula={'external_terms': False} (the models have no AA/BB/CC matrices)",
                     "3D Chiral model of DESIGN C28 not run: 48^3 k-points cost > 10 min per pair group"],
        required_counters=("group:ohmic+gme_spin", "group:berry_dipole", "group:gme_orb", "group:nldrude",
                           "pair:Ohmic", "pair:GME_spin", "pair:BerryDipole", "pair:GME_orb", "pair:NLDrude"),
        min_nontrivial=4,
    )
