"""C04 - interpolated k-resolved quantities are periodic in k and gauge independent (META).

(a) evaluate_k at k and at k+G (|G|_inf <= 3) for energies, band gradients, Berry curvature (internal, external, total),
    spin and orbital moment, and along a path through k and k+G.
(b) the documented random unitary gauge inside degenerate subspaces (parameters_K={'random_gauge': True}) must leave
    every tabulated and integrated result unchanged.  Systems with *exact* degeneracies are generated on purpose
    (spin-doubled models; block-diagonal copies).  The monitor wraps scipy.stats.unitary_group.rvs and asserts that
    rotations were really applied (otherwise the case is inconclusive, not held).
"""
import os
import shutil
import sys

sys.path.insert(0, os.path.dirname(os.path.dirname(os.path.abspath(__file__))))
from vlib import env, harness, gen_systems, monitors, runkit  # noqa: E402
import numpy as np  # noqa: E402

PROP = "C04"


def setup(ctx):
    env.import_wb()
    return {}


def val(x):
    """array of a named quantity (ndarray) or of a tabulator result (KBandResult with one k-point)"""
    return np.asarray(x) if isinstance(x, np.ndarray) else np.asarray(x.data[0])


class GaugeMonitor:
    """counts the random rotations actually applied by Data_K.UU_K"""

    def __init__(self):
        self.calls = 0
        self.dim_total = 0
        self.nondiag = 0

    def __enter__(self):
        import scipy.stats
        self.obj = scipy.stats.unitary_group
        self.orig = self.obj.rvs
        this = self

        def rvs(*a, **k):
            U = this.orig(*a, **k)
            this.calls += 1
            this.dim_total += U.shape[0]
            if np.abs(U - np.diag(np.diag(U))).max() > 1e-3:
                this.nondiag += 1
            return U
        self.obj.rvs = rvs
        return self

    def __exit__(self, *exc):
        try:
            del self.obj.rvs
        except AttributeError:
            self.obj.rvs = self.orig
        return False


def block_copies(system, m):
    """X -> diag(X, ..., X) (m co-centred copies): every level becomes m-fold degenerate at every k"""
    n = system.num_wann
    mats = {}
    for k, X in system._XX_R.items():
        Y = np.zeros((X.shape[0], m * n, m * n) + X.shape[3:], dtype=complex)
        for c in range(m):
            Y[:, c * n:(c + 1) * n, c * n:(c + 1) * n] = X
        mats[k] = Y
    cred = np.vstack([system.wannier_centers_red] * m)
    return gen_systems.make_system(system.real_lattice, system.rvec.iRvec, mats, cred)


KINDS = ("spin_doubled", "block_copies", "spin_doubled_x2", "block_copies_3", "block_copies_4")


def degenerate_system(rng, kind):
    """G-deg: exact degeneracies (2-, 3- or 4-fold) at every k"""
    nw = int(rng.integers(1, 4)) if kind in ("spin_doubled", "block_copies") else int(rng.integers(1, 3))
    keys = [("Ham",), ("Ham", "AA"), ("Ham", "AA", "BB", "CC")][int(rng.integers(3))]
    base = gen_systems.herm_system(rng, num_wann=nw, radius=rng.uniform(1.0, 1.8), keys=keys, centers=["random", "groups"][int(rng.integers(2))],
                                   spinor=False)
    if kind.startswith("spin_doubled"):
        base.double_spin()
        # the spin matrix set by double_spin has zero trace inside every degenerate pair (all spin-derived results
        # vanish identically and would consist of rounding noise only): replace it by a generic Hermitian one - gauge
        # covariance must hold for any Hermitian matrix in the role of SS
        iR = base.rvec.iRvec
        SS = gen_systems.random_matrices(rng, iR, base.real_lattice, base.num_wann, keys=("SS",))["SS"]
        base.set_R_mat("SS", SS, reset=True)
        if kind == "spin_doubled_x2":
            base = block_copies(base, 2)
        return base, dict(kind=kind, num_wann=base.num_wann, keys=list(keys) + ["SS"], multiplicity=4 if kind == "spin_doubled_x2" else 2)
    m = dict(block_copies=2, block_copies_3=3, block_copies_4=4)[kind]
    s = block_copies(base, m)
    return s, dict(kind=kind, num_wann=m * nw, keys=list(keys), multiplicity=m)


def case(ctx, rng, idx, state):
    import wannierberri as wb
    from wannierberri.grid import Grid, Path
    tab = wb.calculators.tabulate

    if idx % 2 == 0:
        # ------------------------------ (a) periodicity ---------------------------------------------
        nw = int(rng.integers(1, 5))
        keys = [("Ham",), ("Ham", "AA"), ("Ham", "AA", "SS"), ("Ham", "AA", "BB", "CC", "SS")][int(rng.integers(4))]
        system = gen_systems.herm_system(rng, num_wann=nw, radius=rng.uniform(1.0, 2.4), keys=keys,
                                         centers=["random", "outside", "groups", "highsym"][int(rng.integers(4))])
        quantities = ["energy", "band_gradients", "berry_curvature_internal_terms"]
        if "AA" in keys:
            quantities += ["berry_curvature", "berry_curvature_external_terms"]
        if "SS" in keys:
            quantities += ["spin"]
        calcs = {"morb_int": tab.OrbitalMoment(kwargs_formula={"external_terms": False})}
        if "CC" in keys:
            calcs["morb"] = tab.OrbitalMoment()
        E = None
        for ik in range(3 if not ctx.thorough else 6):
            k = rng.uniform(-1, 1, 3)
            if ik == 0 and rng.random() < 0.3:
                k = np.array([0.0, 0.5, 1 / 3])[rng.permutation(3)]
            G = rng.integers(-3, 4, size=3)
            if not np.any(G):
                G[int(rng.integers(3))] = 1
            r0 = wb.evaluate_k(system, k=tuple(k), quantities=quantities, calculators=calcs, return_single_as_dict=True)
            r1 = wb.evaluate_k(system, k=tuple(k + G), quantities=quantities, calculators=calcs, return_single_as_dict=True)
            E = np.asarray(r0["energy"])
            mingap = np.diff(np.sort(E)).min() if len(E) > 1 else 1.0
            w = dict(num_wann=nw, keys=keys, k=k, G=G, min_gap=mingap)
            for q in quantities + list(calcs):
                a = val(r0[q])
                b = val(r1[q])
                if q != "energy" and mingap < 1e-3:
                    ctx.count("skipped_tie_near_degenerate_bands")
                    continue
                sc = max(np.abs(a).max(), 1.0 if q == "energy" else 0.0)
                ctx.close("evaluate_k(k+G)!=evaluate_k(k)", b, a, rtol=1e-8 / max(min(mingap, 1.0), 1e-3) ** 2 * 1e-2 if q != "energy" else 1e-10,
                          scale=sc, what=f"{q} at k={k} G={G}", witness=w)
            ctx.count("periodicity_pairs")
        # along a path through k and k+G
        k0 = rng.uniform(0, 1, 3)
        G = np.array([1, 0, 0])[rng.permutation(3)]
        path = Path.from_nodes(system, nodes=[list(k0), list(k0 + G)], nk=int(rng.integers(3, 7)))
        res = wb.evaluate_k_path(system, path=path, quantities=["energy", "band_gradients"], parallel=False, return_path=False)
        for q in ("energy", "band_gradients"):
            d = res.results[q].data
            ctx.close("path_value_at_k+G!=value_at_k", d[-1], d[0], rtol=1e-8, scale=np.abs(d).max(), what=f"path {q}", witness=dict(k0=k0, G=G))
        ctx.nontrivial(("periodicity", nw, keys, round(float(E[0]), 6)))
        ctx.sample(dict(part="periodicity", num_wann=nw, keys=keys, quantities=quantities + list(calcs)))
        return

    # ---------------------------------- (b) random gauge ----------------------------------------------
    kind = KINDS[(idx // 2) % len(KINDS)]
    system, info = degenerate_system(rng, kind)
    # how the calculators group degenerate bands is a documented option of every calculator; any grouping that contains the exactly
    # degenerate multiplets must give gauge-independent results
    cfgs = [{}, {"degen_thresh": float(10 ** rng.uniform(-6, -3.5))}] + ([{"degen_Kramers": True}] if info["multiplicity"] % 2 == 0 else [])
    cfg = cfgs[int(rng.integers(len(cfgs)))]
    info["calculator_options"] = dict(cfg)
    ctx.count("cfg_" + ("default" if not cfg else sorted(cfg)[0]))
    ctx.count(f"multiplicity_{info['multiplicity']}")
    nw = system.num_wann
    has_AA = system.has_R_mat("AA")
    has_SS = system.has_R_mat("SS")
    has_CC = system.has_R_mat("CC")
    ext = {"external_terms": bool(has_AA)}
    seed = int(rng.integers(1 << 31))
    # -- tabulated quantities at single k-points
    quantities = ["energy", "band_gradients", "berry_curvature_internal_terms"] + (["berry_curvature"] if has_AA else []) + (["spin"] if has_SS else [])
    calcs_k = {"morb_int": tab.OrbitalMoment(kwargs_formula={"external_terms": False}, **cfg), "berry_cfg": tab.BerryCurvature(kwargs_formula=ext, **cfg),
               "vel_cfg": tab.Velocity(**cfg)}
    if has_CC:
        calcs_k["morb"] = tab.OrbitalMoment(**cfg)
    if has_SS:
        calcs_k["spin_cfg"] = tab.Spin(**cfg)
    gm_total = 0
    for ik in range(2 if not ctx.thorough else 5):
        k = rng.uniform(0, 1, 3)
        r0 = wb.evaluate_k(system, k=tuple(k), quantities=quantities, calculators=calcs_k, return_single_as_dict=True)
        with GaugeMonitor() as gm:
            np.random.seed(seed + ik)
            r1 = wb.evaluate_k(system, k=tuple(k), quantities=quantities, calculators=calcs_k, return_single_as_dict=True,
                               parameters_K={"random_gauge": True})
        gm_total += gm.nondiag
        E = np.asarray(r0["energy"])
        groups = np.diff(np.sort(E))
        big = groups[groups > 1e-4]
        mingap = big.min() if len(big) else 1.0
        if mingap < 1e-2:
            ctx.count("skipped_tie_small_gap_between_multiplets")
            continue
        for q in quantities + list(calcs_k):
            a = val(r0[q])
            b = val(r1[q])
            ctx.close("tabulated_value_changes_under_random_gauge", b, a, rtol=1e-9, scale=max(np.abs(a).max(), np.abs(E).max() if q == "energy" else 0.0),
                      what=f"{q} at k={k}", witness=dict(info, k=k, seed=seed + ik))
        # periodicity on the degenerate model (the eigenvector basis inside a multiplet differs between k and k+G)
        G = rng.integers(-2, 3, size=3)
        if not np.any(G):
            G[int(rng.integers(3))] = 1
        r2 = wb.evaluate_k(system, k=tuple(k + G), quantities=quantities, calculators=calcs_k, return_single_as_dict=True)
        for q in quantities + list(calcs_k):
            a = val(r0[q])
            ctx.close("evaluate_k(k+G)!=evaluate_k(k)[degenerate_model]", val(r2[q]), a, rtol=1e-8,
                      scale=max(np.abs(a).max(), np.abs(E).max() if q == "energy" else 0.0), what=f"{q} at k={k} G={G}", witness=dict(info, k=k, G=G))
        ctx.count("gauge_pairs_evaluate_k")
    # -- integrated quantities through run()
    div = [int(x) for x in rng.integers(1, 3, size=3)]
    fft = [int(x) for x in rng.integers(1, 4, size=3)]
    grid = Grid(system, NKdiv=div, NKFFT=fft)
    Ef = runkit.fermi_grid(rng, system, n=5)
    c = wb.calculators
    omega = np.linspace(0.2, 2.0, 3)
    pool = {
        "CumDOS": c.static.CumDOS(Efermi=Ef, **cfg), "DOS": c.static.DOS(Efermi=Ef, **cfg),
        "AHC": c.static.AHC(Efermi=Ef, kwargs_formula=ext, **cfg), "Ohmic_surf": c.static.Ohmic_FermiSurf(Efermi=Ef, **cfg),
        "Ohmic_sea": c.static.Ohmic_FermiSea(Efermi=Ef, **cfg), "BerryDipole_sea": c.static.BerryDipole_FermiSea(Efermi=Ef, kwargs_formula=ext, **cfg),
        "BerryDipole_surf": c.static.BerryDipole_FermiSurf(Efermi=Ef, kwargs_formula=ext, **cfg),
        "Morb_int": c.static.Morb(Efermi=Ef, kwargs_formula={"external_terms": False}, **cfg),
        "GME_orb_surf_int": c.static.GME_orb_FermiSurf(Efermi=Ef, kwargs_formula={"external_terms": False}, **cfg),
        "OptCond": c.dynamic.OpticalConductivity(Efermi=Ef[::2], omega=omega, smr_fixed_width=0.2, kBT=0.05, kwargs_formula=ext, **cfg),
        "JDOS": c.dynamic.JDOS(Efermi=Ef[::2], omega=omega, smr_fixed_width=0.2, **cfg),
    }
    if has_SS:
        pool["Spin"] = c.static.Spin(Efermi=Ef, **cfg)
        pool["GME_spin_surf"] = c.static.GME_spin_FermiSurf(Efermi=Ef, **cfg)
    if has_CC:
        pool["Morb"] = c.static.Morb(Efermi=Ef, **cfg)
    names = sorted(pool)
    chosen = [names[i] for i in sorted(rng.choice(len(names), size=min(int(rng.integers(3, 7)), len(names)), replace=False))]
    calcs = {n: pool[n] for n in chosen}
    calcs["tab"] = c.tabulate.TabulatorAll({"Energy": tab.Energy(**cfg), "BerryCurvature": tab.BerryCurvature(kwargs_formula=ext, **cfg),
                                            "Velocity": tab.Velocity(**cfg)}, mode="grid")
    twins = runkit.raw_twins(calcs)
    calcs_run = dict(calcs, **twins)
    tmp = os.path.join(env.WORK, f"c04-{os.getpid()}-{idx}")
    os.makedirs(tmp, exist_ok=True)
    wit = dict(info, NKdiv=div, NKFFT=fft, calculators=sorted(calcs), Efermi=Ef, seed=seed)
    try:
        with monitors.chdir(tmp):
            kw = dict(parallel=False, use_irred_kpt=False, symmetrize=False, adpt_num_iter=0, fout_name="c04", print_progress_step_time=1e9)
            r0 = wb.run(system, grid, calcs_run, **kw)
            with GaugeMonitor() as gm:
                np.random.seed(seed)
                r1 = wb.run(system, grid, calcs_run, parameters_K={"random_gauge": True}, **kw)
    finally:
        shutil.rmtree(tmp, ignore_errors=True)
    gm_total += gm.nondiag
    ctx.count("random_rotations_applied", gm_total)
    if gm.nondiag == 0:
        raise harness.Skip("no random rotation was applied (monitor)")
    # tie guard: gaps between different multiplets on the grid
    Eg = r0.results["tab"].results["Energy"].data
    d = np.diff(Eg, axis=1)
    inter = d[d > 1e-4]
    if inter.size and inter.min() < 5e-3:
        raise harness.Skip("tie: nearly degenerate multiplets on the grid")
    pos = (Eg.reshape(-1)[:, None] - (Ef[0] - 3 * (Ef[1] - Ef[0]))) / (Ef[1] - Ef[0])
    if np.abs(pos - np.round(pos)).min() * (Ef[1] - Ef[0]) < 1e-7:
        raise harness.Skip("tie: band energy on a Fermi-bin edge")
    for key in calcs:
        if key == "tab":
            for q in r0.results[key].results:
                a = r0.results[key].results[q].data
                b = r1.results[key].results[q].data
                ctx.close("grid_tabulation_changes_under_random_gauge", b, a, rtol=1e-9, scale=np.abs(a).max(), what=f"tab {q}", witness=wit)
        else:
            sc = runkit.natural_scale([r0, r1], key)
            ctx.close("integrated_result_changes_under_random_gauge", r1.results[key].data, r0.results[key].data, rtol=1e-9, scale=sc,
                      what=f"key {key}", witness=wit)
    ctx.count("gauge_runs")
    ctx.nontrivial(("gauge", kind, nw, tuple(info["keys"]), tuple(div), tuple(fft), tuple(sorted(calcs))))
    ctx.sample(dict(part="gauge", **info, NKdiv=div, NKFFT=fft, calculators=sorted(calcs), rotations_applied=gm.nondiag))


if __name__ == "__main__":
    harness.main(
        PROP, "exploration", case, setup_fn=setup,
        tiers=dict(quick=dict(cases=64, shards=8, time=900), thorough=dict(cases=1600, shards=16, time=3000)),
        rule="(a) random Hermitian models (1-4 WFs; Ham, +AA, +SS, +BB,CC), random k and G with |G|_inf<=3, all named quantities of evaluate_k plus orbital "
             "moment, and a path from k to k+G; (b) models with exact 2-, 3- and 4-fold degeneracies at every k (spin-doubled, 2-4 block copies, spin-doubled x2), calculators with default grouping / random degen_thresh / degen_Kramers, random gauge vs default "
             "gauge for evaluate_k quantities and for 3-6 integrating calculators (static, dynamic) plus a grid tabulator; non-trivial = the monitor "
             "saw at least one non-diagonal random rotation; distinct by (model, grid, calculators)",
        assumptions=["numpy's global RNG is seeded by the harness (scipy's unitary_group draws from it)",
                     "tie guards: multiplets separated by >= 5e-3 from each other, band energies 1e-7 away from Fermi-bin edges"],
        required_counters=("periodicity_pairs", "gauge_pairs_evaluate_k", "gauge_runs", "random_rotations_applied", "multiplicity_4", "cfg_degen_Kramers"),
    )
