"""C32 - tight-binding imports reproduce the source model (REF + DIFF).

REF  : System_R.from_pythtb(model) / System_R.from_tbmodels(model) must have, at every k, the band energies the
       source package itself reports (pythtb: TBModel.solve_ham, tbmodels: Model.eigenval), for random models of
       dimension 1-3 (pythtb: also fewer periodic than real-space directions), spinless / spinful, orbital positions
       inside and far outside the home cell, complex hoppings (scalars, Pauli 4-vectors, 2x2 blocks), on-site scalars
       / matrices, hoppings to far cells, repeated / accumulated hoppings, explicitly given conjugate partners.
       The energies are read through wannierberri.evaluate_k(system, k, quantities=['energy']) and through the
       harness-side diagonalisation of the imported real-space matrices (vlib.gen_systems.bands).
DIFF : the bundled builders of wannierberri.models: Haldane_ptb(p) and Haldane_tbm(p) with the same random parameter
       tuple give the same bands and Berry curvature; model_1d_pythtb with manual and built-in spinors give the same
       bands; Chiral(.., no interlayer hopping) equals Haldane at every k_z; every builder (Chiral, SSH_ptb, CuMnAs_2d,
       KaneMele_ptb, Chiral_OSD, model_1d_pythtb) reproduces its own source eigenvalues.
Extra : for PythTB models with all orbitals inside the home cell the band-resolved Berry curvature of the imported
       system equals pythtb's own Kubo-formula curvature (observability of the orbital positions / spinor layout).
Tolerance 1e-10 of max(band width, max|E|); evaluate_k averages bands closer than 1e-4 (documented degeneracy
threshold), so its output is compared only at k-points where no gap lies in (1e-9, 1e-2)*scale (tie guard).
"""
import os
import sys
import warnings

sys.path.insert(0, os.path.dirname(os.path.dirname(os.path.abspath(__file__))))
from vlib import env, harness, gen_systems  # noqa: E402
import numpy as np  # noqa: E402

PROP = "C32"
RTOL = 1e-10


def setup(ctx):
    env.import_wb()
    warnings.filterwarnings("ignore")
    import logging
    logging.getLogger("pythtb").setLevel(logging.ERROR)
    return {}


# ------------------------------------------------------------------------------------------ generators
def random_cell(rng, dim):
    while True:
        L = np.eye(dim) + rng.uniform(-0.4, 0.4, (dim, dim))
        L = L * rng.uniform(0.7, 1.6, dim)[:, None]
        if abs(np.linalg.det(L)) > 0.25 and np.linalg.cond(L) < 12:
            return L * rng.uniform(0.8, 3.0)


def random_positions(rng, n, dim, mode):
    if mode == "inside":
        return rng.uniform(0, 1, (n, dim))
    if mode == "outside":
        return rng.uniform(-2.5, 3.5, (n, dim))
    if mode == "negative":
        return rng.uniform(-1, 0, (n, dim))
    if mode == "integer_edge":
        return rng.integers(-2, 3, (n, dim)).astype(float) + rng.choice([0.0, 0.5, 1 / 3], size=(n, dim))
    raise ValueError(mode)


def herm2(rng):
    a = rng.normal(size=4)
    return np.array([[a[0] + a[3], a[1] - 1j * a[2]], [a[1] + 1j * a[2], a[0] - a[3]]])


def random_pythtb(rng, ctx):
    import pythtb
    dim_r = int(rng.integers(1, 4))
    if dim_r > 1 and rng.random() < 0.2:
        ndir = int(rng.integers(1, dim_r))
        per = sorted(int(x) for x in rng.choice(dim_r, ndir, replace=False))
    else:
        per = list(range(dim_r))
    spinful = bool(rng.random() < 0.45)
    norb = int(rng.integers(1, 5 if not spinful else 4))
    pmode = ["inside", "inside", "outside", "negative", "integer_edge"][int(rng.integers(5))]
    lat = random_cell(rng, dim_r)
    orb = random_positions(rng, norb, dim_r, pmode)
    legacy = bool(rng.random() < 0.2)
    if legacy:
        model = pythtb.tb_model(len(per), dim_r, lat, orb, per=per, nspin=2 if spinful else 1)
    else:
        model = pythtb.TBModel(pythtb.Lattice(lat_vecs=lat, orb_vecs=orb, periodic_dirs=per), spinful=spinful)
    # ---- on-site
    omode = ["none", "all", "single", "all+add"][int(rng.integers(4))]

    def onsite_val():
        if not spinful:
            return float(rng.normal())
        t = int(rng.integers(3))
        if t == 0:
            return float(rng.normal())
        if t == 1:
            return [float(x) for x in rng.normal(size=4)]
        return herm2(rng)
    if omode in ("all", "all+add"):
        model.set_onsite([onsite_val() for _ in range(norb)])
    if omode in ("single", "all+add"):
        model.set_onsite(onsite_val(), ind_i=int(rng.integers(norb)), mode="add" if omode == "all+add" else "set")
    # ---- hoppings
    far = int(rng.choice([1, 1, 2, 3]))
    nhop = int(rng.integers(1, 9))
    # models without any inter-cell hopping (flat bands): from_pythtb raised ValueError before 9f217470
    only_R0 = bool(rng.random() < 0.1)
    if only_R0:
        ctx.count("ptb_no_intercell_hopping")
        if norb == 1 or rng.random() < 0.3:
            nhop = 0
    used = {}
    nset = 0
    for _ in range(nhop * 4):
        if nset >= nhop:
            break
        i, j = int(rng.integers(norb)), int(rng.integers(norb))
        R = np.zeros(dim_r, dtype=int)
        if not only_R0:
            R[per] = rng.integers(-far, far + 1, len(per))
        if i == j and not np.any(R):
            continue
        key = (i, j, tuple(int(x) for x in R))
        ckey = (j, i, tuple(int(-x) for x in R))
        if spinful:
            t = int(rng.integers(3))
            if t == 0:
                amp = complex(rng.normal(), rng.normal())
            elif t == 1:
                amp = rng.normal(size=4) + 1j * rng.normal(size=4)
            else:
                amp = rng.normal(size=(2, 2)) + 1j * rng.normal(size=(2, 2))
        else:
            amp = complex(rng.normal(), rng.normal()) if rng.random() < 0.8 else float(rng.normal())
        kw = {}
        if key in used:
            kw["mode"] = "add" if rng.random() < 0.6 else "set"
            ctx.count("ptb_repeated_hopping_" + kw["mode"])
        if ckey in used and key != ckey:
            if rng.random() < 0.5:
                continue
            kw["allow_conjugate_pair"] = True
            ctx.count("ptb_explicit_conjugate_pair")
        elif key == ckey:
            continue
        model.set_hop(amp, i, j, [int(x) for x in R], **kw)
        used[key] = True
        nset += 1
    if nset == 0 and not only_R0:
        raise harness.Skip("no hopping generated")
    info = dict(kind="pythtb", dim_r=dim_r, periodic_dirs=per, spinful=spinful, norb=norb, positions=pmode,
                onsite=omode, nhop=nset, far=far, legacy_ctor=legacy, only_R0=only_R0)
    return model, info


def random_tbmodels(rng, ctx):
    import tbmodels
    dim = int(rng.integers(1, 4))
    size = int(rng.integers(1, 5))
    pmode = ["inside", "outside", "negative", "integer_edge", "none"][int(rng.integers(5))]
    uc = random_cell(rng, dim)
    pos = None if pmode == "none" else random_positions(rng, size, dim, pmode)
    on_site = None if rng.random() < 0.3 else [float(x) for x in rng.normal(size=size)]
    far = int(rng.choice([1, 1, 2, 3]))
    ctor = ["add_hop", "hop_dict_cc", "hop_dict_nocc", "mixed"][int(rng.integers(4))]
    hop = {}
    nR = int(rng.integers(1, 6))
    if ctor in ("hop_dict_cc", "hop_dict_nocc", "mixed"):
        for _ in range(nR):
            R = tuple(int(x) for x in rng.integers(-far, far + 1, dim))
            M = (rng.normal(size=(size, size)) + 1j * rng.normal(size=(size, size))) * (rng.random((size, size)) < 0.7)
            if ctor == "hop_dict_cc":
                if not any(R):
                    M = M + M.conj().T
                hop[R] = M
                hop[tuple(-x for x in R)] = M.conj().T
            else:
                hop[R] = hop.get(R, 0) + M
    kw = dict(on_site=on_site, dim=dim, size=size, occ=int(rng.integers(0, size + 1)), pos=pos, uc=uc)
    if hop:
        kw.update(hop=hop, contains_cc=(ctor == "hop_dict_cc"))
    model = tbmodels.Model(**kw)
    nadd = 0
    if ctor in ("add_hop", "mixed"):
        for _ in range(int(rng.integers(1, 8))):
            i, j = int(rng.integers(size)), int(rng.integers(size))
            R = [int(x) for x in rng.integers(-far, far + 1, dim)]
            model.add_hop(complex(rng.normal(), rng.normal()), i, j, R)
            nadd += 1
    if rng.random() < 0.2:
        model.add_on_site([float(x) for x in rng.normal(size=size)])
    if len(model.hop) == 0:
        raise harness.Skip("empty tbmodels model")
    info = dict(kind="tbmodels", dim=dim, size=size, positions=pmode, on_site=on_site is not None, ctor=ctor,
                nR_dict=len(hop), nadd=nadd, far=far)
    return model, info


# ------------------------------------------------------------------------------------------ evaluation
def source_eigenvalues(model, kind, kper):
    """eigenvalues reported by the source package at reduced k (only periodic components)"""
    if kind == "pythtb":
        E = model.solve_ham(np.array(kper))
        return np.sort(np.asarray(E).reshape(len(kper), -1), axis=1)
    return np.sort(np.array([np.asarray(e) for e in model.eigenval([list(k) for k in kper])]), axis=1)


def full_k(rng, kper, dims, nk):
    """3-component k for wannierberri: periodic components from kper, anything in the other ones"""
    k3 = rng.uniform(-1, 1, (nk, 3))
    k3[:, dims] = kper
    return k3


def compare_bands(ctx, wb, system, Esrc, k3, mech, wit, label):
    scale = max(float(np.ptp(Esrc)), float(np.abs(Esrc).max()), 1e-3)
    # (a) harness-side diagonalisation of the imported matrices
    Eb = gen_systems.bands(system, k3)
    ctx.close(f"{mech}:Ham_R_bands!=source", Eb, Esrc, atol=RTOL * scale, rtol=0,
              what=f"{label}: bands of imported Ham_R vs source eigenvalues", witness=wit)
    # (b) through the library
    for ik, k in enumerate(k3):
        gaps = np.diff(Esrc[ik])
        tie = np.any((gaps > 1e-9 * scale) & (gaps < max(1e-2 * scale, 2e-3)))
        E = np.asarray(wb.evaluate_k(system, k=tuple(k), quantities=["energy"]))
        if tie:
            ctx.count("tie_near_degenerate_only_sum_compared")
            ctx.close(f"{mech}:evaluate_k_energy_sum!=source", E.sum(), Esrc[ik].sum(),
                      atol=RTOL * scale * len(E), rtol=0, what=f"{label}: sum of energies at k={k}", witness=wit)
        else:
            ctx.close(f"{mech}:evaluate_k_energy!=source", np.sort(E), Esrc[ik], atol=RTOL * scale, rtol=0,
                      what=f"{label}: evaluate_k energies at k={k}", witness=wit)
            ctx.count("evaluate_k_compared")
    return scale


def hermiticity(ctx, system, mech, wit):
    Ham = system.get_R_mat("Ham")
    iR = system.rvec.iRvec
    ctx.close(f"{mech}:Ham_R_not_hermitian", gen_systems.hermitize(iR, Ham), Ham, atol=1e-12 * max(np.abs(Ham).max(), 1e-3),
              rtol=0, what="Ham(-R) = Ham(R)^dagger", witness=wit)


# ------------------------------------------------------------------------------------------ cases
def case_random(ctx, rng, wb, which):
    from wannierberri.system import System_R
    if which == "pythtb":
        model, info = random_pythtb(rng, ctx)
        dims = info["periodic_dirs"]
        system = System_R.from_pythtb(model)
        nst = model.nstate
        if bool(system.spinor) != info["spinful"]:
            ctx.violation("from_pythtb:spinor_flag", f"spinor={system.spinor} for spinful={info['spinful']}", info)
        ctx.count("from_pythtb_" + ("spinful" if info["spinful"] else "spinless"))
        ctx.count(f"from_pythtb_dim{info['dim_r']}")
        if len(dims) < info["dim_r"]:
            ctx.count("from_pythtb_fewer_periodic_dirs")
        if info["positions"] != "inside":
            ctx.count("positions_outside_home_cell")
    else:
        model, info = random_tbmodels(rng, ctx)
        dims = list(range(info["dim"]))
        system = System_R.from_tbmodels(model)
        nst = model.size
        ctx.count(f"from_tbmodels_dim{info['dim']}")
        if info["positions"] not in ("inside", "none"):
            ctx.count("positions_outside_home_cell")
    mech = "from_" + which
    if system.num_wann != nst:
        ctx.violation(f"{mech}:num_wann", f"num_wann={system.num_wann} source={nst}", info)
        return
    nk = 5
    kper = rng.uniform(-1.0, 1.5, (nk, len(dims)))
    kper[0] = rng.choice([0.0, 0.5, 1 / 3], size=len(dims))
    Esrc = source_eigenvalues(model, which, kper)
    k3 = full_k(rng, kper, dims, nk)
    hermiticity(ctx, system, mech, info)
    compare_bands(ctx, wb, system, Esrc, k3, mech, info, which)
    # lattice and periodic flags
    d = info["dim_r"] if which == "pythtb" else info["dim"]
    src_lat = np.array(model.lat_vecs if which == "pythtb" else model.uc, dtype=float)
    ctx.close(f"{mech}:real_lattice", system.real_lattice[:d, :d], src_lat, atol=1e-13 * np.abs(src_lat).max(), rtol=0,
              what="real lattice", witness=info)
    if list(system.periodic) != [True] * d + [False] * (3 - d):
        ctx.violation(f"{mech}:periodic_flags", f"periodic={system.periodic} for dim {d}", info)
    if which == "pythtb" and info["positions"] == "inside" and len(dims) == info["dim_r"] >= 2:
        berry_vs_pythtb(ctx, wb, model, system, kper, k3, Esrc, info)
    bw = float((Esrc.max(axis=0) - Esrc.min(axis=0)).max())
    if bw > 1e-3 or info.get("only_R0"):
        ctx.nontrivial(tuple(sorted((k, str(v)) for k, v in info.items())))
    ctx.sample(info)


def berry(wb, system, k):
    return np.asarray(wb.evaluate_k(system, k=tuple(k), quantities=["berry_curvature"]))


def berry_vs_pythtb(ctx, wb, model, system, kper, k3, Esrc, wit, mech="from_pythtb"):
    """band-resolved Berry curvature of the imported system vs pythtb's own Kubo formula (cartesian), only for
    orbital positions inside the home cell (from_pythtb reduces the centres modulo 1 without relabelling the
    hoppings, which changes the k-resolved curvature of models with orbitals outside - documented behaviour) and
    at k-points without near-degeneracies"""
    d = model.dim_r
    planes = [(0, 1)] if d == 2 else [(1, 2), (2, 0), (0, 1)]
    comp = [2] if d == 2 else [0, 1, 2]
    scale = max(float(np.ptp(Esrc)), 1e-3)
    for ik in range(min(2, len(kper))):
        gaps = np.diff(Esrc[ik])
        if len(gaps) == 0 or gaps.min() < 2e-2 * scale:
            ctx.count("berry_tie_skipped")
            continue
        Ow = np.asarray(wb.evaluate_k(system, k=tuple(k3[ik]), quantities=["berry_curvature"]))  # (nb, 3)
        Op = np.zeros((len(Esrc[ik]), len(comp)))
        for n in range(len(Esrc[ik])):
            for ic, pl in enumerate(planes):
                Op[n, ic] = np.real(np.asarray(model.berry_curvature(np.array([kper[ik], kper[ik]]), occ_idxs=[n],
                                                                       plane=pl, cartesian=True)).reshape(-1)[0])
        amp = (scale / gaps.min()) ** 2
        ctx.close(f"{mech}:berry_curvature!=source", Ow[:, comp], Op,
                  atol=1e-8 * max(np.abs(Op).max(), np.abs(np.linalg.det(model.lat_vecs)) ** (2.0 / d) * 1e-2) * amp, rtol=0,
                  what=f"band-resolved Berry curvature vs pythtb at k={kper[ik]}", witness=wit)
        ctx.count("berry_vs_pythtb_compared")


def case_bundled(ctx, rng, wb):
    from wannierberri.system import System_R
    from wannierberri import models
    which = ["haldane", "haldane", "haldane", "model1d", "chiral", "ssh", "cumnas", "kanemele", "osd"][int(rng.integers(9))]
    ctx.count("bundled_" + which)
    nk = 4
    if which == "haldane":
        p = dict(delta=float(rng.uniform(-1.5, 1.5)), hop1=float(rng.uniform(-1.5, 1.5)),
                 hop2=float(rng.uniform(-0.5, 0.5)), phi=float(rng.uniform(-np.pi, np.pi)))
        if rng.random() < 0.15:
            p["delta"] = 0.2
        mp, mt = models.Haldane_ptb(**p), models.Haldane_tbm(**p)
        sp, st = System_R.from_pythtb(mp), System_R.from_tbmodels(mt)
        kper = rng.uniform(-0.5, 1.0, (nk, 2))
        k3 = full_k(rng, kper, [0, 1], nk)
        Ep, Et = source_eigenvalues(mp, "pythtb", kper), source_eigenvalues(mt, "tbmodels", kper)
        scale = max(float(np.ptp(Et)), 1e-3)
        ctx.close("models.Haldane_ptb!=Haldane_tbm:source_bands", Ep, Et, atol=RTOL * scale, rtol=0,
                  what="pythtb vs tbmodels eigenvalues of the Haldane builders", witness=p)
        compare_bands(ctx, wb, sp, Et, k3, "models.Haldane_ptb!=Haldane_tbm", p, "Haldane_ptb system vs Haldane_tbm source")
        compare_bands(ctx, wb, st, Ep, k3, "models.Haldane_ptb!=Haldane_tbm", p, "Haldane_tbm system vs Haldane_ptb source")
        # Berry curvature of the two systems (differential); scale: a generic Haldane model has |Omega| ~ 0.1-10
        Op = np.array([berry(wb, sp, k) for k in k3])
        Ot = np.array([berry(wb, st, k) for k in k3])
        gap = float(np.min(Et[:, 1] - Et[:, 0]))
        if gap > 1e-3 * scale:
            ctx.close("models.Haldane_ptb!=Haldane_tbm:berry_curvature", Op, Ot,
                      atol=1e-9 * max(np.abs(Ot).max(), 0.1) * max(1.0, (scale / gap) ** 2), rtol=0,
                      what="Berry curvature of the systems from Haldane_ptb and Haldane_tbm", witness=p)
            ctx.count("haldane_berry_compared")
        # same real-space matrices (same R set after sorting, same centres)
        ctx.close("models.Haldane_ptb!=Haldane_tbm:wannier_centers", sp.wannier_centers_cart, st.wannier_centers_cart,
                  atol=1e-12, rtol=0, what="Wannier centres", witness=p)
        # Chiral without interlayer hoppings = Haldane at every kz  (hop2 sign convention shared: both use t2=hop2 e^{i phi})
        mc = models.Chiral(delta=p["delta"], hop1=p["hop1"], hop2=p["hop2"], phi=p["phi"], hopz_left=0.0,
                           hopz_right=0.0, hopz_vert=0.0)
        sc = System_R.from_pythtb(mc)
        k3c = np.hstack([kper, rng.uniform(-1, 1, (nk, 1))])
        compare_bands(ctx, wb, sc, Et, k3c, "models.Chiral(no_kz)!=Haldane_tbm", p, "Chiral without interlayer hopping")
        ctx.nontrivial(("haldane", round(p["delta"], 3), round(p["hop2"], 3)))
        ctx.sample(dict(kind="haldane", **p))
        return
    if which == "model1d":
        hop = rng.uniform(-1, 1, 8)
        Delta = float(rng.uniform(-1, 1))
        m1 = models.model_1d_pythtb(Delta=Delta, spinor_manual=True, hoppings=hop)
        m2 = models.model_1d_pythtb(Delta=Delta, spinor_manual=False, hoppings=hop)
        s1, s2 = System_R.from_pythtb(m1), System_R.from_pythtb(m2)
        kper = rng.uniform(-0.5, 1.0, (nk, 1))
        k3 = full_k(rng, kper, [0], nk)
        E1, E2 = source_eigenvalues(m1, "pythtb", kper), source_eigenvalues(m2, "pythtb", kper)
        wit = dict(kind="model1d", Delta=Delta, hoppings=hop)
        compare_bands(ctx, wb, s1, E2, k3, "models.model_1d_pythtb(manual)!=(spinor)", wit, "manual spinor system")
        compare_bands(ctx, wb, s2, E1, k3, "models.model_1d_pythtb(manual)!=(spinor)", wit, "built-in spinor system")
        ctx.close("models.model_1d_pythtb(manual)!=(spinor):Ham_R", s1.get_R_mat("Ham"), s2.get_R_mat("Ham"),
                  atol=1e-13, rtol=0, what="real-space Hamiltonians", witness=wit)
        ctx.nontrivial(("model1d", round(Delta, 3)))
        ctx.sample(wit)
        return
    if which == "chiral":
        p = dict(delta=float(rng.uniform(-2, 2)), hop1=float(rng.uniform(-1.5, 1.5)), hop2=float(rng.uniform(-0.5, 0.5)),
                 phi=float(rng.uniform(-np.pi, np.pi)), hopz_right=complex(rng.normal(), rng.normal()) * 0.3,
                 hopz_left=complex(rng.normal(), rng.normal()) * 0.3, hopz_vert=float(rng.normal()) * 0.3)
        m = models.Chiral(**p)
        dims = [0, 1, 2]
    elif which == "ssh":
        p = dict(delta=float(rng.uniform(-1, 1)), hop1=float(rng.uniform(-1.5, 1.5)), hop2=float(rng.uniform(-1, 1)))
        m = models.SSH_ptb(**p)
        dims = [0]
    elif which == "cumnas":
        n = rng.normal(size=3)
        p = dict(nx=float(n[0]), ny=float(n[1]), nz=float(n[2]), hop1=float(rng.uniform(0.5, 1.5)),
                 hop2=float(rng.uniform(-0.3, 0.3)), l=float(rng.uniform(0, 1)), J=float(rng.uniform(0, 1)),
                 dt=float(rng.uniform(-0.3, 0.3)))
        m = models.CuMnAs_2d(**p)
        dims = [0, 1]
    elif which == "kanemele":
        p = dict(topological=["even", "odd"][int(rng.integers(2))])
        m = models.KaneMele_ptb(**p)
        dims = [0, 1]
    else:
        p = {}
        m = models.Chiral_OSD()
        dims = [0, 1, 2]
    s = System_R.from_pythtb(m)
    kper = rng.uniform(-0.5, 1.0, (nk, len(dims)))
    k3 = full_k(rng, kper, dims, nk)
    E = source_eigenvalues(m, "pythtb", kper)
    wit = dict(kind=which, **p)
    hermiticity(ctx, s, "models." + which, wit)
    compare_bands(ctx, wb, s, E, k3, "models." + which + ":from_pythtb", wit, which)
    ctx.nontrivial((which,) + tuple(sorted((k, str(v)[:8]) for k, v in p.items())))
    ctx.sample(wit)


def case(ctx, rng, idx, state):
    wb = env.import_wb()
    u = rng.random()
    if u < 0.42:
        case_random(ctx, rng, wb, "pythtb")
    elif u < 0.78:
        case_random(ctx, rng, wb, "tbmodels")
    else:
        case_bundled(ctx, rng, wb)


if __name__ == "__main__":
    harness.main(
        PROP, "exploration", case, setup_fn=setup,
        tiers=dict(quick=dict(cases=1600, shards=8, time=900), thorough=dict(cases=40000, shards=16, time=3000)),
        rule="random PythTB models (dim 1-3, possibly fewer periodic directions, 1-4 orbitals, spinless/spinful, positions "
             "inside / outside / negative / on cell edges, on-site none/all/single/accumulated, 1-8 hoppings up to 3 cells "
             "away, scalar / Pauli-vector / 2x2 amplitudes, repeated and explicit conjugate hoppings, legacy tb_model "
             "constructor), random TBmodels models (dim 1-3, 1-4 orbitals, add_hop / hop dict with and without cc), the "
             "bundled builders with random parameters; non-trivial = band width > 1e-3 (or a PythTB model without inter-cell "
             "hoppings, generated on purpose); distinct by the full descriptor",
        assumptions=["oracle = eigenvalues reported by pythtb 2.0 (solve_ham) / tbmodels 1.4.3 (eigenval)",
                     "tolerance 1e-10 of max(band width, max|E|)",
                     "evaluate_k averages bands closer than its degeneracy threshold: near-degenerate k-points are "
                     "compared through the sum of the energies only (tie guard), always through vlib.gen_systems.bands"],
        required_counters=("from_pythtb_spinful", "from_pythtb_spinless", "from_pythtb_dim1", "from_pythtb_dim2",
                           "from_pythtb_dim3", "from_tbmodels_dim1", "from_tbmodels_dim2", "from_tbmodels_dim3",
                           "positions_outside_home_cell", "ptb_no_intercell_hopping", "berry_vs_pythtb_compared", "bundled_haldane", "haldane_berry_compared",
                           "evaluate_k_compared"),
    )
