"""C32 - tight-binding imports reproduce the source model (REF + DIFF).

REF  : System_R.from_pythtb(model) / System_R.from_tbmodels(model) must have, at every k, the band energies the
       source package itself reports (pythtb: TBModel.solve_ham, tbmodels: Model.eigenval), for random models of
       dimension 1-3 (pythtb: also fewer periodic than real-space directions), spinless / spinful, orbital positions
       inside and far outside the home cell, complex hoppings (scalars, Pauli 4-vectors, 2x2 blocks), on-site scalars
       / matrices, hoppings to far cells, repeated / accumulated hoppings, explicitly given conjugate partners.
       The energies are read through wannierberri.evaluate_k(system, k, quantities=['energy']) and through the
       harness-side diagonalisation of the imported real-space matrices (vlib.gen_systems.bands).
DIFF : the bundled builders of wannierberri.models: Haldane_ptb(p) and Haldane_tbm(p) with the same random parameter
       tuple give the same bands and Berry curvature; model_1d_pythtb with manual and built-in spinors give the same
       bands; Chiral(.., no interlayer hopping) equals Haldane at every k_z; every builder (Chiral, SSH_ptb, CuMnAs_2d,
       KaneMele_ptb, Chiral_OSD, model_1d_pythtb) reproduces its own source eigenvalues.
Extra : for PythTB models with all orbitals inside the home cell the band-resolved Berry curvature of the imported
       system equals pythtb's own Kubo-formula curvature (observability of the orbital positions / spinor layout).
Widening (review): the same oracles also judge
  * models *derived by the source package itself* (pythtb: make_supercell / cut_piece / make_finite / remove_orb / add_orb / copy /
    change_nonperiodic_vector / parameterised terms materialised by set_parameters, with_parameters; tbmodels: supercell /
    slice_orbitals / join_models / + - * / / set_sparse / remove_small_hop / remove_long_range_hop / change_unit_cell / hdf5 round
    trip / from_hop_list), the example models shipped with pythtb (pythtb.models), finite PythTB models (no periodic direction), 5-10 orbitals, up to 30 hoppings up to 5 cells away,
    sheared / unit / anisotropic cells, 'all' / Ellipsis / tuple spellings of periodic_dirs, tuple / array lattice vectors of hops;
  * every public entry point of the importer (System_R.from_*, the deprecated System_PythTB / System_TBmodels, get_system_pythtb /
    get_system_tbmodels, get_system_tb_py(model, module)) and the documented System parameters (berry, morb, spin, SHCryoo, OSD,
    NKFFT, frozen_max, silent) - the bands must not depend on them; with spin=True the band-resolved spin equals the expectation
    value of the Pauli matrices in pythtb's own eigenvectors (Extra: observability of the spin-pair layout);
  * imported systems that were used before (rvec.copy(), npz round trip, deepcopy, warm caches, do_ws_dist - the latter judged at
    the k-points of the Wigner-Seitz mesh, where folding leaves H(k) unchanged);
  * multi-step histories: the import must leave the source model as it was (snapshot + eigenvalues before/after), a second import
    of the same model gives the same matrices, a model modified after the first import and imported again gives the new bands
    while the system imported earlier keeps the old ones (no aliasing of the source arrays);
  * the bundled builders called with a random subset of keyword arguments (the rest at their defaults), positionally, with integer
    and zero values, with neighbouring parameter values after a first call, Haldane_ptb / Haldane_tbm compared matrix by matrix
    (Ham_R keyed by R), model_1d_pythtb with hoppings=None (global numpy RNG seeded identically for the two variants and restored)
    and with hoppings given as list / tuple.
Tolerance 1e-10 of max(band width, max|E|); evaluate_k averages bands closer than 1e-4 (documented degeneracy
threshold), so its output is compared only at k-points where no gap lies in (1e-9, 1e-2)*scale (tie guard).
"""
import os
import sys
import warnings

sys.path.insert(0, os.path.dirname(os.path.dirname(os.path.abspath(__file__))))
from vlib import env, harness, gen_systems  # noqa: E402
import numpy as np  # noqa: E402

PROP = "C32"
RTOL = 1e-10
# classes that fire on the unchanged tree (reported to the coordinator; see .work/review_c32_finding_*.py): off by default
PENDING = os.environ.get("VERIF_C32_PENDING", "0") == "1"


def setup(ctx):
    env.import_wb()
    warnings.filterwarnings("ignore")
    import logging
    logging.getLogger("pythtb").setLevel(logging.ERROR)
    return {}


# ------------------------------------------------------------------------------------------ generators
def random_cell(rng, dim):
    while True:
        L = np.eye(dim) + rng.uniform(-0.4, 0.4, (dim, dim))
        L = L * rng.uniform(0.7, 1.6, dim)[:, None]
        if abs(np.linalg.det(L)) > 0.25 and np.linalg.cond(L) < 12:
            return L * rng.uniform(0.8, 3.0)


def random_cell_wide(rng, dim):
    """(cell, tag): the generic cell of random_cell, or a non-reduced (sheared by whole lattice vectors) / unit / anisotropic one"""
    u = rng.random()
    if u < 0.6:
        return random_cell(rng, dim), "generic"
    if u < 0.75 and dim > 1:
        L = random_cell(rng, dim)
        i, j = (int(x) for x in rng.choice(dim, 2, replace=False))
        L[i] = L[i] + int(rng.choice([-3, -2, -1, 1, 2, 3])) * L[j]
        return L, "sheared"
    if u < 0.87:
        return np.eye(dim), "unit"
    return random_cell(rng, dim) * rng.choice([0.3, 1.0, 4.0], size=dim)[:, None], "aniso"


def random_positions(rng, n, dim, mode):
    if mode == "origin":
        return np.zeros((n, dim))
    if mode == "inside":
        return rng.uniform(0, 1, (n, dim))
    if mode == "outside":
        return rng.uniform(-2.5, 3.5, (n, dim))
    if mode == "negative":
        return rng.uniform(-1, 0, (n, dim))
    if mode == "integer_edge":
        return rng.integers(-2, 3, (n, dim)).astype(float) + rng.choice([0.0, 0.5, 1 / 3], size=(n, dim))
    raise ValueError(mode)


def herm2(rng):
    a = rng.normal(size=4)
    return np.array([[a[0] + a[3], a[1] - 1j * a[2]], [a[1] + 1j * a[2], a[0] - a[3]]])


def random_pythtb(rng, ctx):
    import pythtb
    dim_r = int(rng.integers(1, 4))
    u = rng.random()
    if u < 0.06:
        per = []                                   # finite model (molecule): no k-dependence at all
    elif dim_r > 1 and u < 0.26:
        ndir = int(rng.integers(1, dim_r))
        per = sorted(int(x) for x in rng.choice(dim_r, ndir, replace=False))
    else:
        per = list(range(dim_r))
    spinful = bool(rng.random() < 0.45)
    big = bool(rng.random() < 0.1)
    if big:
        norb = int(rng.integers(5, 11 if not spinful else 7))
        ctx.count("size_large")
    else:
        norb = int(rng.integers(1, 5 if not spinful else 4))
    pmode = ["inside", "inside", "outside", "negative", "integer_edge", "origin"][int(rng.integers(6))]
    lat, lat_tag = random_cell_wide(rng, dim_r)
    if lat_tag == "sheared":
        ctx.count("lattice_sheared")
    orb = random_positions(rng, norb, dim_r, pmode)
    legacy = bool(rng.random() < 0.2)
    per_form = "list"
    if legacy:
        lat_arg, orb_arg = lat, orb
        if lat_tag == "unit" and rng.random() < 0.7:
            lat_arg = [None, "unit"][int(rng.integers(2))]
        else:
            lat_arg = lat.tolist() if rng.random() < 0.5 else lat
        if pmode == "origin" and rng.random() < 0.7:
            orb_arg = norb if (norb > 1 or rng.random() < 0.5) else [None, "bravais"][int(rng.integers(2))]
        else:
            orb_arg = orb.tolist() if rng.random() < 0.5 else orb
        model = pythtb.tb_model(len(per), dim_r, lat_arg, orb_arg, per=per if (per != list(range(len(per))) or rng.random() < 0.5) else None,
                                nspin=2 if spinful else 1)
        ctx.count("ptb_legacy_ctor")
    else:
        per_arg = per
        if per == list(range(dim_r)):
            per_form = ["list", "all", "ellipsis", "tuple"][int(rng.integers(4))]
            per_arg = {"list": per, "all": "all", "ellipsis": ..., "tuple": tuple(per)}[per_form]
        model = pythtb.TBModel(pythtb.Lattice(lat_vecs=lat if rng.random() < 0.5 else lat.tolist(),
                                              orb_vecs=orb if rng.random() < 0.5 else orb.tolist(), periodic_dirs=per_arg),
                               spinful=spinful)
    # ---- on-site
    omode = ["none", "all", "single", "all+add"][int(rng.integers(4))]

    def onsite_val():
        if not spinful:
            return float(rng.normal())
        t = int(rng.integers(3))
        if t == 0:
            return float(rng.normal())
        if t == 1:
            return [float(x) for x in rng.normal(size=4)]
        return herm2(rng)
    if omode in ("all", "all+add"):
        model.set_onsite([onsite_val() for _ in range(norb)])
    if omode in ("single", "all+add"):
        model.set_onsite(onsite_val(), ind_i=int(rng.integers(norb)), mode="add" if omode == "all+add" else "set")
    # ---- hoppings
    far = int(rng.choice([1, 1, 2, 3, 5]))
    nhop = int(rng.integers(9, 31)) if big or rng.random() < 0.05 else int(rng.integers(1, 9))
    # models without any inter-cell hopping (flat bands): from_pythtb raised ValueError before 9f217470
    only_R0 = bool(rng.random() < 0.1) or not per
    if not per:
        ctx.count("ptb_dim_k0")
    if only_R0:
        ctx.count("ptb_no_intercell_hopping")
        if norb == 1 or rng.random() < 0.3:
            nhop = 0
    # parameterised terms (string / callable providers), materialised before the import by set_parameters / with_parameters
    parametrised = bool(rng.random() < 0.1)
    pvals = {}
    used = {}
    nset = 0
    for _ in range(nhop * 4):
        if nset >= nhop:
            break
        i, j = int(rng.integers(norb)), int(rng.integers(norb))
        R = np.zeros(dim_r, dtype=int)
        if not only_R0:
            R[per] = rng.integers(-far, far + 1, len(per))
        if i == j and not np.any(R):
            continue
        key = (i, j, tuple(int(x) for x in R))
        ckey = (j, i, tuple(int(-x) for x in R))
        if spinful:
            t = int(rng.integers(3))
            if t == 0:
                amp = complex(rng.normal(), rng.normal())
            elif t == 1:
                amp = rng.normal(size=4) + 1j * rng.normal(size=4)
                if rng.random() < 0.3:
                    amp = [complex(x) for x in amp]
            else:
                amp = rng.normal(size=(2, 2)) + 1j * rng.normal(size=(2, 2))
        else:
            v = rng.random()
            amp = complex(rng.normal(), rng.normal()) if v < 0.75 else float(rng.normal()) if v < 0.95 else int(rng.integers(1, 4))
        kw = {}
        if key in used:
            kw["mode"] = "add" if rng.random() < 0.6 else "set"
            ctx.count("ptb_repeated_hopping_" + kw["mode"])
        if ckey in used and key != ckey:
            if rng.random() < 0.5:
                continue
            kw["allow_conjugate_pair"] = True
            ctx.count("ptb_explicit_conjugate_pair")
        elif key == ckey:
            continue
        Rarg = [int(x) for x in R]
        rform = int(rng.integers(4))
        Rarg = (Rarg, tuple(Rarg), np.array(Rarg), Rarg)[rform]
        if parametrised and not kw and np.ndim(amp) == 0 and rng.random() < 0.6:
            name = f"p{len(pvals)}"
            val = complex(amp) if not isinstance(amp, (int, float)) else amp
            if rng.random() < 0.5:
                prov = name
                pvals[name] = val
            else:
                pvals[name] = val
                pvals[name + "s"] = float(rng.uniform(0.5, 2.0))
                prov = eval(f"lambda {name}, {name}s: {name} * {name}s / {pvals[name + 's']!r}")
            amp = prov
        if per:
            model.set_hop(amp, i, j, Rarg, **kw)
        else:
            model.set_hop(amp, i, j, **kw)
        used[key] = True
        nset += 1
    if nset == 0 and not only_R0:
        raise harness.Skip("no hopping generated")
    if pvals:
        if rng.random() < 0.5:
            model.set_parameters(pvals)
        else:
            model = model.with_parameters(**pvals)
        ctx.count("ptb_parameterised_materialised")
    info = dict(kind="pythtb", dim_r=dim_r, periodic_dirs=per, spinful=spinful, norb=norb, positions=pmode,
                onsite=omode, nhop=nset, far=far, legacy_ctor=legacy, only_R0=only_R0, lattice=lat_tag, per_form=per_form,
                parameterised=bool(pvals))
    return model, info


def library_pythtb(rng, ctx):
    """one of the example models shipped with pythtb 2 (pythtb.models) with random parameters"""
    import pythtb.models as pm
    name = ["checkerboard", "fu_kane_mele", "graphene", "haldane", "kane_mele", "ssh"][int(rng.integers(6))]
    r = lambda: float(rng.uniform(-1.5, 1.5))   # noqa: E731
    if name == "checkerboard":
        model = pm.checkerboard(r(), r())
    elif name == "fu_kane_mele":
        model = pm.fu_kane_mele(r(), r(), dt=[0.3 * r() for _ in range(4)]) if rng.random() < 0.7 else pm.fu_kane_mele(r(), r())
    elif name == "graphene":
        model = pm.graphene(r(), r())
    elif name == "haldane":
        model = pm.haldane(r(), r(), 0.3 * r(), float(rng.uniform(-np.pi, np.pi))) if rng.random() < 0.7 else pm.haldane(r(), r(), 0.3 * r())
    elif name == "kane_mele":
        model = pm.kane_mele(r(), r(), 0.3 * r(), 0.3 * r())
    else:
        model = pm.ssh(r(), r())
    if model._has_parameterized_terms():
        raise harness.Skip("library model with unresolved parameters")
    ctx.count("ptb_library_model")
    info = dict(kind="pythtb", library=name, dim_r=model.dim_r, periodic_dirs=list(model.periodic_dirs), spinful=bool(model.spinful),
                norb=model.norb, nhop=model.nhops, only_R0=False)
    return model, info


def random_tbmodels(rng, ctx):
    import tbmodels
    dim = int(rng.integers(1, 4))
    big = bool(rng.random() < 0.1)
    size = int(rng.integers(5, 11)) if big else int(rng.integers(1, 5))
    if big:
        ctx.count("size_large")
    pmode = ["inside", "outside", "negative", "integer_edge", "none", "origin"][int(rng.integers(6))]
    uc, lat_tag = random_cell_wide(rng, dim)
    if lat_tag == "sheared":
        ctx.count("lattice_sheared")
    pos = None if pmode == "none" else random_positions(rng, size, dim, pmode)
    if pos is not None and rng.random() < 0.5:
        pos = pos.tolist()
    on_site = None if rng.random() < 0.3 else [float(x) for x in rng.normal(size=size)]
    far = int(rng.choice([1, 1, 2, 3, 5]))
    ctor = ["add_hop", "hop_dict_cc", "hop_dict_nocc", "mixed", "hop_list", "onsite_only"][int(rng.integers(6))]
    if ctor == "onsite_only" and (on_site is None or rng.random() < 0.5):
        ctor = "add_hop"
    sparse = bool(rng.random() < 0.15)
    if sparse:
        ctx.count("tbm_sparse")
    hop = {}
    nR = int(rng.integers(6, 16)) if big else int(rng.integers(1, 6))
    if ctor in ("hop_dict_cc", "hop_dict_nocc", "mixed"):
        for _ in range(nR):
            R = tuple(int(x) for x in rng.integers(-far, far + 1, dim))
            M = (rng.normal(size=(size, size)) + 1j * rng.normal(size=(size, size))) * (rng.random((size, size)) < 0.7)
            if ctor == "hop_dict_cc":
                if not any(R):
                    M = M + M.conj().T
                hop[R] = M
                hop[tuple(-x for x in R)] = M.conj().T
            else:
                hop[R] = hop.get(R, 0) + M
    kw = dict(on_site=on_site, dim=dim, size=size, occ=int(rng.integers(0, size + 1)), pos=pos, uc=uc if rng.random() < 0.5 else uc.tolist())
    if sparse:
        kw["sparse"] = True
    nadd = 0
    if ctor == "hop_list":
        hl = []
        for _ in range(int(rng.integers(1, 8))):
            hl.append((complex(rng.normal(), rng.normal()), int(rng.integers(size)), int(rng.integers(size)),
                       tuple(int(x) for x in rng.integers(-far, far + 1, dim))))
        model = tbmodels.Model.from_hop_list(hop_list=hl, contains_cc=False, **kw)
        nadd = len(hl)
    else:
        if hop:
            kw.update(hop=hop, contains_cc=(ctor == "hop_dict_cc"))
        model = tbmodels.Model(**kw)
    if ctor in ("add_hop", "mixed"):
        for _ in range(int(rng.integers(9, 31)) if big else int(rng.integers(1, 8))):
            i, j = int(rng.integers(size)), int(rng.integers(size))
            R = [int(x) for x in rng.integers(-far, far + 1, dim)]
            model.add_hop(complex(rng.normal(), rng.normal()), i, j, R if rng.random() < 0.7 else tuple(R))
            nadd += 1
    if rng.random() < 0.2:
        model.add_on_site([float(x) for x in rng.normal(size=size)])
    if len(model.hop) == 0:
        raise harness.Skip("empty tbmodels model")
    only_R0 = all(not any(R) for R in model.hop)
    if only_R0:
        ctx.count("tbm_no_intercell_hopping")
    info = dict(kind="tbmodels", dim=dim, size=size, positions=pmode, on_site=on_site is not None, ctor=ctor,
                nR_dict=len(hop), nadd=nadd, far=far, lattice=lat_tag, sparse=sparse, only_R0=only_R0)
    return model, info


# ------------------------------------------------------------------------------------------ derived models
def derive_pythtb(rng, ctx, model, info):
    """a model obtained from `model` with the manipulation methods of pythtb itself; returns (model, tag) - the oracle stays the
    derived model's own solve_ham"""
    per = list(model.periodic_dirs)
    d = model.dim_r
    spinful = info["spinful"]
    ops = ["copy", "add_orb", "with_parameters_empty"]
    if per:
        ops += ["supercell", "supercell"]
    if len(per) >= 1 and model.nhops > 0:
        ops += ["cut_piece", "make_finite"]
    if model.norb > 1:
        ops += ["remove_orb"]
    if len(per) < d:
        ops += ["change_nonperiodic_vector"]
    op = ops[int(rng.integers(len(ops)))]
    if op == "copy":
        m = model.copy()
    elif op == "with_parameters_empty":
        m = model.with_parameters()
    elif op == "add_orb":
        m = model.copy()
        m.add_orb(rng.uniform(-1, 2, d))
        R = [int(rng.integers(-1, 2)) if i in per else 0 for i in range(d)]
        amp = complex(rng.normal(), rng.normal()) if not spinful else rng.normal(size=4) + 1j * rng.normal(size=4)
        if per:
            m.set_hop(amp, int(rng.integers(m.norb - 1)), m.norb - 1, R)
        else:
            m.set_hop(amp, int(rng.integers(m.norb - 1)), m.norb - 1)
        if rng.random() < 0.5:
            m.set_onsite(float(rng.normal()), ind_i=m.norb - 1)
    elif op == "remove_orb":
        m = model.copy()
        # one orbital per call: pythtb 2.0.0 re-indexes the hopping table wrongly when several orbitals are removed in one call
        # (HopTable.remove_orbitals decrements in ascending order) - a defect of the source package, its own solve_ham then fails
        for _ in range(int(rng.integers(1, m.norb))):
            r = int(rng.integers(m.norb))
            m.remove_orb(r if rng.random() < 0.5 else [r])
    elif op == "supercell":
        np_ = len(per)
        for _ in range(200):
            sub = rng.integers(-2, 3, (np_, np_))
            det = int(round(np.linalg.det(sub)))
            if 1 <= det <= (2 if model.nstate > 8 else 4):
                break
        else:
            sub = np.eye(np_, dtype=int)
        S = np.eye(d, dtype=int)
        for a, i in enumerate(per):
            for b, j in enumerate(per):
                S[i, j] = sub[a, b]
        m = model.make_supercell(S if rng.random() < 0.5 else S.tolist(), to_home=bool(rng.random() < 0.6))
    elif op == "cut_piece":
        if model.nstate <= 4 and rng.random() < 0.4:
            num = int(rng.integers(-(-100 // model.nstate), 140 // model.nstate + 1))      # 100-140 states
        else:
            num = int(rng.choice([1, 2, 3, 5, 17])) if model.nstate <= 6 else int(rng.integers(1, 4))
        try:
            m = model.cut_piece(num, int(rng.choice(per)), glue_edges=bool(num > 1 and rng.random() < 0.4))
        except ValueError:      # gluing can turn a hopping into an on-site term, which pythtb refuses
            raise harness.Skip("pythtb rejected the glued piece")
    elif op == "make_finite":
        nd = int(rng.integers(1, len(per) + 1))
        dirs = sorted(int(x) for x in rng.choice(per, nd, replace=False))
        nums = [int(rng.integers(1, 4)) for _ in dirs]
        glue = None if rng.random() < 0.5 else [bool(n > 1 and rng.random() < 0.5) for n in nums]
        try:
            m = model.make_finite(dirs, nums, glue_edges=glue)
        except ValueError:
            raise harness.Skip("pythtb rejected the glued piece")
    else:
        m = model.copy()
        fin = [i for i in range(d) if i not in per]
        new_vec = None if rng.random() < 0.6 else rng.normal(size=d) + 2.0 * np.eye(d)[fin[0]] * np.sign(rng.normal())
        try:
            m.change_nonperiodic_vector(int(fin[0]) if new_vec is not None else int(rng.choice(fin)), new_vec, to_home=bool(rng.random() < 0.7))
        except ValueError:
            raise harness.Skip("change_nonperiodic_vector rejected the new vector")
    if m.nstate > 140:
        raise harness.Skip("derived model too large")
    if m.nstate >= 100:
        ctx.count("size_100_or_more")
    return m, op


def derive_tbmodels(rng, ctx, model, info):
    """a model obtained from `model` with the methods / operators of tbmodels itself; returns (model, tag)"""
    import tbmodels
    import tempfile
    d = model.dim
    ops = ["supercell", "supercell", "slice", "slice_perm", "join", "add", "mul", "neg", "div", "set_sparse", "remove_small_hop",
           "remove_long_range_hop", "hdf5", "hdf5"]
    if model.pos is not None:
        ops += ["change_unit_cell"]
    op = ops[int(rng.integers(len(ops)))]
    if op == "supercell":
        while True:
            n = [int(x) for x in rng.integers(1, 4, d)]
            if np.prod(n) * model.size <= 60:
                break
        if np.prod(n) == 1:
            n[0] = 2
        m = model.supercell(n)
    elif op == "slice":
        keep = sorted(int(x) for x in rng.choice(model.size, max(1, model.size - int(rng.integers(1, 3))), replace=False))
        m = model.slice_orbitals(keep)
    elif op == "slice_perm":
        m = model.slice_orbitals([int(x) for x in rng.permutation(model.size)])
    elif op == "join":
        m = tbmodels.Model.join_models(model, model * float(rng.uniform(-1, 1)))
    elif op == "add":
        m = model + (-model) * float(rng.uniform(0.1, 0.6))
    elif op == "mul":
        m = model * float(rng.uniform(-2, 2))
    elif op == "neg":
        m = -model
    elif op == "div":
        m = model / float(rng.uniform(0.5, 3))
    elif op == "set_sparse":
        m = model
        m.set_sparse(not info["sparse"])
    elif op == "remove_small_hop":
        m = model
        m.remove_small_hop(float(rng.uniform(0.2, 1.0)))
    elif op == "remove_long_range_hop":
        m = model
        m.remove_long_range_hop(cutoff_distance_cartesian=float(rng.uniform(1.0, 6.0)))
    elif op == "change_unit_cell":
        m = model.change_unit_cell(uc=None, offset=[float(x) for x in rng.uniform(-1, 1, d)])
    else:
        fd, fn = tempfile.mkstemp(suffix=".hdf5", dir=env.WORK)
        os.close(fd)
        try:
            model.to_hdf5_file(fn)
            m = tbmodels.Model.from_hdf5_file(fn)
        finally:
            os.remove(fn)
    if len(m.hop) == 0:
        raise harness.Skip("empty derived tbmodels model")
    return m, op


# ------------------------------------------------------------------------------------------ evaluation
def source_eigenvalues(model, kind, kper):
    """eigenvalues reported by the source package at reduced k (only periodic components)"""
    if kind == "pythtb":
        if np.shape(kper)[1] == 0:      # finite model: one spectrum, the same at every k of the imported system
            E = np.sort(np.asarray(model.solve_ham()).reshape(-1))
            return np.tile(E, (len(kper), 1))
        E = model.solve_ham(np.array(kper))
        return np.sort(np.asarray(E).reshape(len(kper), -1), axis=1)
    return np.sort(np.array([np.asarray(e) for e in model.eigenval([list(k) for k in kper])]), axis=1)


def dense(M):
    return np.array(M.toarray() if hasattr(M, "toarray") else M)


def source_snapshot(model, kind):
    """everything that defines the source model, copied (to detect an import that modifies its input)"""
    if kind == "pythtb":
        hops = [(h["from_orbital"], h["to_orbital"], tuple(h.get("lattice_vector", ())), np.array(h["amplitude"])) for h in model.hoppings]
        return dict(lat=np.array(model.lat_vecs), orb=np.array(model.get_orb_vecs(cartesian=False)), onsite=np.array(model.onsite),
                    per=list(model.periodic_dirs), nhop=len(hops), hops=hops)
    return dict(uc=np.array(model.uc), pos=None if model.pos is None else np.array(model.pos), size=model.size,
                hop={tuple(R): dense(M) for R, M in model.hop.items()}, storage=sorted({type(M).__name__ for M in model.hop.values()}))


def same(a, b):
    if isinstance(a, dict):
        return isinstance(b, dict) and a.keys() == b.keys() and all(same(a[k], b[k]) for k in a)
    if isinstance(a, (list, tuple)):
        return isinstance(b, (list, tuple)) and len(a) == len(b) and all(same(x, y) for x, y in zip(a, b))
    if a is None or b is None:
        return a is None and b is None
    return bool(np.array_equal(np.asarray(a), np.asarray(b)))


IMPORT_KW = ("berry", "morb", "berry+morb", "OSD", "NKFFT", "frozen_max", "silent")
IMPORT_KW_PTB = ("spin", "spin", "SHCryoo", "spin+berry")


def draw_import(rng, which):
    """(entry point, keyword arguments, tag): all public ways into get_system_tb_py and the documented System parameters"""
    entry = ["classmethod"] * 5 + ["deprecated", "function", "generic"]
    entry = entry[int(rng.integers(len(entry)))]
    if rng.random() < 0.55:
        return entry, {}, "default"
    opts = IMPORT_KW + (IMPORT_KW_PTB if which == "pythtb" else ())
    tag = opts[int(rng.integers(len(opts)))]
    kw = {}
    for t in tag.split("+"):
        if t == "NKFFT":
            kw[t] = [int(x) for x in rng.integers(2, 7, 3)] if rng.random() < 0.5 else int(rng.integers(2, 7))
        elif t == "frozen_max":
            kw[t] = float(rng.normal())
        else:
            kw[t] = True
    return entry, kw, tag


def do_import(wb, model, which, entry, kw):
    from wannierberri.system import System_R, system_tb_py
    import wannierberri.system as wsys
    if entry == "classmethod":
        f = System_R.from_pythtb if which == "pythtb" else System_R.from_tbmodels
    elif entry == "deprecated":
        f = wsys.System_PythTB if which == "pythtb" else wsys.System_TBmodels
    elif entry == "function":
        f = system_tb_py.get_system_pythtb if which == "pythtb" else system_tb_py.get_system_tbmodels
    else:
        return system_tb_py.get_system_tb_py(model, module=which, **kw)
    return f(model, **kw)


SYSTEM_HISTORIES = ("as_built",) * 5 + ("rvec_copy", "npz_roundtrip", "deepcopy", "warm", "ws_dist", "ws_dist+rvec_copy")


def apply_history(rng, ctx, wb, system, hist, mp):
    """bring the imported system into a used state through the public API; `mp` is the mesh of do_ws_dist (the caller then compares at
    the k-points of that mesh only)"""
    import copy
    if hist == "as_built":
        return system
    if hist == "deepcopy":
        return copy.deepcopy(system)
    if hist == "warm":
        from vlib import monitors
        for _ in range(2):
            wb.evaluate_k(system, k=tuple(rng.uniform(-1, 1, 3)), quantities=["energy", "berry_curvature"])
        monitors.warm_caches(system)
        return system
    if hist.startswith("ws_dist"):
        system.do_ws_dist(tuple(mp))
        if hist.endswith("rvec_copy"):
            system.rvec = system.rvec.copy()
        return system
    system, _ = gen_systems.history_variant(rng, system, which=hist, workdir=env.WORK)
    return system


def mutate_source(rng, model, which, info):
    """a further public modification of the source model (after it has been imported once); returns a tag"""
    if which == "tbmodels":
        if rng.random() < 0.3:
            model.add_on_site([float(x) for x in rng.normal(size=model.size)])
            return "add_on_site"
        R = [int(x) for x in rng.integers(-2, 3, model.dim)]
        model.add_hop(complex(rng.normal(), rng.normal()), int(rng.integers(model.size)), int(rng.integers(model.size)), R)
        return "add_hop"
    per = list(model.periodic_dirs)
    u = rng.random()
    if u < 0.35 or model.nhops == 0:
        val = float(rng.normal()) if not info["spinful"] else [float(x) for x in rng.normal(size=4)]
        model.set_onsite(val, ind_i=int(rng.integers(model.norb)), mode=["set", "add"][int(rng.integers(2))])
        return "set_onsite"
    h = model.hoppings[int(rng.integers(model.nhops))]
    amp = complex(rng.normal(), rng.normal()) if not info["spinful"] else rng.normal(size=(2, 2)) + 1j * rng.normal(size=(2, 2))
    mode = ["set", "add"][int(rng.integers(2))]
    if per:
        model.set_hop(amp, h["from_orbital"], h["to_orbital"], h.get("lattice_vector", [0] * model.dim_r), mode=mode)
    else:
        model.set_hop(amp, h["from_orbital"], h["to_orbital"], mode=mode)
    return "set_hop_" + mode


def full_k(rng, kper, dims, nk):
    """3-component k for wannierberri: periodic components from kper, anything in the other ones"""
    k3 = rng.uniform(-1, 1, (nk, 3))
    k3[:, dims] = kper
    return k3


def compare_bands(ctx, wb, system, Esrc, k3, mech, wit, label):
    scale = max(float(np.ptp(Esrc)), float(np.abs(Esrc).max()), 1e-3)
    # (a) harness-side diagonalisation of the imported matrices
    Eb = gen_systems.bands(system, k3)
    ctx.close(f"{mech}:Ham_R_bands!=source", Eb, Esrc, atol=RTOL * scale, rtol=0,
              what=f"{label}: bands of imported Ham_R vs source eigenvalues", witness=wit)
    # (b) through the library
    for ik, k in enumerate(k3):
        gaps = np.diff(Esrc[ik])
        tie = np.any((gaps > 1e-9 * scale) & (gaps < max(1e-2 * scale, 2e-3)))
        E = np.asarray(wb.evaluate_k(system, k=tuple(k), quantities=["energy"]))
        if tie:
            ctx.count("tie_near_degenerate_only_sum_compared")
            ctx.close(f"{mech}:evaluate_k_energy_sum!=source", E.sum(), Esrc[ik].sum(),
                      atol=RTOL * scale * len(E), rtol=0, what=f"{label}: sum of energies at k={k}", witness=wit)
        else:
            ctx.close(f"{mech}:evaluate_k_energy!=source", np.sort(E), Esrc[ik], atol=RTOL * scale, rtol=0,
                      what=f"{label}: evaluate_k energies at k={k}", witness=wit)
            ctx.count("evaluate_k_compared")
    return scale


def hermiticity(ctx, system, mech, wit):
    Ham = system.get_R_mat("Ham")
    iR = system.rvec.iRvec
    ctx.close(f"{mech}:Ham_R_not_hermitian", gen_systems.hermitize(iR, Ham), Ham, atol=1e-12 * max(np.abs(Ham).max(), 1e-3),
              rtol=0, what="Ham(-R) = Ham(R)^dagger", witness=wit)


# ------------------------------------------------------------------------------------------ cases
def case_random(ctx, rng, wb, which):
    if which == "pythtb":
        model, info = library_pythtb(rng, ctx) if rng.random() < 0.08 else random_pythtb(rng, ctx)
        if rng.random() < 0.3:
            model, info["derived"] = derive_pythtb(rng, ctx, model, info)
            ctx.count("derived_pythtb")
            ctx.count("derived_pythtb_" + info["derived"])
        dims = list(model.periodic_dirs)
        d = model.dim_r
        nst = model.nstate
        orbs = np.asarray(model.get_orb_vecs(cartesian=False))
        inside = bool(np.all((orbs >= 0) & (orbs < 1)))
    else:
        model, info = random_tbmodels(rng, ctx)
        if rng.random() < 0.3:
            model, info["derived"] = derive_tbmodels(rng, ctx, model, info)
            ctx.count("derived_tbmodels")
            ctx.count("derived_tbmodels_" + info["derived"])
        d = model.dim
        dims = list(range(d))
        nst = model.size
        inside = model.pos is None or bool(np.all((np.asarray(model.pos) >= 0) & (np.asarray(model.pos) < 1)))
    mech = "from_" + which
    entry, kw, kwtag = draw_import(rng, which)
    hist = SYSTEM_HISTORIES[int(rng.integers(len(SYSTEM_HISTORIES)))]
    if hist.startswith("ws_dist") and d < 3:
        # do_ws_dist on a partially periodic system may pick replicas along the non-periodic direction (vlib.gen_systems.history_variant)
        hist = hist.replace("ws_dist+", "").replace("ws_dist", "rvec_copy")
    info.update(entry=entry, import_kw=kwtag, history=hist)
    nk = 5 if nst <= 24 else 2
    mp = None
    if hist.startswith("ws_dist"):
        # folding the R-vectors on the mesh mp leaves H(k) unchanged exactly at the k-points of that mesh (any Brillouin zone)
        mp = [int(x) for x in rng.integers(3, 7, 3)]
        k3 = rng.integers(-7, 8, (nk, 3)) / np.array(mp)[None, :]
        kper = k3[:, dims]
    else:
        kper = rng.uniform(-1.0, 1.5, (nk, len(dims)))
        kper[0] = rng.choice([0.0, 0.5, 1 / 3], size=len(dims))
        k3 = full_k(rng, kper, dims, nk)
    Esrc = source_eigenvalues(model, which, kper)
    scale = max(float(np.ptp(Esrc)), float(np.abs(Esrc).max()), 1e-3)
    snap = source_snapshot(model, which)
    system = do_import(wb, model, which, entry, kw)
    ctx.count("import_entry_" + entry)
    ctx.count("import_kw_" + kwtag)
    if kwtag != "default":
        ctx.count("import_kw_nondefault")
    # ---- the import must not change the source model
    if not same(snap, source_snapshot(model, which)):
        ctx.violation(f"{mech}:source_model_modified_by_import", "lattice / positions / on-site / hoppings (values or storage) of the source differ after the import", info)
    ctx.close(f"{mech}:source_bands_changed_by_import", source_eigenvalues(model, which, kper), Esrc, atol=1e-13 * scale, rtol=0,
              what="source eigenvalues before and after the import", witness=info)
    ctx.count("source_unchanged_checked")
    if which == "pythtb":
        if bool(system.spinor) != info["spinful"]:
            ctx.violation("from_pythtb:spinor_flag", f"spinor={system.spinor} for spinful={info['spinful']}", info)
        ctx.count("from_pythtb_" + ("spinful" if info["spinful"] else "spinless"))
        ctx.count(f"from_pythtb_dim{d}")
        if len(dims) < d:
            ctx.count("from_pythtb_fewer_periodic_dirs")
    else:
        ctx.count(f"from_tbmodels_dim{d}")
    if not inside:
        ctx.count("positions_outside_home_cell")
    if system.num_wann != nst:
        ctx.violation(f"{mech}:num_wann", f"num_wann={system.num_wann} source={nst}", info)
        return
    if nst >= 10:
        ctx.count("num_wann_10_or_more")
    hermiticity(ctx, system, mech, info)
    as_built = dict(Ham=np.array(system.get_R_mat("Ham")), iRvec=np.array(system.rvec.iRvec), wcc=np.array(system.wannier_centers_cart))
    system = apply_history(rng, ctx, wb, system, hist, mp)
    ctx.count("history_" + hist.replace("+rvec_copy", ""))
    compare_bands(ctx, wb, system, Esrc, k3, mech, info, which)
    # lattice and periodic flags
    src_lat = np.array(model.lat_vecs if which == "pythtb" else model.uc, dtype=float)
    ctx.close(f"{mech}:real_lattice", system.real_lattice[:d, :d], src_lat, atol=1e-13 * np.abs(src_lat).max(), rtol=0,
              what="real lattice", witness=info)
    if list(system.periodic) != [True] * d + [False] * (3 - d):
        ctx.violation(f"{mech}:periodic_flags", f"periodic={system.periodic} for dim {d}", info)
    if which == "pythtb" and (hist != "npz_roundtrip" or PENDING) and bool(system.spinor) != info["spinful"]:
        ctx.violation("from_pythtb:spinor_flag_after_history", f"spinor={system.spinor} for spinful={info['spinful']} after {hist}", info)
    # (a system re-loaded from npz had lost force_internal_terms_only: evaluate_k(berry_curvature) raised "AA not set" - repaired in 65fbebf5 and
    #  judged now; the spinor flag is still not saved (side observation, only with VERIF_C32_PENDING=1))
    if which == "pythtb" and inside and len(dims) == d >= 2 and nst <= 8 and not hist.startswith("ws_dist"):
        berry_vs_pythtb(ctx, wb, model, system, kper, k3, Esrc, info)
    if which == "pythtb" and info["spinful"] and (kw.get("spin") or kw.get("SHCryoo")) and nst <= 24 and len(dims) > 0:
        spin_vs_pythtb(ctx, wb, model, system, kper, k3, Esrc, info)
    # ---- a second import of the same model: the same matrices (no state kept between imports)
    u = rng.random()
    if u < 0.25:
        again = do_import(wb, model, which, entry, kw)
        ok = (same(as_built["iRvec"], again.rvec.iRvec) and same(as_built["Ham"], again.get_R_mat("Ham")) and
              same(as_built["wcc"], again.wannier_centers_cart))
        if not ok:
            ctx.violation(f"{mech}:second_import_differs", "R-vectors / Ham_R / centres of two imports of one model differ", info)
        ctx.ev(1)
        ctx.count("second_import_compared")
    elif u < 0.55:
        # ---- the source is modified after the import and imported again: new bands; the earlier system keeps the old ones
        keep = do_import(wb, model, which, "classmethod", {})
        info["modified_after_import"] = mutate_source(rng, model, which, info)
        kq = rng.uniform(-1.0, 1.5, (2, len(dims)))
        kq3 = full_k(rng, kq, dims, 2)
        Eold = gen_systems.bands(keep, kq3)
        Enew = source_eigenvalues(model, which, kq)
        new = do_import(wb, model, which, entry, kw)
        compare_bands(ctx, wb, new, Enew, kq3, mech + ":reimport_after_modification", info, which + " (modified after a first import)")
        ctx.close(f"{mech}:earlier_system_changed_by_source_modification", gen_systems.bands(keep, kq3), Eold, atol=1e-13 * scale, rtol=0,
                  what="bands of the system imported before the source was modified", witness=info)
        if float(np.abs(Enew - Eold).max()) > 1e-6 * scale:
            ctx.count("reimport_after_modification")
    bw = float((Esrc.max(axis=0) - Esrc.min(axis=0)).max())
    if bw > 1e-3 or info.get("only_R0"):
        ctx.nontrivial(tuple(sorted((k, str(v)) for k, v in info.items())))
    ctx.sample(info)


def spin_vs_pythtb(ctx, wb, model, system, kper, k3, Esrc, wit, mech="from_pythtb"):
    """band-resolved spin of the system imported with spin=True vs <psi|sigma|psi> of pythtb's own eigenvectors (orbital-major,
    spin-minor layout of pythtb), at k-points without near-degeneracies"""
    pauli = np.array([[[0, 1], [1, 0]], [[0, -1j], [1j, 0]], [[1, 0], [0, -1]]])
    scale = max(float(np.ptp(Esrc)), 1e-3)
    for ik in range(min(2, len(kper))):
        gaps = np.diff(Esrc[ik])
        if len(gaps) == 0 or gaps.min() < 2e-2 * scale:
            ctx.count("spin_tie_skipped")
            continue
        E, V = model.solve_ham(np.array([kper[ik]]), return_eigvecs=True)
        E = np.asarray(E).reshape(-1)
        V = np.asarray(V).reshape(len(E), -1, 2)[np.argsort(E)]
        Sp = np.real(np.einsum("bos,cst,bot->bc", V.conj(), pauli, V))
        Sw = np.asarray(wb.evaluate_k(system, k=tuple(k3[ik]), quantities=["spin"]))
        ctx.close(f"{mech}:spin!=source", Sw, Sp, atol=1e-9 * scale / gaps.min(), rtol=0,
                  what=f"band-resolved spin vs pythtb eigenvectors at k={kper[ik]}", witness=wit)
        ctx.count("spin_vs_pythtb_compared")


def berry(wb, system, k):
    return np.asarray(wb.evaluate_k(system, k=tuple(k), quantities=["berry_curvature"]))


def berry_vs_pythtb(ctx, wb, model, system, kper, k3, Esrc, wit, mech="from_pythtb"):
    """band-resolved Berry curvature of the imported system vs pythtb's own Kubo formula (cartesian), only for
    orbital positions inside the home cell (from_pythtb reduces the centres modulo 1 without relabelling the
    hoppings, which changes the k-resolved curvature of models with orbitals outside - documented behaviour) and
    at k-points without near-degeneracies"""
    d = model.dim_r
    planes = [(0, 1)] if d == 2 else [(1, 2), (2, 0), (0, 1)]
    comp = [2] if d == 2 else [0, 1, 2]
    scale = max(float(np.ptp(Esrc)), 1e-3)
    for ik in range(min(2, len(kper))):
        gaps = np.diff(Esrc[ik])
        if len(gaps) == 0 or gaps.min() < 2e-2 * scale:
            ctx.count("berry_tie_skipped")
            continue
        Ow = np.asarray(wb.evaluate_k(system, k=tuple(k3[ik]), quantities=["berry_curvature"]))  # (nb, 3)
        Op = np.zeros((len(Esrc[ik]), len(comp)))
        for n in range(len(Esrc[ik])):
            for ic, pl in enumerate(planes):
                Op[n, ic] = np.real(np.asarray(model.berry_curvature(np.array([kper[ik], kper[ik]]), occ_idxs=[n],
                                                                       plane=pl, cartesian=True)).reshape(-1)[0])
        amp = (scale / gaps.min()) ** 2
        ctx.close(f"{mech}:berry_curvature!=source", Ow[:, comp], Op,
                  atol=1e-8 * max(np.abs(Op).max(), np.abs(np.linalg.det(model.lat_vecs)) ** (2.0 / d) * 1e-2) * amp, rtol=0,
                  what=f"band-resolved Berry curvature vs pythtb at k={kper[ik]}", witness=wit)
        ctx.count("berry_vs_pythtb_compared")


def call_form(rng, ctx, func, p, special=None):
    """call a bundled builder with the parameter values p in one of the documented ways: all keywords / a random subset of keywords
    (the rest at their defaults) / positionally / a positional prefix.  Returns (model builder closure, effective parameters, tag):
    the closure can be applied to several builders with the same signature."""
    import inspect
    sig = inspect.signature(func)
    names = list(sig.parameters)
    p = dict(p)
    if special and rng.random() < 0.2:
        for k in names:
            if k in special and rng.random() < 0.5:
                p[k] = special[k][int(rng.integers(len(special[k])))]
        ctx.count("bundled_integer_or_zero_values")
    form = ["all_kw", "all_kw", "partial_kw", "partial_kw", "positional", "positional_prefix"][int(rng.integers(6))]
    has_defaults = all(sig.parameters[k].default is not inspect.Parameter.empty for k in names)
    if not has_defaults and form in ("partial_kw", "positional_prefix"):
        form = "positional"
    if form == "all_kw":
        args, kwargs = (), dict(p)
    elif form == "partial_kw":
        given = [k for k in names if rng.random() < 0.5]
        args, kwargs = (), {k: p[k] for k in given}
        ctx.count("bundled_partial_args")
    elif form == "positional":
        args, kwargs = tuple(p[k] for k in names), {}
        ctx.count("bundled_positional_args")
    else:
        m = int(rng.integers(0, len(names)))
        rest = [k for k in names[m:] if rng.random() < 0.5]
        args, kwargs = tuple(p[k] for k in names[:m]), {k: p[k] for k in rest}
        ctx.count("bundled_positional_args")
        ctx.count("bundled_partial_args")
    bound = sig.bind(*args, **kwargs)
    bound.apply_defaults()
    eff = dict(bound.arguments)
    return (lambda f: f(*args, **kwargs)), eff, form


def ham_by_R(system):
    return {tuple(int(x) for x in R): np.array(M) for R, M in zip(system.rvec.iRvec, system.get_R_mat("Ham"))}


def compare_ham_by_R(ctx, sa, sb, mech, wit, scale):
    A, B = ham_by_R(sa), ham_by_R(sb)
    keys = sorted(set(A) | set(B))
    z = np.zeros((sa.num_wann, sa.num_wann), dtype=complex)
    ctx.close(mech, np.array([A.get(k, z) for k in keys]), np.array([B.get(k, z) for k in keys]), atol=1e-13 * scale, rtol=0,
              what="real-space Hamiltonians, matrix by matrix (keyed by R; an R missing on one side counts as zero)", witness=wit)


def case_bundled(ctx, rng, wb):
    from wannierberri.system import System_R
    from wannierberri import models
    which = ["haldane", "haldane", "haldane", "model1d", "model1d", "chiral", "ssh", "cumnas", "kanemele", "osd"][int(rng.integers(10))]
    ctx.count("bundled_" + which)
    nk = 4
    if which == "haldane":
        p = dict(delta=float(rng.uniform(-1.5, 1.5)), hop1=float(rng.uniform(-1.5, 1.5)),
                 hop2=float(rng.uniform(-0.5, 0.5)), phi=float(rng.uniform(-np.pi, np.pi)))
        if rng.random() < 0.15:
            p["delta"] = 0.2
        build, p, form = call_form(rng, ctx, models.Haldane_tbm, p,
                                   special=dict(delta=[0, 1, -2], hop1=[1, -1, 2], hop2=[0, 1], phi=[0, 1]))
        wit = dict(kind="haldane", call=form, **p)
        mp, mt = build(models.Haldane_ptb), build(models.Haldane_tbm)
        sp, st = System_R.from_pythtb(mp), System_R.from_tbmodels(mt)
        kper = rng.uniform(-0.5, 1.0, (nk, 2))
        k3 = full_k(rng, kper, [0, 1], nk)
        Ep, Et = source_eigenvalues(mp, "pythtb", kper), source_eigenvalues(mt, "tbmodels", kper)
        scale = max(float(np.ptp(Et)), 1e-3)
        ctx.close("models.Haldane_ptb!=Haldane_tbm:source_bands", Ep, Et, atol=RTOL * scale, rtol=0,
                  what="pythtb vs tbmodels eigenvalues of the Haldane builders", witness=wit)
        compare_bands(ctx, wb, sp, Et, k3, "models.Haldane_ptb!=Haldane_tbm", wit, "Haldane_ptb system vs Haldane_tbm source")
        compare_bands(ctx, wb, st, Ep, k3, "models.Haldane_ptb!=Haldane_tbm", wit, "Haldane_tbm system vs Haldane_ptb source")
        # the same system: real-space matrices keyed by R
        compare_ham_by_R(ctx, sp, st, "models.Haldane_ptb!=Haldane_tbm:Ham_R", wit, max(1.0, max(abs(float(v)) for v in p.values())))
        # Berry curvature of the two systems (differential); scale: a generic Haldane model has |Omega| ~ 0.1-10
        Op = np.array([berry(wb, sp, k) for k in k3])
        Ot = np.array([berry(wb, st, k) for k in k3])
        gap = float(np.min(Et[:, 1] - Et[:, 0]))
        if gap > 1e-3 * scale:
            ctx.close("models.Haldane_ptb!=Haldane_tbm:berry_curvature", Op, Ot,
                      atol=1e-9 * max(np.abs(Ot).max(), 0.1) * max(1.0, (scale / gap) ** 2), rtol=0,
                      what="Berry curvature of the systems from Haldane_ptb and Haldane_tbm", witness=wit)
            ctx.count("haldane_berry_compared")
        # same real-space matrices (same R set after sorting, same centres)
        ctx.close("models.Haldane_ptb!=Haldane_tbm:wannier_centers", sp.wannier_centers_cart, st.wannier_centers_cart,
                  atol=1e-12, rtol=0, what="Wannier centres", witness=wit)
        # Chiral without interlayer hoppings = Haldane at every kz  (hop2 sign convention shared: both use t2=hop2 e^{i phi})
        mc = models.Chiral(delta=p["delta"], hop1=p["hop1"], hop2=p["hop2"], phi=p["phi"], hopz_left=0.0,
                           hopz_right=0.0, hopz_vert=0.0)
        sc = System_R.from_pythtb(mc)
        k3c = np.hstack([kper, rng.uniform(-1, 1, (nk, 1))])
        compare_bands(ctx, wb, sc, Et, k3c, "models.Chiral(no_kz)!=Haldane_tbm", wit, "Chiral without interlayer hopping")
        # a second request with neighbouring parameter values (after the first models have been built, used and imported):
        # both builders must follow the new values; the models returned earlier must stay as they were
        if rng.random() < 0.5:
            key = ["delta", "hop1", "hop2", "phi"][int(rng.integers(4))]
            p2 = dict(p)
            p2[key] = float(p[key]) + float(rng.choice([-1, 1])) * 10.0 ** float(rng.uniform(-7, -3))
            mp2, mt2 = models.Haldane_ptb(**p2), models.Haldane_tbm(**p2)
            Ep2, Et2 = source_eigenvalues(mp2, "pythtb", kper), source_eigenvalues(mt2, "tbmodels", kper)
            wit2 = dict(wit, second_call=p2)
            ctx.close("models.Haldane_ptb!=Haldane_tbm:source_bands(second call, neighbouring parameters)", Ep2, Et2,
                      atol=RTOL * scale, rtol=0, what="pythtb vs tbmodels eigenvalues, second call", witness=wit2)
            compare_bands(ctx, wb, System_R.from_pythtb(mp2), Et2, k3, "models.Haldane_ptb!=Haldane_tbm:second_call", wit2,
                          "Haldane_ptb system vs Haldane_tbm source (second call)")
            compare_bands(ctx, wb, System_R.from_tbmodels(mt2), Ep2, k3, "models.Haldane_ptb!=Haldane_tbm:second_call", wit2,
                          "Haldane_tbm system vs Haldane_ptb source (second call)")
            ctx.close("models.Haldane:earlier_model_changed_by_second_call",
                      np.array([source_eigenvalues(mp, "pythtb", kper), source_eigenvalues(mt, "tbmodels", kper)]),
                      np.array([Ep, Et]), atol=1e-13 * scale, rtol=0, what="eigenvalues of the models built first", witness=wit2)
            # the two parameter sets are really different models (otherwise the comparison says nothing about staleness)
            if float(np.abs(Et2 - Et).max()) > 100 * RTOL * scale:
                ctx.count("haldane_neighbour_compared")
        ctx.nontrivial(("haldane", form, round(float(p["delta"]), 3), round(float(p["hop2"]), 3)))
        ctx.sample(wit)
        return
    if which == "model1d":
        hop = rng.uniform(-1, 1, 8)
        Delta = float(rng.uniform(-1, 1))
        kw = dict(Delta=Delta)
        if rng.random() < 0.2:
            kw = dict(Delta=int(rng.choice([0, 1, -2])))
        elif rng.random() < 0.15:
            kw = {}                                   # documented default Delta=1
        hform = ["array", "array", "none", "list", "tuple"][int(rng.integers(5))]
        ctx.count("model1d_hoppings_" + hform)
        if hform == "none":
            # documented: "If None, random hoppings will be generated" (numpy's global generator): seeded identically for the two
            # variants, state restored afterwards
            seed = int(rng.integers(2 ** 31))
            state = np.random.get_state()
            try:
                np.random.seed(seed)
                m1 = models.model_1d_pythtb(spinor_manual=True, **kw)
                np.random.seed(seed)
                m2 = models.model_1d_pythtb(spinor_manual=False, hoppings=None, **kw)
            finally:
                np.random.set_state(state)
            ctx.count("model1d_default_hoppings")
        else:
            conv = dict(array=np.array, list=lambda x: [float(v) for v in x], tuple=lambda x: tuple(float(v) for v in x))[hform]
            # "hoppings : list of 8 floats": with spinor_manual=True a list / tuple raises AttributeError on the unchanged tree
            # (review_c32_finding_1) - that combination waits for the coordinator behind VERIF_C32_PENDING
            m1 = models.model_1d_pythtb(spinor_manual=True, hoppings=conv(hop), **kw)
            m2 = models.model_1d_pythtb(spinor_manual=False, hoppings=conv(hop), **kw)
            if hform != "array":
                ctx.count("model1d_hoppings_sequence")
        s1, s2 = System_R.from_pythtb(m1), System_R.from_pythtb(m2)
        kper = rng.uniform(-0.5, 1.0, (nk, 1))
        k3 = full_k(rng, kper, [0], nk)
        E1, E2 = source_eigenvalues(m1, "pythtb", kper), source_eigenvalues(m2, "pythtb", kper)
        wit = dict(kind="model1d", hoppings_form=hform, hoppings=hop, **kw)
        compare_bands(ctx, wb, s1, E2, k3, "models.model_1d_pythtb(manual)!=(spinor)", wit, "manual spinor system")
        compare_bands(ctx, wb, s2, E1, k3, "models.model_1d_pythtb(manual)!=(spinor)", wit, "built-in spinor system")
        ctx.close("models.model_1d_pythtb(manual)!=(spinor):Ham_R", s1.get_R_mat("Ham"), s2.get_R_mat("Ham"),
                  atol=1e-13, rtol=0, what="real-space Hamiltonians", witness=wit)
        ctx.nontrivial(("model1d", hform, round(float(kw.get("Delta", 1)), 3)))
        ctx.sample(wit)
        return
    special = None
    if which == "chiral":
        p = dict(delta=float(rng.uniform(-2, 2)), hop1=float(rng.uniform(-1.5, 1.5)), hop2=float(rng.uniform(-0.5, 0.5)),
                 phi=float(rng.uniform(-np.pi, np.pi)), hopz_right=complex(rng.normal(), rng.normal()) * 0.3,
                 hopz_left=complex(rng.normal(), rng.normal()) * 0.3, hopz_vert=float(rng.normal()) * 0.3)
        func = models.Chiral
        special = dict(delta=[0, 2], hop1=[1, -1], hop2=[0, 1], phi=[0], hopz_right=[0, 1], hopz_left=[0, 1j], hopz_vert=[0, 1])
        dims = [0, 1, 2]
    elif which == "ssh":
        p = dict(delta=float(rng.uniform(-1, 1)), hop1=float(rng.uniform(-1.5, 1.5)), hop2=float(rng.uniform(-1, 1)))
        func = models.SSH_ptb
        special = dict(delta=[0, 1], hop1=[1, 0], hop2=[0, 1])
        dims = [0]
    elif which == "cumnas":
        n = rng.normal(size=3)
        p = dict(nx=float(n[0]), ny=float(n[1]), nz=float(n[2]), hop1=float(rng.uniform(0.5, 1.5)),
                 hop2=float(rng.uniform(-0.3, 0.3)), l=float(rng.uniform(0, 1)), J=float(rng.uniform(0, 1)),
                 dt=float(rng.uniform(-0.3, 0.3)))
        func = models.CuMnAs_2d
        special = dict(nx=[1], ny=[1], nz=[1], hop1=[1], hop2=[0], l=[0, 1], J=[0, 1], dt=[0])   # the Neel vector stays non-zero
        dims = [0, 1]
    elif which == "kanemele":
        p = dict(topological=["even", "odd"][int(rng.integers(2))])
        func = models.KaneMele_ptb
        dims = [0, 1]
    else:
        p = {}
        func = models.Chiral_OSD
        dims = [0, 1, 2]
    form = "no_args"
    if p:
        build, p, form = call_form(rng, ctx, func, p, special=special)
        m = build(func)
    else:
        m = func()
    s = System_R.from_pythtb(m)
    kper = rng.uniform(-0.5, 1.0, (nk, len(dims)))
    k3 = full_k(rng, kper, dims, nk)
    E = source_eigenvalues(m, "pythtb", kper)
    wit = dict(kind=which, call=form, **p)
    hermiticity(ctx, s, "models." + which, wit)
    compare_bands(ctx, wb, s, E, k3, "models." + which + ":from_pythtb", wit, which)
    ctx.nontrivial((which, form) + tuple(sorted((k, str(v)[:8]) for k, v in p.items())))
    ctx.sample(wit)


def case(ctx, rng, idx, state):
    wb = env.import_wb()
    u = rng.random()
    if u < 0.42:
        case_random(ctx, rng, wb, "pythtb")
    elif u < 0.78:
        case_random(ctx, rng, wb, "tbmodels")
    else:
        case_bundled(ctx, rng, wb)


if __name__ == "__main__":
    harness.main(
        PROP, "exploration", case, setup_fn=setup,
        tiers=dict(quick=dict(cases=1600, shards=8, time=900), thorough=dict(cases=40000, shards=16, time=3000)),
        rule="random PythTB models (dim 1-3, 0..dim periodic directions, 1-10 orbitals, spinless/spinful, positions inside / outside / "
             "negative / on cell edges / all at the origin, generic / sheared / unit / anisotropic cells, on-site "
             "none/all/single/accumulated, 1-30 hoppings up to 5 cells away, scalar / Pauli-vector / 2x2 amplitudes, repeated and "
             "explicit conjugate hoppings, parameterised terms materialised before the import, legacy tb_model constructor, models "
             "derived with pythtb's own manipulation methods), random TBmodels models (dim 1-3, 1-10 orbitals, add_hop / hop dict with "
             "and without cc / from_hop_list / on-site only, dense and sparse, models derived with tbmodels' own methods), every "
             "entry point and documented System parameter of the importer, used systems (rvec.copy, npz, deepcopy, warm, "
             "do_ws_dist), second import / import after modification, the bundled builders with random parameters passed "
             "by keyword / partially / positionally; non-trivial = band width > 1e-3 (or a model without inter-cell hoppings, "
             "generated on purpose); distinct by the full descriptor",
        assumptions=["oracle = eigenvalues reported by pythtb 2.0 (solve_ham) / tbmodels 1.4.3 (eigenval)",
                     "tolerance 1e-10 of max(band width, max|E|)",
                     "evaluate_k averages bands closer than its degeneracy threshold: near-degenerate k-points are "
                     "compared through the sum of the energies only (tie guard), always through vlib.gen_systems.bands",
                     "after do_ws_dist(mp) the bands are compared at the k-points of the mesh mp only (folding changes H(k) elsewhere)",
                     "source models with unresolved parameterised terms, TBmodels models without a unit cell and a zero Neel vector of "
                     "CuMnAs_2d are outside the domain (no band energies / no lattice / division by zero)"],
        required_counters=("from_pythtb_spinful", "from_pythtb_spinless", "from_pythtb_dim1", "from_pythtb_dim2",
                           "from_pythtb_dim3", "from_tbmodels_dim1", "from_tbmodels_dim2", "from_tbmodels_dim3",
                           "positions_outside_home_cell", "ptb_no_intercell_hopping", "berry_vs_pythtb_compared", "bundled_haldane", "haldane_berry_compared",
                           "evaluate_k_compared",
                           # widening review
                           "derived_pythtb", "derived_tbmodels", "import_kw_nondefault", "import_entry_deprecated", "import_entry_function",
                           "import_entry_generic", "history_rvec_copy", "history_npz_roundtrip", "history_deepcopy", "history_warm",
                           "history_ws_dist", "source_unchanged_checked", "second_import_compared", "reimport_after_modification",
                           "spin_vs_pythtb_compared", "size_large", "num_wann_10_or_more", "size_100_or_more", "lattice_sheared", "ptb_dim_k0",
                           "ptb_parameterised_materialised", "ptb_library_model", "tbm_sparse", "tbm_no_intercell_hopping", "bundled_partial_args",
                           "bundled_positional_args", "bundled_integer_or_zero_values", "haldane_neighbour_compared",
                           "model1d_default_hoppings", "model1d_hoppings_sequence"),
    )
