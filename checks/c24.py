"""C24 - wannierisation produces a valid gauge that honours the windows (INV).

Real code: ``wannierberri.wannierise`` / ``WannierData.wannierise`` on synthetic Wannier90 data
(vlib.gen_w90: random tight-binding "ab-initio" model, periodic-gauge MMN, trial-orbital AMN,
exact / near degeneracies so that window edges cut multiplets).

Oracle on ``wandata.chk.v_matrix[k]`` (NB x NW), harness-side, from the eigenvalues and the window
positions only:
  * V^dagger V = 1 (1e-9) at every k-point;
  * every band lying inside the frozen window *together with its whole multiplet* (chain of gaps
    below the threshold wannierise lets select_window_degen use, 1e-2) and every explicitly
    frozen band: (V V^dagger)_nn = 1 (1e-8) - the state is completely inside the span;
  * every band outside the outer window whose multiplet is entirely outside: row of V = 0.
  Bands whose multiplet is cut by a window edge are counted, not judged (C15 covers the selection).
In situ (M-window): ``select_window_degen`` is wrapped where wannierise looks it up; on every call
the returned selection must be a union of whole multiplets, must contain every multiplet lying
wholly inside the window and none lying wholly outside.

Supplementary reference sub-oracle (every 8th case: init='amn', num_iter=0, nothing frozen): the starting
gauge must be the Loewdin-orthonormalised projection A (A^dagger A)^(-1/2) of the selected bands
(what "the eigenvectors with the *largest* eigenvalues of A A^dagger, rotated to the projections"
means) - this is what makes a wrong eigenvector selection in get_max_eig observable.
Thorough tier: every 25th case runs on the bundled diamond data (tests/data/diamond, text files parsed
by the harness; the bundled graphene data hold irreducible k-points only and need sitesym=True).

Non-trivial case = disentanglement really needed: NW < number of bands in the outer window at
some k, or >= 1 band (at some k) frozen.
"""
import inspect
import os
import sys

sys.path.insert(0, os.path.dirname(os.path.dirname(os.path.abspath(__file__))))
from vlib import env, harness, gen_w90  # noqa: E402
import numpy as np  # noqa: E402

PROP = "C24"
EDGE_GUARD = 1e-6  # tie guard: no eigenvalue closer than this to a window edge
THRESH_GUARD = 1e-7  # tie guard: no gap closer than this to the degeneracy threshold


# ----------------------------------------------------------------------------- M-window
def setup(ctx):
    env.import_wb()
    import wannierberri.wannierisation.wannierise  # noqa: F401
    import wannierberri.utility as wbutil
    mod = sys.modules["wannierberri.wannierisation.wannierise"]
    assert inspect.ismodule(mod) and hasattr(mod, "select_window_degen"), "wannierise module does not bind select_window_degen"
    orig = mod.select_window_degen
    default_thresh = inspect.signature(wbutil.select_window_degen).parameters["thresh"].default
    state = dict(ctx=ctx, thresh=float(default_thresh), orig=orig, case=None)
    sig = inspect.signature(orig)

    def monitored_select_window_degen(E, *args, **kwargs):
        res = orig(E, *args, **kwargs)
        bound = sig.bind(E, *args, **kwargs)
        bound.apply_defaults()
        a = bound.arguments
        monitor_window(state, np.asarray(a["E"], dtype=float), float(a["thresh"]), float(a["win_min"]),
                       float(a["win_max"]), bool(a["include_degen"]), bool(a["return_indices"]), res)
        return res

    mod.select_window_degen = monitored_select_window_degen
    state["real"] = None
    if ctx.thorough:
        seed = os.path.join(env.REPO, "tests", "data", "diamond", "diamond")
        if not all(os.path.exists(seed + ext) for ext in (".win", ".eig", ".mmn", ".amn")):
            seed = os.path.join("/repo", "tests", "data", "diamond", "diamond")  # scratch copies have no tests/
        if all(os.path.exists(seed + ext) for ext in (".win", ".eig", ".mmn", ".amn")):
            state["real"] = gen_w90.real_w90(seed)
    return state


def chains(E, thresh):
    """multiplets = maximal chains of consecutive levels with gap < thresh (harness-side)"""
    groups, cur = [], [0]
    for i in range(1, len(E)):
        if E[i] - E[i - 1] < thresh:
            cur.append(i)
        else:
            groups.append(cur)
            cur = [i]
    groups.append(cur)
    return groups


def monitor_window(state, E, thresh, win_min, win_max, include_degen, return_indices, res):
    ctx = state["ctx"]
    ctx.count("mwindow_calls")
    ctx.count("mwindow_calls_include_degen" if include_degen else "mwindow_calls_exclude_degen")
    state["thresh_seen"] = thresh
    if return_indices:
        sel = np.zeros(len(E), dtype=bool)
        sel[list(res)] = True
    else:
        sel = np.asarray(res, dtype=bool)
    if len(E) == 0:
        return
    wit = dict(E=E, thresh=thresh, win_min=win_min, win_max=win_max, include_degen=include_degen, selected=sel,
               case=state.get("case"))
    ctx.ev()
    inside = (E >= win_min) & (E <= win_max)
    for g in chains(E, thresh):
        g = np.array(g)
        s = sel[g]
        if s.any() and not s.all():
            ctx.violation("select_window_degen(in wannierise):splits_multiplet",
                          f"selection {sel.astype(int)} splits the multiplet {g.tolist()} (gaps < {thresh})", wit)
        if inside[g].all():
            if not s.all():
                ctx.violation("select_window_degen(in wannierise):multiplet_wholly_inside_not_selected",
                              f"multiplet {g.tolist()} lies wholly inside [{win_min},{win_max}] but selection={s.astype(int)}", wit)
        elif not inside[g].any():
            if s.any():
                ctx.violation("select_window_degen(in wannierise):multiplet_wholly_outside_selected",
                              f"multiplet {g.tolist()} lies wholly outside [{win_min},{win_max}] but selection={s.astype(int)}", wit)
        else:
            ctx.count("mwindow_cut_multiplets_seen")
            if s.all() == include_degen and (s.all() or not s.any()):
                ctx.count("mwindow_cut_multiplets_resolved_as_documented")


# ----------------------------------------------------------------------------- generator of windows
def edge_candidate(rng, s, thresh, lo=None, hi=None, prefer_cut=False):
    """a finite window edge: between two levels of a random k-point (possibly inside a multiplet),
    or anywhere in the spectrum"""
    E = s.E
    NK, NB = E.shape
    r = rng.random()
    if prefer_cut or r < 0.3:
        gaps = np.diff(E, axis=1)
        cand = np.argwhere((gaps < thresh) & (gaps > 4 * EDGE_GUARD))
        if len(cand) > 0:
            ik, n = cand[int(rng.integers(len(cand)))]
            return float(E[ik, n] + gaps[ik, n] * rng.uniform(0.3, 0.7))
    if r < 0.7 and NB > 1:
        ik = int(rng.integers(NK))
        n = int(rng.integers(NB - 1))
        return float(0.5 * (E[ik, n] + E[ik, n + 1]))
    a = E.min() - 0.3 if lo is None or not np.isfinite(lo) else lo
    b = E.max() + 0.3 if hi is None or not np.isfinite(hi) else hi
    return float(rng.uniform(a, b))


def edges_ok(s, edges):
    for e in edges:
        if np.isfinite(e) and np.min(np.abs(s.E - e)) < EDGE_GUARD:
            return False
    return True


def gen_outer(rng, s, thresh, need=1):
    """outer window with at least `need` bands inside at every k"""
    if rng.random() < 0.3:
        return -np.inf, np.inf
    for _ in range(12):
        omin = -np.inf if rng.random() < 0.4 else edge_candidate(rng, s, thresh, prefer_cut=rng.random() < 0.3)
        omax = np.inf if rng.random() < 0.4 else edge_candidate(rng, s, thresh, prefer_cut=rng.random() < 0.3)
        if not omin < omax:
            omin, omax = omax, omin
        if not omin < omax or not edges_ok(s, (omin, omax)):
            continue
        cnt = ((s.E >= omin) & (s.E <= omax)).sum(axis=1)
        if cnt.min() >= need:
            return omin, omax
    return -np.inf, np.inf


def gen_frozen(rng, s, thresh, omin, omax, NW, explicit_count):
    """frozen window inside the outer one, never more than NW - explicit_count bands inside (+explicit handled by caller)"""
    for _ in range(10):
        mode = rng.random()
        fmin = omin if mode < 0.3 else edge_candidate(rng, s, thresh, lo=omin, hi=omax, prefer_cut=rng.random() < 0.3)
        fmax = edge_candidate(rng, s, thresh, lo=omin, hi=omax, prefer_cut=rng.random() < 0.3)
        if rng.random() < 0.08:
            fmax = omax
        if np.isfinite(fmin) and np.isfinite(fmax) and fmin > fmax:
            fmin, fmax = fmax, fmin
        if fmin < omin or fmax > omax or not fmin < fmax:
            continue
        if not edges_ok(s, (fmin, fmax)):
            continue
        cnt = ((s.E >= fmin) & (s.E <= fmax)).sum(axis=1)
        if cnt.max() + explicit_count <= NW:
            return fmin, fmax
    return np.inf, -np.inf


def gen_config(rng, s, thresh, NW=None, thorough=False, no_frozen=False):
    """windows (+ NW if not given) that are valid inputs whatever way cut multiplets are resolved:
    #bands in the outer window >= NW and #bands in the frozen window + explicit frozen <= NW at every k,
    frozen window inside the outer window, explicit frozen states strictly inside the outer window"""
    omin, omax = gen_outer(rng, s, thresh, need=1 if NW is None else NW)
    in_outer = (s.E >= omin) & (s.E <= omax)
    nout = in_outer.sum(axis=1)
    if NW is None:
        nmax = int(nout.min())
        if nmax < 1:
            raise harness.Skip("no band inside the outer window at some k")
        # bias towards real disentanglement (NW below the number of bands in the window)
        NW = int(rng.integers(1, nmax + 1)) if (rng.random() < 0.8 or nmax == 1) else nmax
    elif nout.min() < NW:
        raise harness.Skip("fewer bands inside the outer window than NW")
    # explicit frozen states
    frozen_states = []
    explicit = np.zeros(s.E.shape, dtype=bool)
    r = rng.random()
    if no_frozen:
        r = 1.0
    if r < 0.12:
        ok = np.where(in_outer.all(axis=0))[0]
        if len(ok) > 0:
            n = int(rng.integers(1, min(len(ok), NW, 2) + 1))
            frozen_states = [int(x) for x in rng.choice(ok, n, replace=False)]
            explicit[:, frozen_states] = True
    elif r < 0.24:
        frozen_states = {}
        for ik in rng.choice(s.NK, min(s.NK, int(rng.integers(1, 4))), replace=False):
            ok = np.where(in_outer[ik])[0]
            n = int(rng.integers(1, min(len(ok), NW, 2) + 1))
            lst = [int(x) for x in rng.choice(ok, n, replace=False)]
            frozen_states[int(ik)] = lst
            explicit[ik, lst] = True
    nexp = int(explicit.sum(axis=1).max())
    if rng.random() < 0.2 or no_frozen:
        fmin, fmax = np.inf, -np.inf
    else:
        fmin, fmax = gen_frozen(rng, s, thresh, omin, omax, NW, nexp)
    in_froz = (s.E >= fmin) & (s.E <= fmax)
    if ((in_froz | explicit).sum(axis=1) > NW).any():
        raise harness.Skip("more frozen states than Wannier functions")
    return dict(NW=NW, outer_min=omin, outer_max=omax, froz_min=fmin, froz_max=fmax, frozen_states=frozen_states,
                explicit=explicit)


# ----------------------------------------------------------------------------- oracle
def judge(ctx, s, cfg, V, thresh, wit, stage):
    NB, NW = s.NB, cfg["NW"]
    fmin, fmax, omin, omax = cfg["froz_min"], cfg["froz_max"], cfg["outer_min"], cfg["outer_max"]
    explicit = cfg["explicit"]
    if not isinstance(V, dict) or sorted(V.keys()) != list(range(s.NK)):
        ctx.violation("wannierise:v_matrix_missing_kpoints", f"v_matrix keys {sorted(V.keys()) if isinstance(V, dict) else type(V)}"
                      f" != all {s.NK} k-points", wit)
        return dict(cut=0, nfroz=0, nexcl=0)
    nfroz = nexcl = ncut_f = ncut_o = 0
    worst = dict(iso=0.0, froz=0.0, excl=0.0)
    bad = {}
    for ik in range(s.NK):
        Vk = np.asarray(V[ik])
        if Vk.shape != (NB, NW):
            ctx.violation("wannierise:v_matrix_shape", f"v_matrix[{ik}].shape={Vk.shape} expected {(NB, NW)}", wit)
            return dict(cut=0, nfroz=0, nexcl=0)
        if not np.all(np.isfinite(Vk)):
            ctx.violation("wannierise:v_matrix_not_finite", f"v_matrix[{ik}] has non-finite entries", wit)
            return dict(cut=0, nfroz=0, nexcl=0)
        E = s.E[ik]
        iso = float(np.abs(Vk.conj().T @ Vk - np.eye(NW)).max())
        if iso > worst["iso"]:
            worst["iso"] = iso
            bad["iso"] = dict(ik=ik, dev=iso)
        P = np.real(np.einsum("nw,nw->n", Vk, Vk.conj()))  # (V V^dagger)_nn
        inf_ = (E >= fmin) & (E <= fmax)
        ino = (E >= omin) & (E <= omax)
        for g in chains(E, thresh):
            g = np.array(g)
            # frozen window
            if inf_[g].all():
                must = g
            else:
                must = g[explicit[ik, g]]
                if inf_[g].any():
                    ncut_f += len(g)
            for n in must:
                nfroz += 1
                d = abs(P[n] - 1.0)
                if d > worst["froz"]:
                    worst["froz"] = d
                    bad["froz"] = dict(ik=ik, band=int(n), weight=float(P[n]), E=E, explicit=bool(explicit[ik, n]))
            # outer window
            if not ino[g].any():
                if explicit[ik, g].any():
                    continue  # cannot happen: explicit states are generated inside the outer window
                for n in g:
                    nexcl += 1
                    d = float(np.abs(Vk[n]).max())
                    if d > worst["excl"]:
                        worst["excl"] = d
                        bad["excl"] = dict(ik=ik, band=int(n), maxabs=d, E=E)
            elif not ino[g].all():
                ncut_o += len(g)
    ctx.close(f"wannierise[{stage}]:V^dagger.V!=1", worst["iso"], 0.0, scale=1.0, rtol=1e-9,
              what=f"isometry of v_matrix, worst k: {bad.get('iso')}", witness=dict(wit, worst=bad.get("iso")))
    if nfroz:
        ctx.close(f"wannierise[{stage}]:frozen_state_not_in_span", worst["froz"], 0.0, scale=1.0, rtol=1e-8,
                  what=f"(V V^dagger)_nn of a frozen band, worst: {bad.get('froz')}", witness=dict(wit, worst=bad.get("froz")))
        ctx.count("bands_judged_frozen", nfroz)
    if nexcl:
        ctx.close(f"wannierise[{stage}]:weight_outside_outer_window", worst["excl"], 0.0, scale=1.0, rtol=1e-9,
                  what=f"row of V of a band outside the outer window, worst: {bad.get('excl')}",
                  witness=dict(wit, worst=bad.get("excl")))
        ctx.count("bands_judged_outside_outer", nexcl)
    if ncut_f:
        ctx.count("bands_in_multiplets_cut_by_frozen_edge(not judged)", ncut_f)
    if ncut_o:
        ctx.count("bands_in_multiplets_cut_by_outer_edge(not judged)", ncut_o)
    return dict(cut=ncut_f + ncut_o, nfroz=nfroz, nexcl=nexcl)


def judge_initial_gauge(ctx, s, cfg, V, thresh, wit):
    """init='amn', num_iter=0, nothing frozen: V[selected] = A_sel (A_sel^dagger A_sel)^(-1/2) at every k-point where
    the set of selected bands is unambiguous (no multiplet cut by an edge of the outer window) and the projections
    are well conditioned"""
    omin, omax = cfg["outer_min"], cfg["outer_max"]
    worst, bad, n = 0.0, None, 0
    for ik in range(s.NK):
        E = s.E[ik]
        ino = (E >= omin) & (E <= omax)
        if any(ino[g].any() and not ino[g].all() for g in chains(E, thresh)):
            continue
        A = s.amn[ik][ino]
        sv = np.linalg.svd(A, compute_uv=False)
        if sv[-1] < 1e-3 * sv[0] or sv[-1] < 1e-3:
            ctx.count("reference_gauge_skipped_ill_conditioned_projections")
            continue
        u, _, vh = np.linalg.svd(A, full_matrices=False)
        ref = np.zeros((s.NB, cfg["NW"]), dtype=complex)
        ref[ino] = u @ vh
        d = float(np.abs(np.asarray(V[ik]) - ref).max())
        n += 1
        if d > worst:
            worst, bad = d, dict(ik=ik, dev=d)
    if n:
        ctx.close("wannierise[amn,num_iter=0]:starting_gauge!=Loewdin_projection", worst, 0.0, scale=1.0, rtol=1e-7,
                  what=f"starting gauge vs A (A^+ A)^(-1/2), worst {bad}", witness=dict(wit, worst=bad))
        ctx.count("reference_gauge_kpoints_checked", n)


def call_wannierise(rng, wd, cfg, init, num_iter, localise, extra):
    import wannierberri as wb
    kw = dict(froz_min=cfg["froz_min"], froz_max=cfg["froz_max"], outer_min=cfg["outer_min"], outer_max=cfg["outer_max"],
              num_iter=num_iter, localise=localise, init=init, parallel=False, sitesym=False, savechk=False, **extra)
    fs = cfg["frozen_states"]
    if isinstance(fs, dict) or len(fs) > 0:
        kw["frozen_states"] = fs if isinstance(fs, dict) else list(fs)
    if init == "random":
        kw["num_wann"] = cfg["NW"]
        np.random.seed(int(rng.integers(2 ** 31 - 1)))  # wannierise draws from the global RNG: make the case replayable
    if rng.random() < 0.5:
        wb.wannierise(wd, **kw)
    else:
        wd.wannierise(**kw)
    return wd.chk.v_matrix


# ----------------------------------------------------------------------------- one case
def case(ctx, rng, idx, state):
    import warnings
    thresh = state["thresh"]
    thorough = ctx.thorough
    NB = int(rng.integers(1, 11 if thorough else 8))
    if rng.random() < 0.85:
        NB = max(NB, 2)
    grids = gen_w90.MP_GRIDS if thorough else gen_w90.MP_GRIDS[:8]
    mp_grid = grids[int(rng.integers(len(grids)))]
    degen = ["none", "exact", "near", "near", "resolved", "chain", "mixed"][int(rng.integers(7))]
    reference = (idx % 8 == 0)  # init=amn, num_iter=0, nothing frozen: starting gauge has a closed form
    real = thorough and state["real"] is not None and idx % 25 == 7
    if real:
        import copy
        s = copy.copy(state["real"])
        NB, mp_grid = s.NB, s.mp_grid
        ctx.count("cases_on_bundled_diamond_data")
    else:
        try:
            s = gen_w90.synthetic_bands(rng, mp_grid=mp_grid, NB=NB, degen=degen)
        except RuntimeError as e:
            if "bk vectors" in str(e) or "neighbour" in str(e) or "shell" in str(e):
                raise harness.Skip("b-vector search failed for the lattice (not this property)")
            raise
    if s.min_tie_distance(thresh) < THRESH_GUARD:
        raise harness.Skip("tie: a gap within 1e-7 of the degeneracy threshold")
    init = ["amn", "random", "restart"][int(rng.integers(3))]
    if reference:
        init = "amn"
    first_init = init if init != "restart" else ["amn", "random"][int(rng.integers(2))]
    nw_fixed = None
    if real and first_init == "amn":
        nw_fixed = int(rng.integers(1, s.amn_full.shape[2] + 1))  # projections come from the file
    cfg = gen_config(rng, s, thresh, NW=nw_fixed, thorough=thorough, no_frozen=reference)
    NW = cfg["NW"]
    if real and NW > s.amn_full.shape[2]:
        s.amn, s.amn_kind = None, "none"
    else:
        s.set_amn(rng, NW, noise=float(rng.choice([0.0, 0.05, 0.3])))
    itmax = 200 if thorough else 40
    num_iter = int(rng.choice([0, 1, 2, int(rng.integers(3, 12)), int(rng.integers(3, itmax + 1))]))
    if reference:
        num_iter = 0
    localise = bool(rng.random() < 0.6)
    extra = dict(mix_ratio_z=float(rng.choice([1.0, 0.5, 0.8])))
    if rng.random() < 0.5:
        extra["conv_tol"] = 0.0  # never "converged": run all iterations
    if rng.random() < 0.3:
        extra["symmetrize_Z"] = False
    if rng.random() < 0.2:
        extra["wcc_start_red"] = rng.uniform(-0.5, 0.5, (NW, 3))
    with_chk = bool(rng.random() < 0.4)
    with_amn = not (first_init == "random" and rng.random() < 0.5) and s.amn is not None
    wd = s.wandata(with_chk=with_chk, with_amn=with_amn)

    def witness(cfg_, init_, n_iter):
        return dict(NB=NB, NW=NW, mp_grid=mp_grid, degen=s.degen, amn=s.amn_kind, init=init_, num_iter=n_iter,
                    localise=localise, extra={k: v for k, v in extra.items() if k != "wcc_start_red"},
                    froz=(cfg_["froz_min"], cfg_["froz_max"]), outer=(cfg_["outer_min"], cfg_["outer_max"]),
                    frozen_states=cfg_["frozen_states"], with_chk=with_chk, with_amn=with_amn)

    state["case"] = dict(idx=idx, NB=NB, NW=NW, mp_grid=mp_grid)
    calls0 = ctx.counters.get("mwindow_calls", 0)
    with warnings.catch_warnings():
        warnings.simplefilter("ignore")
        V = call_wannierise(rng, wd, cfg, first_init, num_iter, localise, extra)
        wit = witness(cfg, first_init, num_iter)
        res = judge(ctx, s, cfg, V, thresh, wit, first_init)
        ctx.count(f"init_{first_init}")
        if reference:
            judge_initial_gauge(ctx, s, cfg, V, thresh, wit)
        cfg_last = cfg
        if init == "restart":
            # a second call on the result, with the same or with new (valid) windows
            cfg2 = cfg
            if rng.random() < 0.5:
                try:
                    cfg2 = gen_config(rng, s, thresh, NW=NW, thorough=thorough)
                    ctx.count("restart_with_new_windows")
                except harness.Skip:
                    cfg2 = cfg
            num_iter2 = int(rng.choice([0, 1, int(rng.integers(2, 15))]))
            extra2 = {k: v for k, v in extra.items() if k != "wcc_start_red"}
            V2 = call_wannierise(rng, wd, cfg2, "restart", num_iter2, localise, extra2)
            wit = witness(cfg2, "restart", num_iter2)
            wit["first_call"] = dict(init=first_init, num_iter=num_iter, froz=(cfg["froz_min"], cfg["froz_max"]),
                                     outer=(cfg["outer_min"], cfg["outer_max"]), frozen_states=cfg["frozen_states"])
            res2 = judge(ctx, s, cfg2, V2, thresh, wit, "restart")
            res = {k: res[k] + res2[k] for k in res}
            ctx.count("init_restart")
            cfg_last = cfg2
    # the monitor must have seen 2 calls per k-point and wannierise call
    ncalls = ctx.counters.get("mwindow_calls", 0) - calls0
    expected = 2 * s.NK * (2 if init == "restart" else 1)
    if ncalls != expected:
        ctx.count("cases_where_mwindow_saw_unexpected_number_of_calls")  # not a refutation of the property by itself
    else:
        ctx.count("cases_where_mwindow_saw_2_calls_per_kpoint")
    if abs(state.get("thresh_seen", thresh) - thresh) > 0:
        raise RuntimeError(f"wannierise passed thresh={state.get('thresh_seen')} to select_window_degen; oracle assumes {thresh}")

    ctx.count("localise_on" if localise else "localise_off")
    if num_iter == 0:
        ctx.count("num_iter_0")
    if isinstance(cfg["frozen_states"], dict):
        ctx.count("explicit_frozen_states_dict")
    elif len(cfg["frozen_states"]):
        ctx.count("explicit_frozen_states_list")
    if res["cut"]:
        ctx.count("cases_with_cut_multiplet")
    if NW == NB:
        ctx.count("cases_NW=NB")
    nout_max = int(((s.E >= cfg_last["outer_min"]) & (s.E <= cfg_last["outer_max"])).sum(axis=1).max())
    nontrivial = (NW < nout_max) or res["nfroz"] > 0
    if nontrivial:
        ctx.nontrivial((NB, NW, mp_grid, s.degen["kind"], s.degen["split"], init, localise, min(num_iter, 3),
                        res["nfroz"] > 0, res["nexcl"] > 0, res["cut"] > 0,
                        "dict" if isinstance(cfg["frozen_states"], dict) else len(cfg["frozen_states"])))
    else:
        ctx.count("cases_trivial(no disentanglement)")
    ctx.sample(wit)


if __name__ == "__main__":
    harness.main(
        PROP, "exploration", case, setup_fn=setup,
        tiers=dict(quick=dict(cases=300, shards=8, time=900), thorough=dict(cases=3200, shards=16, time=3000)),
        rule="synthetic W90 data (random TB model, NB 1..7 (thorough 10), Gamma-centred meshes (2,2,2)...(5,2,2) in random "
             "k order, periodic-gauge MMN from BKVectors.from_kpoints, 4 kinds of trial projections, exact/near/resolved/"
             "chain/mixed degeneracies), NW 1..#bands in the outer window, frozen/outer windows at random positions incl. "
             "+-inf and edges placed inside multiplets, explicit frozen_states (list / per-k dict), init amn/random/restart "
             "(restart = second call on the result, same or new windows), num_iter 0..40 (thorough 200), localise on/off, "
             "mix_ratio_z, conv_tol, with/without a pre-set bare CheckPoint; parallel/sitesym off; every 8th case is a "
             "reference case (init amn, 0 iterations, nothing frozen) compared with the Loewdin projection; thorough: "
             "every 25th case on the bundled diamond data (8 k-points, 10 bands, symmetry-degenerate multiplets).  Non-trivial = NW < "
             "number of bands in the outer window at some k or >=1 frozen band; distinct by (NB, NW, mesh, degeneracy kind/"
             "split, init, localise, iteration class, frozen/excluded/cut flags, explicit-frozen kind)",
        assumptions=["degeneracy threshold of the oracle = default `thresh` of select_window_degen (1e-2); wannierise passes none "
                     "(verified in situ on every call)",
                     "inputs are valid whichever way cut multiplets are resolved: #bands in outer window >= NW >= #bands in "
                     "frozen window + explicit frozen states at every k; frozen window inside the outer window",
                     "tie guards: no eigenvalue within 1e-6 of a window edge, no gap within 1e-7 of the threshold",
                     "orthonormality 1e-9, frozen weight 1e-8, excluded rows 1e-9 (absolute, natural scale 1)"],
        required_counters=("mwindow_calls", "mwindow_calls_include_degen", "mwindow_calls_exclude_degen",
                           "bands_judged_frozen", "bands_judged_outside_outer", "init_amn", "init_random", "init_restart",
                           "localise_on", "localise_off", "cases_with_cut_multiplet", "mwindow_cut_multiplets_seen",
                           "reference_gauge_kpoints_checked"),
        min_nontrivial=20,
    )
