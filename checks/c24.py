"""C24 - wannierisation produces a valid gauge that honours the windows (INV).

Real code: ``wannierberri.wannierise`` / ``WannierData.wannierise`` on synthetic Wannier90 data
(vlib.gen_w90: random tight-binding "ab-initio" model, periodic-gauge MMN, trial-orbital AMN,
exact / near degeneracies so that window edges cut multiplets).

Oracle on ``wandata.chk.v_matrix[k]`` (NB x NW), harness-side, from the eigenvalues and the window
positions only:
  * V^dagger V = 1 (1e-9) at every k-point;
  * every band lying inside the frozen window *together with its whole multiplet* (chain of gaps
    below the threshold wannierise lets select_window_degen use, 1e-2) and every explicitly
    frozen band: (V V^dagger)_nn = 1 (1e-8) - the state is completely inside the span;
  * every band outside the outer window whose multiplet is entirely outside: row of V = 0.
  Bands whose multiplet is cut by a window edge are counted, not judged (C15 covers the selection).
In situ (M-window): ``select_window_degen`` is wrapped where wannierise looks it up; on every call
the returned selection must be a union of whole multiplets, must contain every multiplet lying
wholly inside the window and none lying wholly outside.

Supplementary reference sub-oracle (every 8th case: init='amn', num_iter=0, nothing frozen): the starting
gauge must be the Loewdin-orthonormalised projection A (A^dagger A)^(-1/2) of the selected bands
(what "the eigenvectors with the *largest* eigenvalues of A A^dagger, rotated to the projections"
means) - this is what makes a wrong eigenvector selection in get_max_eig observable.
Thorough tier: every 25th case runs on the bundled diamond data (tests/data/diamond, text files parsed
by the harness; the bundled graphene data hold irreducible k-points only and need sitesym=True).

Non-trivial case = disentanglement really needed: NW < number of bands in the outer window at
some k, or >= 1 band (at some k) frozen.

Widening review (DESIGN 14) - classes added on top of the above, all judged by the same oracles:
  * data: meshes with 1 / 2 k-points and with 100-144 k-points, 4-fold multiplets, narrow / wide bands, band sets *cut out of a
    larger model* (MMN not unitary, as in real data), exactly rank-deficient projections (duplicated / zero trial orbital),
    bundled diamond data also in the quick tier;
  * windows: an edge bit-identical to an eigenvalue (the band on the edge may count as inside or outside - as in C15 any
    consistent choice is accepted - everything else is judged), finite inverted frozen window, more than two explicit frozen
    states, numpy integers / duplicates / empty containers in ``frozen_states``;
  * documented options never varied before: mix_ratio_u, print_progress_every, print_wcc_chk, num_iter_converge, large
    conv_tol (early convergence), num_wann given with init='amn', irreducible=True, default ``parallel`` (serial fall-back),
    wcc_start_red as nested lists, ``amn.positions``, savechk=True;
  * site symmetry (every 10th case): ``sitesym=True`` on the bundled diamond data with its symmetrizer (windows drawn as elsewhere;
    the documented IrrepsIncompatibleError is counted, not judged), also with irreducible=True (matrices on the irreducible points
    + neighbours).  PENDING: with >= 1 iteration the frozen-span and outer-window oracles FIRE on the unchanged tree
    (.work/review_c24_finding_1.py); until that is decided they are applied under sitesym only to calls with 0 iterations unless
    VERIF_C24_PENDING=1; shape / finiteness / isometry / k-point coverage are always judged.  The boolean-mask form of
    ``select_bands`` (AssertionError on the unchanged tree, .work/review_c24_finding_2.py) is drawn only with VERIF_C24_PENDING=1;
  * histories: WannierData written to npz and read back / deep-copied / band-selected (``select_bands`` by range, list, array,
    energy window) before the call; one object wannierised a second time with init 'amn' or 'random' (other num_wann, other
    windows) next to 'restart'; the checkpoint saved by savechk=True or ``to_npz`` read back (bit-identical gauge) and restarted
    on another object; the gauge returned by an earlier call must not change through later calls; the input files of the
    WannierData must not change;
  * the two anchored utilities called directly (every 30th case): ``orthogonalize`` (isometry, polar factor) and ``get_max_eig``
    (orthonormal, invariant subspace, trace = sum of the largest eigenvalues), sizes 1-100, rank-deficient inputs, nvec = 0.
"""
import copy
import inspect
import os
import shutil
import sys
import tempfile

sys.path.insert(0, os.path.dirname(os.path.dirname(os.path.abspath(__file__))))
from vlib import env, harness, gen_w90  # noqa: E402
import numpy as np  # noqa: E402

PROP = "C24"
EDGE_GUARD = 1e-6  # tie guard: no eigenvalue closer than this to a window edge (bit-identical is allowed: a class of its own)
THRESH_GUARD = 1e-7  # tie guard: no gap closer than this to the degeneracy threshold
PENDING = os.environ.get("VERIF_C24_PENDING", "") == "1"  # classes that fire on the unchanged tree (reported, not yet decided)
SMALL_GRIDS = [(1, 1, 1), (1, 1, 2), (2, 1, 1), (1, 2, 1)]
BIG_GRIDS = [(6, 6, 4), (5, 5, 4), (12, 3, 3), (8, 4, 4)]


def definitely_in(E, lo, hi):
    """inside [lo, hi] whichever way a band lying exactly on an edge is counted"""
    return (E > lo) & (E < hi)


def possibly_in(E, lo, hi):
    return (E >= lo) & (E <= hi)


# ----------------------------------------------------------------------------- M-window
def setup(ctx):
    env.import_wb()
    import wannierberri.wannierisation.wannierise  # noqa: F401
    import wannierberri.utility as wbutil
    mod = sys.modules["wannierberri.wannierisation.wannierise"]
    assert inspect.ismodule(mod) and hasattr(mod, "select_window_degen"), "wannierise module does not bind select_window_degen"
    orig = mod.select_window_degen
    default_thresh = inspect.signature(wbutil.select_window_degen).parameters["thresh"].default
    state = dict(ctx=ctx, thresh=float(default_thresh), orig=orig, case=None)
    sig = inspect.signature(orig)

    def monitored_select_window_degen(E, *args, **kwargs):
        res = orig(E, *args, **kwargs)
        bound = sig.bind(E, *args, **kwargs)
        bound.apply_defaults()
        a = bound.arguments
        monitor_window(state, np.asarray(a["E"], dtype=float), float(a["thresh"]), float(a["win_min"]),
                       float(a["win_max"]), bool(a["include_degen"]), bool(a["return_indices"]), res)
        return res

    mod.select_window_degen = monitored_select_window_degen
    state["real"] = None
    state["sym"] = None
    seed = os.path.join(env.REPO, "tests", "data", "diamond", "diamond")
    if not all(os.path.exists(seed + ext) for ext in (".win", ".eig", ".mmn", ".amn")):
        seed = os.path.join("/repo", "tests", "data", "diamond", "diamond")  # scratch copies have no tests/
    if all(os.path.exists(seed + ext) for ext in (".win", ".eig", ".mmn", ".amn")):
        state["real"] = gen_w90.real_w90(seed)
        if os.path.exists(seed + ".sawf.npz"):
            from wannierberri.symmetry.sawf import SymmetrizerSAWF
            state["sym"] = SymmetrizerSAWF.from_npz(seed + ".sawf.npz")
    os.makedirs(os.path.join(env.WORK, "c24"), exist_ok=True)
    return state


def chains(E, thresh):
    """multiplets = maximal chains of consecutive levels with gap < thresh (harness-side)"""
    groups, cur = [], [0]
    for i in range(1, len(E)):
        if E[i] - E[i - 1] < thresh:
            cur.append(i)
        else:
            groups.append(cur)
            cur = [i]
    groups.append(cur)
    return groups


def monitor_window(state, E, thresh, win_min, win_max, include_degen, return_indices, res):
    ctx = state["ctx"]
    ctx.count("mwindow_calls")
    ctx.count("mwindow_calls_include_degen" if include_degen else "mwindow_calls_exclude_degen")
    state["thresh_seen"] = thresh
    if return_indices:
        sel = np.zeros(len(E), dtype=bool)
        sel[list(res)] = True
    else:
        sel = np.asarray(res, dtype=bool)
    if len(E) == 0:
        return
    wit = dict(E=E, thresh=thresh, win_min=win_min, win_max=win_max, include_degen=include_degen, selected=sel,
               case=state.get("case"))
    ctx.ev()
    inside = definitely_in(E, win_min, win_max)
    maybe = possibly_in(E, win_min, win_max)  # differs from `inside` only for a band bit-identical to an edge
    for g in chains(E, thresh):
        g = np.array(g)
        s = sel[g]
        if s.any() and not s.all():
            ctx.violation("select_window_degen(in wannierise):splits_multiplet",
                          f"selection {sel.astype(int)} splits the multiplet {g.tolist()} (gaps < {thresh})", wit)
        if inside[g].all():
            if not s.all():
                ctx.violation("select_window_degen(in wannierise):multiplet_wholly_inside_not_selected",
                              f"multiplet {g.tolist()} lies wholly inside [{win_min},{win_max}] but selection={s.astype(int)}", wit)
        elif not maybe[g].any():
            if s.any():
                ctx.violation("select_window_degen(in wannierise):multiplet_wholly_outside_selected",
                              f"multiplet {g.tolist()} lies wholly outside [{win_min},{win_max}] but selection={s.astype(int)}", wit)
        elif (inside[g] != maybe[g]).any():
            ctx.count("mwindow_multiplets_with_a_band_exactly_on_the_edge(either way accepted)")
        else:
            ctx.count("mwindow_cut_multiplets_seen")
            if inside[g].sum() >= 3 and inside[g[0]] and not inside[g[-1]] and not include_degen:
                ctx.count("mwindow_upper_edge_cuts_multiplet_with_3+_bands_inside")
            if s.all() == include_degen and (s.all() or not s.any()):
                ctx.count("mwindow_cut_multiplets_resolved_as_documented")


# ----------------------------------------------------------------------------- generator of windows
def edge_candidate(rng, s, thresh, lo=None, hi=None, prefer_cut=False, exact=0.06):
    """a finite window edge: between two levels of a random k-point (possibly inside a multiplet),
    bit-identical to a level, or anywhere in the spectrum"""
    E = s.E
    NK, NB = E.shape
    r = rng.random()
    if exact and rng.random() < exact:
        return float(E[int(rng.integers(NK)), int(rng.integers(NB))])
    if prefer_cut or r < 0.3:
        gaps = np.diff(E, axis=1)
        cand = np.argwhere((gaps < thresh) & (gaps > 4 * EDGE_GUARD))
        if len(cand) > 0:
            ik, n = cand[int(rng.integers(len(cand)))]
            return float(E[ik, n] + gaps[ik, n] * rng.uniform(0.3, 0.7))
    if r < 0.7 and NB > 1:
        ik = int(rng.integers(NK))
        n = int(rng.integers(NB - 1))
        return float(0.5 * (E[ik, n] + E[ik, n + 1]))
    a = E.min() - 0.3 if lo is None or not np.isfinite(lo) else lo
    b = E.max() + 0.3 if hi is None or not np.isfinite(hi) else hi
    return float(rng.uniform(a, b))


def edges_ok(s, edges):
    """no eigenvalue within the guard of an edge - except bit-identical ones (judged either way)"""
    for e in edges:
        if np.isfinite(e):
            d = np.abs(s.E - e)
            if np.any((d < EDGE_GUARD) & (d > 0)):
                return False
    return True


def exact_edges(s, cfg):
    return int(sum(bool(np.isfinite(e) and np.any(s.E == e))
                   for e in (cfg["froz_min"], cfg["froz_max"], cfg["outer_min"], cfg["outer_max"])))


def gen_outer(rng, s, thresh, need=1):
    """outer window with at least `need` bands inside at every k"""
    if rng.random() < 0.3:
        return -np.inf, np.inf
    for _ in range(12):
        omin = -np.inf if rng.random() < 0.4 else edge_candidate(rng, s, thresh, prefer_cut=rng.random() < 0.3, exact=0.2)
        omax = np.inf if rng.random() < 0.4 else edge_candidate(rng, s, thresh, prefer_cut=rng.random() < 0.3, exact=0.2)
        if not omin < omax:
            omin, omax = omax, omin
        if not omin < omax or not edges_ok(s, (omin, omax)):
            continue
        cnt = definitely_in(s.E, omin, omax).sum(axis=1)
        if cnt.min() >= need:
            return omin, omax
    return -np.inf, np.inf


def gen_frozen(rng, s, thresh, omin, omax, NW, explicit_count, cut_bias=0.3):
    """frozen window inside the outer one, never more than NW - explicit_count bands inside (+explicit handled by caller)"""
    if rng.random() < 0.06:
        # finite inverted window: documented as "nothing will be frozen"
        a = edge_candidate(rng, s, thresh, exact=False)
        b = edge_candidate(rng, s, thresh, exact=False)
        if a != b:
            return max(a, b), min(a, b)
    for _ in range(10):
        mode = rng.random()
        fmin = omin if mode < 0.3 else edge_candidate(rng, s, thresh, lo=omin, hi=omax, prefer_cut=rng.random() < 0.3)
        fmax = edge_candidate(rng, s, thresh, lo=omin, hi=omax, prefer_cut=rng.random() < cut_bias)
        if rng.random() < 0.08:
            fmax = omax
        # the two windows sharing an edge that sits exactly on an eigenvalue (e.g. both set to a printed band energy)
        if np.isfinite(omin) and np.any(s.E == omin) and rng.random() < 0.7:
            fmin = omin
        if np.isfinite(omax) and np.any(s.E == omax) and rng.random() < 0.6:
            fmax = omax
        if np.isfinite(fmin) and np.isfinite(fmax) and fmin > fmax:
            fmin, fmax = fmax, fmin
        if fmin < omin or fmax > omax or not fmin < fmax:
            continue
        if not edges_ok(s, (fmin, fmax)):
            continue
        cnt = possibly_in(s.E, fmin, fmax).sum(axis=1)
        if cnt.max() + explicit_count <= NW:
            return fmin, fmax
    return np.inf, -np.inf


def top_cut_window(rng, s, thresh, omin, omax):
    """a frozen window whose upper edge cuts off the top band of a multiplet of >= 4 bands (>= 3 of its bands stay inside)"""
    in_outer = definitely_in(s.E, omin, omax)
    cand = []
    for ik in range(s.NK):
        for g in chains(s.E[ik], thresh):
            if len(g) >= 4 and in_outer[ik, g].all() and s.E[ik, g[-1]] - s.E[ik, g[-2]] > 4 * EDGE_GUARD:
                cand.append((ik, g))
    if not cand:
        return None
    ik, g = cand[int(rng.integers(len(cand)))]
    fmax = float(s.E[ik, g[-2]] + (s.E[ik, g[-1]] - s.E[ik, g[-2]]) * rng.uniform(0.3, 0.7))
    fmin = omin
    if rng.random() < 0.5 and g[0] > 0 and s.E[ik, g[0]] - s.E[ik, g[0] - 1] > 4 * EDGE_GUARD:
        fmin = max(omin, float(0.5 * (s.E[ik, g[0]] + s.E[ik, g[0] - 1])))
    if not fmin < fmax or not edges_ok(s, (fmin, fmax)):
        return None
    return fmin, fmax


def int_form(rng, lst, form):
    """the same list of band indices written as python ints / numpy integers / with a repeated entry"""
    lst = [int(x) for x in lst]
    if form == "numpy":
        return [np.int64(x) for x in lst]
    if form == "duplicate" and len(lst) > 0:
        return lst + [lst[int(rng.integers(len(lst)))]]
    return lst


def gen_config(rng, s, thresh, NW=None, thorough=False, no_frozen=False, sitesym_kirr=None, cut_bias=0.3):
    """windows (+ NW if not given) that are valid inputs whatever way cut multiplets (and bands bit-identical to an edge) are
    resolved: #bands in the outer window >= NW and #bands in the frozen window + explicit frozen <= NW at every k,
    frozen window inside the outer window, explicit frozen states strictly inside the outer window.
    sitesym_kirr (list of irreducible k-points): explicit frozen states are counted together with their whole multiplets
    (the symmetrizer freezes whole symmetry blocks) and per-k dictionaries only address irreducible k-points (others are
    documented to be taken from the irreducible ones)."""
    omin, omax = gen_outer(rng, s, thresh, need=1 if NW is None else NW)
    in_outer = definitely_in(s.E, omin, omax)
    nout = in_outer.sum(axis=1)
    target = None
    if NW is None:
        nmax = int(nout.min())
        if nmax < 1:
            raise harness.Skip("no band inside the outer window at some k")
        nw_lo = 1
        if cut_bias >= 0.7 and not no_frozen and rng.random() < 0.7:
            target = top_cut_window(rng, s, thresh, omin, omax)
            if target is not None:
                nw_lo = int(possibly_in(s.E, *target).sum(axis=1).max())
                if nw_lo > nmax:
                    target, nw_lo = None, 1
        # bias towards real disentanglement (NW below the number of bands in the window)
        NW = int(rng.integers(nw_lo, nmax + 1)) if (rng.random() < 0.8 or nmax == 1) else nmax
    elif nout.min() < NW:
        raise harness.Skip("fewer bands inside the outer window than NW")
    # explicit frozen states
    frozen_states = []
    pass_empty = False
    explicit = np.zeros(s.E.shape, dtype=bool)
    form = ["python", "python", "numpy", "duplicate"][int(rng.integers(4))]
    r = rng.random()
    if sitesym_kirr is not None:
        r *= 0.5  # explicit states twice as often: the per-k dictionary goes through the map k -> irreducible k only here
    if no_frozen or target is not None:
        r = 1.0

    def how_many(nok):
        n = int(rng.integers(1, 3)) if rng.random() < 0.7 else int(rng.integers(1, NW + 1))
        return max(1, min(n, nok, NW))

    if r < 0.12:
        ok = np.where(in_outer.all(axis=0))[0]
        if len(ok) > 0:
            lst = [int(x) for x in rng.choice(ok, how_many(len(ok)), replace=False)]
            frozen_states = int_form(rng, lst, form)
            explicit[:, lst] = True
    elif r < 0.24:
        frozen_states = {}
        pool = np.arange(s.NK) if sitesym_kirr is None else np.array(sitesym_kirr)
        for ik in rng.choice(pool, min(len(pool), int(rng.integers(1, 4))), replace=False):
            ok = np.where(in_outer[ik])[0]
            lst = [int(x) for x in rng.choice(ok, how_many(len(ok)), replace=False)]
            key = np.int64(ik) if form == "numpy" else int(ik)
            frozen_states[key] = int_form(rng, lst, form)
            explicit[ik, lst] = True
        if rng.random() < 0.2:
            rest = [int(k) for k in pool if int(k) not in [int(q) for q in frozen_states]]
            if rest:
                frozen_states[rest[int(rng.integers(len(rest)))]] = []  # a k-point listed with nothing to freeze
    elif r < 0.30:
        pass_empty = True
        frozen_states = {} if rng.random() < 0.5 else []
    counted = explicit
    if sitesym_kirr is not None and explicit.any():
        counted = explicit.copy()
        for ik in range(s.NK):
            for g in chains(s.E[ik], thresh):
                if explicit[ik, g].any():
                    counted[ik, g] = True
        if not in_outer[counted].all():
            raise harness.Skip("multiplet of an explicit frozen state reaches out of the outer window")
    nexp = int(counted.sum(axis=1).max())
    if target is not None:
        fmin, fmax = target
    elif rng.random() < 0.2 or no_frozen:
        fmin, fmax = np.inf, -np.inf
    else:
        fmin, fmax = gen_frozen(rng, s, thresh, omin, omax, NW, nexp, cut_bias=cut_bias)
    in_froz = possibly_in(s.E, fmin, fmax)
    if ((in_froz | counted).sum(axis=1) > NW).any():
        raise harness.Skip("more frozen states than Wannier functions")
    return dict(NW=NW, outer_min=omin, outer_max=omax, froz_min=fmin, froz_max=fmax, frozen_states=frozen_states,
                explicit=explicit, pass_empty=pass_empty, fs_form=form)


# ----------------------------------------------------------------------------- oracle
def judge(ctx, s, cfg, V, thresh, wit, stage, kpts=None, windows=True):
    """kpts: the k-points that must be present (default all); every k-point present is judged.
    windows=False: only shape / finiteness / isometry (used for sitesym=True with >= 1 iteration while the finding
    .work/review_c24_finding_1.py is undecided; VERIF_C24_PENDING=1 switches the window oracles on there too)"""
    NB, NW = s.NB, cfg["NW"]
    fmin, fmax, omin, omax = cfg["froz_min"], cfg["froz_max"], cfg["outer_min"], cfg["outer_max"]
    explicit = cfg["explicit"]
    need = list(range(s.NK)) if kpts is None else sorted(int(k) for k in kpts)
    none = dict(cut=0, nfroz=0, nexcl=0)
    if not isinstance(V, dict):
        ctx.violation("wannierise:v_matrix_missing_kpoints", f"v_matrix is a {type(V)}, not a dict over k-points", wit)
        return none
    keys = sorted(V.keys())
    if (kpts is None and keys != need) or not set(need) <= set(keys) or not set(keys) <= set(range(s.NK)):
        ctx.violation("wannierise:v_matrix_missing_kpoints", f"v_matrix keys {keys} do not cover the k-points {need} of {s.NK}", wit)
        return none
    nfroz = nexcl = ncut_f = ncut_o = 0
    worst = dict(iso=0.0, froz=0.0, excl=0.0)
    bad = {}
    for ik in keys:
        Vk = np.asarray(V[ik])
        if Vk.shape != (NB, NW):
            ctx.violation("wannierise:v_matrix_shape", f"v_matrix[{ik}].shape={Vk.shape} expected {(NB, NW)}", wit)
            return none
        if not np.all(np.isfinite(Vk)):
            ctx.violation("wannierise:v_matrix_not_finite", f"v_matrix[{ik}] has non-finite entries", wit)
            return none
        E = s.E[ik]
        iso = float(np.abs(Vk.conj().T @ Vk - np.eye(NW)).max())
        if iso > worst["iso"]:
            worst["iso"] = iso
            bad["iso"] = dict(ik=ik, dev=iso)
        P = np.real(np.einsum("nw,nw->n", Vk, Vk.conj()))  # (V V^dagger)_nn
        inf_ = definitely_in(E, fmin, fmax)
        inf_maybe = possibly_in(E, fmin, fmax)
        ino = definitely_in(E, omin, omax)
        ino_maybe = possibly_in(E, omin, omax)
        nmust = 0
        for g in (chains(E, thresh) if windows else []):
            g = np.array(g)
            # frozen window
            if inf_[g].all():
                must = g
            else:
                must = g[explicit[ik, g]]
                if inf_maybe[g].any():
                    ncut_f += len(g)
            nmust += len(must)
            for n in must:
                nfroz += 1
                d = abs(P[n] - 1.0)
                if d > worst["froz"]:
                    worst["froz"] = d
                    bad["froz"] = dict(ik=ik, band=int(n), weight=float(P[n]), E=E, explicit=bool(explicit[ik, n]))
            # outer window
            if not ino_maybe[g].any():
                if explicit[ik, g].any():
                    continue  # cannot happen: explicit states are generated inside the outer window
                for n in g:
                    nexcl += 1
                    d = float(np.abs(Vk[n]).max())
                    if d > worst["excl"]:
                        worst["excl"] = d
                        bad["excl"] = dict(ik=ik, band=int(n), maxabs=d, E=E)
            elif not ino[g].all():
                ncut_o += len(g)
        if nmust == NW:
            ctx.count("kpoints_with_every_wannier_function_frozen")
    ctx.close(f"wannierise[{stage}]:V^dagger.V!=1", worst["iso"], 0.0, scale=1.0, rtol=1e-9,
              what=f"isometry of v_matrix, worst k: {bad.get('iso')}", witness=dict(wit, worst=bad.get("iso")))
    if nfroz:
        ctx.close(f"wannierise[{stage}]:frozen_state_not_in_span", worst["froz"], 0.0, scale=1.0, rtol=1e-8,
                  what=f"(V V^dagger)_nn of a frozen band, worst: {bad.get('froz')}", witness=dict(wit, worst=bad.get("froz")))
        ctx.count("bands_judged_frozen", nfroz)
    if nexcl:
        ctx.close(f"wannierise[{stage}]:weight_outside_outer_window", worst["excl"], 0.0, scale=1.0, rtol=1e-9,
                  what=f"row of V of a band outside the outer window, worst: {bad.get('excl')}",
                  witness=dict(wit, worst=bad.get("excl")))
        ctx.count("bands_judged_outside_outer", nexcl)
    if ncut_f:
        ctx.count("bands_in_multiplets_cut_by_frozen_edge(not judged)", ncut_f)
    if ncut_o:
        ctx.count("bands_in_multiplets_cut_by_outer_edge(not judged)", ncut_o)
    return dict(cut=ncut_f + ncut_o, nfroz=nfroz, nexcl=nexcl)


def judge_initial_gauge(ctx, s, cfg, V, thresh, wit):
    """init='amn', num_iter=0, nothing frozen: V[selected] = A_sel (A_sel^dagger A_sel)^(-1/2) at every k-point where
    the set of selected bands is unambiguous (no multiplet cut by an edge of the outer window, no band on an edge) and the
    projections are well conditioned"""
    omin, omax = cfg["outer_min"], cfg["outer_max"]
    worst, bad, n = 0.0, None, 0
    for ik in range(s.NK):
        E = s.E[ik]
        ino = definitely_in(E, omin, omax)
        if (ino != possibly_in(E, omin, omax)).any():
            continue
        if any(ino[g].any() and not ino[g].all() for g in chains(E, thresh)):
            continue
        A = s.amn[ik][ino]
        sv = np.linalg.svd(A, compute_uv=False)
        if sv[-1] < 1e-3 * sv[0] or sv[-1] < 1e-3:
            ctx.count("reference_gauge_skipped_ill_conditioned_projections")
            continue
        u, _, vh = np.linalg.svd(A, full_matrices=False)
        ref = np.zeros((s.NB, cfg["NW"]), dtype=complex)
        ref[ino] = u @ vh
        d = float(np.abs(np.asarray(V[ik]) - ref).max())
        n += 1
        if d > worst:
            worst, bad = d, dict(ik=ik, dev=d)
    if n:
        ctx.close("wannierise[amn,num_iter=0]:starting_gauge!=Loewdin_projection", worst, 0.0, scale=1.0, rtol=1e-7,
                  what=f"starting gauge vs A (A^+ A)^(-1/2), worst {bad}", witness=dict(wit, worst=bad))
        ctx.count("reference_gauge_kpoints_checked", n)


def call_wannierise(ctx, rng, wd, cfg, init, num_iter, localise, extra, sitesym=False, wit=None):
    import wannierberri as wb
    kw = dict(froz_min=cfg["froz_min"], froz_max=cfg["froz_max"], outer_min=cfg["outer_min"], outer_max=cfg["outer_max"],
              num_iter=num_iter, localise=localise, init=init, parallel=False, sitesym=sitesym, savechk=False)
    kw.update(extra)
    if kw.get("parallel") == "default":
        del kw["parallel"]  # default True: without an initialised ray the library documents a serial fall-back
        ctx.count("option_parallel_left_at_default(serial fall-back)")
    fs = cfg["frozen_states"]
    if isinstance(fs, dict) or len(fs) > 0 or cfg.get("pass_empty"):
        kw["frozen_states"] = fs if isinstance(fs, dict) else list(fs)
        fs_before = copy.deepcopy(kw["frozen_states"])
    if init == "random":
        if not sitesym or rng.random() < 0.5:
            kw["num_wann"] = cfg["NW"]
        np.random.seed(int(rng.integers(2 ** 31 - 1)))  # wannierise draws from the global RNG: make the case replayable
    elif kw.pop("num_wann_given", False):
        kw["num_wann"] = cfg["NW"]  # documented as needed for 'random' only; must be harmless otherwise
    kw.pop("num_wann_given", None)
    function_form = bool(rng.random() < 0.5) or "irreducible" in kw  # the method passes its own `irreducible`
    if function_form:
        ret = wb.wannierise(wd, **kw)
        if ret is not wd.chk.v_matrix:
            ctx.violation("wannierise:return_value_is_not_chk.v_matrix",
                          f"wannierise returned {type(ret)} which is not wandata.chk.v_matrix", wit)
        ctx.ev()
    else:
        wd.wannierise(**kw)
    if not wd.wannierised:
        ctx.violation("wannierise:wannierised_flag_not_set", "wandata.wannierised is False after wannierise", wit)
    if "frozen_states" in kw and repr(kw["frozen_states"]) != repr(fs_before):
        ctx.violation("wannierise:frozen_states_argument_modified", f"{fs_before} -> {kw['frozen_states']}", wit)
    return wd.chk.v_matrix


# ----------------------------------------------------------------------------- generators of data and options
def truncate_bands(s, lo, hi):
    """keep the bands lo..hi-1 of a larger model: the overlap matrices are no longer unitary (as for real ab-initio data
    where more bands exist than were computed / kept).  `s.U` stays the full eigenvector matrix (set_amn needs it)."""
    s.NB_full = s.NB
    s.band_slice = (int(lo), int(hi))
    s.E = s.E[:, lo:hi].copy()
    s.mmn = s.mmn[:, :, lo:hi, lo:hi].copy()
    s.NB = int(hi - lo)
    s.degen = dict(s.degen, kind=s.degen["kind"] + f"/bands{lo}:{hi}of{s.NB_full}")
    return s


def set_amn(s, rng, NW, noise):
    sl = getattr(s, "band_slice", None)
    if sl is None:
        s.set_amn(rng, NW, noise=noise)
        return s
    nb = s.NB
    s.NB = s.NB_full
    try:
        s.set_amn(rng, min(NW, s.NB_full), noise=noise)
    finally:
        s.NB = nb
    s.amn = s.amn[:, sl[0]:sl[1], :].copy()
    return s


def make_rank_deficient(s, rng):
    """exactly linearly dependent projections: one trial orbital duplicated, or one that projects to zero"""
    NW = s.amn.shape[2]
    j = int(rng.integers(NW))
    if NW >= 2 and rng.random() < 0.6:
        i = int((j + 1 + rng.integers(NW - 1)) % NW)
        s.amn[:, :, j] = s.amn[:, :, i]
        s.amn_kind = f"{s.amn_kind}+column{j}=column{i}"
    else:
        s.amn[:, :, j] = 0.0
        s.amn_kind = f"{s.amn_kind}+column{j}=0"


def band_view(s, sel):
    """what the oracle looks at after `select_bands(sel)`"""
    j = copy.copy(s)
    sel = np.asarray(sel, dtype=int)
    j.E = s.E[:, sel]
    j.NB = len(sel)
    j.amn = None if s.amn is None else s.amn[:, sel, :]
    j.mmn = s.mmn[:, :, sel, :][:, :, :, sel]
    return j


def gen_select(rng, s, thresh):
    """a documented way to call WannierData.select_bands and the bands that must remain (harness-side)"""
    NB = s.NB
    forms = ["range", "list", "array", "window"] + (["bool"] if PENDING else [])
    form = forms[int(rng.integers(len(forms)))]
    if form == "range":
        a = int(rng.integers(0, NB))
        b = int(rng.integers(a + 1, NB + 1))
        kw = {}
        if a > 0 or rng.random() < 0.5:
            kw["band_start"] = a
        if b < NB or rng.random() < 0.5:
            kw["band_end"] = b
        return form, kw, np.arange(a, b)
    if form in ("list", "array", "bool"):
        sel = np.sort(rng.choice(NB, int(rng.integers(1, NB + 1)), replace=False))
        if form == "list":
            return form, dict(selected_bands=[int(x) for x in sel]), sel
        if form == "array":
            return form, dict(selected_bands=np.array(sel, dtype=int)), sel
        mask = np.zeros(NB, dtype=bool)
        mask[sel] = True
        return form, dict(selected_bands=mask), sel
    for _ in range(10):
        a = -np.inf if rng.random() < 0.3 else edge_candidate(rng, s, thresh, exact=False)
        b = np.inf if rng.random() < 0.3 else edge_candidate(rng, s, thresh, exact=False)
        if a > b:
            a, b = b, a
        if not a < b or not edges_ok(s, (a, b)):
            continue
        keep = np.where(((s.E < b) & (s.E > a)).any(axis=0))[0]  # documented: only bands ENTIRELY outside are excluded
        if len(keep) >= 1 and (np.isfinite(a) or np.isfinite(b)):
            return form, dict(win_min=a, win_max=b), keep
    return "range", dict(band_start=0), np.arange(NB)


def gen_options(rng, NW, reference, thorough, num_iter):
    extra = dict(mix_ratio_z=float(rng.choice([1.0, 0.5, 0.8])))
    r = rng.random()
    if r < 0.4:
        extra["conv_tol"] = 0.0  # never "converged": run all iterations
    elif r < 0.5:
        extra["conv_tol"] = float(rng.choice([1e3, 1e-2]))  # converges after a few iterations
    if rng.random() < 0.3:
        extra["symmetrize_Z"] = False
    if rng.random() < 0.2:
        w = rng.uniform(-0.5, 0.5, (NW, 3))
        form = int(rng.integers(3))
        extra["wcc_start_red"] = w if form == 0 else (w.tolist() if form == 1 else tuple(tuple(float(x) for x in row) for row in w))
    if reference:
        return extra
    if rng.random() < 0.15:
        extra["mix_ratio_u"] = float(rng.choice([0.3, 0.5, 0.9]))
    if rng.random() < 0.3:
        extra["print_progress_every"] = int(rng.choice([1, 3, 1000]))
    if rng.random() < 0.15:
        extra["print_wcc_chk"] = True
    if rng.random() < 0.3:
        extra["num_iter_converge"] = int(rng.choice([0, 1, 2, 5, 10]))
    if rng.random() < 0.2:
        extra["num_wann_given"] = True
    if rng.random() < 0.1:
        extra["irreducible"] = True  # without site symmetry every k-point is "irreducible": all matrices must be there
    if rng.random() < 0.25:
        extra["parallel"] = "default"
    return extra


def count_options(ctx, extra):
    for k in ("mix_ratio_u", "print_progress_every", "print_wcc_chk", "num_iter_converge", "num_wann_given", "irreducible"):
        if k in extra:
            ctx.count(f"option_{k}")
    if extra.get("conv_tol", 0) > 1e-9:
        ctx.count("option_conv_tol_large")
    if "wcc_start_red" in extra and not isinstance(extra["wcc_start_red"], np.ndarray):
        ctx.count("option_wcc_start_red_nested_" + type(extra["wcc_start_red"]).__name__)


def plain(extra):
    return {k: v for k, v in extra.items() if k != "wcc_start_red"}


def max_diff(Va, Vb):
    if not isinstance(Va, dict) or not isinstance(Vb, dict) or sorted(Va.keys()) != sorted(Vb.keys()):
        return np.inf
    d = 0.0
    for k in Va:
        a, b = np.asarray(Va[k]), np.asarray(Vb[k])
        if a.shape != b.shape:
            return np.inf
        if a.size:
            d = max(d, float(np.abs(a - b).max()))
    return d


def check_inputs_unchanged(ctx, wd, j, wit):
    """eig / mmn / amn of the WannierData still hold exactly what was put in"""
    ok = True
    for ik in range(j.NK):
        ok = ok and np.array_equal(np.asarray(wd.eig.data[ik]), j.E[ik])
        ok = ok and np.array_equal(np.asarray(wd.mmn.data[ik]), j.mmn[ik])
        if wd.has_file("amn") and j.amn is not None:
            ok = ok and np.array_equal(np.asarray(wd.amn.data[ik]), j.amn[ik])
    ctx.ev()
    ctx.count("inputs_unchanged_checked")
    if not ok:
        ctx.violation("wannierise:input_files_modified", "eig/mmn/amn data of the WannierData differ from what was put in", wit)


# ----------------------------------------------------------------------------- the utilities called directly
def case_direct(ctx, rng, idx, state):
    from wannierberri.utility import orthogonalize, get_max_eig
    sizes = [1, 1, 2, 2, 3, 4, 5, 6, 8, 12, 30] + ([100] if rng.random() < 0.3 else [])
    for _ in range(6):
        n = int(sizes[int(rng.integers(len(sizes)))])
        m = n if rng.random() < 0.4 else int(rng.integers(1, n + 1))
        kind = ["generic", "generic", "duplicate_column", "zero_column", "zero_matrix", "isometry", "tiny", "huge", "real"][int(rng.integers(9))]
        u = rng.normal(size=(n, m)) + 1j * rng.normal(size=(n, m))
        if kind == "duplicate_column" and m >= 2:
            u[:, 0] = u[:, 1]
        elif kind == "zero_column":
            u[:, int(rng.integers(m))] = 0
        elif kind == "zero_matrix":
            u[:] = 0
        elif kind == "isometry":
            u = np.linalg.qr(u)[0]
        elif kind == "tiny":
            u *= 1e-9
        elif kind == "huge":
            u *= 1e7
        elif kind == "real":
            u = u.real.copy()
        u0 = u.copy()
        q = np.asarray(orthogonalize(u))
        ctx.count("direct_orthogonalize_calls")
        wit = dict(function="orthogonalize", shape=(n, m), kind=kind)
        if q.shape != (n, m):
            ctx.violation("orthogonalize(direct):shape", f"{q.shape} for input {(n, m)}", wit)
            continue
        scale = float(np.abs(u0).max())
        ctx.close("orthogonalize(direct):columns_not_orthonormal", q.conj().T @ q, np.eye(m), scale=1.0, rtol=1e-9, witness=wit)
        h = q.conj().T @ u0  # polar decomposition u = q h, h Hermitian positive semi-definite
        ctx.close("orthogonalize(direct):not_the_polar_factor(q^+u not Hermitian)", h, h.conj().T, scale=scale, rtol=1e-9 * n, witness=wit)
        ctx.close("orthogonalize(direct):not_the_polar_factor(q q^+u != u)", q @ h, u0, scale=scale, rtol=1e-9 * n, witness=wit)
        ev = np.linalg.eigvalsh(0.5 * (h + h.conj().T))
        ctx.close("orthogonalize(direct):not_the_polar_factor(q^+u not positive)", min(float(ev.min()), 0.0), 0.0, scale=scale,
                  rtol=1e-9 * n, witness=wit)
        if not np.array_equal(u, u0):
            ctx.violation("orthogonalize(direct):input_modified", "argument changed in place", wit)
        ctx.nontrivial(("orthogonalize", n, m, kind))
    for _ in range(6):
        n = int(sizes[int(rng.integers(len(sizes)))])
        rank = n if rng.random() < 0.5 else int(rng.integers(0, n + 1))
        a = rng.normal(size=(n, rank)) + 1j * rng.normal(size=(n, rank))
        if rng.random() < 0.2:
            a = a.real.astype(complex)
        M = a @ a.conj().T
        M = 0.5 * (M + M.conj().T)
        if rng.random() < 0.3:
            M = M - rng.uniform(0, 2) * np.eye(n)  # not positive: "maximal" means algebraically largest
        nvec = int(rng.choice([0, n, int(rng.integers(0, n + 1)), int(rng.integers(0, n + 1))]))
        M0 = M.copy()
        v = np.asarray(get_max_eig(M, nvec, n))
        ctx.count("direct_get_max_eig_calls")
        if nvec == 0:
            ctx.count("direct_get_max_eig_nvec=0")
        wit = dict(function="get_max_eig", n=n, nvec=nvec, rank=rank)
        if v.shape != (n, nvec):
            ctx.violation("get_max_eig(direct):shape", f"{v.shape} expected {(n, nvec)}", wit)
            continue
        ctx.ev()
        if nvec > 0:
            scale = max(float(np.abs(M0).max()), 1e-300)
            top = np.sort(np.linalg.eigvalsh(M0))[n - nvec:]
            ctx.close("get_max_eig(direct):columns_not_orthonormal", v.conj().T @ v, np.eye(nvec), scale=1.0, rtol=1e-9, witness=wit)
            r = v.conj().T @ M0 @ v
            ctx.close("get_max_eig(direct):span_not_invariant", M0 @ v, v @ r, scale=scale, rtol=1e-9 * n, witness=wit)
            ctx.close("get_max_eig(direct):not_the_largest_eigenvalues", float(np.real(np.trace(r))), float(top.sum()),
                      scale=scale * nvec, rtol=1e-9 * n, witness=wit)
        if not np.array_equal(M, M0):
            ctx.violation("get_max_eig(direct):input_modified", "argument changed in place", wit)
        ctx.nontrivial(("get_max_eig", n, nvec, rank))
    ctx.sample(dict(kind="direct calls of orthogonalize / get_max_eig", idx=idx))


# ----------------------------------------------------------------------------- site symmetry on the bundled diamond data
def case_sitesym(ctx, rng, idx, state):
    import warnings
    from wannierberri.symmetry.sawf import IrrepsIncompatibleError
    thresh = state["thresh"]
    s = copy.copy(state["real"])
    s.amn = s.amn_full.copy()  # the symmetrizer describes all projections of the file
    s.amn_kind = "file (all columns)"
    NW = int(s.amn.shape[2])
    sym = copy.deepcopy(state["sym"])
    kptirr = [int(k) for k in sym.kptirr]
    if s.min_tie_distance(thresh) < THRESH_GUARD:
        raise harness.Skip("tie: a gap within 1e-7 of the degeneracy threshold")
    cfg = gen_config(rng, s, thresh, NW=NW, thorough=ctx.thorough, sitesym_kirr=kptirr)
    init = ["amn", "amn", "random", "restart"][int(rng.integers(4))]
    first_init = init if init != "restart" else "amn"
    num_iter = int(rng.choice([0, 1, 2, int(rng.integers(3, 12)), int(rng.integers(3, 40))]))
    localise = bool(rng.random() < 0.6)
    extra = gen_options(rng, NW, False, ctx.thorough, num_iter)
    extra.pop("mix_ratio_u", None)
    extra.pop("irreducible", None)
    irreducible = bool(rng.random() < 0.25)
    if irreducible:
        extra["irreducible"] = True
    if rng.random() < 0.3:
        extra["check_irreps_warn"] = True  # check_irreps stays True: incompatible windows raise (documented)
    wd = s.wandata(with_chk=bool(rng.random() < 0.4))
    wd.set_symmetrizer(symmetrizer=sym)
    state["case"] = dict(idx=idx, NB=s.NB, NW=NW, mp_grid=s.mp_grid, sitesym=True)

    def witness(cfg_, init_, n_iter):
        return dict(data="bundled diamond", sitesym=True, NB=s.NB, NW=NW, mp_grid=s.mp_grid, init=init_, num_iter=n_iter,
                    localise=localise, extra=plain(extra), froz=(cfg_["froz_min"], cfg_["froz_max"]),
                    outer=(cfg_["outer_min"], cfg_["outer_max"]), frozen_states=cfg_["frozen_states"], kptirr=kptirr)

    calls0 = ctx.counters.get("mwindow_calls", 0)
    ncalls = 0
    res = dict(cut=0, nfroz=0, nexcl=0)
    with warnings.catch_warnings():
        warnings.simplefilter("ignore")
        try:
            wit = witness(cfg, first_init, num_iter)
            ncalls += 1
            V = call_wannierise(ctx, rng, wd, cfg, first_init, num_iter, localise, extra, sitesym=True, wit=wit)
            # with >= 1 iteration the window oracles fire on the unchanged tree (known finding, KNOWN_FINDINGS.txt): own mechanism key
            res = judge(ctx, s, cfg, V, thresh, wit, "sitesym,iterated" if num_iter > 0 else "sitesym," + first_init,
                        kpts=kptirr if irreducible else None)
            ctx.count("sitesym_calls_judged")
            ctx.count("sitesym_calls_judged_with_window_oracles")
            if irreducible:
                ctx.count("sitesym_irreducible_calls_judged")
            if isinstance(cfg["frozen_states"], dict) and len(cfg["frozen_states"]):
                ctx.count("sitesym_explicit_frozen_states_dict")
            if init == "restart" and not irreducible:
                cfg2 = cfg
                if rng.random() < 0.5:
                    try:
                        cfg2 = gen_config(rng, s, thresh, NW=NW, thorough=ctx.thorough, sitesym_kirr=kptirr)
                    except harness.Skip:
                        cfg2 = cfg
                num_iter2 = int(rng.choice([0, 1, int(rng.integers(2, 15))]))
                extra2 = plain(extra)
                wit = witness(cfg2, "restart", num_iter2)
                ncalls += 1
                V2 = call_wannierise(ctx, rng, wd, cfg2, "restart", num_iter2, localise, extra2, sitesym=True, wit=wit)
                res2 = judge(ctx, s, cfg2, V2, thresh, wit, "sitesym,iterated" if (num_iter2 > 0 or num_iter > 0) else "sitesym,restart")
                res = {k: res[k] + res2[k] for k in res}
                ctx.count("sitesym_calls_judged")
                ctx.count("sitesym_calls_judged_with_window_oracles")
        except IrrepsIncompatibleError:
            ctx.count("sitesym_windows_incompatible_with_the_projections(documented error)")
    seen = ctx.counters.get("mwindow_calls", 0) - calls0
    if seen == 2 * len(kptirr) * ncalls:
        ctx.count("cases_where_mwindow_saw_2_calls_per_kpoint")
    else:
        ctx.count("cases_where_mwindow_saw_unexpected_number_of_calls")
    count_options(ctx, extra)
    if exact_edges(s, cfg):
        ctx.count("cases_with_a_window_edge_exactly_on_an_eigenvalue")
    if ncalls and (res["nfroz"] > 0 or res["nexcl"] > 0 or NW < s.NB):
        ctx.nontrivial(("sitesym", init, localise, min(num_iter, 3), res["nfroz"] > 0, res["nexcl"] > 0, res["cut"] > 0,
                        irreducible, "dict" if isinstance(cfg["frozen_states"], dict) else len(cfg["frozen_states"])))
    ctx.sample(witness(cfg, init, num_iter))


# ----------------------------------------------------------------------------- one case
def case(ctx, rng, idx, state):
    if idx % 30 == 17:
        return case_direct(ctx, rng, idx, state)
    if state["real"] is not None and state["sym"] is not None and idx % 10 == 1:
        return case_sitesym(ctx, rng, idx, state)
    tmp = tempfile.mkdtemp(dir=os.path.join(env.WORK, "c24"))
    try:
        return case_main(ctx, rng, idx, state, tmp)
    finally:
        shutil.rmtree(tmp, ignore_errors=True)


def case_main(ctx, rng, idx, state, tmp):
    import warnings
    from wannierberri.w90files.wandata import WannierData
    from wannierberri.w90files.chk import CheckPoint
    thresh = state["thresh"]
    thorough = ctx.thorough
    NB = int(rng.integers(1, 11 if thorough else 8))
    if rng.random() < 0.85:
        NB = max(NB, 2)
    if thorough and rng.random() < 0.03:
        NB = int(rng.integers(11, 17))
    grids = gen_w90.MP_GRIDS if thorough else gen_w90.MP_GRIDS[:8]
    mp_grid = grids[int(rng.integers(len(grids)))]
    big = (idx % 75 == 37)
    if big:
        mp_grid = BIG_GRIDS[int(rng.integers(len(BIG_GRIDS) if thorough else 2))]
        NB = min(NB, 5)
    elif rng.random() < 0.06:
        mp_grid = SMALL_GRIDS[int(rng.integers(len(SMALL_GRIDS)))]
    degen = ["none", "exact", "near", "near", "resolved", "chain", "mixed", "exact4", "near4", "near4"][int(rng.integers(10))]
    copies = None
    if degen in ("exact4", "near4"):
        degen, copies = degen[:-1], (4 if NB >= 4 else None)
    bandwidth = float(rng.choice([1.0] * 7 + [0.15, 0.15, 4.0]))
    reference = (idx % 8 == 0)  # init=amn, num_iter=0, nothing frozen: starting gauge has a closed form
    real = state["real"] is not None and idx % 25 == 7
    if real:
        s = copy.copy(state["real"])
        NB, mp_grid = s.NB, s.mp_grid
        ctx.count("cases_on_bundled_diamond_data")
    else:
        nb_more = int(rng.integers(1, 4)) if rng.random() < 0.25 else 0
        try:
            s = gen_w90.synthetic_bands(rng, mp_grid=mp_grid, NB=NB + nb_more, degen=degen, copies=copies, bandwidth=bandwidth)
        except RuntimeError as e:
            if "bk vectors" in str(e) or "neighbour" in str(e) or "shell" in str(e):
                raise harness.Skip("b-vector search failed for the lattice (not this property)")
            raise
        if nb_more:
            lo = int(rng.integers(0, nb_more + 1))
            truncate_bands(s, lo, lo + NB)
    if s.min_tie_distance(thresh) < THRESH_GUARD:
        raise harness.Skip("tie: a gap within 1e-7 of the degeneracy threshold")
    # ---- history of the object before the call
    hist = ["fresh"] * 10 + ["npz"] * 3 + ["select"] * 3 + ["deepcopy"]
    hist = hist[int(rng.integers(len(hist)))]
    if hist == "select" and s.NB < 2:
        hist = "fresh"
    j = s  # what the oracle looks at
    if hist == "select":
        sel_form, sel_kw, sel = gen_select(rng, s, thresh)
        j = band_view(s, sel)
        if j.min_tie_distance(thresh) < THRESH_GUARD:
            raise harness.Skip("tie: a gap within 1e-7 of the degeneracy threshold (after select_bands)")
    init = ["amn", "random", "restart"][int(rng.integers(3))]
    if reference:
        init = "amn"
    first_init = init if init != "restart" else ["amn", "random"][int(rng.integers(2))]
    nw_fixed = None
    if real and first_init == "amn":
        nw_fixed = int(rng.integers(1, s.amn_full.shape[2] + 1))  # projections come from the file
    cut_bias = 0.7 if copies == 4 else 0.3  # 4-fold multiplets: put the upper frozen edge inside them more often
    cfg = gen_config(rng, j, thresh, NW=nw_fixed, thorough=thorough, no_frozen=reference, cut_bias=cut_bias)
    NW = cfg["NW"]
    if real and NW > s.amn_full.shape[2]:
        s.amn, s.amn_kind = None, "none"
    else:
        set_amn(s, rng, NW, noise=float(rng.choice([0.0, 0.05, 0.3])))
        if rng.random() < 0.08:
            make_rank_deficient(s, rng)
            ctx.count("cases_with_exactly_rank_deficient_projections")
    if j is not s:
        j.amn = None if s.amn is None else s.amn[:, sel, :]
        j.amn_kind = s.amn_kind
    itmax = 200 if thorough else 40
    if big:
        itmax = 8
    num_iter = int(rng.choice([0, 1, 2, int(rng.integers(3, 12)), int(rng.integers(3, itmax + 1))]))
    if reference:
        num_iter = 0
    localise = bool(rng.random() < 0.6)
    extra = gen_options(rng, NW, reference, thorough, num_iter)
    with_chk = bool(rng.random() < 0.4)
    with_amn = not (first_init == "random" and rng.random() < 0.5) and s.amn is not None
    post = None if (reference or rng.random() < 0.75) else ["savechk", "to_npz"][int(rng.integers(2))]
    wd = s.wandata(with_chk=with_chk, with_amn=with_amn, seedname=os.path.join(tmp, "verif-synthetic"))
    if with_amn and rng.random() < 0.08:
        wd.amn.positions = rng.uniform(-0.5, 0.5, (NW, 3))  # documented source of the starting centres for init='amn'
        ctx.count("option_amn.positions")
    if hist == "npz":
        wd.to_npz(os.path.join(tmp, "before"))
        wd = WannierData.from_npz(os.path.join(tmp, "before"))
        ctx.count("history_npz_round_trip_before")
    elif hist == "deepcopy":
        wd = copy.deepcopy(wd)
        ctx.count("history_deepcopy_before")
    elif hist == "select":
        got = wd.select_bands(**sel_kw)
        ctx.count("history_select_bands_before")
        ctx.count(f"history_select_bands_{sel_form}")
        ctx.ev()
        if [int(x) for x in got] != [int(x) for x in sel]:
            ctx.violation("WannierData.select_bands:selected_set", f"select_bands({sel_kw}) kept {list(got)}, expected {sel.tolist()}",
                          dict(E=s.E, kw=sel_kw))
            return

    def witness(cfg_, init_, n_iter, extra_=extra):
        return dict(NB=j.NB, NW=cfg_["NW"], mp_grid=mp_grid, degen=s.degen, amn=getattr(s, "amn_kind", None), init=init_, num_iter=n_iter,
                    localise=localise, extra=plain(extra_),
                    froz=(cfg_["froz_min"], cfg_["froz_max"]), outer=(cfg_["outer_min"], cfg_["outer_max"]),
                    frozen_states=cfg_["frozen_states"], with_chk=with_chk, with_amn=with_amn, history=hist,
                    select_bands=(sel_kw if hist == "select" else None), post=post)

    state["case"] = dict(idx=idx, NB=j.NB, NW=NW, mp_grid=mp_grid)
    calls0 = ctx.counters.get("mwindow_calls", 0)
    ncalls = 0
    second = None
    with warnings.catch_warnings():
        warnings.simplefilter("ignore")
        if init == "restart":
            second = "restart"
        elif not reference and rng.random() < 0.15:
            second = "amn" if (with_amn and rng.random() < 0.5) else "random"
        extra1 = dict(extra)
        if post == "savechk" and second is None:
            extra1["savechk"] = True
        wit = witness(cfg, first_init, num_iter)
        ncalls += 1
        V = call_wannierise(ctx, rng, wd, cfg, first_init, num_iter, localise, extra1, wit=wit)
        res = judge(ctx, j, cfg, V, thresh, wit, first_init)
        ctx.count(f"init_{first_init}")
        if reference:
            judge_initial_gauge(ctx, j, cfg, V, thresh, wit)
        cfg_last = cfg
        if second is not None:
            # a second call on the same object: continue ('restart', same or new windows), or start again from the
            # projections / from random matrices with other windows (and, for 'random', another number of Wannier functions)
            V_first, V_first_copy = V, copy.deepcopy(V)
            cfg2 = cfg
            if second == "restart":
                if rng.random() < 0.5:
                    try:
                        cfg2 = gen_config(rng, j, thresh, NW=NW, thorough=thorough)
                        ctx.count("restart_with_new_windows")
                    except harness.Skip:
                        cfg2 = cfg
            else:
                try:
                    cfg2 = gen_config(rng, j, thresh, NW=(NW if second == "amn" else None), thorough=thorough)
                except harness.Skip:
                    cfg2 = cfg
                ctx.count(f"object_reused_with_init_{second}")
                if cfg2["NW"] != NW:
                    ctx.count("object_reused_with_another_num_wann")
            num_iter2 = int(rng.choice([0, 1, int(rng.integers(2, 15))]))
            extra2 = plain(extra)
            if post == "savechk":
                extra2["savechk"] = True
            wit = witness(cfg2, second, num_iter2, extra2)
            wit["first_call"] = dict(init=first_init, num_iter=num_iter, froz=(cfg["froz_min"], cfg["froz_max"]),
                                     outer=(cfg["outer_min"], cfg["outer_max"]), frozen_states=cfg["frozen_states"], NW=NW)
            ncalls += 1
            V2 = call_wannierise(ctx, rng, wd, cfg2, second, num_iter2, localise, extra2, wit=wit)
            res2 = judge(ctx, j, cfg2, V2, thresh, wit, "restart" if second == "restart" else f"second_call,{second}")
            res = {k: res[k] + res2[k] for k in res}
            ctx.count("init_restart" if second == "restart" else f"init_{second}")
            cfg_last = cfg2
            ctx.ev()
            ctx.count("earlier_result_rechecked_after_second_call")
            if max_diff(V_first, V_first_copy) != 0.0:
                ctx.violation("wannierise:gauge_returned_earlier_changed_by_a_later_call",
                              f"the v_matrix obtained from the first call changed by {max_diff(V_first, V_first_copy)} during the second", wit)
            V = V2
        # ---- the checkpoint written to disk, read back and continued on another object
        if post is not None:
            V_mem = copy.deepcopy(V)
            if post == "savechk":
                chk = CheckPoint.from_npz(wd.seedname + ".chk.npz")
                wd3 = s.wandata(with_chk=False, with_amn=False, seedname=os.path.join(tmp, "reloaded"))
                if hist == "select":
                    wd3.select_bands(**sel_kw)
                wd3.set_file("chk", chk, allow_selected_bands=True)
            else:
                wd.to_npz(os.path.join(tmp, "after"))
                wd3 = WannierData.from_npz(os.path.join(tmp, "after"))
            ctx.count(f"history_{post}_reloaded")
            Vl = wd3.chk.v_matrix if wd3.has_file("chk") and wd3.chk.wannierised else None
            ctx.ev()
            if max_diff(Vl, V_mem) != 0.0:
                ctx.violation(f"wannierise[{post}]:reloaded_gauge_differs", f"v_matrix read back differs from the one in memory by "
                              f"{max_diff(Vl, V_mem)}", witness(cfg_last, "reload", 0))
            else:
                cfg3 = cfg_last
                if rng.random() < 0.5:
                    try:
                        cfg3 = gen_config(rng, j, thresh, NW=cfg_last["NW"], thorough=thorough)
                    except harness.Skip:
                        cfg3 = cfg_last
                num_iter3 = int(rng.choice([0, 1, int(rng.integers(2, 10))]))
                wit = witness(cfg3, "restart", num_iter3, {})
                wit["reloaded_from"] = post
                ncalls += 1
                V3 = call_wannierise(ctx, rng, wd3, cfg3, "restart", num_iter3, localise, {}, wit=wit)
                res3 = judge(ctx, j, cfg3, V3, thresh, wit, f"restart_after_{post}")
                res = {k: res[k] + res3[k] for k in res}
                ctx.count("restart_on_reloaded_checkpoint")
        check_inputs_unchanged(ctx, wd, j, witness(cfg_last, init, num_iter))
    # the monitor must have seen 2 calls per k-point and wannierise call
    seen = ctx.counters.get("mwindow_calls", 0) - calls0
    if seen != 2 * s.NK * ncalls:
        ctx.count("cases_where_mwindow_saw_unexpected_number_of_calls")  # not a refutation of the property by itself
    else:
        ctx.count("cases_where_mwindow_saw_2_calls_per_kpoint")
    if abs(state.get("thresh_seen", thresh) - thresh) > 0:
        raise RuntimeError(f"wannierise passed thresh={state.get('thresh_seen')} to select_window_degen; oracle assumes {thresh}")

    ctx.count("localise_on" if localise else "localise_off")
    count_options(ctx, extra)
    if num_iter == 0:
        ctx.count("num_iter_0")
    fs = cfg["frozen_states"]
    if isinstance(fs, dict) and len(fs):
        ctx.count("explicit_frozen_states_dict")
    elif len(fs):
        ctx.count("explicit_frozen_states_list")
        if len(set(int(x) for x in fs)) > 2:
            ctx.count("explicit_frozen_states_more_than_two")
    elif cfg["pass_empty"]:
        ctx.count("explicit_frozen_states_empty_container")
    if len(fs) and cfg["fs_form"] != "python":
        ctx.count(f"explicit_frozen_states_{cfg['fs_form']}_integers")
    if exact_edges(j, cfg) or exact_edges(j, cfg_last):
        ctx.count("cases_with_a_window_edge_exactly_on_an_eigenvalue")
    for c in (cfg, cfg_last):
        if any(np.isfinite(a) and a == b and np.any(j.E == a) for a, b in ((c["froz_min"], c["outer_min"]), (c["froz_max"], c["outer_max"]))):
            ctx.count("cases_with_both_windows_sharing_an_edge_on_an_eigenvalue")
            break
    if np.isfinite(cfg["froz_min"]) and np.isfinite(cfg["froz_max"]) and cfg["froz_min"] > cfg["froz_max"]:
        ctx.count("cases_with_finite_inverted_frozen_window")
    if s.NK <= 2:
        ctx.count("cases_with_1_or_2_kpoints")
    if s.NK >= 100:
        ctx.count("cases_with_100+_kpoints")
    if getattr(s, "band_slice", None) is not None:
        ctx.count("cases_with_bands_cut_out_of_a_larger_model")
    if copies == 4:
        ctx.count("cases_with_4_fold_multiplets")
    if res["cut"]:
        ctx.count("cases_with_cut_multiplet")
    if NW == j.NB:
        ctx.count("cases_NW=NB")
    nout_max = int(definitely_in(j.E, cfg_last["outer_min"], cfg_last["outer_max"]).sum(axis=1).max())
    nontrivial = (cfg_last["NW"] < nout_max) or res["nfroz"] > 0
    if nontrivial:
        ctx.nontrivial((j.NB, NW, mp_grid, s.degen["kind"], s.degen["split"], init, localise, min(num_iter, 3),
                        res["nfroz"] > 0, res["nexcl"] > 0, res["cut"] > 0,
                        "dict" if isinstance(cfg["frozen_states"], dict) else len(cfg["frozen_states"]), hist, second, post))
    else:
        ctx.count("cases_trivial(no disentanglement)")
    ctx.sample(wit)


if __name__ == "__main__":
    harness.main(
        PROP, "exploration", case, setup_fn=setup,
        tiers=dict(quick=dict(cases=360, shards=8, time=900), thorough=dict(cases=3200, shards=16, time=3000)),
        rule="synthetic W90 data (random TB model, NB 1..7 (thorough 10, rarely 16), Gamma-centred meshes (2,2,2)...(5,2,2) in random "
             "k order, also 1-2 and 100-144 k-points, periodic-gauge MMN from BKVectors.from_kpoints, bands optionally cut out of "
             "a larger model, 4 kinds of trial projections + exactly rank-deficient ones, exact/near/resolved/chain/mixed/4-fold "
             "degeneracies, band widths 0.15-4), NW 1..#bands in the outer window, frozen/outer windows at random positions incl. "
             "+-inf, edges placed inside multiplets and edges bit-identical to an eigenvalue, explicit frozen_states (list / per-k "
             "dict; python / numpy integers, duplicates, empty), init amn/random/restart (restart = second call on the result, same "
             "or new windows; second call also with amn/random and another num_wann), num_iter 0..40 (thorough 200), localise "
             "on/off, mix_ratio_z, mix_ratio_u, conv_tol, num_iter_converge, print options, irreducible, default parallel, "
             "with/without a pre-set bare CheckPoint; object fresh / npz round trip / deep copy / select_bands before the call; "
             "checkpoint saved (savechk / to_npz), reloaded and restarted; every 8th case is a reference case (init amn, "
             "0 iterations, nothing frozen) compared with the Loewdin projection; every 25th case on the bundled diamond data "
             "(8 k-points, 10 bands, symmetry-degenerate multiplets); every 10th with sitesym=True on these data; every 30th "
             "calls orthogonalize / get_max_eig directly.  Non-trivial = NW < number of bands in the outer window at some k or "
             ">=1 frozen band; distinct by (NB, NW, mesh, degeneracy kind/split, init, localise, iteration class, "
             "frozen/excluded/cut flags, explicit-frozen kind, history, second call, reload)",
        assumptions=["degeneracy threshold of the oracle = default `thresh` of select_window_degen (1e-2); wannierise passes none "
                     "(verified in situ on every call)",
                     "inputs are valid whichever way cut multiplets and bands exactly on an edge are resolved: #bands in outer "
                     "window >= NW >= #bands in frozen window + explicit frozen states at every k; frozen window inside the outer window",
                     "tie guards: no eigenvalue within 1e-6 of a window edge unless bit-identical to it (then the band may count as "
                     "inside or outside, like a cut multiplet), no gap within 1e-7 of the threshold",
                     "sitesym: windows incompatible with the projections raise the documented IrrepsIncompatibleError (counted); "
                     "explicit frozen states are counted with their whole multiplets",
                     "orthonormality 1e-9, frozen weight 1e-8, excluded rows 1e-9 (absolute, natural scale 1); reloaded gauge bit-identical"],
        required_counters=("mwindow_calls", "mwindow_calls_include_degen", "mwindow_calls_exclude_degen",
                           "bands_judged_frozen", "bands_judged_outside_outer", "init_amn", "init_random", "init_restart",
                           "localise_on", "localise_off", "cases_with_cut_multiplet", "mwindow_cut_multiplets_seen",
                           "reference_gauge_kpoints_checked",
                           "sitesym_calls_judged", "direct_orthogonalize_calls", "direct_get_max_eig_calls",
                           "cases_with_a_window_edge_exactly_on_an_eigenvalue", "cases_with_1_or_2_kpoints", "cases_with_100+_kpoints",
                           "cases_with_bands_cut_out_of_a_larger_model", "cases_with_4_fold_multiplets",
                           "cases_with_exactly_rank_deficient_projections", "history_npz_round_trip_before",
                           "history_select_bands_before", "restart_on_reloaded_checkpoint", "earlier_result_rechecked_after_second_call",
                           "object_reused_with_another_num_wann", "option_mix_ratio_u", "inputs_unchanged_checked",
                           "cases_on_bundled_diamond_data", "mwindow_upper_edge_cuts_multiplet_with_3+_bands_inside",
                           "option_parallel_left_at_default(serial fall-back)", "history_select_bands_before"),
        min_nontrivial=20,
    )
