"""C14 - tetrahedron weights equal the exact linear-tetrahedron volume fractions (REF + INV).

Oracle: the Curry-Schoenberg truncated-power form in exact rational arithmetic
(vlib.oracles.tetra_fraction_exact / tetra_bracket).  Acceptance of an occupation weight w(E)
is the *horizontal* bracket of DESIGN 3.3

        V(E - eta) - eps  <=  w  <=  V(E + eta) + eps ,
        eta = 64 ulp(max(|e|,|E|)) + 8 max(1e-12, 1e-15 max|e|),   eps = 1e-12

(sound because V is non-decreasing in E and non-increasing in every corner, and the code moves
coincident corners up by at most 3*max(1e-12, 1e-15 max|e|)).  The polynomial form used for
`accurate=False` and for the derivative weights is judged only within its own conditioning bound
B = 1e3*macheps*sum|terms| (DESIGN C14) and a comparison whose bound exceeds 1e-3 of the natural
scale is counted as vacuous, not as an evaluation.

Kinds of cases
  direct  : weights_tetra itself (range, monotone, 24 corner orders, coincident / near-degenerate
            corners, magnitudes up to 1e8, Fermi levels on corners, der 0-3, both branches)
  groups  : TetraWeights / TetraWeightsParal objects on synthetic band-sorted corner energies:
            every group weight = mean of the exact band fractions (12 sub-tetrahedra for the
            parallelepiped), sea / anti-sea completion through the total weight
  insitu  : wannierberri.run with CumDOS/DOS(tetra=True) on Grid and GridTetra for random Hermitian
            models with a wrapper around tetrahedron.weights_tetra (M-tetra); CumDOS = 0 below all
            bands, = num_wann above, monotone, and independent of where the Fermi array starts
"""
import os
import shutil
import sys
import tempfile
from fractions import Fraction

sys.path.insert(0, os.path.dirname(os.path.dirname(os.path.abspath(__file__))))
from vlib import env, harness, gen_systems, oracles  # noqa: E402
import numpy as np  # noqa: E402

PROP = "C14"
EPS = 1e-12
MACHEPS = float(np.finfo(float).eps)
PERMS = oracles.all_permutations(4)
FACT = {0: 1.0, 1: 3.0, 2: 6.0, 3: 6.0}


# ----------------------------------------------------------------------------------------------
#  oracle helpers
# ----------------------------------------------------------------------------------------------

def diff_min_of(corners):
    return max(1e-12, 1e-15 * float(np.max(np.abs(corners))))


def eta_of(E, corners):
    m = max(float(np.max(np.abs(corners))), abs(float(E)))
    return 64 * oracles.ulp(m) + 8 * diff_min_of(corners)


class Exact:
    """exact bracket of the occupied fraction of one tetrahedron, prepared once per corner set"""

    def __init__(self, corners):
        self.c = [float(x) for x in corners]
        self.lo_c, self.up_c = oracles.separate_exact(self.c)

    def bracket(self, E):
        """(lower, upper) floats of the horizontal bracket at E (without eps)"""
        eta = Fraction(eta_of(E, self.c))
        EF = Fraction(float(E))
        lower = oracles.tetra_fraction_exact(EF - eta, self.up_c)
        upper = oracles.tetra_fraction_exact(EF + eta, self.lo_c)
        return float(lower), float(upper)

    def deriv(self, E, der):
        return float(oracles.tetra_fraction_exact(Fraction(float(E)), self.up_c, der=der))


def shifted_sorted(corners):
    """harness replica of the documented corner shift - used ONLY to size the conditioning bound"""
    e = sorted(float(x) for x in corners)
    d = diff_min_of(corners)
    for i in range(3):
        if e[i + 1] - e[i] < d:
            e[i + 1] = e[i] + d
    return e


def piece_of(E, e):
    """0 below, 1,2,3 inside, 4 above (sorted corners e)"""
    if E >= e[3]:
        return 4
    if E < e[0]:
        return 0
    if E >= e[2]:
        return 3
    if E >= e[1]:
        return 2
    return 1


def poly_terms(E, e, piece, der):
    """sum of the absolute values of the terms of the polynomial form (piece, derivative order)
    and the smallest gap entering its denominator"""
    e1, e2, e3, e4 = e
    aE = abs(E)
    if piece == 1:
        gaps = (e2 - e1, e3 - e1, e4 - e1)
        S = FACT[der] * (aE + abs(e1)) ** (3 - der) / (gaps[0] * gaps[1] * gaps[2])
    elif piece == 3:
        gaps = (e4 - e1, e4 - e2, e4 - e3)
        S = FACT[der] * (aE + abs(e4)) ** (3 - der) / (gaps[0] * gaps[1] * gaps[2]) + (1.0 if der == 0 else 0.0)
    elif piece == 2:
        gaps = (e3 - e1, e4 - e1, e3 - e2, e4 - e2)
        M = max(aE, abs(e1), abs(e4))
        S = 64.0 * M ** (4 - der) / (gaps[0] * gaps[1] * gaps[2] * gaps[3])
    else:
        return 0.0, np.inf
    return S, min(gaps)


# ----------------------------------------------------------------------------------------------
#  generators
# ----------------------------------------------------------------------------------------------

KINDS = ("random", "pair", "twopairs", "triple", "quad", "near", "nearchain", "pair+near", "wide")


def gen_corners(rng, kind):
    mag = [0.0, 1.0, 1.0, 10.0, 10.0, 1e2, 1e3, 1e4, 1e5, 1e6, 1e8][int(rng.integers(11))]
    centre = mag * rng.uniform(-1, 1)
    if rng.random() < 0.15:
        centre = float(np.round(centre))
    spread = max(mag, 1.0) * 10 ** rng.uniform(-3, 0)
    if kind == "wide":
        spread = max(mag, 1.0) * rng.uniform(0.5, 2.0)

    def tiny():
        return 10 ** rng.uniform(-13, -3) * (1.0 if rng.random() < 0.7 else max(1.0, abs(centre)) * 1e-3)

    base = centre + spread * rng.uniform(-1, 1, 4)
    if kind in ("random", "wide"):
        c = base
    elif kind == "pair":
        c = base.copy()
        c[1] = c[0]
    elif kind == "twopairs":
        c = base[[0, 0, 1, 1]]
    elif kind == "triple":
        c = base[[0, 0, 0, 1]]
    elif kind == "quad":
        c = base[[0, 0, 0, 0]]
    elif kind == "near":
        c = base.copy()
        c[1] = c[0] + tiny()
    elif kind == "nearchain":
        c = base.copy()
        n = int(rng.integers(2, 4))
        for i in range(1, n + 1):
            c[i] = c[i - 1] + tiny()
    elif kind == "pair+near":
        c = base.copy()
        c[1] = c[0]
        c[3] = c[2] + tiny()
    else:
        raise ValueError(kind)
    c = np.array(c, dtype=float)[rng.permutation(4)]
    return c, mag, spread


def gen_fermi(rng, c):
    lo, hi = float(c.min()), float(c.max())
    w = hi - lo
    if w == 0:
        w = max(1.0, abs(lo)) * 10 ** rng.uniform(-6, 0)
    pts = list(rng.uniform(lo - 0.3 * w, hi + 0.3 * w, int(rng.integers(4, 10))))
    pts += [float(x) for x in c]                                    # exactly on the corners
    for x in c:
        if rng.random() < 0.5:
            pts.append(float(np.nextafter(x, np.inf if rng.random() < 0.5 else -np.inf)))
        if rng.random() < 0.5:
            pts.append(float(x + rng.choice([-1, 1]) * 10 ** rng.uniform(-13, -6) * max(1.0, abs(x))))
    cs = np.sort(c)
    for a, b in zip(cs[:-1], cs[1:]):
        if b > a:
            pts.append(float(a + (b - a) * rng.uniform(0.05, 0.95)))  # inside every piece
    pts += [lo - 10 * w - 1.0, hi + 10 * w + 1.0]
    E = np.array(pts, dtype=float)
    if rng.random() < 0.8:
        E = np.sort(E)
    else:
        E = E[rng.permutation(len(E))]
    return np.ascontiguousarray(E)


# ----------------------------------------------------------------------------------------------
#  kind 1 : weights_tetra directly
# ----------------------------------------------------------------------------------------------

def call_wt(ctx, wt, E, c, der, accurate, wit):
    """numba raises without python frames of the repository -> catch here and name the mechanism"""
    try:
        return np.asarray(wt(E, float(c[0]), float(c[1]), float(c[2]), float(c[3]), der=der, accurate=accurate))
    except Exception as exc:  # noqa
        ctx.ev()
        ctx.violation(f"weights_tetra:exception:{type(exc).__name__}",
                      f"weights_tetra(der={der}, accurate={accurate}) raised {type(exc).__name__}: {exc}",
                      dict(wit, der=der, accurate=accurate))
        return None


def check_bracket(ctx, mech, w, lows, ups, slack, what, wit, E):
    """lows - eps - slack <= w <= ups + eps + slack, elementwise; one evaluation per Fermi level"""
    w = np.asarray(w, dtype=float)
    if not np.all(np.isfinite(w)):
        ctx.ev()
        ctx.violation(mech + ":nonfinite", f"{what}: non-finite weights", dict(wit, E=E, w=w))
        return False
    tol = EPS + slack
    under = lows - w
    over = w - ups
    worst = np.maximum(under, over)          # <= 0 inside the bracket
    ctx.ev(len(w))
    ctx.dev(mech, float(np.max(worst / tol)) if len(w) else 0.0)
    bad = np.where(worst > tol)[0]
    if len(bad):
        i = int(bad[np.argmax(worst[bad])])
        ctx.violation(mech, f"{what}: E={E[i]!r} w={w[i]!r} outside exact bracket [{lows[i]!r},{ups[i]!r}] "
                            f"(tol {float(np.atleast_1d(tol)[min(i, np.size(tol) - 1)]):.2e})",
                      dict(wit, E=float(E[i]), w=float(w[i]), lower=float(lows[i]), upper=float(ups[i])))
        return False
    return True


def direct_one(ctx, rng, wt, kind):
    c, mag, spread = gen_corners(rng, kind)
    E = gen_fermi(rng, c)
    wit = dict(kind=kind, corners=[float(x) for x in c])
    ex = Exact(c)
    br = np.array([ex.bracket(x) for x in E])
    lows, ups = br[:, 0], br[:, 1]
    cs = np.sort(c)
    e_sh = shifted_sorted(c)
    order = np.argsort(E, kind="stable")

    # ---- der = 0, accurate branch : bracket, range, monotone, corner order ------------------
    w = call_wt(ctx, wt, E, c, 0, True, wit)
    if w is not None:
        check_bracket(ctx, "weights_tetra[accurate]!=exact_fraction", w, lows, ups, 0.0, "der=0 accurate", wit, E)
        ctx.ev()
        if np.all(np.isfinite(w)) and (w.min() < -EPS or w.max() > 1 + EPS):
            ctx.violation("weights_tetra[accurate]:outside[0,1]", f"weights {w.min()!r}..{w.max()!r}", dict(wit, E=E, w=w))
        ws = w[order]
        ctx.ev()
        if len(ws) > 1 and np.all(np.isfinite(ws)):
            drop = float(np.max(ws[:-1] - ws[1:]))
            ctx.dev("weights_tetra[accurate]:not_monotone", drop / EPS)
            if drop > EPS:
                ctx.violation("weights_tetra[accurate]:not_monotone", f"weight decreases by {drop:.3e} with increasing E",
                              dict(wit, E=E[order], w=ws))
        for p in PERMS:
            wp = call_wt(ctx, wt, E, c[list(p)], 0, True, wit)
            if wp is not None:
                ctx.close("weights_tetra[accurate]:depends_on_corner_order", wp, w, rtol=0.0, atol=EPS,
                          what=f"corner order {p}", witness=dict(wit, perm=p))
        ctx.count("direct_accurate")

    # ---- der = 0, polynomial branch : bracket widened by the conditioning bound --------------
    w0 = call_wt(ctx, wt, E, c, 0, False, wit)
    if w0 is not None:
        B = np.zeros(len(E))
        for i, x in enumerate(E):
            S, _ = poly_terms(float(x), e_sh, piece_of(float(x), e_sh), 0)
            B[i] = 1e3 * MACHEPS * S
        ok = B <= 1e-3
        ctx.count("polynomial_der0_vacuous_conditioning", int(np.sum(~ok)))
        if np.any(ok):
            check_bracket(ctx, "weights_tetra[polynomial]!=exact_fraction", w0[ok], lows[ok], ups[ok], B[ok],
                          "der=0 accurate=False", wit, E[ok])
            ctx.count("direct_polynomial_der0")
        if not np.all(np.isfinite(w0)):
            ctx.ev()
            ctx.violation("weights_tetra[polynomial]:nonfinite", "non-finite weights", dict(wit, E=E, w=w0))
        p = PERMS[int(rng.integers(24))]
        wp = call_wt(ctx, wt, E, c[list(p)], 0, False, wit)
        if wp is not None and np.any(ok) and np.all(np.isfinite(w0)):
            ctx.close("weights_tetra[polynomial]:depends_on_corner_order", wp[ok], w0[ok], rtol=0.0,
                      atol=EPS + 2 * float(B[ok].max()), what=f"corner order {p}", witness=dict(wit, perm=p))

    # ---- derivative weights --------------------------------------------------------------------
    M = float(np.max(np.abs(c)))
    guard = 1e-6 * (1.0 + M)
    sep = 1e-3 * (1.0 + M)
    dmin = diff_min_of(c)
    width = cs[3] - cs[0]
    for der in (1, 2, 3):
        wd = call_wt(ctx, wt, E, c, der, True, wit)
        if wd is None:
            continue
        ctx.count(f"direct_der{der}_calls")
        if not np.all(np.isfinite(wd)):
            ctx.ev()
            ctx.violation(f"weights_tetra[der{der}]:nonfinite", "non-finite derivative weights", dict(wit, E=E, w=wd))
            continue
        p = PERMS[int(rng.integers(24))]
        wp = call_wt(ctx, wt, E, c[list(p)], der, True, wit)
        for i, x in enumerate(E):
            x = float(x)
            dist = np.abs(cs - x)
            near = np.where(dist < guard)[0]
            if x < cs[0] - guard or x > cs[3] + guard:
                ctx.ev()                              # outside the tetrahedron: exactly zero
                if wd[i] != 0.0:
                    ctx.violation(f"weights_tetra[der{der}]:nonzero_outside", f"E={x!r} outside corners, weight {wd[i]!r}",
                                  dict(wit, E=x, w=float(wd[i])))
                continue
            if width < sep:
                ctx.count("der_skipped_illconditioned")
                continue
            eta = eta_of(x, c)
            if len(near) == 0:
                cands = [x]
            else:
                # Fermi level on / beside a corner: the one-sided values E-g, E+g (horizontal set).  The code
                # regularises coincident corners, so inside the regularisation width the weight may lie
                # anywhere between the one-sided values -> accept the interval hull.  Only when the corner
                # group is exactly coincident (multiplicity m), the derivative is bounded there
                # (der + m <= 4) and the group is at least `sep` away from the remaining corners.
                grp = cs[near]
                others = np.delete(cs, near)
                if (grp.max() != grp.min() or der + len(near) > 4
                        or (len(others) and np.min(np.abs(others - x)) < sep)):
                    ctx.count("der_skipped_illconditioned")
                    continue
                g = max(eta, 2 * guard)
                cands = [x - g, x, x + g]
            vals, tols = [], []
            skip = False
            for xc in cands:
                pc = piece_of(xc, e_sh)
                if pc in (0, 4):
                    vals.append(0.0)
                    tols.append(0.0)
                    continue
                S, gmin = poly_terms(xc, e_sh, pc, der)
                if gmin < sep and len(cands) == 3 and xc == x:
                    continue            # E sits inside the regularisation width: only the one-sided values count
                if gmin < sep:
                    skip = True
                    break
                L = poly_terms(xc, e_sh, pc, der + 1)[0] if der < 3 else 0.0
                vals.append(ex.deriv(xc, der))
                # conditioning bound + effect of the code's shift of coincident corners + horizontal slack
                tols.append(1e3 * MACHEPS * S + 100 * dmin * S / gmin + 10 * (abs(xc - x) + eta) * L)
            if skip:
                ctx.count("der_skipped_illconditioned")
                continue
            # ... and never more than the form evaluated at E itself can give (inside the regularisation
            # width of a coincident group the active piece has a 1e-12 gap in its denominator)
            S_here = poly_terms(x, e_sh, piece_of(x, e_sh), der)[0]
            tol = max(tols) + 1e3 * MACHEPS * S_here + 1e-300
            expected = (min(vals), max(vals))
            dev = max(expected[0] - float(wd[i]), float(wd[i]) - expected[1], 0.0)
            scale = FACT[der] / width ** der
            if tol > 1e-3 * scale:
                ctx.count("der_vacuous_conditioning")
                continue
            ctx.ev()
            ctx.count(f"direct_der{der}")
            if len(near):
                ctx.count("direct_der_on_corner")
            ctx.dev(f"weights_tetra[der{der}]!=exact_derivative", dev / tol)
            if dev > tol:
                ctx.violation(f"weights_tetra[der{der}]!=exact_derivative",
                              f"E={x!r}: weight {wd[i]!r}, exact derivative in {expected!r}, tol {tol:.3e}",
                              dict(wit, E=x, w=float(wd[i]), expected=expected, tol=tol))
            if wp is not None and np.isfinite(wp[i]):
                ctx.ev()
                if abs(wp[i] - wd[i]) > 2 * tol:
                    ctx.violation(f"weights_tetra[der{der}]:depends_on_corner_order",
                                  f"E={x!r}: {wd[i]!r} vs {wp[i]!r} for order {p}", dict(wit, E=x, perm=p))

    inside = int(np.sum((E > cs[0]) & (E < cs[3])))
    if inside > 0 or kind == "quad":
        mingap = float(np.min(np.diff(cs)))
        ctx.nontrivial(("direct", kind, mag, int(np.floor(np.log10(spread))),
                        int(np.floor(np.log10(mingap))) if mingap > 0 else None))
    return wit


def case_direct(ctx, rng, state):
    wt = state["wt"]
    n = 30 if ctx.thorough else 14
    for j in range(n):
        kind = KINDS[int(rng.integers(len(KINDS)))]
        wit = direct_one(ctx, rng, wt, kind)
        if j == 0:
            ctx.sample(wit)
    # empty Fermi array and a single Fermi level
    c = rng.normal(size=4)
    for der in (0, 1):
        w = call_wt(ctx, wt, np.zeros(0), c, der, True, dict(corners=c))
        if w is not None:
            ctx.ev()
            if w.shape != (0,):
                ctx.violation("weights_tetra:empty_fermi_array", f"shape {w.shape}", dict(corners=c))
    # known finding F5 (fixed): exactly coincident corners of large magnitude, der>=1 and accurate=False
    big = 10 ** rng.uniform(4, 8) * rng.choice([-1, 1])
    cc = big + np.array([0.1, 0.1, 0.3, -0.2]) * rng.uniform(0.5, 2)
    cc = cc[rng.permutation(4)]
    Ebig = np.sort(np.concatenate([cc, big + rng.uniform(-1, 1, 5)]))
    for der, acc in ((0, False), (1, True), (2, True), (3, True)):
        w = call_wt(ctx, wt, Ebig, cc, der, acc, dict(kind="coincident_large", corners=cc))
        if w is not None:
            ctx.ev()
            ctx.count("coincident_large_magnitude")
            if not np.all(np.isfinite(w)):
                ctx.violation("weights_tetra:nonfinite_coincident_large", f"der={der} accurate={acc}: {w}",
                              dict(corners=cc, E=Ebig))


# ----------------------------------------------------------------------------------------------
#  kind 2 : TetraWeights / TetraWeightsParal objects (group weights, sea completion, 12 tetrahedra)
# ----------------------------------------------------------------------------------------------

def sub_tetrahedra_of_parallelepiped():
    """the decomposition of the unit cube used for a parallelepiped K-point: the centre joined to the
    two triangles of every face (face diagonal from the (0,0) to the (1,1) corner of the face).
    Built geometrically here and verified to tile the cube (12 tetrahedra of volume 1/12)."""
    tets = []
    for axis in range(3):
        for side in (0, 1):
            def vert(a, b):
                v = [0, 0, 0]
                v[axis] = side
                o = [i for i in range(3) if i != axis]
                v[o[0]], v[o[1]] = a, b
                return tuple(v)
            tets.append((vert(0, 0), vert(0, 1), vert(1, 1)))
            tets.append((vert(0, 0), vert(1, 0), vert(1, 1)))
    centre = np.array([0.5, 0.5, 0.5])
    vol = [abs(np.linalg.det(np.array(t, dtype=float) - centre[None, :])) / 6 for t in tets]
    assert len(tets) == 12 and np.allclose(vol, 1 / 12)
    return tets


SUBTETS = sub_tetrahedra_of_parallelepiped()


def gen_band_energies(rng, nk, npts, nb):
    """(nk, npts, nb) energies sorted along the band axis at every point (point 0 = centre)"""
    mode = ["generic", "flat", "degenerate", "neardeg", "narrow"][int(rng.integers(5))]
    scale = [1.0, 1.0, 10.0, 1e3][int(rng.integers(4))]
    base = np.sort(rng.uniform(-1, 1, nb)) * scale
    disp = scale * 10 ** rng.uniform(-2, 0)
    Eall = base[None, None, :] + disp * rng.uniform(-1, 1, (nk, npts, nb))
    if mode == "flat":           # a k-independent band: all corners of all sub-tetrahedra coincide
        ib = int(rng.integers(nb))
        Eall[:, :, ib] = base[ib]
    elif mode == "degenerate" and nb > 1:   # exactly degenerate pair everywhere
        ib = int(rng.integers(nb - 1))
        Eall[:, :, ib + 1] = Eall[:, :, ib]
    elif mode == "neardeg" and nb > 1:
        ib = int(rng.integers(nb - 1))
        Eall[:, :, ib + 1] = Eall[:, :, ib] + 10 ** rng.uniform(-13, -4)
    elif mode == "narrow":
        Eall = base[None, None, :] + 1e-3 * disp * rng.uniform(-1, 1, (nk, npts, nb))
    Eall = np.sort(Eall, axis=2)
    return Eall, mode, scale


def case_groups(ctx, rng, state):
    T = state["T"]
    paral = bool(rng.random() < 0.5)
    nk = int(rng.integers(1, 3))
    nb = int(rng.integers(1, 6))
    Eall, mode, scale = gen_band_energies(rng, nk, 9 if paral else 5, nb)
    eCenter = np.ascontiguousarray(Eall[:, 0, :])
    if paral:
        eCorners = np.ascontiguousarray(Eall[:, 1:, :].reshape(nk, 2, 2, 2, nb))
        tw = T.TetraWeightsParal(eCenter=eCenter, eCorners=eCorners)
    else:
        eCorners = np.ascontiguousarray(Eall[:, 1:, :])
        tw = T.TetraWeights(eCenter=eCenter, eCorners=eCorners)
    lo, hi = Eall.min(), Eall.max()
    # Fermi array that starts/ends inside the band range (so that sea completion matters)
    a = rng.uniform(lo - 0.2 * (hi - lo), hi)
    b = rng.uniform(a, hi + 0.2 * (hi - lo))
    nE = int(rng.integers(1, 6))
    Ef = np.sort(rng.uniform(a, b, nE))
    if rng.random() < 0.3:
        Ef[int(rng.integers(nE))] = Eall.reshape(-1)[int(rng.integers(Eall.size))]   # on a corner
        Ef = np.sort(Ef)
    thresh = [-1, 0.0, 1e-4, 0.05 * scale][int(rng.integers(4))]
    straddle = None
    if nb >= 2 and rng.random() < 0.35:
        # hostile for the sea / anti-sea completion: two bands grouped by the threshold (centres closer than it),
        # the first Fermi level above the whole lower band but inside the upper one (or the last Fermi level
        # below the whole upper band but inside the lower one)
        ib = int(rng.integers(nb - 1))
        gap = float(eCenter[0, ib + 1] - eCenter[0, ib])
        thresh = 1.5 * gap + 1e-6 * scale
        bmax = Eall[0].max(axis=0)
        bmin = Eall[0].min(axis=0)
        if rng.random() < 0.5 and bmax[ib] < bmax[ib + 1]:
            Ef = np.sort(np.concatenate([[0.5 * (bmax[ib] + bmax[ib + 1])], rng.uniform(bmax[ib + 1], hi + 0.1 * (hi - lo), nE - 1)]))
            straddle = "low"
        elif bmin[ib] < bmin[ib + 1]:
            Ef = np.sort(np.concatenate([rng.uniform(lo - 0.1 * (hi - lo), bmin[ib], nE - 1), [0.5 * (bmin[ib] + bmin[ib + 1])]]))
            straddle = "high"
        if straddle:
            ctx.count("groups_fermi_edge_inside_a_group")
    Ef = np.ascontiguousarray(Ef)
    kramers = bool(nb % 2 == 0 and rng.random() < 0.25)
    wit = dict(paral=paral, nk=nk, nb=nb, mode=mode, scale=scale, Efermi=Ef, degen_thresh=thresh, Kramers=kramers, straddle=straddle,
               eCenter=eCenter, eCorners=eCorners)

    def check_for(Ef, tag):
        nE = len(Ef)
        wit_ = dict(wit, Efermi=Ef, request=tag)
        # exact band fractions
        lowb = np.zeros((nk, nb, nE))
        upb = np.zeros((nk, nb, nE))
        for ik in range(nk):
            for ib in range(nb):
                if paral:
                    cube = eCorners[ik, :, :, :, ib]
                    tets = [[eCenter[ik, ib]] + [cube[v] for v in t] for t in SUBTETS]
                else:
                    tets = [list(eCorners[ik, :, ib])]
                for t in tets:
                    ex = Exact(t)
                    for ie, x in enumerate(Ef):
                        lw, up = ex.bracket(x)
                        lowb[ik, ib, ie] += lw / len(tets)
                        upb[ik, ib, ie] += up / len(tets)

        for der in (0, -1):
            res = tw.weights_all_band_groups(Ef, der=der, degen_thresh=thresh, degen_Kramers=kramers)
            ctx.count("groups_paral" if paral else "groups_tetra")
            for ik in range(nk):
                covered = np.zeros(nb, dtype=int)
                tot = np.zeros(nE)
                for (ib1, ib2), w in res[ik].items():
                    w = np.asarray(w, dtype=float)
                    covered[ib1:ib2] += 1
                    tot += w * (ib2 - ib1)
                    lw = lowb[ik, ib1:ib2].mean(axis=0)
                    up = upb[ik, ib1:ib2].mean(axis=0)
                    if der == -1:
                        lw, up = 1 - up, 1 - lw
                    check_bracket(ctx, "TetraWeights.group_weight!=mean_exact_fraction", w, lw, up, 0.0,
                                  f"group ({ib1},{ib2}) der={der} paral={paral}", dict(wit_, ik=ik, group=(ib1, ib2), der=der), Ef)
                ctx.ev()
                if covered.max() > 1:
                    ctx.violation("TetraWeights.groups_overlap", f"band covered {covered.max()} times: {sorted(res[ik])}",
                                  dict(wit_, ik=ik, der=der))
                # completeness: the total weight is the sum over ALL bands of the exact fraction
                lw = lowb[ik].sum(axis=0)
                up = upb[ik].sum(axis=0)
                if der == -1:
                    lw, up = nb - up, nb - lw
                check_bracket(ctx, "TetraWeights.total_weight!=sum_of_exact_fractions", tot, lw, up, (nb - 1) * EPS,
                              f"total der={der} paral={paral}", dict(wit_, ik=ik, der=der, groups=sorted(res[ik])), Ef)
        return lowb, upb

    # the same object serves several Fermi-level arrays one after the other (it caches weights per array): the array asked for first,
    # a different array of the same length with the same end points, an equal copy, and the first one again
    lowb, upb = check_for(Ef, "first")
    if len(Ef) >= 3:
        Ef2 = Ef.copy()
        Ef2[1:-1] = np.sort(rng.uniform(Ef[0], Ef[-1], len(Ef) - 2))
        check_for(np.ascontiguousarray(Ef2), "same_length_and_end_points_other_interior")
        ctx.count("groups_second_fermi_array_same_ends")
    if rng.random() < 0.5:
        check_for(np.ascontiguousarray(Ef[:-1] if len(Ef) > 1 else Ef + 0.1 * (hi - lo)), "other_array")
    check_for(Ef.copy(), "equal_copy")
    check_for(Ef, "first_again")
    cut = bool(np.any((lowb > 1e-6) & (upb < 1 - 1e-6)))
    if cut:
        ctx.nontrivial(("groups", paral, nk, nb, mode, scale, round(float(thresh), 6), kramers, nE, straddle))
    ctx.sample({k: v for k, v in wit.items() if k not in ("eCenter", "eCorners")})


# ----------------------------------------------------------------------------------------------
#  kind 3 : in-situ monitor during real CumDOS / DOS runs
# ----------------------------------------------------------------------------------------------

class Monitor:
    """M-tetra: wrapper installed as the module attribute wannierberri.grid.tetrahedron.weights_tetra
    (TetraWeights looks the name up in the module globals at call time)"""

    def __init__(self, orig):
        self.orig = orig
        self.ctx = None
        self.stride = 1
        self.ncall = 0
        self.nviol = 0

    def __call__(self, efall, e0, e1, e2, e3, der=0, accurate=True):
        res = self.orig(efall, e0, e1, e2, e3, der=der, accurate=accurate)
        ctx = self.ctx
        if ctx is None:
            return res
        self.ncall += 1
        ctx.count("monitor_weights_tetra_calls")
        w = np.asarray(res)
        c = np.array([e0, e1, e2, e3], dtype=float)
        wit = dict(corners=c, der=der, insitu=True)
        if not np.all(np.isfinite(w)):
            self._viol("M-tetra:nonfinite", "non-finite weights in a real run", dict(wit, E=efall, w=w))
            return res
        if der == 0:
            ctx.count("monitor_der0_calls")
            ctx.ev()
            if len(w) and (w.min() < -EPS or w.max() > 1 + EPS):
                self._viol("M-tetra:outside[0,1]", f"weights {w.min()!r}..{w.max()!r}", dict(wit, E=efall, w=w))
            if len(w) > 1 and np.all(np.diff(efall) >= 0) and np.max(w[:-1] - w[1:]) > EPS:
                self._viol("M-tetra:not_monotone", "weight decreases with increasing E", dict(wit, E=efall, w=w))
            if self.ncall % self.stride == 0:
                # exact bracket for the Fermi levels that cut this tetrahedron (at most 3) and one more
                cutting = [i for i in range(len(w)) if c.min() <= efall[i] <= c.max()]
                idx = cutting[:3] + [self.ncall % len(w)] if len(w) else []
                ex = Exact(c)
                for i in sorted(set(idx)):
                    lw, up = ex.bracket(efall[i])
                    ctx.ev()
                    ctx.count("monitor_bracket_evaluations")
                    dv = max(lw - w[i], w[i] - up) / EPS
                    ctx.dev("M-tetra:weight!=exact_fraction", dv)
                    if dv > 1:
                        self._viol("M-tetra:weight!=exact_fraction",
                                   f"E={efall[i]!r} w={w[i]!r} outside [{lw!r},{up!r}]",
                                   dict(wit, E=float(efall[i]), w=float(w[i]), lower=lw, upper=up))
        else:
            ctx.count("monitor_der1_calls")
            ctx.ev()
            out = (np.asarray(efall) < c.min() - 1e-9) | (np.asarray(efall) > c.max() + 1e-9)
            if np.any(w[out] != 0):
                self._viol("M-tetra:derivative_nonzero_outside", "DOS weight outside the corner range",
                           dict(wit, E=efall, w=w))
        return res

    def _viol(self, mech, msg, wit):
        self.nviol += 1
        if self.nviol <= 5:
            self.ctx.violation(mech, msg, wit)


def norm_bound(system):
    """rigorous bound on |E_n(k)|: sum over R of the spectral norm of H(R)"""
    Ham = system.get_R_mat("Ham")
    return float(sum(np.linalg.norm(Ham[i], 2) for i in range(Ham.shape[0])))


def case_insitu(ctx, rng, state):
    import wannierberri as wb
    from wannierberri import calculators as calc
    mon = state["monitor"]
    nw = int(rng.integers(1, 5))
    system = gen_systems.herm_system(rng, num_wann=nw, radius=rng.uniform(1.0, 1.8),
                                     centers=["random", "zero", "groups"][int(rng.integers(3))])
    lo, hi, bw = gen_systems.bandwidth(system)
    if bw < 0.2:
        raise harness.Skip("flat bands")
    hb = norm_bound(system)
    nmid = int(rng.integers(5, 10))
    mid = np.linspace(lo - 0.05 * (hi - lo), hi + 0.05 * (hi - lo), nmid)
    Efull = np.ascontiguousarray(np.concatenate([[-hb - 1.0], mid, [hb + 1.0]]))
    i0 = int(rng.integers(2, nmid - 1))
    Epart = np.ascontiguousarray(Efull[i0:].copy())        # starts inside the bands: sea completion
    use_tetra_grid = bool(rng.random() < 0.45)
    tmp = tempfile.mkdtemp(prefix="c14_", dir=env.WORK if os.path.isdir(env.WORK) else "/tmp")
    wit = dict(nw=nw, grid="GridTetra" if use_tetra_grid else "Grid", Efermi=Efull, part_from=i0)
    try:
        if use_tetra_grid:
            length = float(rng.uniform(3.0, 9.0))
            nkfft = int(rng.integers(1, 3))
            import warnings
            with warnings.catch_warnings():
                warnings.simplefilter("ignore")
                grid = wb.grid.GridTetra(system, length=length, NKFFT=nkfft)
            wit.update(length=length, NKFFT=nkfft, ntetra=len(grid.K_list))
            adpt = 0
        else:
            nkdiv = tuple(int(x) for x in rng.integers(1, 3, 3))
            nkfft = tuple(int(x) for x in rng.integers(1, 4, 3))
            grid = wb.Grid(system, NKdiv=nkdiv, NKFFT=nkfft)
            adpt = int(rng.random() < 0.3)
            wit.update(NKdiv=nkdiv, NKFFT=nkfft, adpt_num_iter=adpt)
        calcs = {"cumdos": calc.static.CumDOS(Efermi=Efull, tetra=True),
                 "cumdos_part": calc.static.CumDOS(Efermi=Epart, tetra=True),
                 "dos": calc.static.DOS(Efermi=Efull, tetra=True)}
        mon.stride = 7 if use_tetra_grid else 37      # coprime with 12 sub-tetrahedra and the band counts
        mon.ctx = ctx
        mon.ncall = 0
        try:
            sym = bool(rng.random() < 0.5)
            res = wb.run(system, grid=grid, calculators=calcs, parallel=False, adpt_num_iter=adpt,
                         use_irred_kpt=sym, symmetrize=sym, fout_name=os.path.join(tmp, "res"), suffix="",
                         restart=False, print_progress_step_time=1e9)
        finally:
            mon.ctx = None
        if mon.ncall == 0:
            ctx.violation("M-tetra:wrapper_not_reached", "CumDOS(tetra=True) ran without calling weights_tetra", wit)
        cum = np.asarray(res.results["cumdos"].data, dtype=float)
        cump = np.asarray(res.results["cumdos_part"].data, dtype=float)
        dos = np.asarray(res.results["dos"].data, dtype=float)
        ctx.count("insitu_GridTetra" if use_tetra_grid else "insitu_Grid")
        ctx.close("CumDOS_tetra_below_all_bands!=0", cum[0], 0.0, scale=nw, rtol=1e-10, what="CumDOS below all bands", witness=wit)
        ctx.close("CumDOS_tetra_above_all_bands!=num_wann", cum[-1], float(nw), scale=nw, rtol=1e-10,
                  what="CumDOS above all bands", witness=wit)
        ctx.close("DOS_tetra_outside_bands!=0", dos[[0, -1]], np.zeros(2), scale=nw / max(bw, 1e-3), rtol=1e-10,
                  what="DOS outside all bands", witness=wit)
        ctx.ev()
        if np.max(cum[:-1] - cum[1:]) > 1e-10 * nw or cum.min() < -1e-10 * nw or cum.max() > nw * (1 + 1e-10):
            ctx.violation("CumDOS_tetra:not_monotone_or_out_of_range", f"CumDOS = {cum}", wit)
        ctx.close("CumDOS_tetra_depends_on_first_Fermi_level", cump, cum[i0:], scale=nw, rtol=1e-10,
                  what="CumDOS with a Fermi array starting inside the bands", witness=wit)
        if 1e-3 < cum[i0] < nw - 1e-3:
            ctx.nontrivial(("insitu", wit["grid"], nw, wit.get("NKdiv"), wit.get("NKFFT"), wit.get("ntetra"), adpt))
        ctx.sample(dict(wit, cumdos=cum))
    finally:
        shutil.rmtree(tmp, ignore_errors=True)


# ----------------------------------------------------------------------------------------------

def setup(ctx):
    env.import_wb()
    import wannierberri.grid.tetrahedron as T
    orig = T.weights_tetra
    # warm up the JIT specialisations that are used: explicit and omitted `accurate`
    E = np.ascontiguousarray(np.linspace(-1.0, 2.0, 5))
    for der in (0, 1, 2, 3):
        orig(E, 0.0, 1.0, 2.0, 3.0, der=der)
        orig(E, 0.0, 1.0, 2.0, 3.0, der=der, accurate=True)
        orig(E, np.float64(0.0), np.float64(1.0), np.float64(2.0), np.float64(3.0), der=der, accurate=False)
    orig(np.zeros(0), 0.0, 1.0, 2.0, 3.0, der=0, accurate=True)
    mon = Monitor(orig)
    T.weights_tetra = mon          # TetraWeights / TetraWeightsParal resolve the global at call time
    return dict(T=T, wt=orig, monitor=mon)


def case(ctx, rng, idx, state):
    r = int(rng.integers(8))
    if r in (0, 1, 2, 3, 4):
        ctx.count("cases_direct")
        case_direct(ctx, rng, state)
    elif r in (5, 6):
        ctx.count("cases_groups")
        case_groups(ctx, rng, state)
    else:
        ctx.count("cases_insitu")
        case_insitu(ctx, rng, state)


if __name__ == "__main__":
    harness.main(
        PROP, "exploration", case, setup_fn=setup,
        tiers=dict(quick=dict(cases=640, shards=8, time=900), thorough=dict(cases=14000, shards=16, time=3000)),
        rule="corner sets: random / exact pair, two pairs, triple, quadruple / near-degenerate gaps 1e-13..1e-3 / chains, "
             "magnitudes 0..1e8, all 24 corner orders, Fermi arrays with points on corners, one ulp beside them, inside "
             "every piece and far outside; a direct case is non-trivial if a Fermi level lies strictly inside the corner "
             "range (distinct by kind, magnitude, spread decade, smallest-gap decade); TetraWeights(Paral) cases are "
             "non-trivial if some band is partially filled; in-situ runs if the truncated Fermi array starts inside the bands",
        assumptions=["oracle = exact rational truncated-power form (vlib/oracles.py), horizontal bracket with eta = 64 ulp + "
                     "8*max(1e-12,1e-15 max|e|), eps = 1e-12",
                     "polynomial branch (accurate=False, der>=1) judged within 1e3*macheps*sum|terms| of its own form; "
                     "comparisons whose bound exceeds 1e-3 of the natural scale are counted as vacuous",
                     "the parallelepiped is decomposed into centre + two triangles per face along the (0,0)-(1,1) face diagonal",
                     "band energies of synthetic TetraWeights objects are sorted by band at every corner (as eigenvalues are)"],
        required_counters=("direct_accurate", "direct_polynomial_der0", "direct_der1", "direct_der2", "direct_der3",
                           "groups_paral", "groups_tetra", "groups_fermi_edge_inside_a_group", "insitu_Grid", "insitu_GridTetra",
                           "monitor_weights_tetra_calls", "monitor_bracket_evaluations", "coincident_large_magnitude"),
    )
