"""C21 - orbital rotation matrices form an orthogonal representation; Dwann is unitary and maps centres
onto their symmetry images (REF).

Oracle (vlib/orbital_oracle.py): the matrix of a rotation in a shell is the overlap integral
< phi_i^(b2) | O_R phi_j^(b1) > of normalised real harmonics / Wannier90 hybrids (typed from the Wannier90 manual),
evaluated with an exact product quadrature on the sphere - no sympy, no code of the repository.

Rotator part (wannierberri/symmetry/orbitals.py: OrbitalRotator, Orbitals.rot_orb/rot_orb_basis)
  * p shell pins the convention: D(R) = P R P^T with P the [z,x,y] ordering, so D(R1) D(R2) = D(R1 R2);
  * s,p,d,f: D = oracle, orthogonal, det = (-1)^l for improper rotations, D(1) = 1, D(R1) D(R2) = D(R1 R2);
  * hybrids: the same laws for rotations leaving the hybrid span invariant (decided by the oracle); other
    rotations are counted ``outside_domain`` (no implementation can return an orthogonal matrix there);
  * local bases basis1/basis2 (also improper ones), ';'-separated shells;
  * a fresh rotator per composition test, and a rotator shared by all calls of the case (exact repeats in shuffled
    order, the ``irot=`` call form, rotations 1e-9 ... 1e-2 away from a cached one, and an N-fold power of a small rotation
    asked after the identity): the cache must return the matrix of the rotation asked for, whatever was asked before.
Dwann part (wannierberri/symmetry/Dwann.py, projections.py: Projection -> positions, basis_list)
  * atommap / T = independently computed images of the centres (p -> g p, T = orbit[p'] - g p);
  * every block of get_on_points = exp(2 pi i (g k).T) * oracle matrix (x) spinor matrix (irrep's SU(2) matrix, i sigma_y K for
    time reversal; overall sign free for spinors), zero elsewhere; unitary for every (k, operation);
  * composition along the group: D_g1(g2 k) conj^[g1 antiunitary](D_g2(k)) = exp(-2 pi i (g3 k).L) D_g3(k), g1 g2 = {E|L} g3.
"""
import os
import sys

sys.path.insert(0, os.path.dirname(os.path.dirname(os.path.abspath(__file__))))
from vlib import env, harness, gen_systems, gen_groups as gg, orbital_oracle as oo  # noqa: E402
import numpy as np  # noqa: E402

PROP = "C21"
TOL = 1e-9
PZXY = np.array([[0, 0, 1.0], [1, 0, 0], [0, 1, 0]])      # [z,x,y] = P [x,y,z]
# the structure catalogue, the most demanding templates (screw axes, magnetic, several sites) first
DWANN_ORDER = ["P3121_Te", "Fd-3m", "Im-3m_FM", "P4mm", "P63/mmc", "I4/mmm_AFM", "P2", "P-6m2", "kagome_noncollinear",
               "F-43m", "P-6m2_FMx", "P321", "Pmm2", "P-4m2", "P6mm", "Pm-3m", "P4/mmm", "P422", "P3m1", "P222", "Pm",
               "P-1", "P1", "Cmmm_oblique"]
assert sorted(DWANN_ORDER) == sorted(s["name"] for s in gg.STRUCTURES)
AXIAL = {"pz": (0, 0, 1), "pxy": (0, 0, 1), "p2": (1, 0, 0), "sp": (1, 0, 0)}


def setup(ctx):
    env.import_wb()
    from wannierberri.symmetry import orbitals
    # the shells the repository accepts must be the ones the oracle knows (names and order are API)
    assert {k: list(v) for k, v in orbitals.orbitals_sets_dic.items()} == oo.SHELL_ORBITALS, "shell catalogue changed"
    cryst = []
    for name in ("Oh", "D6h"):
        for M, _ in gg.group_from_generators(gg.point_group(name)["generators"]):
            if not any(np.abs(M - M2).max() < 1e-9 for M2 in cryst):
                cryst.append(M)
    stab = {h: [M for M in cryst if oo.span_invariant(h, M)] for h in oo.HYBRID_SHELLS}
    return dict(cryst=cryst, stab=stab)


# ------------------------------------------------------------------ rotations
def random_O3(rng, improper=None):
    R = gen_systems.random_rotation(rng)
    if improper is None:
        improper = rng.random() < 0.5
    return -R if improper else R


def pick_rotation(rng, state, shell=None):
    """returns (label, R).  For hybrids most picks come from the stabiliser of the span"""
    u = rng.random()
    if shell in oo.HYBRID_SHELLS and u < 0.65:
        if shell in AXIAL and rng.random() < 0.5:
            ax = np.array(AXIAL[shell], dtype=float)
            R = gg.rodrigues(2 * np.pi / rng.uniform(0.3, 6.0), ax)
            if rng.random() < 0.4:           # mirror containing the axis
                perp = np.cross(ax, rng.normal(size=3))
                perp /= np.linalg.norm(perp)
                R = (np.eye(3) - 2 * np.outer(perp, perp)) @ R
            return "axial_family", R
        S = state["stab"][shell]
        return "stabiliser", S[int(rng.integers(len(S)))]
    if u < 0.45:
        C = state["cryst"]
        return "crystallographic", C[int(rng.integers(len(C)))]
    if u < 0.5:
        return "identity", np.eye(3)
    if u < 0.55:
        return "inversion", -np.eye(3)
    return "haar", random_O3(rng)


def random_basis(rng):
    b = gen_systems.random_rotation(rng)
    if rng.random() < 0.3:
        b = b * np.array([1, 1, -1])[:, None]       # left-handed local frame (improper site operation)
    return b


# ------------------------------------------------------------------ rotator case
def check_matrix(ctx, shell, R, D, wit, basis1=None, basis2=None, tag=""):
    """REF + orthogonality + determinant for one returned matrix.  returns True if inside the domain"""
    n = oo.num_orbitals(shell)
    D = np.asarray(D)
    if D.shape != (n, n):
        ctx.violation("OrbitalRotator:wrong_shape", f"{shell}: shape {D.shape}, expected {(n, n)}", wit)
        return False
    Dor = oo.rotation_matrix_oracle(shell, R, basis1, basis2)
    inside = bool(np.abs(Dor @ Dor.T - np.eye(n)).max() < 1e-9)
    if not inside:
        ctx.count("outside_domain")
        ctx.count(f"outside_domain_{shell}")
        return False
    w = dict(shell=shell, R=R, basis1=basis1, basis2=basis2, **wit)
    kind = "full" if all(s.strip() in oo.FULL_SHELLS for s in shell.split(";")) else "hybrid"
    ctx.close(f"OrbitalRotator[{kind}{tag}]!=overlap_integral", D, Dor, rtol=TOL, scale=1.0, what=shell, witness=w)
    ctx.close(f"OrbitalRotator[{kind}{tag}]:not_orthogonal", D @ D.T, np.eye(n), rtol=TOL, scale=1.0, what=shell, witness=w)
    if shell in oo.FULL_SHELLS and basis1 is None:
        l = oo.ANGULAR_MOMENTUM[shell]
        det_expected = (-1.0) ** l if np.linalg.det(R) < 0 else 1.0
        ctx.close("OrbitalRotator[full]:det_sign", np.linalg.det(D), det_expected, rtol=TOL, scale=1.0, what=shell, witness=w)
    ctx.count(f"in_domain_{kind}")
    ctx.count(f"shell_{shell}")
    if np.linalg.det(R) < 0:
        ctx.count("improper_rotation")
    return True


def rotator_case(ctx, rng, idx, state):
    from wannierberri.symmetry.orbitals import OrbitalRotator
    j = idx
    full = ["p", "d", "s", "p", "d", "f", "p", "d"][j % 8]
    if ctx.thorough and rng.random() < 0.3:
        full = "f"
    hybrids = [oo.HYBRID_SHELLS[(j + k * 4) % len(oo.HYBRID_SHELLS)] for k in range(2)]
    shells = [full] + hybrids
    if j % 5 == 0:
        shells.append(["s;p", "sp3;d", "p;sp2", "pz;pxy", "s;t2g;eg"][(j // 5) % 5])
    wit = dict(case="rotator", shells=shells)
    shared = OrbitalRotator()
    calls = []          # (shell, R, basis1, basis2, fresh result)
    for shell in shells:
        comp = shell.split(";")
        hyb = next((c for c in comp if c in oo.HYBRID_SHELLS and c != "sp3"), None)
        l1, R1 = pick_rotation(rng, state, hyb)
        l2, R2 = pick_rotation(rng, state, hyb)
        w = dict(rot1=l1, rot2=l2, **wit)
        fresh = OrbitalRotator()
        D1 = np.array(fresh(shell, rot_cart=R1))
        D2 = np.array(fresh(shell, rot_cart=R2))
        D12 = np.array(fresh(shell, rot_cart=R1 @ R2))
        ctx.count("rotator_calls", 3)
        in1 = check_matrix(ctx, shell, R1, D1, w)
        in2 = check_matrix(ctx, shell, R2, D2, w)
        check_matrix(ctx, shell, R1 @ R2, D12, w)
        if shell == "p":
            ctx.close("OrbitalRotator[p]!=rotation_matrix_in_zxy_order", D1, PZXY @ R1 @ PZXY.T, rtol=TOL, scale=1.0,
                      what="p shell", witness=dict(R=R1, **w))
            ctx.count("p_shell_convention")
        if in1 and in2:
            kind = "full" if shell in oo.FULL_SHELLS else "hybrid"
            ctx.close(f"OrbitalRotator[{kind}]:D(R1)D(R2)!=D(R1R2)", D1 @ D2, D12, rtol=TOL, scale=1.0, what=shell,
                      witness=dict(R1=R1, R2=R2, shell=shell, **w))
            ctx.count(f"composition_{kind}")
            ctx.nontrivial(("composition", shell, l1, l2))
        calls += [(shell, R1, None, None, D1), (shell, R2, None, None, D2), (shell, R1 @ R2, None, None, D12)]
        # identity -> identity (cheap shells every time, d/f shells in the cases where they are the full shell)
        E = np.array(OrbitalRotator()(shell, rot_cart=np.eye(3)))
        ctx.count("rotator_calls")
        ctx.close("OrbitalRotator:identity_not_mapped_to_identity", E, np.eye(oo.num_orbitals(shell)), rtol=TOL, scale=1.0,
                  what=shell, witness=dict(shell=shell, **wit))
        ctx.count("identity_checked")
        # local bases
        if shell != "f" or ctx.thorough:
            b1 = random_basis(rng)
            if hyb is not None and rng.random() < 0.7:
                lS, S = pick_rotation(rng, state, hyb)
                lR, R = "haar", random_O3(rng)
                b2 = S @ b1 @ R.T            # effective rotation b2 R b1^T = S
                if abs(abs(np.linalg.det(b2)) - 1) > 1e-9:
                    raise RuntimeError("bad basis")
            else:
                lR, R = pick_rotation(rng, state, None)
                b2 = random_basis(rng)
            Db = np.array(OrbitalRotator()(shell, rot_cart=R, basis1=b1, basis2=b2))
            ctx.count("rotator_calls")
            if check_matrix(ctx, shell, R, Db, dict(rot=lR, **wit), basis1=b1, basis2=b2, tag=",local_bases"):
                ctx.count("local_bases_in_domain")
                ctx.nontrivial(("local_bases", shell, lR))
            calls.append((shell, R, b1, b2, Db))
            # the same rotation seen from another pair of sites (other local frames): must not hit the same cache entry
            b1b, b2b = random_basis(rng), random_basis(rng)
            Dbb = np.array(OrbitalRotator()(shell, rot_cart=R, basis1=b1b, basis2=b2b))
            ctx.count("rotator_calls")
            check_matrix(ctx, shell, R, Dbb, dict(rot=lR, **wit), basis1=b1b, basis2=b2b, tag=",local_bases")
            calls.append((shell, R, b1b, b2b, Dbb))
    # ---- the shared rotator: same calls, shuffled, twice; irot form; near-duplicates of cached rotations
    order = list(rng.permutation(len(calls))) + list(rng.permutation(len(calls)))
    for k in order:
        shell, R, b1, b2, Dfresh = calls[int(k)]
        kw = {} if b1 is None else dict(basis1=b1, basis2=b2)
        Ds = np.array(shared(shell, rot_cart=R, **kw))
        ctx.close("OrbitalRotator[shared_cache]!=fresh_rotator", Ds, Dfresh, rtol=1e-12, scale=1.0, what=shell,
                  witness=dict(shell=shell, R=R, basis1=b1, basis2=b2, **wit))
        ctx.count("shared_rotator_calls")
    for k in rng.permutation(len(calls))[:3]:
        shell, R, b1, b2, Dfresh = calls[int(k)]
        Reff = R if b1 is None else b2 @ R @ b1.T
        irot = shared.calcualted_matrices.index_or_None(Reff)
        if irot is None:
            ctx.violation("OrbitalRotator[shared_cache]:rotation_not_cached", f"{shell}", dict(shell=shell, R=Reff, **wit))
        else:
            Di = np.array(shared(shell, irot=irot))
            ctx.close("OrbitalRotator[shared_cache]!=fresh_rotator", Di, Dfresh, rtol=1e-12, scale=1.0, what=shell + " irot=",
                      witness=dict(shell=shell, R=Reff, irot=irot, **wit))
        ctx.count("shared_rotator_irot_calls")
    # ---- history on the shared rotator: rotations close to ones it has already seen must still get *their own* matrix (full shells:
    #      every rotation is in the domain).  Distances from rounding level to 1e-2, both orders (neighbour first / cached first).
    for shell in [sh for sh in dict.fromkeys(c[0] for c in calls) if sh in oo.FULL_SHELLS][:1]:
        seen = [c for c in calls if c[0] == shell and c[2] is None]
        for delta in (1e-9, 1e-6, 3e-5, 3e-4, 3e-3, 1e-2):
            R0 = seen[int(rng.integers(len(seen)))][1] if rng.random() < 0.7 else np.eye(3)
            np.array(shared(shell, rot_cart=R0))
            Rn = gg.rodrigues(2 * np.pi / (delta * rng.uniform(0.5, 1.0)), rng.normal(size=3)) @ R0
            Dn = np.array(shared(shell, rot_cart=Rn))
            check_matrix(ctx, shell, Rn, Dn, dict(history="neighbour_of_a_cached_rotation", distance=delta, **wit), tag=",shared_cache_history")
            ctx.count("shared_rotator_near_duplicates")
        # composition through the shared rotator: a small rotation asked after the identity, N-fold power against D(r^N)
        ang = float(10 ** rng.uniform(-5, -2))
        ax = rng.normal(size=3)
        N = int(min(0.5 / ang, 4000))
        r = gg.rodrigues(2 * np.pi / ang, ax)
        np.array(shared(shell, rot_cart=np.eye(3)))
        Dr = np.array(shared(shell, rot_cart=r))
        DrN = np.array(shared(shell, rot_cart=gg.rodrigues(2 * np.pi / (ang * N), ax)))
        ctx.close("OrbitalRotator[shared_cache_history]:D(r)^N!=D(r^N)", np.linalg.matrix_power(Dr, N), DrN, rtol=1e-7, scale=1.0, what=shell,
                  witness=dict(shell=shell, angle=ang, N=N, axis=ax, **wit))
        E = np.array(shared(shell, rot_cart=np.eye(3)))
        ctx.close("OrbitalRotator:identity_not_mapped_to_identity", E, np.eye(oo.num_orbitals(shell)), rtol=TOL, scale=1.0,
                  what=shell + " (identity asked after a neighbouring rotation)", witness=dict(shell=shell, **wit))
        ctx.count("shared_rotator_power_history")
    ctx.sample(wit)


# ------------------------------------------------------------------ Dwann case
def su2_TR(S, TR):
    if TR:
        return np.array([[0, 1], [-1, 0]]) @ S.conj()
    return S


def dwann_case(ctx, rng, idx, state):
    from wannierberri.symmetry.orbitals import OrbitalRotator
    from wannierberri.symmetry.Dwann import Dwann
    from wannierberri.symmetry.projections import Projection
    j = idx
    name = DWANN_ORDER[j % len(DWANN_ORDER)]
    st = gg.structure(name, rng)
    magnetic = st["magmoms"] is not None and rng.random() < 0.7
    spinor = bool(rng.random() < 0.4) or magnetic
    include_TR = True if magnetic else bool(rng.random() < 0.5)
    sg = gg.spacegroup_for(st, spinor=spinor, magnetic=magnetic, include_TR=include_TR)
    nsym = sg.size
    rots = [np.array(o.rotation, dtype=float) for o in sg.symmetries]
    trans = [np.array(o.translation, dtype=float) for o in sg.symmetries]
    TRs = [bool(o.time_reversal) for o in sg.symmetries]
    Rcart = [np.array(o.rotation_cart, dtype=float) for o in sg.symmetries]
    # ---- the site set
    mode = ["atom", "atom", "generic", "special"][int(rng.integers(4))]
    if mode == "atom":
        pos0 = st["positions"][int(rng.integers(len(st["positions"])))]
    elif mode == "generic":
        pos0 = rng.uniform(0.05, 0.45, 3) + rng.integers(-1, 2, size=3)
    else:
        pos0 = np.array([0, 0.5, 0.25, 1 / 3])[rng.integers(4, size=3)]
    budget = 6 if not ctx.thorough else 24
    cands = ["s", "p", "pz", "sp3", "sp2", "sp", "pxy", "p2", "d", "t2g", "eg", "sp3d2", "s;p", "f", "_", "sp3;pz"]
    cands = [cands[i] for i in rng.permutation(len(cands))]
    rotate_basis = bool(rng.random() < 0.7)
    axes = {}
    if rng.random() < 0.5:
        z = rng.normal(size=3)
        axes = dict(zaxis=z) if rng.random() < 0.5 else dict(zaxis=z, xaxis=np.cross(z, rng.normal(size=3)))
    proj = Projection(position_num=np.array(pos0, dtype=float), orbital="s", spacegroup=sg, rotate_basis=rotate_basis, **axes)
    positions = np.array(proj.positions, dtype=float)
    basis_list = [np.array(b, dtype=float) for b in proj.basis_list]
    npts = len(positions)
    wit = dict(case="dwann", structure=st["name"], spacegroup=str(sg.name), nsym=nsym, spinor=spinor, magnetic=magnetic,
               include_TR=include_TR, site_mode=mode, pos0=pos0, num_points=npts, rotate_basis=rotate_basis,
               lattice=st["lattice"])
    # ---- independent images of the centres
    amap = -np.ones((npts, nsym), dtype=int)
    Tor = np.zeros((npts, nsym, 3), dtype=int)
    for isym in range(nsym):
        for ip in range(npts):
            q = rots[isym] @ positions[ip] + trans[isym]
            hit = [jp for jp in range(npts) if np.abs((positions[jp] - q) - np.round(positions[jp] - q)).max() < 1e-5]
            if len(hit) != 1:
                raise harness.Skip("orbit returned by Projection is not closed / not unique")
            amap[ip, isym] = hit[0]
            Tor[ip, isym] = np.round(positions[hit[0]] - q).astype(int)
    for ib, b in enumerate(basis_list):
        ctx.close("Projection.basis_list:not_orthogonal", b @ b.T, np.eye(3), rtol=TOL, scale=1.0, what=f"basis {ib}", witness=wit)
    # local frames: the frame of site i is the image of the frame of site 0 under an operation taking site 0 to site i
    # (rotate_basis=True) or the same frame everywhere; the requested z (x) axis is the third (first) row of the frame
    # of site 0, possibly seen through an operation of its site group
    for ib, b in enumerate(basis_list):
        ctx.ev()
        if rotate_basis:
            ok = any(amap[0, isym] == ib and np.abs(b - basis_list[0] @ Rcart[isym].T).max() < 1e-8 for isym in range(nsym))
        else:
            ok = np.abs(b - basis_list[0]).max() < 1e-12
        if not ok:
            ctx.violation("Projection.basis_list!=image_of_site0_frame", f"site {ib}", dict(basis=b, basis0=basis_list[0], **wit))
    for key, row in (("zaxis", 2), ("xaxis", 0)):
        if key in axes:
            a = np.array(axes[key]) / np.linalg.norm(axes[key])
            ctx.ev()
            ctx.count("projection_axes_checked")
            if not any(amap[0, isym] == 0 and np.abs(basis_list[0][row] - Rcart[isym] @ a).max() < 1e-8 for isym in range(nsym)):
                ctx.violation("Projection.basis_list!=requested_axes", f"{key}: row {row} of the frame of site 0 is "
                              f"{basis_list[0][row]}, requested direction {a}", wit)
    # ---- choose an orbital inside the domain (span invariant under every site-to-site operation)
    orbital = None
    for c in cands:
        if c == "_":
            orbital = c
            break
        n_eff = nsym * npts
        heavy = {"f": 2.0, "d": 0.5, "sp3d2": 0.6, "t2g": 0.5, "eg": 0.5}.get(c.split(";")[0], 0.05)
        if heavy * min(n_eff, 48) > budget:
            continue
        ok = all(oo.span_invariant(c, Rcart[isym], basis_list[ip], basis_list[amap[ip, isym]])
                 for isym in range(nsym) for ip in range(npts))
        if ok:
            orbital = c
            break
        ctx.count("outside_domain_dwann_orbital")
    if orbital is None:
        raise harness.Skip("no orbital inside the domain for this site set")
    wit["orbital"] = orbital
    if orbital == "_":
        dw = Dwann(spacegroup=sg, positions=positions, spinor=sg.spinor)
        norb = 1
    else:
        dw = Dwann(spacegroup=sg, positions=positions, orbital=orbital, orbitalrotator=OrbitalRotator(), spinor=sg.spinor,
                   basis_list=basis_list)
        norb = oo.num_orbitals(orbital)
    ctx.count("dwann_built")
    nspin = 2 if sg.spinor else 1
    nb = norb * nspin
    if dw.num_wann != npts * nb or len(dw.orbit) != npts:
        ctx.violation("Dwann:wrong_size", f"num_wann {dw.num_wann}, expected {npts * nb}; orbit {len(dw.orbit)} vs {npts}", wit)
        return
    if np.abs(np.array(dw.orbit) - positions).max() > 1e-12:
        ctx.violation("Dwann:orbit_reordered", "Dwann.orbit differs from the positions given", wit)
        return
    ctx.ev(2)
    if not np.array_equal(np.array(dw.atommap), amap):
        ctx.violation("Dwann.atommap!=independent_images", f"atommap {np.array(dw.atommap).tolist()} vs {amap.tolist()}", wit)
        return
    if not np.array_equal(np.array(dw.T), Tor):
        ctx.violation("Dwann.T!=orbit[p']-g(p)", "lattice translations differ", wit)
        return
    # ---- expected blocks
    Sspin = [su2_TR(np.array(o.spinor_rotation), o.time_reversal) if sg.spinor else np.eye(1) for o in sg.symmetries]
    Aor = {}
    for isym in range(nsym):
        for ip in range(npts):
            if orbital == "_":
                A = np.eye(1)
            else:
                A = oo.rotation_matrix_oracle(orbital, Rcart[isym], basis_list[ip], basis_list[amap[ip, isym]])
            Aor[ip, isym] = np.kron(A, Sspin[isym])

    def gk(isym, k):
        return (-1 if TRs[isym] else 1) * (k @ np.linalg.inv(rots[isym]))

    def expected_D(isym, k):
        D = np.zeros((npts * nb, npts * nb), dtype=complex)
        k1 = gk(isym, k)
        for ip in range(npts):
            jp = amap[ip, isym]
            D[jp * nb:(jp + 1) * nb, ip * nb:(ip + 1) * nb] = np.exp(2j * np.pi * np.dot(k1, Tor[ip, isym])) * Aor[ip, isym]
        return D

    def lib_D(isym, k):
        G = rng.integers(-2, 3, size=3) if rng.random() < 0.5 else np.zeros(3)
        return np.array(dw.get_on_points(np.array(k), gk(isym, k) + G, isym))

    kmode = int(rng.integers(3))
    k0 = [rng.uniform(-1.5, 1.5, 3), np.array([0, 0.5, 0.25, 1 / 3, 2 / 3])[rng.integers(5, size=3)], np.zeros(3)][kmode]
    syms = range(nsym) if nsym <= 24 or ctx.thorough else sorted(rng.choice(nsym, 24, replace=False))
    nonzeroT = bool(np.any(Tor != 0))
    for isym in syms:
        D = lib_D(isym, k0)
        w = dict(isym=int(isym), k=k0, TR=TRs[isym], **wit)
        ctx.close("Dwann.get_on_points:not_unitary", D @ D.conj().T, np.eye(len(D)), rtol=TOL, scale=1.0, what="D D^+", witness=w)
        ctx.close("Dwann.get_on_points!=phase*oracle_blocks", D, expected_D(isym, k0), rtol=TOL, scale=1.0,
                  what="blocks", witness=w)
        ctx.count("dwann_matrices")
    # ---- composition along the group
    ncomp = 12 if not ctx.thorough else 40
    done = 0
    for _ in range(4 * ncomp):
        if done >= ncomp:
            break
        i1, i2 = int(rng.integers(nsym)), int(rng.integers(nsym))
        r12 = rots[i1] @ rots[i2]
        t12 = rots[i1] @ trans[i2] + trans[i1]
        tr12 = TRs[i1] != TRs[i2]
        i3 = [i for i in range(nsym) if TRs[i] == tr12 and np.abs(rots[i] - r12).max() < 1e-9 and
              np.abs((t12 - trans[i]) - np.round(t12 - trans[i])).max() < 1e-5]
        if len(i3) != 1:
            ctx.count("composition_product_not_unique_in_spacegroup")
            continue
        i3 = i3[0]
        Lvec = np.round(t12 - trans[i3])
        k = rng.uniform(-1, 1, 3) if rng.random() < 0.7 else k0
        D2 = lib_D(i2, k)
        D1 = lib_D(i1, gk(i2, k))
        D3 = lib_D(i3, k)
        lhs = D1 @ (D2.conj() if TRs[i1] else D2)
        rhs = np.exp(-2j * np.pi * np.dot(gk(i3, k), Lvec)) * D3
        if sg.spinor and np.abs(lhs + rhs).max() < np.abs(lhs - rhs).max():
            rhs = -rhs
            ctx.count("composition_spinor_sign_minus")
        ctx.close("Dwann:composition_along_group", lhs, rhs, rtol=TOL, scale=1.0, what="D1 D2 vs D3",
                  witness=dict(i1=i1, i2=i2, i3=i3, L=Lvec, k=k, **wit))
        done += 1
        ctx.count("dwann_compositions")
        if np.any(Lvec != 0):
            ctx.count("dwann_compositions_with_lattice_shift")
        if TRs[i1]:
            ctx.count("dwann_compositions_antiunitary_left")
    if nonzeroT:
        ctx.count("dwann_nonzero_T")
    if sg.spinor:
        ctx.count("dwann_spinor")
    if any(TRs):
        ctx.count("dwann_with_TR")
    if orbital not in ("_", "s"):
        ctx.count("dwann_nontrivial_orbital")
    if npts > 1:
        ctx.count("dwann_multi_site")
    if npts > 1 or orbital not in ("_", "s"):
        ctx.nontrivial(("dwann", st["name"], orbital, npts, spinor, magnetic, mode))
    ctx.sample({k: v for k, v in wit.items() if k != "lattice"})


def case(ctx, rng, idx, state):
    if idx % 3 == 2:
        dwann_case(ctx, rng, idx // 3, state)
    else:
        rotator_case(ctx, rng, idx - idx // 3, state)


if __name__ == "__main__":
    harness.main(
        PROP, "exploration", case, setup_fn=setup,
        tiers=dict(quick=dict(cases=104, shards=8, time=900), thorough=dict(cases=960, shards=16, time=3000)),
        rule="two of three cases: OrbitalRotator on one full shell (s,p,d,f cycled) + two hybrids (all nine cycled) + "
             "';'-lists, rotations from {72 crystallographic O_h/D_6h operations, stabiliser of the hybrid span, continuous "
             "axial families, identity, inversion, Haar O(3)}, random (also left-handed) local bases; fresh rotator per "
             "composition and a shared rotator per case.  Every third case: Dwann for a site set (atom / generic / special "
             "position) of a catalogue structure (24 templates cycled; spinor, magnetic, with/without TR) with an orbital "
             "inside the domain.  Non-trivial: composition or local-basis test inside the domain; Dwann with >1 site or a "
             "shell other than s",
        assumptions=["oracle = overlap integrals of real harmonics / Wannier90 hybrids by exact quadrature (vlib/orbital_oracle.py)",
                     "irrep/spglib symmetry operations (rotation, translation, time_reversal, spinor_rotation) are trusted inputs",
                     "time reversal acts on spinors as i sigma_y K; spinor compositions are compared up to a sign",
                     "rotations that do not leave a hybrid span invariant are outside the property's domain"],
        required_counters=("rotator_calls", "p_shell_convention", "composition_full", "composition_hybrid", "in_domain_full",
                           "in_domain_hybrid", "outside_domain", "improper_rotation", "local_bases_in_domain",
                           "identity_checked", "shared_rotator_calls", "shared_rotator_near_duplicates", "shared_rotator_power_history",
                           "shell_s", "shell_p", "shell_d", "shell_f", "dwann_built", "dwann_matrices", "dwann_compositions",
                           "dwann_nonzero_T", "dwann_spinor", "dwann_with_TR", "dwann_nontrivial_orbital", "dwann_multi_site",
                           "dwann_compositions_with_lattice_shift", "dwann_compositions_antiunitary_left"),
    )
