"""C12 - parallel evaluation gives the same results as serial evaluation (HIST + DIFF; schedule enumeration).

The *real* collection loop of run_grid.process is driven with sys.modules['ray'] replaced by the deterministic
stand-in vlib/fakeray.py (same call surface; `wait` returns the first num_returns finished refs in input order,
as measured on ray 2.48, so successive ready lists need not be nested).  The adversary chooses the completion
order of the remote K-point evaluations and how many additional tasks finish before each `wait` returns.
For few K-points all completion permutations are enumerated; beyond that schedules are random.
Oracles: (1) exactly-once set_result per K-point (in-situ monitor), (2) integrated results equal the serial
run, for refinement histories too, (3) path tabulations come back in path order with each point's own values
(compared with the serial path run and with single-point evaluate_k).
"""
import itertools
import os
import shutil
import sys

sys.path.insert(0, os.path.dirname(os.path.dirname(os.path.abspath(__file__))))
from vlib import env, harness, monitors, runkit, fakeray, gen_systems  # noqa: E402
import numpy as np  # noqa: E402

PROP = "C12"


def setup(ctx):
    env.import_wb()
    import ray
    assert getattr(ray, "__version__", "").endswith("standin"), "the ray stand-in must be installed before wannierberri is imported"
    return {}


def make_scheduler(order, extras_seed, extras_max):
    """order: permutation for the first batch (later batches: pseudo-random from extras_seed)"""
    r = np.random.default_rng(extras_seed)

    def order_fn(n, ib):
        if ib == 0 and order is not None and len(order) == n:
            return list(order)
        return [int(x) for x in np.random.default_rng([extras_seed, ib, n]).permutation(n)]

    def extra_fn(iw, npend):
        return int(r.integers(0, extras_max + 1)) if extras_max > 0 else 0
    return fakeray.Scheduler(order_fn, extra_fn)


def parallel_run(fn, ncpu, scheduler):
    st = fakeray.STATE
    st.reset_batches()
    st.scheduler = scheduler
    fakeray.init(num_cpus=ncpu)
    try:
        out = fn()
    finally:
        fakeray.shutdown()
    return out, dict(nonnested=st.nonnested_waits, nwait=st.nwait, nbatch=st.nbatch, log=list(st.log[:40]))


def real_ray_replay(ctx):
    """thorough tier only: the same comparison on the real ray (own process, the stand-in is not installed there)"""
    import json
    import subprocess
    script = os.path.join(os.path.dirname(os.path.abspath(__file__)), "c12_realray.py")
    try:
        p = subprocess.run([sys.executable, script, str(ctx.seed)], capture_output=True, text=True, timeout=900,
                           env=dict(os.environ, VERIF_REPO=env.REPO))
        line = [l for l in p.stdout.splitlines() if l.startswith("C12REALRAY ")]
        res = json.loads(line[-1][len("C12REALRAY "):]) if line else dict(ok=False, error="no output: " + p.stderr[-300:])
    except subprocess.TimeoutExpired:
        res = dict(ok=False, error="timeout")
    if not res.get("ok"):
        ctx.count("real_ray_unavailable_or_failed_to_start")
        ctx.sample(dict(real_ray=res.get("error")))
        return
    for rec in res["schedules"]:
        ctx.ev()
        ctx.count("real_ray_schedules")
        if rec["set_result_calls"] != 8 or rec["monitor_violations"]:
            ctx.violation("real_ray:K-point_not_collected_exactly_once", json.dumps(rec)[:500], rec)
        for key in ("CumDOS", "AHC"):
            if rec[key] > 1e-10:
                ctx.violation("real_ray:parallel_result!=serial_result", f"{key}: relative difference {rec[key]:.2e}, order {rec['order']}", rec)
    ctx.sample(dict(real_ray=res))


def case(ctx, rng, idx, state):
    import wannierberri as wb
    from wannierberri.grid import Grid, Path
    if ctx.thorough and idx == 0:
        real_ray_replay(ctx)

    mode = "path" if idx % 4 == 3 else "grid"
    system, info = runkit.make_run_system(rng, with_group=False, num_wann=int(rng.integers(2, 4)), keys=("Ham",))
    ncpu = int(rng.integers(1, 5))
    tmp = os.path.join(env.WORK, f"c12-{os.getpid()}-{idx}")
    os.makedirs(tmp, exist_ok=True)
    try:
        if mode == "grid":
            div = np.array([int(x) for x in rng.integers(1, 3, size=3)])
            if rng.random() < 0.4:
                div[int(rng.integers(3))] = 3
            nK = int(np.prod(div))
            if nK < 2:
                div = np.array([2, 1, 1])
                nK = 2
            fft = np.array([int(x) for x in rng.integers(1, 3, size=3)])
            grid = Grid(system, NKdiv=div, NKFFT=fft)
            if idx % 8 == 5:
                # tetrahedral grid: the K-points are tetrahedra (refined by KpointBZtetra.divide)
                from wannierberri.grid import GridTetra
                with env.quiet():
                    grid = GridTetra(system, length=float(rng.uniform(2.5, 6)), NKFFT=fft.copy())
                    nK = len(grid.get_K_list())
                div = "GridTetra"
                ctx.count("tetrahedral_grid_cases")
            niter = int(rng.integers(0, 3))
            Ef = runkit.fermi_grid(rng, system, n=4)
            calcs = runkit.make_calculators(rng, system, Ef, nmax=2, allow_tetra=False, pool=["CumDOS", "DOS", "AHC", "Ohmic_surf"])
            if niter == 0 and rng.random() < 0.5 and not isinstance(div, str):   # grid tabulation needs a regular grid
                calcs["tab"] = wb.calculators.tabulate.TabulatorAll({"Energy": wb.calculators.tabulate.Energy()}, mode="grid")
            kw = dict(adpt_num_iter=niter, adpt_mesh=2, adpt_fac=int(rng.integers(1, 3)), use_irred_kpt=False, symmetrize=False,
                      fout_name="c12", print_progress_step_time=1e9, print_progress_step_percent=float(rng.choice([1, 30, 60])))
            wit = dict(mode=mode, NKdiv=div, NKFFT=fft, ncpu=ncpu, adpt_num_iter=niter, calculators=sorted(calcs), num_wann=info["num_wann"])

            def do(parallel):
                with monitors.chdir(tmp):
                    return wb.run(system, grid, calcs, parallel=parallel, file_Klist_path=os.path.join(tmp, "kl"), **kw)
            serial = do(False)
            exhaustive = nK <= (5 if ctx.thorough else 4)
            if exhaustive:
                orders = list(itertools.permutations(range(nK)))
            else:
                orders = [tuple(int(x) for x in rng.permutation(nK)) for _ in range(10 if not ctx.thorough else 30)]
            nsched = 0
            for order in orders:
                for rep in range(2 if exhaustive else 1):
                    extras_max = [0, 2, 4][int(rng.integers(3))] if rep == 0 else 3
                    seed = int(rng.integers(1 << 30))
                    sched = make_scheduler(order, seed, extras_max)
                    mon = monitors.RunMonitor()
                    with mon:
                        par, st = parallel_run(lambda: do(True), ncpu, sched)
                    w = dict(case=wit, completion_order=order, extras_seed=seed, extras_max=extras_max, ray_log=st["log"])
                    for mech, msg, ww in mon.violations:
                        ctx.violation(mech, msg, dict(monitor_witness=ww, schedule=w))
                    ctx.ev(mon.counters.get("set_result_calls", 0))
                    for key in calcs:
                        a = par.results[key]
                        b = serial.results[key]
                        if key == "tab":
                            for q in ("Energy",):
                                ctx.close("parallel_tabulation!=serial", a.results[q].data, b.results[q].data, rtol=1e-12,
                                          scale=np.abs(b.results[q].data).max(), what=f"tab {q}", witness=w)
                            ctx.close("parallel_tabulation_kpoints!=serial", a.kpoints, b.kpoints, rtol=1e-12, scale=1.0, what="kpoints", witness=w)
                        else:
                            ctx.close("parallel_result!=serial_result", a.data, b.data, rtol=1e-11, scale=np.abs(b.data).max(),
                                      what=f"key {key} order {order}", witness=w)
                    ctx.count("schedules")
                    ctx.count("nonnested_wait_pairs", st["nonnested"])
                    ctx.count("wait_calls", st["nwait"])
                    nsched += 1
                    ctx.nontrivial(("grid", (div if isinstance(div, str) else tuple(div.tolist())), tuple(fft.tolist()), ncpu, niter, order, seed, tuple(sorted(calcs))))
            ctx.count("grid_cases")
            ctx.count("exhaustive_cases", int(exhaustive))
            ctx.sample(dict(wit, n_Kpoints=nK, schedules=nsched, exhaustive_over_completion_orders=exhaustive, first_orders=orders[:3]))
        else:
            nk = int(rng.integers(5, 22))
            nodes = [list(np.round(rng.uniform(-0.5, 1.0, 3), 3)) for _ in range(int(rng.integers(2, 4)))]
            path = Path.from_nodes(system, nodes=nodes, nk=nk)
            if rng.random() < 0.3:  # a path that passes k and k+G and revisits a point
                path = Path.from_nodes(system, nodes=[nodes[0], nodes[1], list(np.array(nodes[0]) + np.array([1, 0, 0])), nodes[0]], nk=max(3, nk // 2))
            k_batch = int(rng.integers(1, 8))
            quantities = ["energy", "band_gradients", "berry_curvature_internal_terms"]
            wit = dict(mode=mode, nodes=nodes, nk=len(path.K_list), k_batch=k_batch, ncpu=ncpu, num_wann=info["num_wann"])

            def dop(parallel):
                with monitors.chdir(tmp):
                    return wb.evaluate_k_path(system, path=path, quantities=quantities, parallel=parallel, k_batch=k_batch, return_path=False)
            serial = dop(False)
            single = {"energy": np.array([wb.evaluate_k(system, k=tuple(k), quantities=["energy"]) for k in path.K_list])}
            nbatches = int(np.ceil(len(path.K_list) / k_batch))
            for isched in range(6 if not ctx.thorough else 20):
                order = tuple(int(x) for x in rng.permutation(nbatches))
                seed = int(rng.integers(1 << 30))
                sched = make_scheduler(order, seed, int(rng.integers(0, 4)))
                mon = monitors.RunMonitor()
                mon.partial_bz = True  # path K-points carry weight 1 each by design
                with mon:
                    par, st = parallel_run(lambda: dop(True), ncpu, sched)
                w = dict(case=wit, completion_order=order, extras_seed=seed)
                for mech, msg, ww in mon.violations:
                    ctx.violation(mech, msg, dict(monitor_witness=ww, schedule=w))
                for q in quantities:
                    a = par.results[q].data
                    b = serial.results[q].data
                    ctx.close("parallel_path_tabulation!=serial", a, b, rtol=1e-11, scale=np.abs(b).max(), what=f"path {q}", witness=w)
                ea = par.results["energy"].data
                ctx.close("parallel_path_energy!=single_point_evaluate_k", np.asarray(ea).reshape(single["energy"].shape), single["energy"], rtol=1e-10,
                          scale=np.abs(single["energy"]).max(), what="path energy vs evaluate_k", witness=w)
                ctx.count("schedules")
                ctx.count("path_schedules")
                ctx.count("nonnested_wait_pairs", st["nonnested"])
                ctx.nontrivial(("path", len(path.K_list), k_batch, ncpu, order, seed))
            ctx.count("path_cases")
            ctx.sample(dict(wit, batches=nbatches))
    finally:
        shutil.rmtree(tmp, ignore_errors=True)


if __name__ == "__main__":
    harness.main(
        PROP, "fault_enumeration", case, setup_fn=setup,
        tiers=dict(quick=dict(cases=48, shards=8, time=900), thorough=dict(cases=640, shards=16, time=3000)),
        rule="generic 2-3-WF systems; grids with 2-12 K-points (all completion permutations enumerated when <=4 (quick) / <=5 (thorough) K-points, "
             "each with 2 patterns of additional completions; random schedules otherwise), 1-4 'CPUs' (batch size of the collection loop), progress "
             "step 1-60 %, 0-2 refinement iterations; paths of 5-21 points in batches of 1-7 under random schedules; distinct by (workload, completion "
             "order, extras seed)",
        assumptions=["stand-in scheduler reproduces the wait() semantics measured on ray 2.48 (finished set grows; first num_returns finished refs in "
                     "input order); real ray is not enumerated - the thorough tier replays three delay-forced schedules on the real ray (checks/c12_realray.py)", "arguments and results cross the task boundary by value (deep copy)"],
        required_counters=("schedules", "nonnested_wait_pairs", "exhaustive_cases", "path_schedules", "grid_cases"),
    )
